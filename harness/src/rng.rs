//! splitmix64: every random choice of the harness comes from one state seeded by VERIF_SEED.
#[derive(Clone)]
pub struct Rng(pub u64);

impl Rng {
    pub fn new(seed: u64) -> Self { Rng(seed.wrapping_mul(0x9E3779B97F4A7C15).wrapping_add(0x1234_5678_9abc_def1)) }
    pub fn next(&mut self) -> u64 {
        self.0 = self.0.wrapping_add(0x9E3779B97F4A7C15);
        let mut z = self.0;
        z = (z ^ (z >> 30)).wrapping_mul(0xBF58476D1CE4E5B9);
        z = (z ^ (z >> 27)).wrapping_mul(0x94D049BB133111EB);
        z ^ (z >> 31)
    }
    /// uniform in 0..n (n > 0)
    pub fn below(&mut self, n: usize) -> usize { (self.next() % (n as u64)) as usize }
    /// uniform in lo..=hi
    pub fn range(&mut self, lo: i64, hi: i64) -> i64 { lo + (self.next() % ((hi - lo + 1) as u64)) as i64 }
    pub fn chance(&mut self, percent: u32) -> bool { (self.next() % 100) < percent as u64 }
    pub fn pick<'a, T>(&mut self, xs: &'a [T]) -> &'a T { &xs[self.below(xs.len())] }
}
