//! Engine `C` (C01): a unified diff A→B (any context width, several header dialects, strip levels) is
//! parsed by the real parser and applied by the real `TextFilePatch::apply` to A (forward) or, marked
//! -R, to B; and for a sample pushed through the real command line driver.
//!   C|id|<hexA or ~>|<hexB or ~>|<dir F|R>|<strip>|<hexpatch>|=>|<lib result>|<cli result>
//! `~` = the file does not exist.  lib result = `ERR` | `P` | `<kind>;<reports>;<deleted>;<hex content>`;
//! cli result = `-` (not run) | `exit=<n>;<hex content or ~>`.

use std::collections::HashMap;
use std::io::Write;
use std::panic::{catch_unwind, AssertUnwindSafe};

use libpatch::analysis::{fn_analysis_note_noop, AnalysisSet};
use libpatch::modified_file::ModifiedFile;
use libpatch::patch::unified::parser::parse_patch;
use libpatch::patch::{FilePatchKind, PatchDirection};

use crate::apply_engine::reports;
use crate::path_engine::{hex, unhex};
use crate::push_engine::{run_case, Entry, Snap};
use crate::rng::Rng;
use crate::wsgen::*;

fn opt_hex(x: &Option<Vec<u8>>) -> String { match x { None => "~".to_string(), Some(b) => hex(b) } }

fn lib_run(start: &Option<Vec<u8>>, patch: &[u8], strip: usize, reverse: bool) -> String {
    let r = catch_unwind(AssertUnwindSafe(|| {
        let p = match parse_patch(patch, strip, false) { Ok(p) => p, Err(_) => return "ERR".to_string() };
        if p.file_patches.len() != 1 { return format!("NFP{}", p.file_patches.len()); }
        let fp = &p.file_patches[0];
        let mut f = match start { Some(b) => ModifiedFile::new(b, true, None), None => ModifiedFile::new_non_existent() };
        let dir = if reverse { PatchDirection::Revert } else { PatchDirection::Forward };
        let rep = fp.apply(&mut f, dir, 0, &AnalysisSet::default(), &fn_analysis_note_noop);
        let k = match fp.kind() { FilePatchKind::Modify => "M", FilePatchKind::Create => "C", FilePatchKind::Delete => "D" };
        format!("{};{};{};{}", k, reports(&rep), f.deleted as u8, hex(&f.content.concat()))
    }));
    r.unwrap_or_else(|_| "P".to_string())
}

fn cli_run(start: &Option<Vec<u8>>, name: &str, patch: &[u8], strip: usize, reverse: bool) -> String {
    let mut tree = Snap::new();
    if let Some(b) = start { tree.insert(name.as_bytes().to_vec(), Entry::File(0o644, b.clone())); }
    tree.insert(b"patches/p.patch".to_vec(), Entry::File(0o644, patch.to_vec()));
    tree.insert(b"series".to_vec(), Entry::File(0o644, format!("p.patch -p{}{}\n", strip, if reverse { " -R" } else { "" }).into_bytes()));
    let res = run_case(&tree, &[vec!["--threads".to_string(), "1".to_string(), "-q".to_string(), "-a".to_string()]]);
    let kv: HashMap<&str, &str> = res[0].split(';').filter_map(|x| { let mut i = x.splitn(2, '='); Some((i.next()?, i.next()?)) }).collect();
    let t = crate::push_engine::parse_tree(kv["tree"]);
    let content = match t.get(name.as_bytes()) { Some(Entry::File(_, c)) => hex(c), _ => "~".to_string() };
    format!("exit={};{}", kv["exit"], content)
}

pub fn emit<W: Write>(out: &mut W, id: usize, a: &Option<Vec<u8>>, b: &Option<Vec<u8>>, reverse: bool, strip: usize, name: &str, patch: &[u8], cli: bool) {
    let start = if reverse { b } else { a };
    let input = format!("C|{}|{}|{}|{}|{}|{}", id, opt_hex(a), opt_hex(b), if reverse { "R" } else { "F" }, strip, hex(patch));
    crate::watch::begin(input.clone());
    let lib = lib_run(start, patch, strip, reverse);
    let c = if cli { cli_run(start, name, patch, strip, reverse) } else { "-".to_string() };
    crate::watch::end();
    writeln!(out, "{}|=>|{}|{}", input, lib, c).unwrap();
}

pub fn run<W: Write>(out: &mut W, seed: u64, n: usize, opts: &HashMap<String, String>) {
    std::fs::create_dir_all("/verif/build/tmp").unwrap();
    let cli_pct: u32 = opts.get("cli").and_then(|s| s.parse().ok()).unwrap_or(5);
    let mut rng = Rng::new(seed ^ 0xc01);
    for id in 0..n {
        let rich = rng.chance(50);
        let maxlen = *rng.pick(&[0usize, 1, 2, 4, 8, 8, 14]);
        let a_lines = rand_content(&mut rng, maxlen, rich);
        // A absent / empty / B absent / empty
        let shape = rng.below(100);
        let (a, ops): (Option<Vec<u8>>, Vec<Op>) =
            if shape < 8 { (None, { let mut l = rand_content(&mut rng, 4, rich); if l.is_empty() { l.push(b"n\n".to_vec()); } l.into_iter().map(Op::Ins).collect() }) }
            else if shape < 12 { (Some(vec![]), { let mut l = rand_content(&mut rng, 4, rich); if l.is_empty() { l.push(b"n\n".to_vec()); } l.into_iter().map(Op::Ins).collect() }) }
            else if shape < 24 && !a_lines.is_empty() { (Some(a_lines.concat()), a_lines.iter().map(|l| Op::Del(l.clone())).collect()) }
            else { (Some(a_lines.concat()), rand_script(&mut rng, &a_lines, rich)) };
        let b_lines = new_of(&ops);
        let b_absent = shape >= 12 && shape < 18 && !a_lines.is_empty();
        let b: Option<Vec<u8>> = if b_absent { None } else { Some(b_lines.concat()) };
        let c = *rng.pick(&[0usize, 0, 1, 2, 3, 3, 5]);
        let hunks = render_hunks(&ops, c, None, 0);
        if count_hunks(&hunks) == 0 { emit(out, id, &a, &b, false, 1, "f", b"", false); continue; }
        let mut dialect = pick_dialect(&mut rng);
        let p = *rng.pick(&[1usize, 1, 0, 2]);
        let name = *rng.pick(&["f", "d/g", "sp ace"]);
        let creating = a.is_none();
        let deleting = b.is_none();
        let both_names = rng.chance(30);
        // a diff that names the file on both sides describes an empty file, not an absent one
        let a = if creating && both_names { Some(vec![]) } else { a };
        let b = if deleting && both_names { Some(vec![]) } else { b };
        // `diff f.orig f` never has /dev/null on the other side: the .orig style is for existing files only
        // (except: `diff -uN f.orig f` for a file that did not exist names `f.orig` and `f`; neither exists, the
        // new name is the one to create. Only pushed forward: backwards such a patch leaves an empty file.)
        let orig_create = dialect == Dialect::Orig && creating && !both_names && rng.chance(60);
        if dialect == Dialect::Orig && (creating || deleting) && !orig_create { dialect = Dialect::Plain; }
        let mut text = Vec::new();
        if rng.chance(30) { text.extend_from_slice(b"Subject: a change\n\n"); }
        text.extend_from_slice(&render_header(&HeaderSpec {
            old: if creating && !both_names && !orig_create { None } else { Some(name) }, new: if deleting && !both_names { None } else { Some(name) },
            dialect, p, rename: false, old_mode: None, new_mode: None, creating: creating && dialect == Dialect::Git && false, deleting: false, has_hunks: true }));
        text.extend_from_slice(&hunks);
        let reverse = rng.chance(35) && !orig_create;
        emit(out, id, &a, &b, reverse, p, name, &text, rng.chance(cli_pct) || (orig_create && rng.chance(50)));
    }
}

pub fn replay<W: Write>(out: &mut W, opts: &HashMap<String, String>) {
    std::fs::create_dir_all("/verif/build/tmp").unwrap();
    let text = std::fs::read_to_string(opts.get("file").expect("file=<path>")).unwrap();
    // `cli=<pct>`: that share of the cases (chosen by the case number) also goes through the command line driver
    let cli_pct: usize = opts.get("cli").and_then(|s| s.parse().ok()).unwrap_or(0);
    for line in text.lines() {
        let line = line.trim();
        if !line.starts_with("C|") { continue; }
        let f: Vec<&str> = line.split('|').collect();
        let a = if f[2] == "~" { None } else { Some(unhex(f[2])) };
        let b = if f[3] == "~" { None } else { Some(unhex(f[3])) };
        let id: usize = f[1].parse().unwrap_or(0);
        emit(out, id, &a, &b, f[4] == "R", f[5].parse().unwrap(), "f", &unhex(f[6]), (id * 7919) % 100 < cli_pct);
    }
}
