//! Engine `A`: a stack of file patches applied with the real `TextFilePatch::apply` to one
//! `ModifiedFile`, then rolled back with the real `TextFilePatch::rollback` in LIFO order.

use std::borrow::Cow;
use std::collections::HashMap;
use std::fs::Permissions;
use std::io::Write;
use std::os::unix::fs::PermissionsExt;
use std::panic::{catch_unwind, AssertUnwindSafe};
use std::path::Path;

use libpatch::analysis::{fn_analysis_note_noop, AnalysisSet};
use libpatch::modified_file::ModifiedFile;
use libpatch::patch::{
    FilePatchApplyReport, FilePatchBuilder, FilePatchKind, Hunk, HunkApplyFailureReason, HunkApplyReport,
    PatchDirection, TextFilePatch,
};

use crate::rng::Rng;

#[derive(Clone, Debug)]
pub struct HunkSpec {
    pub rl: i64,
    pub al: i64,
    pub pre: usize,
    pub suf: usize,
    pub rem: Vec<u8>,
    pub add: Vec<u8>,
}

#[derive(Clone, Debug)]
pub struct PatchSpec {
    pub dir: char,
    pub fuzz: usize,
    pub kind: char,
    pub old: bool,
    pub new: bool,
    pub operm: Option<u32>,
    pub nperm: Option<u32>,
    pub hunks: Vec<HunkSpec>,
}

#[derive(Clone, Debug)]
pub struct FileSpec {
    pub deleted: bool,
    pub existed: bool,
    pub perms: Option<u32>,
    pub lines: Vec<u8>,
}

/// line id -> bytes of the line ("<id>\n"); leaked once, lives for the whole run
pub fn line_table() -> &'static Vec<Vec<u8>> {
    static mut TABLE: Option<&'static Vec<Vec<u8>>> = None;
    unsafe {
        if TABLE.is_none() {
            let t: Vec<Vec<u8>> = (0..256).map(|i| format!("{}\n", i).into_bytes()).collect();
            TABLE = Some(Box::leak(Box::new(t)));
        }
        TABLE.unwrap()
    }
}

fn line_id(line: &[u8]) -> u8 {
    std::str::from_utf8(&line[..line.len() - 1]).unwrap().parse::<u8>().unwrap()
}

fn csv(xs: &[u8]) -> String {
    if xs.is_empty() { "-".to_string() } else { xs.iter().map(|x| x.to_string()).collect::<Vec<_>>().join(",") }
}

fn opt(x: Option<u32>) -> String {
    match x { None => "-".to_string(), Some(n) => n.to_string() }
}

impl HunkSpec {
    fn render(&self) -> String {
        format!("{}:{}:{}:{}:{}:{}", self.rl, self.al, self.pre, self.suf, csv(&self.rem), csv(&self.add))
    }
    fn parse(s: &str) -> HunkSpec {
        let p: Vec<&str> = s.split(':').collect();
        HunkSpec { rl: p[0].parse().unwrap(), al: p[1].parse().unwrap(), pre: p[2].parse().unwrap(), suf: p[3].parse().unwrap(),
                   rem: parse_csv(p[4]), add: parse_csv(p[5]) }
    }
}

fn parse_csv(s: &str) -> Vec<u8> {
    if s == "-" { vec![] } else { s.split(',').map(|x| x.parse().unwrap()).collect() }
}
fn parse_opt(s: &str) -> Option<u32> { if s == "-" { None } else { Some(s.parse().unwrap()) } }

impl PatchSpec {
    pub fn render(&self) -> String {
        let hs = if self.hunks.is_empty() { "-".to_string() } else { self.hunks.iter().map(|h| h.render()).collect::<Vec<_>>().join(";") };
        format!("{} {} {} {} {} {} {} {}", self.dir, self.fuzz, self.kind, self.old as u8, self.new as u8, opt(self.operm), opt(self.nperm), hs)
    }
    pub fn parse(s: &str) -> PatchSpec {
        let p: Vec<&str> = s.split(' ').collect();
        PatchSpec { dir: p[0].chars().next().unwrap(), fuzz: p[1].parse().unwrap(), kind: p[2].chars().next().unwrap(),
                    old: p[3] == "1", new: p[4] == "1", operm: parse_opt(p[5]), nperm: parse_opt(p[6]),
                    hunks: if p[7] == "-" { vec![] } else { p[7].split(';').map(HunkSpec::parse).collect() } }
    }
    fn direction(&self) -> PatchDirection { if self.dir == 'R' { PatchDirection::Revert } else { PatchDirection::Forward } }
    pub fn direction_pub(&self) -> PatchDirection { self.direction() }

    pub fn build(&self) -> TextFilePatch<'static> {
        let t = line_table();
        let hunks: Vec<Hunk<'static, &'static [u8]>> = self.hunks.iter().map(|h| {
            let mut hunk = Hunk::new(h.rl as isize, h.al as isize, b"");
            hunk.remove.content = h.rem.iter().map(|&i| &t[i as usize][..]).collect();
            hunk.add.content = h.add.iter().map(|&i| &t[i as usize][..]).collect();
            hunk.prefix_context = h.pre;
            hunk.suffix_context = h.suf;
            hunk
        }).collect();
        let kind = match self.kind { 'C' => FilePatchKind::Create, 'D' => FilePatchKind::Delete, _ => FilePatchKind::Modify };
        let name = |b: bool| if b { Some(Cow::Borrowed(Path::new("x"))) } else { None };
        FilePatchBuilder::<&[u8]>::default()
            .kind(kind)
            .old_filename(name(self.old))
            .new_filename(name(self.new))
            .old_permissions(self.operm.map(Permissions::from_mode))
            .new_permissions(self.nperm.map(Permissions::from_mode))
            .hunks(hunks.into())
            .build().unwrap()
    }
}

impl FileSpec {
    pub fn render(&self) -> String {
        format!("{} {} {} {}", self.deleted as u8, self.existed as u8, opt(self.perms), csv(&self.lines))
    }
    pub fn parse(s: &str) -> FileSpec {
        let p: Vec<&str> = s.split(' ').collect();
        FileSpec { deleted: p[0] == "1", existed: p[1] == "1", perms: parse_opt(p[2]), lines: parse_csv(p[3]) }
    }
    pub fn build_pub(&self) -> ModifiedFile<'static> { self.build() }
    fn build(&self) -> ModifiedFile<'static> {
        let t = line_table();
        ModifiedFile {
            content: self.lines.iter().map(|&i| &t[i as usize][..]).collect(),
            existed: self.existed,
            deleted: self.deleted,
            permissions: self.perms.map(Permissions::from_mode),
        }
    }
}

pub fn file_state(f: &ModifiedFile) -> String {
    let ids: Vec<u8> = f.content.iter().map(|l| line_id(l)).collect();
    format!("{}/{}/{}", f.deleted as u8, opt(f.permissions.as_ref().map(|p| p.mode())), csv(&ids))
}

pub fn reason_name(r: &HunkApplyFailureReason) -> &'static str {
    match r {
        HunkApplyFailureReason::NoMatchingLines => "NoMatchingLines",
        HunkApplyFailureReason::FileDoesNotExist => "FileDoesNotExist",
        HunkApplyFailureReason::CreatingFileThatExists => "CreatingFileThatExists",
        HunkApplyFailureReason::DeletingFileThatDoesNotMatch => "DeletingFileThatDoesNotMatch",
        HunkApplyFailureReason::MisorderedHunks => "MisorderedHunks",
    }
}

pub fn reports(r: &FilePatchApplyReport) -> String {
    let v: Vec<String> = r.hunk_reports().iter().map(|h| match h {
        HunkApplyReport::Applied { line, rollback_line, offset, line_count_diff, fuzz } =>
            format!("A({},{},{},{},{})", line, rollback_line, offset, line_count_diff, fuzz),
        HunkApplyReport::Failed(reason) => format!("F({})", reason_name(reason)),
        HunkApplyReport::Skipped => "K".to_string(),
    }).collect();
    if v.is_empty() { "-".to_string() } else { v.join(";") }
}

/// Run the real code on one case; returns the canonical output and the file after all applications.
pub fn run_case(file: &FileSpec, patches: &[PatchSpec]) -> (String, Vec<Vec<u8>>) {
    let ps: Vec<String> = patches.iter().map(|p| p.render()).collect();
    crate::watch::begin(format!("A|0|{}|{}", file.render(), ps.join("|")));
    let r = run_case_unwatched(file, patches);
    crate::watch::end();
    r
}

fn run_case_unwatched(file: &FileSpec, patches: &[PatchSpec]) -> (String, Vec<Vec<u8>>) {
    let mut f = file.build();
    let built: Vec<TextFilePatch<'static>> = patches.iter().map(|p| p.build()).collect();
    let mut out: Vec<String> = Vec::new();
    let mut reports_vec: Vec<FilePatchApplyReport> = Vec::new();
    let mut states: Vec<Vec<u8>> = Vec::new();
    let analyses = AnalysisSet::default();
    for (i, (spec, fp)) in patches.iter().zip(built.iter()).enumerate() {
        let r = catch_unwind(AssertUnwindSafe(|| fp.apply(&mut f, spec.direction(), spec.fuzz, &analyses, &fn_analysis_note_noop)));
        match r {
            Err(_) => { out.push(format!("a{}=P", i)); return (out.join(" "), states); }
            Ok(rep) => {
                out.push(format!("a{}={}/{}", i, reports(&rep), file_state(&f)));
                states.push(f.content.iter().map(|l| line_id(l)).collect());
                reports_vec.push(rep);
            }
        }
    }
    for i in (0..patches.len()).rev() {
        let r = catch_unwind(AssertUnwindSafe(|| built[i].rollback(&mut f, patches[i].direction(), &reports_vec[i])));
        match r {
            Err(_) => { out.push(format!("r{}=P", i)); break; }
            Ok(()) => out.push(format!("r{}={}", i, file_state(&f))),
        }
    }
    (out.join(" "), states)
}

fn emit<W: Write>(out: &mut W, id: usize, file: &FileSpec, patches: &[PatchSpec], impl_out: &str) {
    let ps: Vec<String> = patches.iter().map(|p| p.render()).collect();
    writeln!(out, "A|{}|{}|{}|=>|{}", id, file.render(), ps.join("|"), impl_out).unwrap();
}

// ---------------------------------------------------------------------------------------------
// generators

fn rand_lines(rng: &mut Rng, n: usize, alpha: usize) -> Vec<u8> {
    (0..n).map(|_| 1 + rng.below(alpha) as u8).collect()
}

fn flip(x: u8, alpha: usize) -> u8 { if alpha <= 1 { x + 1 } else { 1 + (x % alpha as u8) } }

/// A hunk cut out of `content` (which is the side the application will look at), with random
/// context extents, optionally corrupted outer context (forces fuzz) and a perturbed stated line.
fn cut_hunk(rng: &mut Rng, content: &[u8], a: usize, b: usize, alpha: usize, dir: char, shift: i64) -> HunkSpec {
    let n = content.len();
    let pre = rng.below(4).min(a);
    let suf = rng.below(4).min(n - b);
    let mut p: Vec<u8> = content[a - pre..a].to_vec();
    let mut s: Vec<u8> = content[b..b + suf].to_vec();
    let d: Vec<u8> = content[a..b].to_vec();
    let ni = rng.below(3);
    let mut ins = rand_lines(rng, ni, alpha);
    if d.is_empty() && ins.is_empty() { ins = rand_lines(rng, 1, alpha); }
    if pre > 0 && rng.chance(20) { p[0] = flip(p[0], alpha); }
    if suf > 0 && rng.chance(20) { let k = s.len() - 1; s[k] = flip(s[k], alpha); }
    if pre > 1 && rng.chance(5) { p[1] = flip(p[1], alpha); }
    let perturb = *rng.pick(&[0i64, 0, 0, 0, 1, -1, 2, -2, 3, 5, -4]);
    let stated = ((a - pre) as i64 + perturb).max(0);
    let other = match rng.below(5) { 0 => 0, 1 => 1, 2 => rng.range(0, 10), _ => (stated + shift).max(0) };
    let old_side: Vec<u8> = p.iter().chain(d.iter()).chain(s.iter()).cloned().collect();
    let new_side: Vec<u8> = p.iter().chain(ins.iter()).chain(s.iter()).cloned().collect();
    if dir == 'R' {
        HunkSpec { rl: other, al: stated, pre, suf, rem: new_side, add: old_side }
    } else {
        HunkSpec { rl: stated, al: other, pre, suf, rem: old_side, add: new_side }
    }
}

fn random_hunk(rng: &mut Rng, n: usize, alpha: usize) -> HunkSpec {
    let pre = rng.below(3);
    let suf = rng.below(3);
    let nd = rng.below(3);
    let mut ni = rng.below(3);
    if nd + ni == 0 { ni = 1; }
    let p = rand_lines(rng, pre, alpha);
    let s = rand_lines(rng, suf, alpha);
    let d = rand_lines(rng, nd, alpha);
    let i = rand_lines(rng, ni, alpha);
    // now and then a line number from the far end of what the parser accepts (0 ..= 2^63-1): the first
    // guess of this hunk, and through its offset that of the next one, is then far outside the file
    let rl = if rng.chance(3) { *rng.pick(&[i64::MAX, i64::MAX - 1, 1i64 << 62, (1i64 << 62) + 1]) } else { rng.range(0, n as i64 + 3) };
    let al = match rng.below(4) { 0 => 0, 1 => 1, 2 => rng.range(0, n as i64 + 3), _ => rl };
    HunkSpec { rl, al, pre, suf,
               rem: p.iter().chain(d.iter()).chain(s.iter()).cloned().collect(),
               add: p.iter().chain(i.iter()).chain(s.iter()).cloned().collect() }
}

const MODES: [u32; 4] = [0o100644, 0o100755, 0o100600, 0o100664];

pub fn gen_patch(rng: &mut Rng, content: &[u8], deleted: bool, alpha: usize, max_hunks: usize) -> PatchSpec {
    let n = content.len();
    let dir = if rng.chance(30) { 'R' } else { 'F' };
    let fuzz = *rng.pick(&[0usize, 0, 1, 2, 2, 3]);
    let operm = if rng.chance(15) { Some(*rng.pick(&MODES)) } else { None };
    let nperm = if rng.chance(15) { Some(*rng.pick(&MODES)) } else { None };
    let style = rng.below(100);
    if style < 12 {
        // whole-file kinds
        let creating_fwd = rng.chance(50);
        let nb = 1 + rng.below(3);
        let body = if rng.chance(60) && !deleted { content.to_vec() } else { rand_lines(rng, nb, alpha) };
        let body = if body.is_empty() { rand_lines(rng, 1, alpha) } else { body };
        // Create: add side only; Delete: remove side only
        let (kind, h) = if creating_fwd {
            ('C', HunkSpec { rl: 0, al: 0, pre: 0, suf: 0, rem: vec![], add: body })
        } else {
            ('D', HunkSpec { rl: 0, al: 0, pre: 0, suf: 0, rem: body, add: vec![] })
        };
        return PatchSpec { dir, fuzz, kind, old: rng.chance(60), new: rng.chance(60), operm, nperm, hunks: vec![h] };
    }
    let mut hunks = Vec::new();
    if style < 75 && n >= 1 {
        let k = 1 + rng.below(max_hunks);
        let want = (2 * k).min(n + 1);
        // choose `want` distinct cut points
        let mut pts: Vec<usize> = (0..=n).collect();
        for i in 0..want { let j = i + rng.below(pts.len() - i); pts.swap(i, j); }
        let mut pts: Vec<usize> = pts[..want].to_vec();
        pts.sort();
        let mut shift = 0i64;
        let mut i = 0;
        while i + 1 < pts.len() {
            let h = cut_hunk(rng, content, pts[i], pts[i + 1], alpha, dir, shift);
            shift += if dir == 'R' { h.rem.len() as i64 - h.add.len() as i64 } else { h.add.len() as i64 - h.rem.len() as i64 };
            hunks.push(h);
            i += 2;
        }
        if rng.chance(4) && hunks.len() >= 2 { hunks.swap(0, 1); }
    } else {
        for _ in 0..(1 + rng.below(max_hunks)) { hunks.push(random_hunk(rng, n, alpha)); }
    }
    PatchSpec { dir, fuzz, kind: 'M', old: true, new: true, operm, nperm, hunks }
}

pub fn run<W: Write>(out: &mut W, seed: u64, n: usize, opts: &HashMap<String, String>) {
    let max_len: usize = opts.get("maxlen").and_then(|s| s.parse().ok()).unwrap_or(9);
    let max_stack: usize = opts.get("stack").and_then(|s| s.parse().ok()).unwrap_or(3);
    let max_hunks: usize = opts.get("hunks").and_then(|s| s.parse().ok()).unwrap_or(3);
    let mut rng = Rng::new(seed);
    for id in 0..n {
        let alpha = if rng.chance(70) { 2 } else { 3 };
        let len = rng.below(max_len + 1);
        let deleted = rng.chance(4);
        let file = FileSpec {
            deleted,
            existed: !deleted,
            perms: if deleted { None } else if rng.chance(50) { Some(*rng.pick(&MODES)) } else { None },
            lines: if deleted { vec![] } else { rand_lines(&mut rng, len, alpha) },
        };
        let k = 1 + if rng.chance(60) { 0 } else { rng.below(max_stack) };
        // adaptive: each patch is generated against the content the real code produced so far
        let mut patches: Vec<PatchSpec> = Vec::new();
        let mut cur = file.lines.clone();
        let mut cur_deleted = file.deleted;
        for _ in 0..k {
            let p = gen_patch(&mut rng, &cur, cur_deleted, alpha, max_hunks);
            patches.push(p);
            let (_, states) = run_case(&file, &patches);
            if states.len() == patches.len() { cur = states[states.len() - 1].clone(); cur_deleted = false; } else { break; }
        }
        let (impl_out, _) = run_case(&file, &patches);
        emit(out, id, &file, &patches, &impl_out);
    }
}

/// Re-run the real code on the inputs of protocol lines read from a file (corpus / replay).
pub fn replay<W: Write>(out: &mut W, opts: &HashMap<String, String>) {
    let path = opts.get("file").expect("file=<path>");
    let text = std::fs::read_to_string(path).unwrap();
    for line in text.lines() {
        let line = line.trim();
        if !line.starts_with("A|") { continue; }
        let fields: Vec<&str> = line.split('|').collect();
        let id: usize = fields[1].parse().unwrap_or(0);
        let file = FileSpec::parse(fields[2]);
        let patches: Vec<PatchSpec> = fields[3..].iter().take_while(|f| **f != "=>").map(|f| PatchSpec::parse(f)).collect();
        let (impl_out, _) = run_case(&file, &patches);
        emit(out, id, &file, &patches, &impl_out);
    }
}

/// Engine `T` (C20): one file, one file patch, applied with fuzz limit F and again with F' > F.
pub fn run_pairs<W: Write>(out: &mut W, seed: u64, n: usize, opts: &HashMap<String, String>) {
    let max_len: usize = opts.get("maxlen").and_then(|s| s.parse().ok()).unwrap_or(9);
    let max_hunks: usize = opts.get("hunks").and_then(|s| s.parse().ok()).unwrap_or(3);
    let mut rng = Rng::new(seed ^ 0x7020);
    for id in 0..n {
        let alpha = if rng.chance(70) { 2 } else { 3 };
        let len = rng.below(max_len + 1);
        let file = FileSpec { deleted: false, existed: true, perms: None, lines: rand_lines(&mut rng, len, alpha) };
        let mut p = gen_patch(&mut rng, &file.lines, false, alpha, max_hunks);
        p.fuzz = rng.below(3);
        let f2 = p.fuzz + 1 + rng.below(3);
        emit_pair(out, id, &file, &p, f2);
    }
}

fn emit_pair<W: Write>(out: &mut W, id: usize, file: &FileSpec, p: &PatchSpec, f2: usize) {
    let mut p2 = p.clone();
    p2.fuzz = f2;
    let (o1, _) = run_case(file, std::slice::from_ref(p));
    let (o2, _) = run_case(file, std::slice::from_ref(&p2));
    writeln!(out, "T|{}|{}|{}|{}|=>|{}|{}", id, file.render(), p.render(), f2, o1, o2).unwrap();
}

pub fn replay_pairs<W: Write>(out: &mut W, opts: &HashMap<String, String>) {
    let path = opts.get("file").expect("file=<path>");
    let text = std::fs::read_to_string(path).unwrap();
    for line in text.lines() {
        let line = line.trim();
        if !line.starts_with("T|") { continue; }
        let fields: Vec<&str> = line.split('|').collect();
        let id: usize = fields[1].parse().unwrap_or(0);
        let file = FileSpec::parse(fields[2]);
        let p = PatchSpec::parse(fields[3]);
        let f2: usize = fields[4].parse().unwrap();
        emit_pair(out, id, &file, &p, f2);
    }
}
