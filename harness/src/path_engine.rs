//! Engine `P` (C16/C19/C13): std::path behaviour rapidquilt relies on — `components`, the real
//! `FilePatch::strip` and the real `make_rej_filename`.
use std::collections::HashMap;
use std::ffi::OsStr;
use std::io::Write;
use std::os::unix::ffi::OsStrExt;
use std::path::{Component, Path};

use crate::apply::verif::make_rej_filename;
use crate::rng::Rng;

pub fn hex(b: &[u8]) -> String {
    if b.is_empty() { return "-".to_string(); }
    b.iter().map(|x| format!("{:02x}", x)).collect()
}
pub fn unhex(s: &str) -> Vec<u8> {
    if s == "-" { return vec![]; }
    (0..s.len() / 2).map(|i| u8::from_str_radix(&s[2 * i..2 * i + 2], 16).unwrap()).collect()
}

fn comps(p: &Path) -> String {
    let v: Vec<String> = p.components().map(|c| match c {
        Component::RootDir => "R".to_string(),
        Component::CurDir => "C".to_string(),
        Component::ParentDir => "U".to_string(),
        Component::Normal(n) => format!("N{}", hex(n.as_bytes())),
        Component::Prefix(_) => "X".to_string(),
    }).collect();
    if v.is_empty() { "-".to_string() } else { v.join(",") }
}

/// the real `FilePatch::strip` (its `strip_path` has a borrowed and an owned branch: both are run, on the
/// old and on the new name, and must agree)
fn real_strip(raw: &[u8], n: usize) -> Vec<u8> {
    use std::borrow::Cow;
    use libpatch::patch::{FilePatchBuilder, FilePatchKind};
    let p = Path::new(OsStr::from_bytes(raw));
    let mut fp = FilePatchBuilder::<&[u8]>::default()
        .kind(FilePatchKind::Modify)
        .old_filename(Some(Cow::Borrowed(p)))
        .new_filename(Some(Cow::Owned(p.to_path_buf())))
        .hunks(Vec::new().into())
        .build().unwrap();
    fp.strip(n);
    let a = fp.old_filename().unwrap().as_os_str().as_bytes().to_vec();
    let b = fp.new_filename().unwrap().as_os_str().as_bytes().to_vec();
    if a != b { let mut x = b"BRANCHES-DIFFER:".to_vec(); x.extend_from_slice(&a); x.push(b'|'); x.extend_from_slice(&b); return x; }
    a
}

fn run_case(raw: &[u8], n: usize) -> String {
    let p = Path::new(OsStr::from_bytes(raw));
    let stripped_bytes = real_strip(raw, n);
    let stripped = Path::new(OsStr::from_bytes(&stripped_bytes));
    let rej = make_rej_filename(stripped);
    format!("strip={} comps={} rej={}", hex(stripped.as_os_str().as_bytes()), comps(p), hex(rej.as_os_str().as_bytes()))
}

fn emit<W: Write>(out: &mut W, id: usize, raw: &[u8], n: usize) {
    writeln!(out, "P|{}|{}|{}|=>|{}", id, hex(raw), n, run_case(raw, n)).unwrap();
}

const PIECES: [&[u8]; 9] = [b"a", b"b", b"..", b".", b"", b"a.b", b".x", b"x.", b"d.e.f"];

pub fn run<W: Write>(out: &mut W, seed: u64, n: usize, opts: &HashMap<String, String>) {
    let maxp: usize = opts.get("pieces").and_then(|s| s.parse().ok()).unwrap_or(4);
    let mut id = 0;
    // exhaustive: up to `maxp` pieces, with/without leading '/', strip 0..=maxp
    for k in 0..=maxp {
        let total = PIECES.len().pow(k as u32);
        for code in 0..total {
            let mut c = code;
            let mut parts: Vec<&[u8]> = Vec::new();
            for _ in 0..k { parts.push(PIECES[c % PIECES.len()]); c /= PIECES.len(); }
            let body = parts.join(&b'/');
            for lead in 0..2 {
                let mut raw = Vec::new();
                if lead == 1 { raw.push(b'/'); }
                raw.extend_from_slice(&body);
                for s in 0..=(k.min(3) + 1) { emit(out, id, &raw, s); id += 1; }
            }
        }
    }
    // random bytes incl. non-UTF-8 in names
    let mut rng = Rng::new(seed ^ 0x9a7);
    let alphabet: [u8; 10] = [b'a', b'b', b'.', b'/', b'/', b'.', b' ', 0xff, 0xc3, b'z'];
    for _ in 0..n {
        let len = rng.below(10);
        let raw: Vec<u8> = (0..len).map(|_| *rng.pick(&alphabet)).collect();
        // strip counts far beyond what any name has (the strip loop must stop at the end of the name)
        let strip = if rng.chance(4) { *rng.pick(&[usize::MAX, usize::MAX / 2 + 1, 4_000_000_000usize, 1usize << 40]) } else { rng.below(5) };
        emit(out, id, &raw, strip);
        id += 1;
    }
}

pub fn replay<W: Write>(out: &mut W, opts: &HashMap<String, String>) {
    let text = std::fs::read_to_string(opts.get("file").expect("file=<path>")).unwrap();
    for line in text.lines() {
        let line = line.trim();
        if !line.starts_with("P|") { continue; }
        let f: Vec<&str> = line.split('|').collect();
        emit(out, f[1].parse().unwrap_or(0), &unhex(f[2]), f[3].parse().unwrap());
    }
}
