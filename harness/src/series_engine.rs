//! Engine `S` (C16, C11): the real `read_series_file` on generated series files.
use std::collections::HashMap;
use std::io::Write;
use std::os::unix::ffi::OsStrExt;

use crate::cmd::verif_read_series_file;
use crate::path_engine::{hex, unhex};
use crate::rng::Rng;

fn run_case(dir: &std::path::Path, bytes: &[u8]) -> String {
    let p = dir.join("series");
    std::fs::write(&p, bytes).unwrap();
    let r = std::panic::catch_unwind(|| verif_read_series_file(&p));
    match r {
        Err(_) => "PANIC".to_string(),
        Ok(Err(_)) => "ERR".to_string(),
        Ok(Ok(v)) => {
            let items: Vec<String> = v.iter().map(|e| format!("{}:{}:{}", hex(e.filename.as_os_str().as_bytes()), e.strip, e.reverse as u8)).collect();
            format!("OK {}", if items.is_empty() { "-".to_string() } else { items.join(";") })
        }
    }
}

const TOKENS: [&[u8]; 42] = [b"-p18446744073709551615", b"-p4000000000", b"a.patch", b"b.patch", b"dir/c.patch", b"-p0", b"-p1", b"-p2", b"-p", b"1", b"-R", b"-Rp1", b"-p1R", b"-RR",
    b"--strip=2", b"--strip", b"3", b"--reverse", b"--reverse=1", b"--strip=", b"-px", b"-p+1", b"-p-1", b"-p01", b"-p18446744073709551616",
    b"--", b"-", b"-x", b"--unknown", b"#c", b"x#y", b"-pR", b"--strip=2=3", b"-p1p2", b"-R-p3", b"\xc3\xa9.patch", b"-p\xc3\xa9", b"--str", b"-Rx", b"-p 2", b"extra", b"-p1 -p2"];
// separators: ASCII white space, the Unicode White_Space characters `str::split_whitespace` also splits at
// (U+0085, U+00A0, U+1680, U+2000..U+200A, U+2028, U+2029, U+202F, U+205F, U+3000), and two look-alikes that are
// NOT white space (U+200B zero width space, U+00A1)
const SEPS: [&[u8]; 20] = [b" ", b"  ", b"\t", b" \t ", b"\x0b", b"\x0c", b" ", b"\t",
    b"\xc2\xa0", b"\xe3\x80\x80", b"\xc2\x85", b"\xe1\x9a\x80", b"\xe2\x80\x83", b"\xe2\x80\x8a", b"\xe2\x80\xa8", b"\xe2\x80\xa9",
    b"\xe2\x80\xaf", b"\xe2\x81\x9f", b"\xe2\x80\x8b", b"\xc2\xa1"];

pub fn run<W: Write>(out: &mut W, seed: u64, n: usize, _opts: &HashMap<String, String>) {
    let dir = tempfile::tempdir().unwrap();
    let mut rng = Rng::new(seed ^ 0x5e71e5);
    for id in 0..n {
        let nlines = rng.below(5);
        let mut b: Vec<u8> = Vec::new();
        for _ in 0..nlines {
            match rng.below(12) {
                0 => b.extend_from_slice(b"# comment -p9\n"),
                1 => b.extend_from_slice(b"\n"),
                2 => b.extend_from_slice(b"   \n"),
                3 => { b.extend_from_slice(b" #notcomment.patch -p0\n"); }
                _ => {
                    if rng.chance(15) { b.extend_from_slice(*rng.pick(&SEPS)); }
                    let k = 1 + rng.below(4);
                    for j in 0..k {
                        if j > 0 { b.extend_from_slice(*rng.pick(&SEPS)); }
                        let t = if j == 0 && rng.chance(80) { TOKENS[rng.below(3)] } else { TOKENS[rng.below(TOKENS.len())] };
                        b.extend_from_slice(t);
                    }
                    if rng.chance(10) { b.extend_from_slice(*rng.pick(&SEPS)); }
                    match rng.below(20) { 0 => b.extend_from_slice(b"\r\n"), 1 => {}, 2 => b.extend_from_slice(b"\r\r\n"), _ => b.extend_from_slice(b"\n") }
                }
            }
        }
        if rng.chance(3) && !b.is_empty() { let j = rng.below(b.len()); b[j] = *rng.pick(&[0xffu8, 0xc3, 0x80, 0x00, 0xe2]); }
        writeln!(out, "S|{}|{}|=>|{}", id, hex(&b), run_case(dir.path(), &b)).unwrap();
    }
}

pub fn replay<W: Write>(out: &mut W, opts: &HashMap<String, String>) {
    let dir = tempfile::tempdir().unwrap();
    let text = std::fs::read_to_string(opts.get("file").expect("file=<path>")).unwrap();
    for line in text.lines() {
        let line = line.trim();
        if !line.starts_with("S|") { continue; }
        let f: Vec<&str> = line.split('|').collect();
        let b = unhex(f[2]);
        writeln!(out, "S|{}|{}|=>|{}", f[1], hex(&b), run_case(dir.path(), &b)).unwrap();
    }
}
