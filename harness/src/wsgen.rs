//! Workspace generator: a tree, a series of patches produced as unified diffs of edit scripts against
//! the generator's own idea of the tree (so most patches apply), in several header dialects, with
//! deliberate failures, plus the text renderer used for C01.

use std::collections::BTreeMap;

use std::sync::atomic::{AtomicU32, Ordering};

use crate::rng::Rng;

/// chance (percent) that a generated file ends in one very long line (longer than a `BufWriter` buffer: it
/// is handed to `write(2)` directly) — set by the fault engine
pub static BIG_LINE_PCT: AtomicU32 = AtomicU32::new(0);
/// chance (percent) that a tree gets a file of 120-220 lines; patches on such a file mostly replace a block
/// of 66-130 lines by as many others (hunks larger than any fixed search window)
pub static BIG_FILE_PCT: AtomicU32 = AtomicU32::new(3);
/// chance (percent) that a file picked to be very large (1 in 20 of the large ones) really gets ~1200 lines
pub static HUGE_PCT: AtomicU32 = AtomicU32::new(0);
/// how many of 20 large files get 340-400 lines (blocks of 260-330 lines) instead of 120-220
pub static LARGE_OF_20: AtomicU32 = AtomicU32::new(1);
/// directories of the initial tree of the workspace being generated (set by the workspace generator)
pub static INITIAL_DIRS: std::sync::Mutex<Vec<String>> = std::sync::Mutex::new(Vec::new());

#[derive(Clone, Debug, PartialEq)]
pub struct GenFile {
    pub lines: Vec<Vec<u8>>,
    pub mode: u32,
}

pub type Tree = BTreeMap<String, GenFile>;

#[derive(Clone, Debug)]
pub enum Op {
    Keep(Vec<u8>),
    Del(Vec<u8>),
    Ins(Vec<u8>),
}

const WORDS: [&[u8]; 12] = [b"a", b"b", b"c", b"a", b"b", b"x y", b"", b"-dash", b"+plus", b"@@ -1 +1 @@", b"\\ back", b"tab\there"];

pub fn rand_line(rng: &mut Rng, rich: bool) -> Vec<u8> {
    let n = if rich { WORDS.len() } else { 3 };
    let mut l = WORDS[rng.below(n)].to_vec();
    if rich && rng.chance(3) { l.push(0xff); }
    if rich && rng.chance(3) { l.push(b'\r'); }
    l.push(b'\n');
    l
}

pub fn rand_content(rng: &mut Rng, max: usize, rich: bool) -> Vec<Vec<u8>> {
    let n = rng.below(max + 1);
    let mut v: Vec<Vec<u8>> = (0..n).map(|_| rand_line(rng, rich)).collect();
    if n > 0 && rng.chance(15) { let k = v.len() - 1; v[k].pop(); if v[k].is_empty() { v[k] = b"z".to_vec(); } }
    if rng.chance(BIG_LINE_PCT.load(Ordering::Relaxed)) {
        if let Some(l) = v.last() { if l.last() != Some(&b'\n') { v.pop(); } }
        let mut l = vec![b'L'; 8192 + rng.below(700)];
        if rng.chance(70) { l.push(b'\n'); }
        v.push(l);
    }
    v
}

pub fn big_content(rng: &mut Rng) -> Vec<Vec<u8>> {
    // mostly 120-220 lines; sometimes long enough for a block of several hundred / a thousand lines
    // (the model's writer is cubic in the size of a hunk without common lines: a 1100-line block costs it
    // 40 s, so those are left to the thorough tier: HUGE_PCT)
    let n = match rng.below(20) { 0 if rng.chance(HUGE_PCT.load(Ordering::Relaxed)) => 1150 + rng.below(100), x if x >= 1 && (x as u32) <= LARGE_OF_20.load(Ordering::Relaxed) => 340 + rng.below(60), _ => 120 + rng.below(100) };
    (0..n).map(|i| format!("line {}\n", if rng.chance(10) { i % 7 } else { i }).into_bytes()).collect()
}

/// replace one block of 66-130 lines by 66-130 other lines (no line in common), keep the rest
pub fn big_script(rng: &mut Rng, old: &[Vec<u8>]) -> Vec<Op> {
    // the block is as large as the file allows: 66-130 lines, or 260-330, or about 1100
    let want = if old.len() >= 1150 { 1050 + rng.below(80) } else if old.len() >= 340 { 260 + rng.below(70) } else { 66 + rng.below(65) };
    let del = want.min(old.len());
    let start = rng.below(old.len() - del + 1);
    let ins = want - rng.below(20).min(want - 1);
    let mut ops: Vec<Op> = old[..start].iter().map(|l| Op::Keep(l.clone())).collect();
    ops.extend(old[start..start + del].iter().map(|l| Op::Del(l.clone())));
    ops.extend((0..ins).map(|i| Op::Ins(format!("new text {}\n", i).into_bytes())));
    ops.extend(old[start + del..].iter().map(|l| Op::Keep(l.clone())));
    ops
}

/// random edit script over `old`; returns the ops (at least one change unless `old` stays as is on purpose)
pub fn rand_script(rng: &mut Rng, old: &[Vec<u8>], rich: bool) -> Vec<Op> {
    let mut ops = Vec::new();
    let mut changed = false;
    let density = 10 + rng.below(40) as u32;
    // the final line without newline may only be followed by nothing; treat it as any line but never insert after it
    let last_unterminated = old.last().map(|l| l.last() != Some(&b'\n')).unwrap_or(false);
    for (i, l) in old.iter().enumerate() {
        let is_last = i + 1 == old.len();
        if rng.chance(density / 2) { ops.push(Op::Ins(rand_line(rng, rich))); changed = true; }
        if rng.chance(density) { ops.push(Op::Del(l.clone())); changed = true;
            if is_last && last_unterminated && rng.chance(50) { let mut nl = rand_line(rng, rich); if rng.chance(50) { nl.pop(); if nl.is_empty() { nl = b"q".to_vec(); } } ops.push(Op::Ins(nl)); }
        } else { ops.push(Op::Keep(l.clone())); }
    }
    if !last_unterminated && (rng.chance(density / 2) || !changed) {
        let mut nl = rand_line(rng, rich);
        if rng.chance(10) { nl.pop(); if nl.is_empty() { nl = b"q".to_vec(); } }
        ops.push(Op::Ins(nl));
    } else if !changed {
        // file ends without newline and nothing changed: replace the last line
        if let Some(Op::Keep(l)) = ops.pop() { ops.push(Op::Del(l)); ops.push(Op::Ins(b"w\n".to_vec())); }
    }
    // normalise: within a run of changes put deletions before insertions (what diff prints)
    let mut out: Vec<Op> = Vec::new();
    let mut dels: Vec<Op> = Vec::new();
    let mut inss: Vec<Op> = Vec::new();
    for op in ops {
        match op {
            Op::Keep(_) => { out.append(&mut dels); out.append(&mut inss); out.push(op); }
            Op::Del(_) => dels.push(op),
            Op::Ins(_) => inss.push(op),
        }
    }
    out.append(&mut dels); out.append(&mut inss);
    out
}

pub fn new_of(ops: &[Op]) -> Vec<Vec<u8>> {
    ops.iter().filter_map(|o| match o { Op::Keep(l) | Op::Ins(l) => Some(l.clone()), Op::Del(_) => None }).collect()
}
pub fn old_of(ops: &[Op]) -> Vec<Vec<u8>> {
    ops.iter().filter_map(|o| match o { Op::Keep(l) | Op::Del(l) => Some(l.clone()), Op::Ins(_) => None }).collect()
}

fn push_line(out: &mut Vec<u8>, tag: u8, l: &[u8]) {
    out.push(tag);
    out.extend_from_slice(l);
    if l.last() != Some(&b'\n') { out.extend_from_slice(b"\n\\ No newline at end of file\n"); }
}

/// GNU-style hunks with `c` lines of context; `reverse` swaps the roles (renders the diff new→old).
pub fn render_hunks(ops: &[Op], c: usize, corrupt: Option<usize>, shift: i64) -> Vec<u8> {
    let n = ops.len();
    let is_change: Vec<bool> = ops.iter().map(|o| !matches!(o, Op::Keep(_))).collect();
    let mut out = Vec::new();
    let mut i = 0;
    let mut hunk_no = 0;
    // old / new line counters before op i
    let mut old_before = vec![0usize; n + 1];
    let mut new_before = vec![0usize; n + 1];
    for k in 0..n {
        old_before[k + 1] = old_before[k] + if matches!(ops[k], Op::Ins(_)) { 0 } else { 1 };
        new_before[k + 1] = new_before[k] + if matches!(ops[k], Op::Del(_)) { 0 } else { 1 };
    }
    while i < n {
        if !is_change[i] { i += 1; continue; }
        let start = i.saturating_sub(c);
        // extend over all changes whose gap of unchanged lines to the previous change is <= 2c
        let mut end = i;
        loop {
            let mut k = end + 1;
            while k < n && !is_change[k] { k += 1; }
            if k < n && k - (end + 1) <= 2 * c { end = k; } else { break; }
        }
        let stop = (end + 1 + c).min(n);
        let oc = old_before[stop] - old_before[start];
        let nc = new_before[stop] - new_before[start];
        let os = if oc == 0 { old_before[start] } else { old_before[start] + 1 };
        let ns = if nc == 0 { new_before[start] } else { new_before[start] + 1 };
        let os = (os as i64 + if hunk_no == 0 { shift } else { 0 }).max(if oc == 0 { 0 } else { 1 });
        out.extend_from_slice(format!("@@ -{},{} +{},{} @@\n", os, oc, ns, nc).as_bytes());
        for k in start..stop {
            match &ops[k] {
                Op::Keep(l) => {
                    if corrupt == Some(hunk_no) && (k == start || k + 1 == stop) {
                        let mut m = l.clone(); m.insert(0, b'#'); push_line(&mut out, b' ', &m);
                    } else { push_line(&mut out, b' ', l); }
                }
                Op::Del(l) => {
                    if corrupt == Some(hunk_no) { let mut m = l.clone(); m.insert(0, b'#'); push_line(&mut out, b'-', &m); }
                    else { push_line(&mut out, b'-', l); }
                }
                Op::Ins(l) => push_line(&mut out, b'+', l),
            }
        }
        hunk_no += 1;
        i = end + 1;
    }
    out
}

pub fn count_hunks(text: &[u8]) -> usize { text.split(|&b| b == b'\n').filter(|l| l.starts_with(b"@@ -")).count() }

#[derive(Clone, Copy, Debug, PartialEq)]
pub enum Dialect { Plain, Timestamps, Git, Quoted, Orig }

pub fn quote(name: &str) -> String {
    let mut s = String::from("\"");
    for b in name.bytes() {
        match b { b'"' => s.push_str("\\\""), b'\\' => s.push_str("\\\\"), b' ' => s.push_str("\\040"), 0x0b => s.push_str("\\013"), _ => s.push(b as char) }
    }
    s.push('"');
    s
}

/// prefix for strip level `p`: p=0 → "", p=1 → "a/", p=2 → "x/a/"
pub fn prefix(p: usize, side: char) -> String {
    match p { 0 => String::new(), 1 => format!("{}/", side), _ => format!("{}{}/", "x/".repeat(p - 1), side) }
}

pub struct HeaderSpec<'a> {
    pub old: Option<&'a str>,   // None = /dev/null
    pub new: Option<&'a str>,
    pub dialect: Dialect,
    pub p: usize,
    pub rename: bool,
    pub old_mode: Option<u32>,
    pub new_mode: Option<u32>,
    pub creating: bool,
    pub deleting: bool,
    pub has_hunks: bool,
}

pub fn render_header(h: &HeaderSpec) -> Vec<u8> {
    let mut out = String::new();
    let on = h.old.map(|n| format!("{}{}", prefix(h.p, 'a'), n));
    let nn = h.new.map(|n| format!("{}{}", prefix(h.p, 'b'), n));
    let name = |x: &Option<String>| match x { None => "/dev/null".to_string(), Some(n) => if h.dialect == Dialect::Quoted || n.contains(' ') || n.contains('\x0b') { quote(n) } else { n.clone() } };
    let git = h.dialect == Dialect::Git || h.rename || h.old_mode.is_some() || h.new_mode.is_some();
    if git {
        let a = on.clone().or_else(|| h.new.map(|n| format!("{}{}", prefix(h.p, 'a'), n)));
        let b = nn.clone().or_else(|| h.old.map(|n| format!("{}{}", prefix(h.p, 'b'), n)));
        out.push_str(&format!("diff --git {} {}\n", name(&a), name(&b)));
        if h.rename { out.push_str(&format!("rename from {}\nrename to {}\n", h.old.unwrap(), h.new.unwrap())); }
        if h.creating { if let Some(m) = h.new_mode { out.push_str(&format!("new file mode {:06o}\n", m)); } }
        else if h.deleting { if let Some(m) = h.old_mode { out.push_str(&format!("deleted file mode {:06o}\n", m)); } }
        else {
            if let Some(m) = h.old_mode { out.push_str(&format!("old mode {:06o}\n", m)); }
            if let Some(m) = h.new_mode { out.push_str(&format!("new mode {:06o}\n", m)); }
        }
        if h.dialect == Dialect::Git && h.has_hunks { out.push_str("index 1234567..89abcde\n"); }
    }
    if h.has_hunks || !git {
        let ts = if h.dialect == Dialect::Timestamps { "\t2020-01-01 00:00:00.000000000 +0000" } else { "" };
        let o = if h.dialect == Dialect::Orig { on.clone().map(|n| format!("{}.orig", n)) } else { on.clone() };
        out.push_str(&format!("--- {}{}\n+++ {}{}\n", name(&o), ts, name(&nn), ts));
    }
    out.into_bytes()
}

pub fn pick_dialect(rng: &mut Rng) -> Dialect {
    *rng.pick(&[Dialect::Plain, Dialect::Plain, Dialect::Timestamps, Dialect::Git, Dialect::Git, Dialect::Quoted, Dialect::Orig])
}

// (no name is a directory of another one: a series that turns a directory into a file or back is the
// known finding dir-file-swap, kept as a witness in corpus/ rather than generated)
// ("v\x0bt": a vertical tab is white space to the patch parser — such a name has to be written quoted, in patches
// and in the headers of reject files — but not to `u8::is_ascii_whitespace`)
pub const NAMES: [&str; 9] = ["f", "g", "d/h", "d/e/k", "n1", "d/n2", "m", "sp ace", "v\x0bt"];
pub const MODES: [u32; 3] = [0o100644, 0o100755, 0o100600];

/// another spelling of the same file name: a leading "./" (survives -p0 as a `.` component), a doubled
/// separator, an inner "/./" — `Path` equality and the file system make no difference between them
pub fn respell(rng: &mut Rng, n: &str) -> String {
    let k = rng.below(100);
    if k < 9 { format!("./{}", n) }
    else if k < 12 && n.contains('/') { n.replacen('/', "//", 1) }
    else if k < 15 && n.contains('/') { n.replacen('/', "/./", 1) }
    else { n.to_string() }
}

pub struct GenPatch {
    pub text: Vec<u8>,
    pub p: usize,
    pub reverse: bool,
    /// does the generator expect this patch to apply
    pub ok: bool,
}

/// one patch with 1-3 file patches against `tree`; updates `tree` as if it applied.
pub fn gen_patch(rng: &mut Rng, tree: &mut Tree, allow_fail: bool, rich: bool) -> GenPatch {
    let p = *rng.pick(&[1usize, 1, 1, 0, 2]);
    let nfp = 1 + rng.below(3);
    let mut text: Vec<u8> = Vec::new();
    let mut ok = true;
    if rng.chance(40) { text.extend_from_slice(b"Description of the patch\n\nSigned-off-by: nobody\n"); }
    let mut touched: Vec<String> = Vec::new();
    for _ in 0..nfp {
        let dialect = pick_dialect(rng);
        let c = *rng.pick(&[3usize, 3, 2, 1, 0]);
        let existing: Vec<String> = tree.keys().filter(|k| !touched.contains(k) || rng.chance(30)).cloned().collect();
        let kind = rng.below(100);
        let fail_here = allow_fail && rng.chance(18);
        // a failing file patch for a file that does not exist, in a directory the series has emptied by now
        // (its last file deleted or renamed away by an earlier patch): no reject file may appear there
        if allow_fail && rng.chance(30) {
            let emptied: Vec<&str> = ["d", "d/e"].iter().cloned().filter(|d| INITIAL_DIRS.lock().unwrap().iter().any(|x| x == d)
                && !tree.keys().any(|k| k.starts_with(&format!("{}/", d)))).collect();
            if let Some(d) = emptied.first() {
                let name = format!("{}/{}", d, rng.pick(&["x", "n2", "h"]));
                text.extend_from_slice(&render_header(&HeaderSpec { old: Some(&name), new: Some(&name), dialect, p, rename: false,
                    old_mode: None, new_mode: None, creating: false, deleting: false, has_hunks: true }));
                text.extend_from_slice(b"@@ -1,2 +1,2 @@\n a\n-b\n+c\n");
                ok = false;
                continue;
            }
        }
        // a hunk that changes nothing (context lines only) in front of a real change of the same file
        let noop_hunk = rng.chance(3);
        if kind < 55 && !existing.is_empty() {
            // modify
            let name = existing[rng.below(existing.len())].clone();
            let f = tree.get(&name).unwrap().clone();
            if f.lines.is_empty() && c > 0 && rng.chance(50) { continue; }
            let ops = if f.lines.len() >= 100 && rng.chance(70) { big_script(rng, &f.lines) } else { rand_script(rng, &f.lines, rich) };
            let probe = render_hunks(&ops, c, None, 0);
            let nh = count_hunks(&probe);
            if nh == 0 { continue; }
            // a zero-context hunk at the top of a non-empty file is a documented finding: avoid unless the file is empty
            let corrupt = if fail_here { Some(rng.below(nh)) } else { None };
            let shift = if rng.chance(10) && c > 0 { *rng.pick(&[1i64, -1, 2, 3]) } else { 0 };
            let new_mode = if rng.chance(10) { Some(*rng.pick(&MODES)) } else { None };
            let hs = render_hunks(&ops, c, corrupt, shift);
            // two different real names on a plain (non-rename) file patch: the one to patch is the old
            // name if that file exists at this point of the series, else the new one (C16).  The other
            // name is mostly one that does not exist now (possibly deleted or renamed away by an earlier
            // patch of the series), so that the patch still means `name`.
            let other: Option<String> = if rng.chance(14) {
                let gone: Vec<&str> = NAMES.iter().cloned().filter(|n| !tree.contains_key(*n)).collect();
                if !gone.is_empty() && rng.chance(80) { Some(gone[rng.below(gone.len())].to_string()) }
                else { let ex: Vec<&String> = tree.keys().filter(|k| **k != name).collect(); if ex.is_empty() { None } else { Some(ex[rng.below(ex.len())].clone()) } }
            } else { None };
            let (old_name, new_name): (String, String) = match &other {
                Some(o) if !tree.contains_key(o) && rng.chance(50) => (o.clone(), name.clone()),    // old gone -> new is patched
                Some(o) => (name.clone(), o.clone()),                                                // old exists -> old is patched
                None => (name.clone(), name.clone()),
            };
            let (old_sp, new_sp) = if old_name == new_name { let s = respell(rng, &old_name); (s.clone(), s) } else { (respell(rng, &old_name), respell(rng, &new_name)) };
            text.extend_from_slice(&render_header(&HeaderSpec { old: Some(&old_sp), new: Some(&new_sp), dialect, p, rename: false,
                old_mode: new_mode.map(|_| f.mode), new_mode, creating: false, deleting: false, has_hunks: true }));
            if noop_hunk && !f.lines.is_empty() && f.lines.iter().all(|l| l.last() == Some(&b'\n')) {
                // `@@ -1,n +1,n @@` with the first n lines of the file as context, nothing else
                let n = 1 + rng.below(f.lines.len().min(3));
                if let Some(Op::Keep(_)) = ops.first() {
                    let first_change = ops.iter().position(|o| !matches!(o, Op::Keep(_))).unwrap_or(0);
                    if first_change > n + 2 * c + 1 {
                        text.extend_from_slice(format!("@@ -1,{} +1,{} @@\n", n, n).as_bytes());
                        for l in &f.lines[..n] { text.push(b' '); text.extend_from_slice(l); }
                    }
                }
            }
            text.extend_from_slice(&hs);
            if corrupt.is_some() { ok = false; }
            else { tree.insert(name.clone(), GenFile { lines: new_of(&ops), mode: new_mode.unwrap_or(f.mode) }); }
            touched.push(name);
        } else if kind < 70 {
            // create
            let free: Vec<&str> = NAMES.iter().cloned().filter(|n| !tree.contains_key(*n) && !tree.keys().any(|k| k.starts_with(&format!("{}/", n)) || n.starts_with(&format!("{}/", k)))).collect();
            let (name, clash) = if fail_here && !existing.is_empty() { (existing[rng.below(existing.len())].clone(), true) }
                                else if !free.is_empty() { (free[rng.below(free.len())].to_string(), false) } else { continue };
            if clash && tree.get(&name).unwrap().lines.is_empty() { continue; }
            let mut lines = rand_content(rng, 4, rich);
            if lines.is_empty() { lines.push(b"new\n".to_vec()); }
            let ops: Vec<Op> = lines.iter().map(|l| Op::Ins(l.clone())).collect();
            let mode = if dialect == Dialect::Git && rng.chance(60) { Some(*rng.pick(&MODES)) } else { None };
            let both_names = rng.chance(25) && dialect != Dialect::Git;
            let name_sp = respell(rng, &name);
            text.extend_from_slice(&render_header(&HeaderSpec { old: if both_names { Some(&name_sp) } else { None }, new: Some(&name_sp), dialect, p, rename: false,
                old_mode: None, new_mode: mode, creating: true, deleting: false, has_hunks: true }));
            text.extend_from_slice(&render_hunks(&ops, 0, None, 0));
            if clash { ok = false; } else { tree.insert(name.clone(), GenFile { lines, mode: mode.unwrap_or(0o100644) }); }
            touched.push(name);
        } else if kind < 82 && !existing.is_empty() {
            // delete
            let name = existing[rng.below(existing.len())].clone();
            let f = tree.get(&name).unwrap().clone();
            if f.lines.is_empty() { continue; }
            let mut lines = f.lines.clone();
            if fail_here { lines[0].insert(0, b'#'); }
            let ops: Vec<Op> = lines.iter().map(|l| Op::Del(l.clone())).collect();
            let mode = if dialect == Dialect::Git && rng.chance(60) { Some(f.mode) } else { None };
            let name_sp = respell(rng, &name);
            text.extend_from_slice(&render_header(&HeaderSpec { old: Some(&name_sp), new: None, dialect, p, rename: false,
                old_mode: mode, new_mode: None, creating: false, deleting: true, has_hunks: true }));
            text.extend_from_slice(&render_hunks(&ops, 0, None, 0));
            if fail_here { ok = false; } else { tree.remove(&name); }
            touched.push(name);
        } else if kind < 92 && !existing.is_empty() {
            // rename, optionally with edits
            let name = existing[rng.below(existing.len())].clone();
            let free: Vec<&str> = NAMES.iter().cloned().filter(|n| !tree.contains_key(*n) && !tree.keys().any(|k| k.starts_with(&format!("{}/", n)) || n.starts_with(&format!("{}/", k)))).collect();
            if free.is_empty() { continue; }
            let newname = free[rng.below(free.len())].to_string();
            let f = tree.get(&name).unwrap().clone();
            let with_edits = rng.chance(60) && !f.lines.is_empty();
            let ops = if with_edits { rand_script(rng, &f.lines, rich) } else { f.lines.iter().map(|l| Op::Keep(l.clone())).collect() };
            let nh = if with_edits { count_hunks(&render_hunks(&ops, c.max(1), None, 0)) } else { 0 };
            let corrupt = if fail_here && nh > 0 { Some(rng.below(nh)) } else { None };
            text.extend_from_slice(&render_header(&HeaderSpec { old: Some(&name), new: Some(&newname), dialect: Dialect::Git, p, rename: true,
                old_mode: None, new_mode: None, creating: false, deleting: false, has_hunks: nh > 0 }));
            if nh > 0 { text.extend_from_slice(&render_hunks(&ops, c.max(1), corrupt, 0)); }
            if corrupt.is_some() { ok = false; }
            else { tree.remove(&name); tree.insert(newname.clone(), GenFile { lines: new_of(&ops), mode: f.mode }); }
            touched.push(name); touched.push(newname);
        } else if !existing.is_empty() {
            // mode change only
            let name = existing[rng.below(existing.len())].clone();
            let f = tree.get(&name).unwrap().clone();
            let m = *rng.pick(&MODES);
            text.extend_from_slice(&render_header(&HeaderSpec { old: Some(&name), new: Some(&name), dialect: Dialect::Git, p, rename: false,
                old_mode: Some(f.mode), new_mode: Some(m), creating: false, deleting: false, has_hunks: false }));
            tree.insert(name.clone(), GenFile { lines: f.lines, mode: m });
            touched.push(name);
        }
        if rng.chance(15) { text.extend_from_slice(b"-- \n2.30.0\n\n"); }
    }
    GenPatch { text, p, reverse: false, ok }
}

pub fn rand_tree(rng: &mut Rng, rich: bool) -> Tree {
    let mut t = Tree::new();
    let n = 1 + rng.below(4);
    for _ in 0..n {
        let name = NAMES[rng.below(4)].to_string();
        if t.keys().any(|k| k.starts_with(&format!("{}/", name)) || name.starts_with(&format!("{}/", k))) { continue; }
        let lines = if rng.chance(BIG_FILE_PCT.load(Ordering::Relaxed)) { big_content(rng) } else { rand_content(rng, 8, rich) };
        t.insert(name, GenFile { lines, mode: *rng.pick(&[0o100644u32, 0o100644, 0o100755]) });
    }
    t
}
