//! Engine `D` (C07): the real `FilenameDistributor` on sequences of (name, optional related name).
use std::collections::HashMap;
use std::io::Write;

use crate::apply::parallel::FilenameDistributor;
use crate::rng::Rng;

fn run_case(threads: usize, pairs: &[(u32, Option<u32>)]) -> String {
    let r = std::panic::catch_unwind(|| {
        let mut d = FilenameDistributor::<u32>::new(threads);
        for (a, b) in pairs { d.add(*a, *b); }
        let m = d.build();
        let mut v: Vec<(u32, usize)> = m.into_iter().collect();
        v.sort();
        v
    });
    match r {
        Err(_) => "P".to_string(),
        Ok(v) => if v.is_empty() { "-".to_string() } else { v.iter().map(|(n, w)| format!("{}:{}", n, w)).collect::<Vec<_>>().join(",") },
    }
}

fn emit<W: Write>(out: &mut W, id: usize, threads: usize, pairs: &[(u32, Option<u32>)]) {
    let ps: Vec<String> = pairs.iter().map(|(a, b)| match b { Some(b) => format!("{}:{}", a, b), None => format!("{}:-", a) }).collect();
    let ps = if ps.is_empty() { "-".to_string() } else { ps.join(";") };
    writeln!(out, "D|{}|{}|{}|=>|{}", id, threads, ps, run_case(threads, pairs)).unwrap();
}

pub fn run<W: Write>(out: &mut W, seed: u64, n: usize, opts: &HashMap<String, String>) {
    let names: u32 = opts.get("names").and_then(|s| s.parse().ok()).unwrap_or(4);
    let maxlen: usize = opts.get("len").and_then(|s| s.parse().ok()).unwrap_or(3);
    let mut id = 0;
    // exhaustive part: every sequence of <= maxlen pairs over `names` names, threads 1, 2, 3, 4096
    let mut options: Vec<(u32, Option<u32>)> = Vec::new();
    for a in 0..names { options.push((a, None)); for b in 0..names { options.push((a, Some(b))); } }
    for len in 0..=maxlen {
        let total = options.len().pow(len as u32);
        for code in 0..total {
            let mut c = code;
            let mut pairs = Vec::with_capacity(len);
            for _ in 0..len { pairs.push(options[c % options.len()]); c /= options.len(); }
            for &t in &[1usize, 2, 3, 4096] { emit(out, id, t, &pairs); id += 1; }
        }
    }
    // random long sequences over many names
    let mut rng = Rng::new(seed ^ 0xd157);
    for _ in 0..n {
        let nn = 2 + rng.below(12) as u32;
        let len = rng.below(25);
        let pairs: Vec<(u32, Option<u32>)> = (0..len).map(|_| {
            let a = rng.below(nn as usize) as u32;
            let b = if rng.chance(70) { Some(rng.below(nn as usize) as u32) } else { None };
            (a, b)
        }).collect();
        let t = *rng.pick(&[1usize, 2, 3, 4, 7, 16, 4096]);
        emit(out, id, t, &pairs);
        id += 1;
    }
}

pub fn replay<W: Write>(out: &mut W, opts: &HashMap<String, String>) {
    let text = std::fs::read_to_string(opts.get("file").expect("file=<path>")).unwrap();
    for line in text.lines() {
        let line = line.trim();
        if !line.starts_with("D|") { continue; }
        let f: Vec<&str> = line.split('|').collect();
        let pairs: Vec<(u32, Option<u32>)> = if f[3] == "-" { vec![] } else {
            f[3].split(';').map(|p| { let ab: Vec<&str> = p.split(':').collect();
                (ab[0].parse().unwrap(), if ab[1] == "-" { None } else { Some(ab[1].parse().unwrap()) }) }).collect() };
        emit(out, f[1].parse().unwrap_or(0), f[2].parse().unwrap(), &pairs);
    }
}
