//! Engine `W`: whole `rapidquilt push` invocations (`cmd::run`) on materialised workspaces.
//!
//! One protocol line:  W|id|<initial tree>|<args of invocation 1>|<args 2>|…|=>|<result 1>|<result 2>|…
//! tree    = entries `hexpath:octmode:hexcontent` (files) and `hexpath:d` (directories), ',' separated
//! result  = `exit=<0|1|101>;tree=<entries sorted by path>;newino=<hexpaths, sorted>;same=<0|1>`

use std::collections::{BTreeMap, HashMap};
use std::io::Write;
use std::os::unix::ffi::OsStrExt;
use std::os::unix::fs::{MetadataExt, PermissionsExt};
use std::path::{Path, PathBuf};

use crate::path_engine::{hex, unhex};
use crate::rng::Rng;
use crate::wsgen::*;

#[derive(Clone, Debug, PartialEq)]
pub enum Entry { File(u32, Vec<u8>), Dir }

pub type Snap = BTreeMap<Vec<u8>, Entry>;

#[derive(Clone, Debug, PartialEq)]
pub struct MetaInfo { ino: u64, mtime: i64, mtime_ns: i64, ctime: i64, ctime_ns: i64 }

pub fn materialise(base: &Path, tree: &Snap) {
    for (p, e) in tree {
        let path = base.join(std::ffi::OsStr::from_bytes(p));
        match e {
            Entry::Dir => { std::fs::create_dir_all(&path).unwrap(); }
            Entry::File(mode, content) => {
                if let Some(par) = path.parent() { std::fs::create_dir_all(par).unwrap(); }
                std::fs::write(&path, content).unwrap();
                std::fs::set_permissions(&path, std::fs::Permissions::from_mode(*mode & 0o7777)).unwrap();
            }
        }
    }
}

pub fn snapshot(base: &Path) -> (Snap, BTreeMap<Vec<u8>, MetaInfo>) {
    let mut snap = Snap::new();
    let mut meta = BTreeMap::new();
    fn walk(base: &Path, dir: &Path, snap: &mut Snap, meta: &mut BTreeMap<Vec<u8>, MetaInfo>) {
        let mut es: Vec<PathBuf> = std::fs::read_dir(dir).unwrap().filter_map(|e| e.ok()).map(|e| e.path()).collect();
        es.sort();
        for p in es {
            let rel = p.strip_prefix(base).unwrap().as_os_str().as_bytes().to_vec();
            let md = std::fs::symlink_metadata(&p).unwrap();
            meta.insert(rel.clone(), MetaInfo { ino: md.ino(), mtime: md.mtime(), mtime_ns: md.mtime_nsec(), ctime: md.ctime(), ctime_ns: md.ctime_nsec() });
            if md.is_dir() { snap.insert(rel, Entry::Dir); walk(base, &p, snap, meta); }
            else { snap.insert(rel, Entry::File(md.permissions().mode() & 0o7777, std::fs::read(&p).unwrap_or_default())); }
        }
    }
    walk(base, base, &mut snap, &mut meta);
    (snap, meta)
}

pub fn render_tree(t: &Snap) -> String {
    if t.is_empty() { return "-".to_string(); }
    t.iter().map(|(p, e)| match e {
        Entry::Dir => format!("{}:d", hex(p)),
        Entry::File(m, c) => format!("{}:{:o}:{}", hex(p), m, hex(c)),
    }).collect::<Vec<_>>().join(",")
}

pub fn parse_tree(s: &str) -> Snap {
    let mut t = Snap::new();
    if s == "-" { return t; }
    for e in s.split(',') {
        let f: Vec<&str> = e.split(':').collect();
        if f.len() == 2 { t.insert(unhex(f[0]), Entry::Dir); }
        else { t.insert(unhex(f[0]), Entry::File(u32::from_str_radix(f[1], 8).unwrap(), unhex(f[2]))); }
    }
    t
}

/// run the invocations one after another in a fresh directory; returns the rendered results
fn run_case_inner(tree: &Snap, invocations: &[Vec<String>]) -> Vec<String> {
    let dir = tempfile::Builder::new().prefix("rqw").tempdir_in("/verif/build/tmp").unwrap();
    let base = dir.path().join("w");
    std::fs::create_dir(&base).unwrap();
    materialise(&base, tree);
    // something to hit outside of the working directory (C19)
    std::fs::write(dir.path().join("outside"), b"sentinel\n").unwrap();
    // (the same inode and modification time must still be there afterwards: a file that is removed and written again
    // with the same bytes has been touched)
    let outside_id = { use std::os::unix::fs::MetadataExt; let m = std::fs::metadata(dir.path().join("outside")).unwrap(); (m.ino(), m.mtime(), m.mtime_nsec()) };
    let mut results = Vec::new();
    for (inv_no, inv) in invocations.iter().enumerate() {
        let (before, meta_before) = snapshot(&base);
        // hard-link twin of every regular file (`cp -al`): keeps the old inodes alive, so that a fresh
        // inode is recognisable by its number, and lets us see whether a file was edited in place
        let twin = dir.path().join(format!("twin{}", inv_no));
        std::fs::create_dir(&twin).unwrap();
        let mut twins: Vec<(Vec<u8>, PathBuf)> = Vec::new();
        for (i, (p, e)) in before.iter().enumerate() {
            if let Entry::File(..) = e {
                let t = twin.join(format!("{}", i));
                std::fs::hard_link(base.join(std::ffi::OsStr::from_bytes(p)), &t).unwrap();
                twins.push((p.clone(), t));
            }
        }
        let (_, meta_before) = { let _ = &meta_before; snapshot(&base) };   // link counts changed ctime: re-read
        // one invocation in five runs the way the tool is mostly used: in the working directory itself, without
        // -d (then every path the tool builds is relative: `base_dir` is the empty path).  Which ones: decided by
        // the invocation's text, so that a replay does the same.
        let in_cwd = inv.iter().map(|a| a.bytes().map(|b| b as usize).sum::<usize>()).sum::<usize>() % 5 == 0;
        let old_cwd = std::env::current_dir().unwrap();
        let mut args: Vec<String> = if in_cwd { std::env::set_current_dir(&base).unwrap(); vec!["push".to_string()] }
            else { vec!["push".to_string(), "-d".to_string(), base.to_str().unwrap().to_string()] };
        args.extend(inv.iter().cloned());
        // stderr of the tool goes to a file for this invocation: the "Patch <name> FAILED" line is an observable
        let err_path = dir.path().join(format!("stderr{}", inv_no));
        let err_file = std::fs::File::create(&err_path).unwrap();
        unsafe { libc::dup2(std::os::unix::io::AsRawFd::as_raw_fd(&err_file), 2); }
        let r = std::panic::catch_unwind(|| crate::cmd::run(args.iter()));
        if in_cwd { std::env::set_current_dir(&old_cwd).unwrap(); }
        unsafe { let null = libc::open(b"/dev/null\0".as_ptr() as *const libc::c_char, libc::O_WRONLY); libc::dup2(null, 2); libc::close(null); }
        drop(err_file);
        let err_text = std::fs::read(&err_path).unwrap_or_default();
        let _ = std::fs::remove_file(&err_path);
        // strip colour escape sequences (ESC [ ... m)
        let err_text: Vec<u8> = { let mut o = Vec::new(); let mut i = 0; while i < err_text.len() { if err_text[i] == 0x1b && i + 1 < err_text.len() && err_text[i + 1] == b'[' { i += 2; while i < err_text.len() && err_text[i] != b'm' { i += 1; } i += 1; } else { o.push(err_text[i]); i += 1; } } o };
        let failed_patch: String = err_text.split(|&b| b == b'\n')
            .filter_map(|l| { let l = std::str::from_utf8(l).ok()?; let l = l.strip_prefix("Patch ")?; l.strip_suffix(" FAILED").map(|x| x.to_string()) })
            .next()
            // (should the wording of that line ever change: the first line that speaks of failing and names a patch of the series)
            .or_else(|| {
                let series_names: Vec<String> = match before.get(&b"series".to_vec()) {
                    Some(Entry::File(_, s)) => String::from_utf8_lossy(s).lines().filter(|l| !l.starts_with('#')).filter_map(|l| l.split_whitespace().next().map(|x| x.to_string())).collect(),
                    _ => Vec::new() };
                String::from_utf8_lossy(&err_text).lines().filter(|l| l.to_lowercase().contains("fail"))
                    .find_map(|l| series_names.iter().find(|n| l.split(|c: char| c.is_whitespace() || c == '"' || c == '\'').any(|t| t.trim_end_matches(|c: char| c == ':' || c == ',' || c == '.') == n.as_str() || t == n.as_str())).cloned())
            })
            .map(|n| hex(n.as_bytes())).unwrap_or("-".to_string());
        let exit = match r { Ok(Ok(true)) => 0, Ok(Ok(false)) => 1, Ok(Err(_)) => 1, Err(_) => 101 };
        // which file patches the parallel driver queued for which worker (hook): `thread:patch index:old:new`
        let queues: Vec<String> = crate::verif::queues_report().iter().enumerate().flat_map(|(t, q)| q.iter().map(move |(i, o, n)| {
            let h = |x: &Option<PathBuf>| match x { Some(p) => hex(p.as_os_str().as_bytes()), None => "~".to_string() };
            format!("{}:{}:{}:{}", t, i, h(o), h(n)) }).collect::<Vec<_>>()).collect();
        let (after, meta_after) = snapshot(&base);
        let newino: Vec<String> = after.iter().filter(|(_, e)| matches!(e, Entry::File(..)))
            .filter(|(p, _)| match (meta_before.get(*p), meta_after.get(*p)) { (Some(a), Some(b)) => a.ino != b.ino || !matches!(before.get(*p), Some(Entry::File(..))), _ => true })
            .map(|(p, _)| hex(p)).collect();
        // the twins must still hold the old content and mode
        let mut twin_changed: Vec<String> = Vec::new();
        for (p, t) in &twins {
            if p.starts_with(b".pc/") { continue; }   // quilt metadata is appended to / rewritten in place by design
            if let Some(Entry::File(m, c)) = before.get(p) {
                let md = std::fs::metadata(t).unwrap();
                if &std::fs::read(t).unwrap() != c || (md.permissions().mode() & 0o7777) != *m { twin_changed.push(hex(p)); }
            }
        }
        let same = before == after && meta_before == meta_after;
        // nothing outside of the working directory may appear, disappear or change
        let mut out_names: Vec<String> = std::fs::read_dir(dir.path()).unwrap().filter_map(|e| e.ok()).map(|e| e.file_name().to_string_lossy().into_owned()).collect();
        out_names.sort();
        let outside_ok = out_names == vec!["outside".to_string(), format!("twin{}", inv_no), "w".to_string()]
            && std::fs::read(dir.path().join("outside")).map(|c| c == b"sentinel\n").unwrap_or(false)
            && { use std::os::unix::fs::MetadataExt; std::fs::metadata(dir.path().join("outside")).map(|m| (m.ino(), m.mtime(), m.mtime_nsec()) == outside_id).unwrap_or(false) };
        std::fs::remove_dir_all(&twin).unwrap();
        results.push(format!("exit={};failed={};tree={};newino={};same={};twin={};outside={};queues={}", exit, failed_patch, render_tree(&after),
            if newino.is_empty() { "-".to_string() } else { newino.join(",") }, same as u8,
            if twin_changed.is_empty() { "ok".to_string() } else { twin_changed.join(",") }, if outside_ok { "ok" } else { "changed" },
            if queues.is_empty() { "-".to_string() } else { queues.join(",") }));
    }
    results
}

/// for a `--dry-run` invocation: what a real run of the same invocation on the same tree reports
/// (exit status and failing patch) — C10 says the dry run must predict exactly that
fn real_outcome(tree: &Snap, prior: &[Vec<String>], inv: &[String]) -> String {
    let mut invs: Vec<Vec<String>> = prior.to_vec();
    invs.push(inv.iter().filter(|a| *a != "--dry-run").cloned().collect());
    let (active, script) = crate::verif::sched_pause();
    let res = run_case_inner(tree, &invs);
    crate::verif::sched_resume(active, script);
    let last = res.last().cloned().unwrap_or_default();
    let get = |k: &str| last.split(';').find(|x| x.starts_with(k)).map(|x| x[k.len()..].to_string()).unwrap_or_default();
    format!("rexit={};rfailed={}", get("exit="), get("failed="))
}

pub fn run_case(tree: &Snap, invocations: &[Vec<String>]) -> Vec<String> {
    let mut res = run_case_inner(tree, invocations);
    for (i, inv) in invocations.iter().enumerate() {
        if inv.iter().any(|a| a == "--dry-run") {
            // earlier dry runs change nothing, so the prior state is reached by the earlier real invocations
            let prior: Vec<Vec<String>> = invocations[..i].iter().filter(|p| !p.iter().any(|a| a == "--dry-run")).cloned().collect();
            res[i] = format!("{};{}", res[i], real_outcome(tree, &prior, inv));
        }
    }
    res
}

pub fn emit<W: Write>(out: &mut W, id: usize, tree: &Snap, invocations: &[Vec<String>]) {
    let invs: Vec<String> = invocations.iter().map(|i| if i.is_empty() { "-".to_string() } else { i.join(" ") }).collect();
    let input = format!("W|{}|{}|{}", id, render_tree(tree), invs.join("|"));
    crate::watch::begin(input.clone());
    let res = run_case(tree, invocations);
    crate::watch::end();
    writeln!(out, "{}|=>|{}", input, res.join("|")).unwrap();
}

/// stdout/stderr of the code under test must not mix with the protocol: point fds 1 and 2 to /dev/null
/// and return a writer on the original stdout
pub fn steal_stdout() -> std::fs::File {
    use std::os::unix::io::FromRawFd;
    unsafe {
        let saved = libc::dup(1);
        let null = libc::open(b"/dev/null\0".as_ptr() as *const libc::c_char, libc::O_WRONLY);
        libc::dup2(null, 1);
        libc::dup2(null, 2);
        libc::umask(0o022);
        std::fs::File::from_raw_fd(saved)
    }
}

pub struct Workspace { pub tree: Snap, pub npatches: usize, pub names: Vec<String> }

/// chance (percent) that a generated series lists one of its patches twice — set by the `push` engine only, which then
/// pushes such a workspace with --backup never
pub static DUP_ENTRY_PCT: std::sync::atomic::AtomicU32 = std::sync::atomic::AtomicU32::new(0);

pub fn gen_workspace(rng: &mut Rng, rich: bool, max_patches: usize, allow_fail: bool) -> Workspace { gen_workspace2(rng, rich, max_patches, allow_fail, 45, 40) }

/// `fail_pct`: chance that the series has a failing patch; `more_pct`: chance for each later patch to fail as well
pub fn gen_workspace2(rng: &mut Rng, rich: bool, max_patches: usize, allow_fail: bool, fail_pct: u32, more_pct: u32) -> Workspace {
    let mut gt = rand_tree(rng, rich);
    {
        let mut dirs = INITIAL_DIRS.lock().unwrap();
        dirs.clear();
        for d in ["d", "d/e"] { if gt.keys().any(|k| k.starts_with(&format!("{}/", d))) { dirs.push(d.to_string()); } }
    }
    let mut tree = Snap::new();
    for (n, f) in &gt { tree.insert(n.as_bytes().to_vec(), Entry::File(f.mode & 0o7777, f.lines.concat())); }
    if rng.chance(10) { tree.insert(b"emptydir".to_vec(), Entry::Dir); }
    // (rarely) an EMPTY directory the series may create files in: if one invocation creates a file there and removes it
    // again, the directory's fate is the known finding empty-dir-kept; everything else about such a tree must hold
    if rng.chance(2) && !gt.keys().any(|k| k.starts_with("d/")) { tree.insert(if rng.chance(50) { b"d".to_vec() } else { b"d/e".to_vec() }, Entry::Dir); }
    // (rarely) a directory where a reject file would have to go: writing that reject fails for real
    if rng.chance(2) { if let Some(n) = gt.keys().next().cloned() { tree.insert(format!("{}.rej", n).into_bytes(), Entry::Dir); } }
    let np = 1 + rng.below(max_patches);
    let mut series = Vec::new();
    let mut names = Vec::new();
    let fail_at = if allow_fail && rng.chance(fail_pct) { Some(rng.below(np)) } else { None };
    for i in 0..np {
        // patches behind the first failing one may fail as well (only a parallel or a dry run ever looks at them)
        let fails_here = fail_at == Some(i) || (fail_at.map(|f| i > f).unwrap_or(false) && rng.chance(more_pct));
        let gp = gen_patch(rng, &mut gt, fails_here, rich);
        // (rarely) a patch whose name starts with '#': written with leading whitespace in `series`, it is a
        // patch, not a comment, and must be found again in .pc/applied-patches by the next invocation
        let hash_name = rng.chance(3);
        let name = if hash_name { format!("#p{}.patch", i) } else { format!("p{}.patch", i) };
        if gp.text.is_empty() && rng.chance(70) {
            // nothing generated: an empty patch file is a legal series entry too
        }
        tree.insert(format!("patches/{}", name).into_bytes(), Entry::File(0o644, gp.text.clone()));
        if rng.chance(12) { series.extend_from_slice(b"# a comment\n"); }
        if rng.chance(5) { series.extend_from_slice(b"\n"); }
        // (rarely) a strip count far beyond what any name has: every name becomes empty, the patch is refused
        let huge = rng.chance(1);
        let opt = if huge { rng.pick(&[" -p18446744073709551615".to_string(), " -p4000000000".to_string(), " -p 1099511627776".to_string()]).clone() } else { match gp.p { 1 => if rng.chance(50) { "".to_string() } else { " -p1".to_string() }, p => rng.pick(&[format!(" -p{}", p), format!(" -p {}", p), format!(" --strip={}", p)]).clone() } };
        // (rarely) the option is set off by a non-ASCII white-space character (`split_whitespace` is Unicode-aware)
        let opt = if !opt.is_empty() && rng.chance(4) { format!("{}{}", rng.pick(&["\u{a0}", "\u{3000}", "\u{2003}", "\u{85}"]), &opt[1..]) } else { opt };
        series.extend_from_slice(format!("{}{}{}\n", if hash_name { " " } else { "" }, name, opt).as_bytes());
        names.push(name);
    }
    // (rarely) the series lists a patch a second time (again, or to take it back with -R): a goal given by name means
    // the FIRST line with that name; quilt's backup directory .pc/<patch> cannot tell the two apart, so such
    // workspaces are pushed with --backup never (see `run`)
    let mut np = np;
    if rng.chance(DUP_ENTRY_PCT.load(std::sync::atomic::Ordering::Relaxed)) {
        let again = names[rng.below(names.len())].clone();
        let hash = again.starts_with('#');
        series.extend_from_slice(format!("{}{}{}\n", if hash { " " } else { "" }, again, if rng.chance(60) { " -R" } else { "" }).as_bytes());
        names.push(again);
        np += 1;
    }
    tree.insert(b"series".to_vec(), Entry::File(0o644, series));
    if !tree.contains_key(&b"patches".to_vec()) { tree.insert(b"patches".to_vec(), Entry::Dir); }
    Workspace { tree, npatches: np, names }
}

pub fn gen_options(rng: &mut Rng, threads: &[usize]) -> Vec<String> {
    let mut o: Vec<String> = Vec::new();
    let t = *rng.pick(threads);
    o.push("--threads".into()); o.push(t.to_string());
    match rng.below(6) { 0 => { o.push("--backup".into()); o.push("always".into()); } 1 => { o.push("--backup".into()); o.push("never".into()); }
        2 => { o.push("-b".into()); o.push("onfail".into()); } _ => {} }
    match rng.below(8) { 0 => { o.push("--backup-count".into()); o.push("all".into()); } 1 => { o.push("--backup-count".into()); o.push("0".into()); }
        2 => { o.push("--backup-count".into()); o.push("1".into()); } 3 => { o.push("--backup-count".into()); o.push("2".into()); } _ => {} }
    if rng.chance(25) { o.push("-F".into()); o.push(rng.below(4).to_string()); }
    // (rarely) numbers spelled the way `str::parse::<usize>` accepts or refuses them: `+2` is 2; `2x`, `1_0`, the
    // empty string and 2^64 are not numbers (for --fuzz: silently 0; for --backup-count / --threads: refused)
    if rng.chance(3) {
        // (no empty value and no blank inside a value: an invocation travels through the line protocol as one blank-separated string)
        let v = rng.pick(&["+2", "+0", "2x", "1_0", "18446744073709551616", "00001", "+"]).to_string();
        match rng.below(4) { 0 | 1 => { o.push("-F".into()); o.push(v); } 2 => { o.push("--backup-count".into()); o.push(v); }
            // (a job that asks for single-threaded runs only gets spellings of 1 — or a non-number, which is refused:
            // `+2` would smuggle a parallel run into it)
            _ => { if threads != [1] { o[1] = rng.pick(&["+1", "+2", "x", "01"]).to_string(); } else if rng.chance(30) { o[1] = rng.pick(&["+1", "x", "01"]).to_string(); } } }
    }
    // presentation / loader options: never change the result (C14)
    match rng.below(8) { 0 => {}, 1 => o.push("-v".into()), 2 => { o.push("-v".into()); o.push("-v".into()); } 3 => { o.push("-q".into()); o.push("-v".into()); } _ => o.push("-q".into()) }
    if rng.chance(25) { o.push("--mmap".into()); }
    if rng.chance(10) { o.push("--stats".into()); }
    match rng.below(10) { 0 => { o.push("--color".into()); o.push("always".into()); } 1 => { o.push("--color".into()); o.push("never".into()); } _ => {} }
    if rng.chance(10) { o.push("-A".into()); o.push(rng.pick(&["multiapply", "multiapply", "MultiApply"]).to_string()); }
    // (rarely) an option that may be given only once is given twice: getopts refuses ("Option 'quiet' given more than
    // once"), exit 1, nothing touched; -v and -A may repeat
    if rng.chance(2) {
        match rng.below(6) {
            0 => { o.push("-q".into()); o.push("-q".into()); }
            1 => { o.push("--mmap".into()); o.push("--mmap".into()); }
            2 => { o.push("--stats".into()); o.push("--stats".into()); }
            3 => { o.push("-F".into()); o.push("1".into()); o.push("--fuzz".into()); o.push("1".into()); }
            4 => { o.push("-b".into()); o.push("never".into()); o.push("--backup".into()); o.push("never".into()); }
            _ => { o.push("-v".into()); o.push("-v".into()); o.push("-v".into()); o.push("-A".into()); o.push("multiapply".into()); o.push("-A".into()); o.push("multiapply".into()); }
        }
    }
    // (rarely) an option value the tool must refuse: exit 1, nothing touched
    if rng.chance(2) {
        match rng.below(5) {
            0 => { o.push("--backup".into()); o.push("sometimes".into()); }
            1 => { o.push("--backup-count".into()); o.push("many".into()); }
            2 => { o.push("--color".into()); o.push("maybe".into()); }
            3 => { o.push("-A".into()); o.push("nosuch".into()); }
            _ => { o.push("--nosuchoption".into()); }
        }
    }
    o
}

pub fn gen_goal(rng: &mut Rng, ws: &Workspace) -> Vec<String> {
    // (rarely) `-a` together with an argument, or two arguments: the first free argument decides, wherever `-a` stands
    if rng.chance(4) {
        let n = rng.below(ws.npatches + 2).to_string();
        return match rng.below(4) { 0 => vec!["-a".to_string(), n], 1 => vec![n, "-a".to_string()], 2 => vec![n, rng.below(3).to_string()],
            _ => vec![ws.names[rng.below(ws.names.len())].clone(), "-a".to_string()] };
    }
    // a series that lists a patch twice: often the goal is that very name (it means the first line with the name)
    { let mut n = ws.names.clone(); n.sort(); if let Some(w) = n.windows(2).find(|w| w[0] == w[1]) { if rng.chance(40) { return vec![w[0].clone()]; } } }
    match rng.below(10) {
        0..=4 => vec!["-a".to_string()],
        5 => vec![],
        6 => vec![(rng.below(ws.npatches + 2)).to_string()],
        7 => if rng.chance(80) { vec![(rng.below(ws.npatches + 2)).to_string()] } else { vec![rng.pick(&["+1", "+2", "1_0", "2x", "18446744073709551616", "01"]).to_string()] },
        _ => vec![ws.names[rng.below(ws.names.len())].clone()],
    }
}

const EVIL: [&[u8]; 30] = [b"--- a/f\n", b"+++ b/f\n", b"--- /dev/null\n", b"+++ /dev/null\n", b"diff --git a/f b/f\n", b"index 12..34\n",
    b"@@ -1,2 +1,2 @@\n", b"@@ -0,0 +1,2 @@\n", b"@@ -1 +1 @@\n", b"@@ -18446744073709551615,1 +1,1 @@\n", b"@@ -9223372036854775807,1 +1,1 @@\n",
    b"@@ -9223372036854775808,1 +1,1 @@\n", b"@@ -1,18446744073709551615 +1,1 @@\n", b"@@ -9223372036854775807,0 +1,1 @@\n", b"@@ -1,1 +9223372036854775807,1 @@\n",
    b" a\n", b"-a\n", b"+a\n", b"+b\n", b"-b\n", b" b\n", b"\\ No newline at end of file\n", b"garbage\n", b"+a", b"@@ -1,1", b"old mode 100644\n", b"new mode 100755\n",
    b"rename from f\n", b"rename to g\n", b"@@ -3,1 +2,0 @@\n"];

const UNSAFE_NAMES: [&str; 12] = ["../outside", "../../outside", "/tmp/rq-verif-outside", "a/../../outside", "./../outside", "..", "d/../../outside",
    "\"\\056\\056/outside\"", "\"/tmp/rq-verif-outside\"", "x/../../outside", "", "../w/f"];

fn mutate_state<R>(rng: &mut Rng, ws: &mut Workspace, _r: R) {
    // .pc/applied-patches: prefix, longer, reordered, edited, garbage
    let names = ws.names.clone();
    let k = rng.below(names.len() + 1);
    let mut applied: Vec<String> = names[..k].to_vec();
    match rng.below(10) {
        0 => applied.push("zz.patch".into()),
        1 => { applied.extend(names[k..].iter().cloned()); applied.push("extra.patch".into()); }
        2 => if applied.len() >= 2 { applied.swap(0, 1); },
        3 => if !applied.is_empty() { let i = rng.below(applied.len()); applied[i] = format!("{}x", applied[i]); },
        4 => applied = vec!["# only a comment".into()],
        5 => applied = vec![format!("{} -R -R", names[0])],
        6 => applied = names.iter().rev().cloned().collect(),
        _ => {}
    }
    if rng.chance(80) || !applied.is_empty() {
        let mut b = applied.join("\n").into_bytes();
        if !b.is_empty() { b.push(b'\n'); }
        ws.tree.insert(b".pc/applied-patches".to_vec(), Entry::File(0o644, b));
    }
    // break a patch file at some position
    match rng.below(6) {
        0 => { let i = rng.below(names.len()); ws.tree.remove(&format!("patches/{}", names[i]).into_bytes()); }
        1 => { let i = rng.below(names.len()); ws.tree.insert(format!("patches/{}", names[i]).into_bytes(), Entry::File(0o644, b"--- a/f\n+++ b/f\n@@ -1,2 +1,2 @@\n a\n".to_vec())); }
        2 => { let i = rng.below(names.len()); ws.tree.insert(format!("patches/{}", names[i]).into_bytes(), Entry::File(0o644, b"--- a/f\n+++ b/f\n@@ -1 +1 @@\nbogus\n".to_vec())); }
        _ => {}
    }
}

pub fn run<W: Write>(out: &mut W, seed: u64, n: usize, opts: &HashMap<String, String>) {
    std::fs::create_dir_all("/verif/build/tmp").unwrap();
    let threads: Vec<usize> = opts.get("threads").map(|s| s.split(',').map(|x| x.parse().unwrap()).collect()).unwrap_or(vec![1]);
    let max_inv: usize = opts.get("inv").and_then(|s| s.parse().ok()).unwrap_or(2);
    let pct = |k: &str, d: u32| -> u32 { opts.get(k).and_then(|s| s.parse().ok()).unwrap_or(d) };
    let (dry, evil, state, unsafe_) = (pct("dry", 8), pct("evil", 0), pct("state", 0), pct("unsafe", 0));
    let max_patches: usize = opts.get("patches").and_then(|s| s.parse().ok()).unwrap_or(4);
    crate::wsgen::HUGE_PCT.store(opts.get("huge").and_then(|s| s.parse().ok()).unwrap_or(0), std::sync::atomic::Ordering::Relaxed);
    // (files of several hundred lines only in single-threaded jobs unless asked for: the model of the parallel driver
    // re-runs a worker's save code from its start for every operation — quadratic, minutes for one such workspace)
    let parallel_job = threads.iter().any(|t| *t > 1);
    crate::wsgen::BIG_FILE_PCT.store(opts.get("bigfile").and_then(|s| s.parse().ok()).unwrap_or(if parallel_job { 0 } else { 3 }), std::sync::atomic::Ordering::Relaxed);
    crate::wsgen::LARGE_OF_20.store(opts.get("large").and_then(|s| s.parse().ok()).unwrap_or(1), std::sync::atomic::Ordering::Relaxed);
    let mut rng = Rng::new(seed ^ 0x9u64);
    DUP_ENTRY_PCT.store(pct("dupentry", 4), std::sync::atomic::Ordering::Relaxed);
    for id in 0..n {
        let rich = rng.chance(30);
        let mut ws = gen_workspace(&mut rng, rich, max_patches, true);
        if rng.chance(evil) {
            // replace one patch by a sequence of syntactically meaningful lines with boundary numbers
            let i = rng.below(ws.names.len());
            let mut b = Vec::new();
            for _ in 0..(1 + rng.below(8)) { b.extend_from_slice(EVIL[rng.below(EVIL.len())]); }
            ws.tree.insert(format!("patches/{}", ws.names[i]).into_bytes(), Entry::File(0o644, b));
        }
        if evil > 0 && rng.chance(evil / 3) {
            // a real patch of the series whose first hunk states an extreme old line number: its lines do
            // occur in the file, so the offset search, the failure report and the reject writer all run
            let i = rng.below(ws.names.len());
            let key = format!("patches/{}", ws.names[i]).into_bytes();
            if let Some(Entry::File(m, text)) = ws.tree.get(&key).cloned() {
                if let Some(pos) = text.windows(4).position(|w| w == b"@@ -") {
                    let end = pos + 4 + text[pos + 4..].iter().position(|&b| b == b',' || b == b' ').unwrap_or(0);
                    let num: &[u8] = *rng.pick(&[&b"9223372036854775807"[..], b"9223372036854775806", b"4611686018427387904", b"4294967296", b"18446744073709551615", b"9223372036854775808", b"1000000"]);
                    let mut t = text[..pos + 4].to_vec(); t.extend_from_slice(num); t.extend_from_slice(&text[end..]);
                    ws.tree.insert(key, Entry::File(m, t));
                }
            }
        }
        if rng.chance(unsafe_) {
            let i = rng.below(ws.names.len());
            let nm = UNSAFE_NAMES[rng.below(UNSAFE_NAMES.len())];
            let side = rng.below(3);
            let good = "a/f";
            let (o, nn) = match side { 0 => (nm, good), 1 => (good, nm), _ => (nm, nm) };
            let body: &[u8] = if rng.chance(50) { b"@@ -0,0 +1,1 @@\n+pwned\n" } else { b"@@ -1,1 +1,1 @@\n-sentinel\n+pwned\n" };
            let mut b = if rng.chance(30) { format!("diff --git {} {}\n--- {}\n+++ {}\n", o, nn, o, nn).into_bytes() } else { format!("--- {}\n+++ {}\n", o, nn).into_bytes() };
            b.extend_from_slice(body);
            // git rename of an existing file to (or from) the unsafe name: both names are used then
            let existing: Option<String> = ws.tree.iter().filter(|(p, e)| matches!(e, Entry::File(..)) && !p.starts_with(b"patches/") && p.as_slice() != b"series" && !p.starts_with(b".pc"))
                .filter_map(|(p, _)| String::from_utf8(p.clone()).ok()).filter(|p| !p.contains(' ') && !p.contains('"') && !p.contains('\\')).next();
            let rename_variant = existing.is_some() && !nm.starts_with('"') && !nm.is_empty() && rng.chance(30);
            if let (true, Some(ex)) = (rename_variant, existing) {
                let (from, to) = if rng.chance(80) { (ex.as_str(), nm) } else { (nm, ex.as_str()) };
                b = format!("diff --git a/{} b/{}\nrename from {}\nrename to {}\n", from, to, from, to).into_bytes();
                if rng.chance(50) { b.extend_from_slice(format!("--- a/{}\n+++ b/{}\n@@ -1,1 +1,1 @@\n-sentinel\n+pwned\n", from, to).as_bytes()); }
            }
            if rng.chance(30) { if let Some(Entry::File(_, old)) = ws.tree.get(&format!("patches/{}", ws.names[i]).into_bytes()) { let mut c = old.clone(); c.extend_from_slice(&b); b = c; } }
            ws.tree.insert(format!("patches/{}", ws.names[i]).into_bytes(), Entry::File(0o644, b));
            // any strip level
            let strip = if rename_variant { 1 } else { rng.below(3) };
            let series: Vec<u8> = ws.names.iter().enumerate().map(|(j, n)| if j == i { format!("{} -p{}\n", n, strip) } else { format!("{}\n", n) }).collect::<String>().into_bytes();
            ws.tree.insert(b"series".to_vec(), Entry::File(0o644, series));
        }
        if rng.chance(state) { mutate_state(&mut rng, &mut ws, ()); }
        // (sometimes) the patches live elsewhere (`-p <dir>`, what QUILT_PATCHES is to quilt): every invocation says so
        let pdir: Option<&str> = if rng.chance(6) { Some(*rng.pick(&["debian/patches", "pp", "patches/sub"])) } else { None };
        if let Some(pd) = pdir {
            let moved: Vec<(Vec<u8>, Entry)> = ws.tree.iter().filter(|(k, _)| k.starts_with(b"patches/")).map(|(k, v)| (k.clone(), v.clone())).collect();
            for (k, v) in moved { ws.tree.remove(&k); let mut nk = pd.as_bytes().to_vec(); nk.extend_from_slice(&k[b"patches".len()..]); ws.tree.insert(nk, v); }
            if pd != "patches/sub" { ws.tree.remove(&b"patches".to_vec()); }
            if !ws.tree.keys().any(|k| k.starts_with(format!("{}/", pd).as_bytes())) { ws.tree.insert(pd.as_bytes().to_vec(), Entry::Dir); }
        }
        let ninv = 1 + rng.below(max_inv);
        let mut invs = Vec::new();
        for _ in 0..ninv {
            let mut a = gen_options(&mut rng, &threads);
            if let Some(pd) = pdir { a.push(if rng.chance(50) { "-p".into() } else { "--patch-directory".into() }); a.push(pd.to_string()); }
            // a series that lists a patch twice: no backups (both entries would share .pc/<patch>)
            let dup = { let mut n = ws.names.clone(); n.sort(); n.windows(2).any(|w| w[0] == w[1]) };
            if dup {
                while let Some(i) = a.iter().position(|x| x == "--backup" || x == "-b") { a.remove(i); if i < a.len() { a.remove(i); } }
                a.push("--backup".into()); a.push("never".into());
            }
            if rng.chance(dry) { a.push("--dry-run".into()); }
            let mut g = gen_goal(&mut rng, &ws);
            if state > 0 && rng.chance(15) { g = vec![(*rng.pick(&["nosuch.patch", "p0.patchx", "18446744073709551615", "99"])).to_string()]; }
            a.extend(g);
            invs.push(a);
        }
        emit(out, id, &ws.tree, &invs);
    }
}

pub fn replay<W: Write>(out: &mut W, opts: &HashMap<String, String>) {
    std::fs::create_dir_all("/verif/build/tmp").unwrap();
    let text = std::fs::read_to_string(opts.get("file").expect("file=<path>")).unwrap();
    for line in text.lines() {
        let line = line.trim();
        if !line.starts_with("W|") { continue; }
        let f: Vec<&str> = line.split('|').collect();
        let tree = parse_tree(f[2]);
        let invs: Vec<Vec<String>> = f[3..].iter().take_while(|x| **x != "=>").map(|x| if *x == "-" { vec![] } else { x.split(' ').map(|s| s.to_string()).collect() }).collect();
        emit(out, f[1].parse().unwrap_or(0), &tree, &invs);
    }
}

// ---------------------------------------------------------------------------------------------
// Engine `F` (C18): one invocation, a fault injected at the k-th file-system write operation.
//   F|id|<tree>|<args>|<k>|=>|exit=..;tree=..;op=<kind>:<hexpath>;msg=<0|1>;nops=<n>

fn run_fault_case(tree: &Snap, inv: &[String], k: Option<usize>) -> (String, usize) { let r = run_fault_case2(tree, inv, k, 0); (r.0, r.1) }

/// `limit`: a failing content write lets this many bytes of the file through first (short write, then EFBIG).
/// Also returns the operation trace (kind, path relative to the working directory) and the resulting tree.
fn run_fault_case2(tree: &Snap, inv: &[String], k: Option<usize>, limit: u64) -> (String, usize, Vec<(String, Vec<u8>)>, Snap) {
    let dir = tempfile::Builder::new().prefix("rqf").tempdir_in("/verif/build/tmp").unwrap();
    let base = dir.path().join("w");
    std::fs::create_dir(&base).unwrap();
    materialise(&base, tree);
    let mut args: Vec<String> = vec!["push".to_string(), "-d".to_string(), base.to_str().unwrap().to_string()];
    args.extend(inv.iter().cloned());
    crate::verif::fault_reset(k);
    // content writes fail in the kernel (EFBIG), not in the hook: the error has to come through the
    // buffered writers of the real code (VERIF_SIMULATED_WRITES=1: the hook returns the error itself)
    // (the file size limit is a property of the process: in a parallel run another thread's fault point
    // would lift it before the write happens, so there the hook returns the error itself)
    let parallel = inv.windows(2).any(|w| w[0] == "--threads" && w[1] != "1");
    crate::verif::fault_real_writes(std::env::var("VERIF_SIMULATED_WRITES").is_err() && !parallel);
    crate::verif::fault_write_limit(limit);
    let r = std::panic::catch_unwind(|| crate::cmd::run(args.iter()));
    let (count, failed, trace) = crate::verif::fault_report();
    crate::verif::fault_write_limit(0);
    let trace: Vec<(String, Vec<u8>)> = trace.iter().map(|(k, p)| (k.clone(), p.strip_prefix(&base).unwrap_or(p).as_os_str().as_bytes().to_vec())).collect();
    crate::verif::fault_reset(None);
    let (exit, msg) = match &r {
        Ok(Ok(true)) => (0, String::new()),
        Ok(Ok(false)) => (1, String::new()),
        Ok(Err(e)) => (1, e.iter_chain().map(|c| format!("{}", c)).collect::<Vec<_>>().join(" | ")),
        Err(_) => (101, String::new()),
    };
    let (after, _) = snapshot(&base);
    let (op, named) = match &failed {
        None => ("-".to_string(), 1),
        Some((kind, path)) => {
            let rel = path.strip_prefix(&base).unwrap_or(path);
            let name = rel.file_name().map(|n| n.to_string_lossy().into_owned()).unwrap_or_default();
            // the message must name the file: its name, or for directories the path
            // (the working directory itself has no name to print: then the message must at least say which file was being saved)
            // (messages print paths with `{:?}`: a control character in the name appears escaped, `v\u{b}t`)
            let ok = if name.is_empty() { msg.contains("Failed to save") } else { msg.contains(&name) || msg.contains(format!("{:?}", name).trim_matches('"')) };
            (format!("{}:{}", kind, hex(rel.as_os_str().as_bytes())), ok as u8)
        }
    };
    (format!("exit={};tree={};op={};msg={}", exit, render_tree(&after), op, named), count, trace, after)
}

pub fn run_faults<W: Write>(out: &mut W, seed: u64, n: usize, opts: &HashMap<String, String>) {
    crate::wsgen::BIG_FILE_PCT.store(opts.get("bigfile").and_then(|s| s.parse().ok()).unwrap_or(3), std::sync::atomic::Ordering::Relaxed);
    std::fs::create_dir_all("/verif/build/tmp").unwrap();
    let per_case: usize = opts.get("perws").and_then(|s| s.parse().ok()).unwrap_or(6);
    let threads: Vec<usize> = opts.get("threads").map(|s| s.split(',').map(|x| x.parse().unwrap()).collect()).unwrap_or(vec![1]);
    let mut rng = Rng::new(seed ^ 0xfa17);
    crate::wsgen::BIG_LINE_PCT.store(opts.get("bigline").and_then(|s| s.parse().ok()).unwrap_or(3), std::sync::atomic::Ordering::Relaxed);
    let mut id = 0;
    while id < n {
        let rich = rng.chance(30);
        let ws = gen_workspace(&mut rng, rich, 3, true);
        let mut inv = gen_options(&mut rng, &threads);
        inv.extend(gen_goal(&mut rng, &ws));
        crate::watch::begin(format!("F|{}|{}|{}|0", id, render_tree(&ws.tree), if inv.is_empty() { "-".to_string() } else { inv.join(" ") }));
        let (_, nops, trace, after) = run_fault_case2(&ws.tree, &inv, None, 0);
        crate::watch::end();
        if nops == 0 { continue; }
        // every k if few operations, otherwise a random sample (thorough: perws large enough for all)
        let ks: Vec<usize> = if nops <= per_case { (0..nops).collect() } else { let mut v: Vec<usize> = (0..per_case).map(|_| rng.below(nops)).collect(); v.sort(); v.dedup(); v };
        for k in ks {
            // a failing content write: half of the time part of the file still gets through (a short write)
            let size = match (trace.get(k), trace.get(k).and_then(|(_, p)| after.get(p))) { (Some((kind, _)), Some(Entry::File(_, c))) if kind == "write" => c.len(), _ => 0 };
            // (a path that is written more than once in the run — a quilt backup taken twice for one file — has
            // another length at each write: only the final one is known, so such a write fails completely)
            let written_once = trace.get(k).map(|(_, p)| trace.iter().filter(|(kind, q)| kind == "write" && q == p).count() == 1).unwrap_or(false);
            let limit: u64 = if size >= 2 && written_once && rng.chance(50) { (1 + rng.below(size - 1)) as u64 } else { 0 };
            crate::watch::begin(format!("F|{}|{}|{}|{}", id, render_tree(&ws.tree), if inv.is_empty() { "-".to_string() } else { inv.join(" ") }, k));
            let (res, _, _, _) = run_fault_case2(&ws.tree, &inv, Some(k), limit);
            crate::watch::end();
            writeln!(out, "F|{}|{}|{}|{}|=>|{};nops={};limit={}", id, render_tree(&ws.tree), if inv.is_empty() { "-".to_string() } else { inv.join(" ") }, k, res, nops, limit).unwrap();
            id += 1;
        }
    }
}

pub fn replay_faults<W: Write>(out: &mut W, opts: &HashMap<String, String>) {
    std::fs::create_dir_all("/verif/build/tmp").unwrap();
    let text = std::fs::read_to_string(opts.get("file").expect("file=<path>")).unwrap();
    for line in text.lines() {
        let line = line.trim();
        if !line.starts_with("F|") { continue; }
        let f: Vec<&str> = line.split('|').collect();
        let tree = parse_tree(f[2]);
        let inv: Vec<String> = if f[3] == "-" { vec![] } else { f[3].split(' ').map(|s| s.to_string()).collect() };
        let k: usize = f[4].parse().unwrap();
        let limit: u64 = f.get(6).and_then(|r| r.split(';').find(|x| x.starts_with("limit="))).and_then(|x| x[6..].parse().ok()).unwrap_or(0);
        let (_, nops) = run_fault_case(&tree, &inv, None);
        let (res, _, _, _) = run_fault_case2(&tree, &inv, Some(k), limit);
        writeln!(out, "F|{}|{}|{}|{}|=>|{};nops={};limit={}", f[1], f[2], f[3], k, res, nops, limit).unwrap();
    }
}

// ---------------------------------------------------------------------------------------------
// Engine `W` under forced schedules (C06): `--threads N` invocations with the baton scheduler hook.
// A probe run (free run, one worker at a time) records which workers make how many steps; then the
// same workspace is run again under random permutations of those steps.

fn run_scheduled(tree: &Snap, inv: &[String], script: Option<Vec<String>>) -> (String, Vec<String>, usize) {
    crate::verif::sched_reset(script);
    let res = run_case(tree, &[inv.to_vec()]);
    let (deviations, log) = crate::verif::sched_report();
    crate::verif::sched_reset(None);
    (res[0].clone(), log, deviations)
}

pub fn run_sched<W: Write>(out: &mut W, seed: u64, n: usize, opts: &HashMap<String, String>) {
    crate::wsgen::BIG_FILE_PCT.store(opts.get("bigfile").and_then(|s| s.parse().ok()).unwrap_or(0), std::sync::atomic::Ordering::Relaxed);
    std::fs::create_dir_all("/verif/build/tmp").unwrap();
    let per_ws: usize = opts.get("perws").and_then(|s| s.parse().ok()).unwrap_or(3);
    let mut rng = Rng::new(seed ^ 0x5c4ed);
    let mut id = 0;
    while id < n {
        let rich = rng.chance(20);
        let pct = |k: &str, d: u32| -> u32 { opts.get(k).and_then(|s| s.parse().ok()).unwrap_or(d) };
        let ws = gen_workspace2(&mut rng, rich, 5, true, pct("fail", 45), pct("morefail", 40));
        let threads = *rng.pick(&[2usize, 2, 3, 4, 8, 16]);
        let mut inv = gen_options(&mut rng, &[threads]);
        if rng.chance(opts.get("dry").and_then(|s| s.parse().ok()).unwrap_or(0)) { inv.push("--dry-run".into()); }
        inv.extend(gen_goal(&mut rng, &ws));
        // probe
        crate::watch::begin(format!("W|{}|{}|{}", id, render_tree(&ws.tree), if inv.is_empty() { "-".to_string() } else { inv.join(" ") }));
        let (_, log, _) = run_scheduled(&ws.tree, &inv, Some(vec![]));
        crate::watch::end();
        for j in 0..per_ws {
            // the apply phase and the save phase are separated by a barrier: permute within each phase
            let mut script: Vec<String> = Vec::new();
            for phase in &["a:", "s:"] {
                let mut part: Vec<String> = log.iter().filter(|l| l.starts_with(phase)).cloned().collect();
                match j % 3 {
                    0 => { for i in (1..part.len()).rev() { let k = rng.below(i + 1); part.swap(i, k); } }       // uniform shuffle
                    1 => { part.sort(); if rng.chance(50) { part.reverse(); } }                                   // one worker after the other
                    _ => { // long runs of one worker with a few random swaps: others run ahead
                        part.sort();
                        for _ in 0..(1 + part.len() / 4) { if part.len() > 1 { let a = rng.below(part.len()); let b = rng.below(part.len()); part.swap(a, b); } } }
                }
                script.extend(part);
            }
            crate::watch::begin(format!("W|{}|{}|{}", id, render_tree(&ws.tree), if inv.is_empty() { "-".to_string() } else { inv.join(" ") }));
            let (res, _log2, deviations) = run_scheduled(&ws.tree, &inv, Some(script.clone()));
            crate::watch::end();
            writeln!(out, "W|{}|{}|{}|=>|{};sched={};dev={}", id, render_tree(&ws.tree), if inv.is_empty() { "-".to_string() } else { inv.join(" ") },
                     res, script.len(), deviations).unwrap();
            id += 1;
        }
    }
}
