//! Watchdog: the code under test is supposed to terminate.  Every engine announces the case it is about
//! to run; a case that is still running after `VERIF_CASE_TIMEOUT` seconds (default 40) is written to
//! `VERIF_HANG_FILE` (default /verif/build/tmp/hang-<pid>.case) as a replayable protocol line whose
//! implementation output is `HANG`, and the harness exits with status 3.
use std::sync::{Mutex, Once};
use std::time::{Duration, Instant};

static CURRENT: Mutex<Option<(Instant, String)>> = Mutex::new(None);
static START: Once = Once::new();

fn limit() -> Duration {
    Duration::from_secs(std::env::var("VERIF_CASE_TIMEOUT").ok().and_then(|s| s.parse().ok()).unwrap_or(40))
}

pub fn hang_file() -> String {
    std::env::var("VERIF_HANG_FILE").unwrap_or_else(|_| format!("/verif/build/tmp/hang-{}.case", std::process::id()))
}

/// `input` = the protocol line of the case up to (not including) `|=>|`
pub fn begin(input: String) {
    START.call_once(|| {
        std::thread::spawn(|| loop {
            std::thread::sleep(Duration::from_millis(250));
            let cur = CURRENT.lock().unwrap_or_else(|e| e.into_inner());
            if let Some((since, line)) = &*cur {
                if since.elapsed() > limit() {
                    let _ = std::fs::create_dir_all("/verif/build/tmp");
                    let _ = std::fs::write(hang_file(), format!("{}|=>|HANG\n", line));
                    std::process::exit(3);
                }
            }
        });
    });
    // after a crash of the whole process (abort, stack overflow) the job is run again with this set, to
    // learn which case it was
    if let Ok(path) = std::env::var("VERIF_CURRENT_FILE") {
        let _ = std::fs::write(path, format!("{}|=>|CRASH\n", input));
    }
    *CURRENT.lock().unwrap_or_else(|e| e.into_inner()) = Some((Instant::now(), input));
}

pub fn end() {
    *CURRENT.lock().unwrap_or_else(|e| e.into_inner()) = None;
}
