//! Engine `U` (C11, C12, C01 text level): the real `parse_patch` and `UnifiedPatchWriter` on byte strings.
use std::collections::HashMap;
use std::io::Write;
use std::os::unix::ffi::OsStrExt;
use std::os::unix::fs::PermissionsExt;
use std::panic::{catch_unwind, AssertUnwindSafe};

use libpatch::patch::unified::parser::{parse_patch, ParseError};
use libpatch::patch::unified::writer::UnifiedPatchWriter;
use libpatch::patch::{FilePatchKind, TextFilePatch, TextPatch};

use crate::path_engine::{hex, unhex};
use crate::rng::Rng;

fn opt_hex(x: Option<&[u8]>) -> String { match x { None => "~".to_string(), Some(b) => format!("={}", hex(b)) } }
fn opt_nat(x: Option<u32>) -> String { match x { None => "-".to_string(), Some(n) => n.to_string() } }
fn lines(ls: &[&[u8]]) -> String { if ls.is_empty() { "-".to_string() } else { ls.iter().map(|l| hex(l)).collect::<Vec<_>>().join(",") } }

pub fn dump_fp(f: &TextFilePatch) -> String {
    let k = match f.kind() { FilePatchKind::Modify => "M", FilePatchKind::Create => "C", FilePatchKind::Delete => "D" };
    let hs: Vec<String> = f.hunks().iter().map(|h| format!("[{},{},{},{},fn={},rem={},add={}]",
        h.remove.target_line, h.add.target_line, h.prefix_context, h.suffix_context, hex(h.function),
        lines(&h.remove.content), lines(&h.add.content))).collect();
    format!("fp k={} old{} new{} ren={} om={} nm={} oh{} nh{} hunks={}", k,
        opt_hex(f.old_filename().map(|p| p.as_os_str().as_bytes())), opt_hex(f.new_filename().map(|p| p.as_os_str().as_bytes())),
        f.is_rename() as u8,
        opt_nat(f.old_permissions().map(|p| p.mode())), opt_nat(f.new_permissions().map(|p| p.mode())),
        opt_hex(f.old_hash()), opt_hex(f.new_hash()), hs.join(""))
}

/// the fields C12 talks about: kind, names, rename flag, modes, hashes, per hunk start lines and both sides
pub fn proj(p: &TextPatch) -> String {
    let fps: Vec<String> = p.file_patches.iter().map(|f| {
        let k = match f.kind() { FilePatchKind::Modify => "M", FilePatchKind::Create => "C", FilePatchKind::Delete => "D" };
        let hs: Vec<String> = f.hunks().iter().map(|h| format!("[{},{},rem={},add={}]",
            h.remove.target_line, h.add.target_line, lines(&h.remove.content), lines(&h.add.content))).collect();
        format!("k={},old{},new{},ren={},om={},nm={},oh{},nh{},hunks={}", k,
            opt_hex(f.old_filename().map(|p| p.as_os_str().as_bytes())), opt_hex(f.new_filename().map(|p| p.as_os_str().as_bytes())),
            f.is_rename() as u8, opt_nat(f.old_permissions().map(|p| p.mode())), opt_nat(f.new_permissions().map(|p| p.mode())),
            opt_hex(f.old_hash()), opt_hex(f.new_hash()), hs.join(""))
    }).collect();
    if fps.is_empty() { "-".to_string() } else { fps.join(";") }
}

pub fn dump(p: &TextPatch) -> String {
    let fps: Vec<String> = p.file_patches.iter().map(dump_fp).collect();
    format!("hdr={};{}", hex(p.header), fps.join(";"))
}

fn err_kind(e: &failure::Error) -> String {
    match e.downcast_ref::<ParseError>() {
        Some(pe) => { let s = format!("{:?}", pe); s.split('(').next().unwrap().to_string() }
        None => "Other".to_string(),
    }
}

/// parse, write, parse again (strip 0), write again
fn run_case(bytes: &[u8], strip: usize) -> String {
    let r = catch_unwind(AssertUnwindSafe(|| {
        match parse_patch(bytes, strip, true) {
            Err(e) => format!("ERR {}", err_kind(&e)),
            Ok(p) => {
                let mut w = Vec::new();
                p.write_to(&mut w).unwrap();
                let second = match parse_patch(&w, 0, true) {
                    Err(e) => format!("R=ERR:{} J2=- W2=-", err_kind(&e)),
                    Ok(p2) => { let mut w2 = Vec::new(); p2.write_to(&mut w2).unwrap(); format!("R={} J2={} W2={}", dump(&p2), proj(&p2), hex(&w2)) }
                };
                format!("OK {} W={} J={} {}", dump(&p), hex(&w), proj(&p), second)
            }
        }
    }));
    match r { Ok(s) => s, Err(_) => "PANIC".to_string() }
}

fn emit<W: Write>(out: &mut W, id: usize, bytes: &[u8], strip: usize) {
    let input = format!("U|{}|{}|{}", id, strip, hex(bytes));
    crate::watch::begin(input.clone());
    let res = run_case(bytes, strip);
    crate::watch::end();
    writeln!(out, "{}|=>|{}", input, res).unwrap();
}

const LINES: [&[u8]; 92] = [b"--- \"/dev/null\"\n", b"+++ \"a\\a\\b\\f\\v\"\n", b"--- \"a\\q\"\n", b"+++ \"\\9\"\n", b"--- \"\\400\"\n", b"--- \"abc\n", b"+++ \"x\\", b"index 12..zz\n", b"old mode 10064x\n", b"new file mode 99999999\n", b"deleted file mode 1006\n", b"rename from \n", b"@@ -1,2 +1,2 @@ \xff\n", b"--- \"\\1\"\n",
 b"--- a/f\n", b"+++ b/f\n", b"--- /dev/null\n", b"+++ /dev/null\n", b"--- \"a b\"\n", b"+++ \"q\\142\\n\"\n", b"--- a/f\t2020-01-01 00:00\n",
 b"diff --git a/f b/f\n", b"diff --git a/x b/y\n", b"index 123abc..def456 100644\n", b"index 1..2\n", b"index zz..1\n", b"old mode 100644\n", b"new mode 100755\n",
 b"new mode 1234\n", b"deleted file mode 100644\n", b"new file mode 100644\n", b"rename from x\n", b"rename to y\n", b"copy from x\n", b"copy to y\n", b"GIT binary patch\n",
 b"similarity index 100%\n", b"garbage\n", b"\n", b"@@ -1,2 +1,2 @@\n", b"@@ -1 +1 @@ fn\n", b"@@ -0,0 +1,2 @@\n", b"@@ -1,2 +0,0 @@\n", b"@@ -3,0 +4,1 @@\n", b"@@ -1,1 +1,1 @\n", b"@@ -1,1 +1,1 @@x\n",
 b"@@ -18446744073709551615,1 +1,1 @@\n", b"@@ -18446744073709551616,1 +1,1 @@\n", b"@@ -9223372036854775807,1 +1,1 @@\n", b"@@ -1,1 +1,x @@\n", b"@@ -9223372036854775808,1 +1,1 @@\n", b"@@ -1,18446744073709551615 +1,1 @@\n", b"@@ -1,1 +1,576460752303423488 @@\n", b"@@ -1,1 +9223372036854775808 @@\n", b"@@ -2,1 +2,1 @@\n", b"@@ - bad\n", b"@@ -1,1 +00001,01 @@\n",
 b" a\n", b"-a\n", b"+a\n", b"+b\n", b"-b\n", b" b\n", b"\ta\n", b"\\ No newline at end of file\n", b"\\ x\n", b"x\n", b"+a", b"-", b"@@ -1,1", b"--- ", b"+++ \n", b"---\n", b"--- a/f", b"+\n", b"-\n", b" \n",
 b"--- a/d/g\n", b"+++ b/d/g\n", b"--- \"\"\n", b"+++ \"\\\"x\"\n", b"--- a/\xff\xfe\n", b"@@ -5,0 +5,2 @@\n", b"@@ -4,2 +3,0 @@\n", b"@@ -9223372036854775807,0 +1,1 @@\n", b"--- a//f/\n", b"+++ ./b/../f\n",
 b"diff --git \"a b\" \"c d\"\n", b"old mode 000644\n", b"--- a\\b\n", b" a", b"@@ -1,0 +1,0 @@\n"];

/// every kind of whitespace the parser knows, quote, backslash, control and non-UTF-8 bytes, separators
const NAME_BYTES: [u8; 18] = [b'a', b'b', b'/', b'.', b'-', b' ', b'\t', 0x0b, 0x0c, b'\r', b'"', b'\\', 0xff, 0x01, 0x7f, b'\n', b'#', b'x'];

fn rand_name(rng: &mut Rng) -> Vec<u8> {
    let n = 1 + rng.below(5);
    (0..n).map(|_| NAME_BYTES[rng.below(NAME_BYTES.len())]).collect()
}

/// `name` as a double-quoted C string the parser accepts (letter escapes or octal, at random)
fn c_quote(rng: &mut Rng, name: &[u8]) -> Vec<u8> {
    let mut o = vec![b'"'];
    for &c in name {
        let letter: Option<u8> = match c { 0x07 => Some(b'a'), 0x08 => Some(b'b'), 0x0c => Some(b'f'), b'\n' => Some(b'n'), b'\r' => Some(b'r'), b'\t' => Some(b't'), 0x0b => Some(b'v'), _ => None };
        if c == b'"' || c == b'\\' { o.push(b'\\'); o.push(c); }
        else if c == b'\n' || (c < 0x20 || c >= 0x7f || c == b' ') && rng.chance(70) {
            match letter { Some(l) if rng.chance(50) => { o.push(b'\\'); o.push(l); }, _ => o.extend_from_slice(format!("\\{:03o}", c).as_bytes()) }
        }
        else { o.push(c); }
    }
    o.push(b'"');
    o
}

fn named_file_patch(rng: &mut Rng) -> Vec<u8> {
    let old = rand_name(rng);
    let new = if rng.chance(60) { old.clone() } else { rand_name(rng) };
    let plain = |rng: &mut Rng, n: &[u8]| -> Vec<u8> {
        // bare when that is possible and chosen, else quoted
        if !n.is_empty() && n[0] != b'"' && !n.iter().any(|&c| is_ws(c)) && rng.chance(40) { n.to_vec() } else { c_quote(rng, n) }
    };
    fn is_ws(c: u8) -> bool { c == b' ' || c == 0x0c || c == b'\n' || c == b'\r' || c == b'\t' || c == 0x0b }
    let mut b = Vec::new();
    let git = rng.chance(50);
    let rename = git && old != new && rng.chance(60);
    if git {
        b.extend_from_slice(b"diff --git "); b.extend(plain(rng, &old)); b.push(b' '); b.extend(plain(rng, &new)); b.push(b'\n');
        if rename { b.extend_from_slice(b"rename from "); b.extend(plain(rng, &old)); b.extend_from_slice(b"\nrename to "); b.extend(plain(rng, &new)); b.push(b'\n'); }
        if rng.chance(30) { b.extend_from_slice(b"old mode 100644\nnew mode 100755\n"); }
    }
    let hunks = !rename || rng.chance(60);
    if hunks {
        b.extend_from_slice(b"--- "); b.extend(plain(rng, &old)); if rng.chance(30) { b.extend_from_slice(b"\t2020-01-01 00:00:00"); } b.push(b'\n');
        b.extend_from_slice(b"+++ "); b.extend(plain(rng, &new)); b.push(b'\n');
        b.extend_from_slice(*rng.pick(&[&b"@@ -1 +1 @@\n-a\n+b\n"[..], &b"@@ -1,2 +1,2 @@\n a\n-a\n+b\n"[..], &b"@@ -2,0 +3,1 @@\n+b\n"[..]]));
    }
    b
}

pub fn fixtures() -> Vec<Vec<u8>> {
    let mut v = Vec::new();
    fn walk(dir: &std::path::Path, v: &mut Vec<Vec<u8>>) {
        if let Ok(rd) = std::fs::read_dir(dir) {
            let mut es: Vec<_> = rd.filter_map(|e| e.ok()).map(|e| e.path()).collect();
            es.sort();
            for p in es {
                if p.is_dir() { walk(&p, v); }
                else if p.extension().map(|e| e == "patch").unwrap_or(false) {
                    if let Ok(b) = std::fs::read(&p) { if !b.is_empty() && b.len() < 20000 { v.push(b); } }
                }
            }
        }
    }
    walk(std::path::Path::new("/repo/testdata"), &mut v);
    v
}

pub fn run<W: Write>(out: &mut W, seed: u64, n: usize, opts: &HashMap<String, String>) {
    crate::wsgen::HUGE_PCT.store(opts.get("huge").and_then(|s| s.parse().ok()).unwrap_or(0), std::sync::atomic::Ordering::Relaxed);
    let mut rng = Rng::new(seed ^ 0x9a25e);
    let fix = fixtures();
    let mut id = 0;
    for b in &fix { for &s in &[0usize, 1] { emit(out, id, b, s); id += 1; } }
    for _ in 0..n {
        let k = 1 + rng.below(9);
        let mut b: Vec<u8> = Vec::new();
        if rng.chance(12) {
            // file patches whose names are drawn from the bytes that matter to quoting, written as C strings
            for _ in 0..(1 + rng.below(2)) { b.extend_from_slice(&named_file_patch(&mut rng)); }
            let strip = *rng.pick(&[0usize, 0, 0, 1]);
            emit(out, id, &b, strip);
            id += 1;
            continue;
        }
        if rng.chance(7) {
            // a real diff of a generated file (all header dialects), 30% of them with a hunk that replaces a
            // block of 66-130 lines by as many others
            use crate::wsgen::*;
            let big = rng.chance(12);
            let old = if big { big_content(&mut rng) } else { rand_content(&mut rng, 12, true) };
            let ops = if big { big_script(&mut rng, &old) } else { rand_script(&mut rng, &old, true) };
            let c = *rng.pick(&[0usize, 1, 2, 3]);
            let hs = render_hunks(&ops, c, None, 0);
            if count_hunks(&hs) > 0 {
                let p = *rng.pick(&[0usize, 1, 1, 2]);
                b.extend_from_slice(&render_header(&HeaderSpec { old: Some("d/f"), new: Some("d/f"), dialect: pick_dialect(&mut rng), p, rename: false,
                    old_mode: None, new_mode: None, creating: false, deleting: false, has_hunks: true }));
                b.extend_from_slice(&hs);
                emit(out, id, &b, p);
                id += 1;
                continue;
            }
        }
        for _ in 0..k { b.extend_from_slice(LINES[rng.below(LINES.len())]); }
        let r = rng.below(100);
        if r < 10 && !b.is_empty() { let cut = rng.below(b.len() + 1); b.truncate(cut); }
        else if r < 15 && !b.is_empty() { let j = rng.below(b.len()); b[j] = rng.below(256) as u8; }
        let strip = *rng.pick(&[0usize, 0, 0, 1, 1, 2, 3]);
        emit(out, id, &b, strip);
        id += 1;
    }
    // mutated fixtures
    for _ in 0..(n / 10) {
        let mut b = fix[rng.below(fix.len())].clone();
        if b.len() > 3000 { continue; }
        for _ in 0..(1 + rng.below(3)) {
            if b.is_empty() { break; }
            let j = rng.below(b.len());
            match rng.below(10) { 0..=3 => b[j] = rng.below(256) as u8, 4..=6 => { b.remove(j); }, _ => b.truncate(j) }
        }
        emit(out, id, &b, rng.below(3));
        id += 1;
    }
}

pub fn replay<W: Write>(out: &mut W, opts: &HashMap<String, String>) {
    let text = std::fs::read_to_string(opts.get("file").expect("file=<path>")).unwrap();
    for line in text.lines() {
        let line = line.trim();
        if !line.starts_with("U|") { continue; }
        let f: Vec<&str> = line.split('|').collect();
        emit(out, f[1].parse().unwrap_or(0), &unhex(f[3]), f[2].parse().unwrap());
    }
}
