//! Engine `N` (C14): the `-A multiapply` analysis and the line searcher it uses, which never influence the result
//! of an application but were the home of two seeded panics.
//!   N|id|M|<file>|<patch>|=>|<reports>|<notes>     one file patch applied with the real MultiApplyAnalysis in the
//!                                                   analysis set; notes = `<hunk>:<hex of the note's text>` joined by `,`
//!   N|id|S|<needle csv>|<hay csv>|=>|<positions csv>   the real `Searcher::new(needle).search_in(hay).collect()`
//! (`P` in place of a result: the real code panicked.)
use std::cell::RefCell;
use std::collections::HashMap;
use std::io::Write;
use std::panic::{catch_unwind, AssertUnwindSafe};

use libpatch::analysis::{AnalysisSet, MultiApplyAnalysis, Note};
use libpatch::patch::TextFilePatch;
use libpatch::VerifSearcher as Searcher;

use crate::apply_engine::{gen_patch, reports, FileSpec, PatchSpec};
use crate::path_engine::hex;
use crate::rng::Rng;

fn csv(xs: &[u8]) -> String { if xs.is_empty() { "-".to_string() } else { xs.iter().map(|x| x.to_string()).collect::<Vec<_>>().join(",") } }
fn parse_csv(s: &str) -> Vec<u8> { if s == "-" { vec![] } else { s.split(',').map(|x| x.parse().unwrap()).collect() } }

fn run_multi(file: &FileSpec, patch: &PatchSpec) -> String {
    let r = catch_unwind(AssertUnwindSafe(|| {
        let mut f = file.build_pub();
        let fp = patch.build();
        let mut analyses = AnalysisSet::new();
        analyses.add_default::<MultiApplyAnalysis>();
        let notes: RefCell<Vec<String>> = RefCell::new(Vec::new());
        let cb = |note: &dyn Note, _fp: &TextFilePatch| {
            let mut text: Vec<u8> = Vec::new();
            note.write(&mut text).unwrap();
            notes.borrow_mut().push(format!("{}:{}", note.hunk().map(|h| h.to_string()).unwrap_or("-".to_string()), hex(&text)));
        };
        let rep = fp.apply(&mut f, patch.direction_pub(), patch.fuzz, &analyses, &cb);
        let n = notes.borrow();
        format!("{}|{}", reports(&rep), if n.is_empty() { "-".to_string() } else { n.join(",") })
    }));
    r.unwrap_or_else(|_| "P|P".to_string())
}

fn run_search(needle: &[u8], hay: &[u8]) -> String {
    let r = catch_unwind(AssertUnwindSafe(|| {
        let searcher = Searcher::new(needle);
        let v: Vec<String> = searcher.search_in(hay).map(|p| p.to_string()).collect();
        if v.is_empty() { "-".to_string() } else { v.join(",") }
    }));
    r.unwrap_or_else(|_| "P".to_string())
}

pub fn run<W: Write>(out: &mut W, seed: u64, n: usize, _opts: &HashMap<String, String>) {
    let mut rng = Rng::new(seed ^ 0xa7a1);
    for id in 0..n {
        if rng.chance(40) {
            // the searcher alone: short needles over a tiny alphabet (many, also overlapping, occurrences), the empty
            // needle, needles longer than the haystack, the empty haystack
            let alpha = 1 + rng.below(3);
            let nl = *rng.pick(&[0usize, 1, 1, 2, 2, 3, 4, 7]);
            let hl = *rng.pick(&[0usize, 1, 2, 3, 5, 8, 13, 21]);
            let needle: Vec<u8> = (0..nl).map(|_| 1 + rng.below(alpha) as u8).collect();
            let hay: Vec<u8> = (0..hl).map(|_| 1 + rng.below(alpha) as u8).collect();
            crate::watch::begin(format!("N|{}|S|{}|{}", id, csv(&needle), csv(&hay)));
            let r = run_search(&needle, &hay);
            crate::watch::end();
            writeln!(out, "N|{}|S|{}|{}|=>|{}", id, csv(&needle), csv(&hay), r).unwrap();
        } else {
            // repetitive files so that hunks fit in several places; context-free hunks (empty remove side after
            // fuzz), hunks at the start and the end, failing hunks in front of applying ones
            let alpha = if rng.chance(70) { 2 } else { 3 };
            let len = rng.below(14);
            let lines: Vec<u8> = if rng.chance(50) { let period = 1 + rng.below(3); (0..len).map(|i| 1 + (i % period) as u8).collect() } else { (0..len).map(|_| 1 + rng.below(alpha) as u8).collect() };
            let file = FileSpec { deleted: false, existed: true, perms: None, lines };
            let patch = gen_patch(&mut rng, &file.lines, false, alpha, 3);
            crate::watch::begin(format!("N|{}|M|{}|{}", id, file.render(), patch.render()));
            let r = run_multi(&file, &patch);
            crate::watch::end();
            writeln!(out, "N|{}|M|{}|{}|=>|{}", id, file.render(), patch.render(), r).unwrap();
        }
    }
}

pub fn replay<W: Write>(out: &mut W, opts: &HashMap<String, String>) {
    let text = std::fs::read_to_string(opts.get("file").expect("file=<path>")).unwrap();
    for line in text.lines() {
        let line = line.trim();
        if !line.starts_with("N|") { continue; }
        let f: Vec<&str> = line.split('|').collect();
        if f[2] == "S" {
            let (needle, hay) = (parse_csv(f[3]), parse_csv(f[4]));
            writeln!(out, "N|{}|S|{}|{}|=>|{}", f[1], f[3], f[4], run_search(&needle, &hay)).unwrap();
        } else {
            let (file, patch) = (FileSpec::parse(f[3]), PatchSpec::parse(f[4]));
            writeln!(out, "N|{}|M|{}|{}|=>|{}", f[1], f[3], f[4], run_multi(&file, &patch)).unwrap();
        }
    }
}
