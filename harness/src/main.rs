//! rqharness: runs the real rapidquilt code in-process on generated cases and prints one protocol
//! line per case (input + canonicalised implementation output) for the Lean driver `rqmodel`.
#![allow(dead_code)]

#[path = "/repo/src/rapidquilt/apply/mod.rs"]
mod apply;
#[path = "/repo/src/rapidquilt/arena/mod.rs"]
mod arena;
#[path = "/repo/src/rapidquilt/cmd.rs"]
mod cmd;
#[path = "/repo/src/rapidquilt/verif.rs"]
mod verif;

mod rng;
mod watch;
mod apply_engine;
mod dist_engine;
mod path_engine;
mod parse_engine;
mod series_engine;
mod wsgen;
mod push_engine;
mod diff_engine;
mod analysis_engine;

use std::io::Write;

fn main() {
    // panics of the code under test are outcomes, not noise
    std::panic::set_hook(Box::new(|info| {
        if std::env::var("VERIF_SHOW_PANIC").is_ok() {
            use std::io::Write;
            if let Ok(mut f) = std::fs::OpenOptions::new().create(true).append(true).open("/verif/build/panic.log") {
                let _ = writeln!(f, "{}", info);
            }
        }
    }));
    let args: Vec<String> = std::env::args().collect();
    if args.len() < 2 {
        eprintln!("usage: rqharness <engine> [key=value ...]");
        std::process::exit(2);
    }
    let mut opts = std::collections::HashMap::new();
    for a in &args[2..] {
        if let Some(i) = a.find('=') { opts.insert(a[..i].to_string(), a[i + 1..].to_string()); }
    }
    let seed: u64 = opts.get("seed").and_then(|s| s.parse().ok()).unwrap_or(1);
    let n: usize = opts.get("n").and_then(|s| s.parse().ok()).unwrap_or(1000);
    let engine = args[1].as_str();
    if engine.starts_with("push") || engine.starts_with("diff") {
        // engines that run the whole tool: its stdout/stderr chatter must not mix with the protocol
        let f = push_engine::steal_stdout();
        let mut out = std::io::BufWriter::new(f);
        match engine {
            "push" => push_engine::run(&mut out, seed, n, &opts),
            "push-replay" => push_engine::replay(&mut out, &opts),
            "diff" => diff_engine::run(&mut out, seed, n, &opts),
            "diff-replay" => diff_engine::replay(&mut out, &opts),
            "pushsched" => push_engine::run_sched(&mut out, seed, n, &opts),
            "pushfault" => push_engine::run_faults(&mut out, seed, n, &opts),
            "pushfault-replay" => push_engine::replay_faults(&mut out, &opts),
            other => { eprintln!("unknown engine {}", other); std::process::exit(2); }
        }
        out.flush().unwrap();
        return;
    }
    let stdout = std::io::stdout();
    let mut out = std::io::BufWriter::new(stdout.lock());
    match engine {
        "apply" => apply_engine::run(&mut out, seed, n, &opts),
        "apply-replay" => apply_engine::replay(&mut out, &opts),
        "dist" => dist_engine::run(&mut out, seed, n, &opts),
        "dist-replay" => dist_engine::replay(&mut out, &opts),
        "path" => path_engine::run(&mut out, seed, n, &opts),
        "path-replay" => path_engine::replay(&mut out, &opts),
        "parse" => parse_engine::run(&mut out, seed, n, &opts),
        "parse-replay" => parse_engine::replay(&mut out, &opts),
        "series" => series_engine::run(&mut out, seed, n, &opts),
        "series-replay" => series_engine::replay(&mut out, &opts),
        "fuzzpair" => apply_engine::run_pairs(&mut out, seed, n, &opts),
        "fuzzpair-replay" => apply_engine::replay_pairs(&mut out, &opts),
        "analysis" => analysis_engine::run(&mut out, seed, n, &opts),
        "analysis-replay" => analysis_engine::replay(&mut out, &opts),
        other => { eprintln!("unknown engine {}", other); std::process::exit(2); }
    }
    out.flush().unwrap();
}
