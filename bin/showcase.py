#!/usr/bin/env python3
"""decode W protocol lines: showcase.py cases.txt out.txt [index]"""
import sys
def unhex(s): return b'' if s=='-' else bytes.fromhex(s)
def tree(s):
    d={}
    if s=='-': return d
    for e in s.split(','):
        f=e.split(':')
        d[unhex(f[0])] = 'DIR' if len(f)==2 else (f[1], unhex(f[2]))
    return d
def res(r):
    kv=dict(x.split('=',1) for x in r.split(';'))
    return kv['exit'], tree(kv['tree']), kv.get('newino'), kv.get('same')
cases=open(sys.argv[1]).read().split('\n'); outs=open(sys.argv[2]).read().split('\n')
want=int(sys.argv[3]) if len(sys.argv)>3 else None
n=0
for c,o in zip(cases,outs):
    if ' eq=0' not in o: continue
    n+=1
    if want is not None and n!=want: continue
    f=c.split('|'); sep=f.index('=>')
    invs=f[3:sep]; impl=f[sep+1:]
    model=o.split(' model=',1)[1].split('|')
    print('=== case', f[1], o.split(' model=')[0])
    t0=tree(f[2])
    for p,v in sorted(t0.items()):
        print('  ', p, v if v=='DIR' else (v[0], v[1]))
    for i,(a,ri) in enumerate(zip(invs,impl)):
        print(' inv',i,':',a)
        ei,ti,ni,si=res(ri); 
        if i<len(model):
            em,tm,nm,sm=res(model[i])
            print('   exit impl',ei,'model',em,' same impl',si,'model',sm)
            for p in sorted(set(ti)|set(tm)):
                if ti.get(p)!=tm.get(p): print('   DIFF',p,'\n      impl :',ti.get(p),'\n      model:',tm.get(p))
            if ni!=nm: print('   newino impl',[unhex(x) for x in ni.split(',')] if ni!='-' else [], 'model',[unhex(x) for x in nm.split(',')] if nm!='-' else [])
    if want is None and n>=3: break
