HOOKS = {
    'guard': '--cfg opensuse_rapidquilt_verif',
    'enable': 'harness/.cargo/config.toml sets rustflags = ["--cfg", "opensuse_rapidquilt_verif"]; the harness crate has a path '
              'dependency on /repo and #[path]-includes /repo/src/rapidquilt/{cmd.rs,apply/,arena/}, so every cargo build of the '
              'harness (run by every check) compiles /repo\'s current working tree with the hooks on',
    'baseline_off_cmd': 'cd /repo && cargo test --workspace --no-fail-fast --offline',
    'source_commits': [],
    'add_only': True,
}
ENGINES = [
    {'name': 'rqharness', 'path': 'harness/', 'serves_properties': ['C02', 'C03', 'C04', 'C07', 'C20'],
     'kind_free_text': 'Rust binary calling the real libpatch / rapidquilt code in-process on generated cases; prints one protocol line per case'},
    {'name': 'rqmodel', 'path': 'lean/Main.lean', 'serves_properties': ['C02', 'C03', 'C04', 'C07', 'C20'],
     'kind_free_text': 'compiled Lean driver: runs the executable model and the specifications on the same protocol lines'},
    {'name': 'RQ (Lean library)', 'path': 'lean/RQ/', 'serves_properties': ['C02', 'C03', 'C04', 'C07', 'C20'],
     'kind_free_text': 'Lean 4 model (RQ/Model), specifications (RQ/Spec), lemmas (RQ/Lemmas), property theorems (RQ/Props/Cnn.lean)'},
]
NOTES = ('Technique: machine-checked proof in Lean 4 of theorems about a hand-written executable model, tied to /repo by a '
         'differential correspondence check on every run (DESIGN.md). bin/check <ID> quick|thorough; known findings in known_findings.txt.')
NOT_YET = {}

APPLY_NOTE = ('Trusted: Lean kernel; that RQ/Model/Apply.lean is patch/mod.rs (checked on every run by comparing reports, content and '
              'rollback states of the real TextFilePatch::apply/rollback with the model on generated stacks of patches); hunks are '
              'well-formed as the parser produces them; line type abstracted to an equality-only type (libpatch only compares lines).')
META = {
    'C03': {
        'engine': 'rqharness apply + rqmodel',
        'design_ref': 'DESIGN.md section 5 C03',
        'technique': 'Lean 4 proof (induction over hunks: splice-with-running-offset = offset-free spec) + differential correspondence',
        'text': 'Theorem C03_applyModify (all files, hunk lists, directions, fuzz limits): content after apply_modify = original with '
                'the changed lines of each applied hunk replaced (applySpec of coreEdits), edits ordered and disjoint, failed hunks '
                'contribute nothing, no panic; C03_create/C03_delete for whole-file kinds. The same predicate is evaluated on the '
                'implementation output of every generated case.',
        'note': APPLY_NOTE,
    },
    'C20': {
        'engine': 'rqharness fuzzpair + rqmodel',
        'design_ref': 'DESIGN.md section 5 C20',
        'technique': 'Lean 4 proof (fuzz levels for F are a prefix of those for F\'; first success wins) + differential correspondence on pairs of runs',
        'text': 'Theorems C20_phase1 / C20_applyModify / C20_file: for all file patches, files, directions and F <= F\', an application '
                'that succeeds completely with limit F gives the identical file and hunk reports with limit F\'. Evaluated on pairs '
                'of real applications; model compared with the implementation on both runs.',
        'note': APPLY_NOTE + ' Series level (whole push) is covered as far as a push is a sequence of file-patch applications with one limit.',
    },
    'C02': {
        'engine': 'rqharness apply + rqmodel',
        'design_ref': 'DESIGN.md section 5 C02',
        'technique': 'Lean 4 proof (interleaved scan is key-sorted => find? = brute-force nearest admissible match; fuzz-level monotonicity) + differential correspondence',
        'text': 'Theorems C02_place (search = brute-force specification for every view, file and first guess), C02_hunk / C02_applyModify '
                '(lowest acceptable fuzz level, anchoring, frozen lines, failed-for-no-match means no admissible match at any permitted level), '
                'C02_fuzz0. The relation reportsOK is evaluated on the reports of the real code for every generated case.',
        'note': APPLY_NOTE,
    },
    'C04': {
        'engine': 'rqharness apply + rqmodel',
        'design_ref': 'DESIGN.md section 5 C04',
        'technique': 'Lean 4 proof (inverse edits undo applySpec; recorded previous deleted/permissions) + differential correspondence with LIFO rollback',
        'text': 'Theorems C04_file and C04_stack: rollback after any application (complete or partial, both directions, any fuzz, all kinds, '
                'mode changes) returns exactly the previous file and never aborts; stacks undone LIFO. Checked on the real apply/rollback of stacks of 1-4 patches.',
        'note': APPLY_NOTE + ' Rename-level undo is modelled at driver level.',
    },
    'C07': {
        'engine': 'rqharness dist + rqmodel',
        'design_ref': 'DESIGN.md section 5 C07',
        'technique': 'Lean 4 proof (union-find invariant, equivalence closure) + exhaustive-small and random differential correspondence',
        'text': 'Theorems C07 / C07_total / C07_disjoint for all pair sequences and thread counts: related names (transitively, any order, any '
                'multiplicity) share a worker; entries on different workers share no file name. The real FilenameDistributor is run on every '
                'sequence of <= 3 pairs over 4 names (and long random ones) and must agree with the model and satisfy pairsOK.',
        'note': 'Trusted: Lean kernel; RQ/Model/Dist.lean is FilenameDistributor (HashMap as insertion-ordered list; compared on every run); '
                'that apply_patches feeds exactly (old,new) / single names and dispatches by old-or-new name is part of the parallel driver model (C06).',
    },
}
