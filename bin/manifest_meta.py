HOOKS = {
    'guard': '--cfg opensuse_rapidquilt_verif',
    'enable': 'harness/.cargo/config.toml sets rustflags = ["--cfg", "opensuse_rapidquilt_verif"]; the harness crate has a path '
              'dependency on /repo and #[path]-includes /repo/src/rapidquilt/{cmd.rs,apply/,arena/}, so every cargo build of the '
              'harness (run by every check) compiles /repo\'s current working tree with the hooks on',
    'baseline_off_cmd': 'cd /repo && cargo test --workspace --no-fail-fast --offline',
    'note_add_only': 'all hook code is new and cfg-guarded (src/rapidquilt/verif.rs, fault_point/sched_point calls, two pub re-exports); exactly one existing line was rewritten to host a call: `.and_then(|_| File::create(&real_path))` in save_backup_file became a block with the same expression; one cfg-guarded hook line was later touched by the fix commit 08de233 (error context); 2d315d5 changed four cfg-guarded hook call lines (fault_point("write") -> fault_point_write) and nothing else',
    'source_commits': ['ca1bb5c', 'd1463e7', 'e911188', '0f7972b', '2d315d5', 'e3af4d5', '99f3817', 'ea4d0b8', '009eaf6'],
    'add_only': False,
}
ENGINES = [
    {'name': 'rqharness', 'path': 'harness/', 'serves_properties': ['C02', 'C03', 'C04', 'C05', 'C06', 'C07', 'C08', 'C09', 'C10', 'C11', 'C12', 'C13', 'C14', 'C15', 'C16', 'C17', 'C18', 'C19', 'C20'],
     'kind_free_text': 'Rust binary calling the real libpatch / rapidquilt code in-process on generated cases; prints one protocol line per case'},
    {'name': 'rqmodel', 'path': 'lean/Main.lean', 'serves_properties': ['C02', 'C03', 'C04', 'C05', 'C06', 'C07', 'C08', 'C09', 'C10', 'C11', 'C12', 'C13', 'C14', 'C15', 'C16', 'C17', 'C18', 'C19', 'C20'],
     'kind_free_text': 'compiled Lean driver: runs the executable model and the specifications on the same protocol lines'},
    {'name': 'RQ (Lean library)', 'path': 'lean/RQ/', 'serves_properties': ['C02', 'C03', 'C04', 'C05', 'C06', 'C07', 'C08', 'C09', 'C10', 'C11', 'C12', 'C13', 'C14', 'C15', 'C16', 'C17', 'C18', 'C19', 'C20'],
     'kind_free_text': 'Lean 4 model (RQ/Model), specifications (RQ/Spec), lemmas (RQ/Lemmas), property theorems (RQ/Props/Cnn.lean)'},
]
NOTES = ('Technique: machine-checked proof in Lean 4 of theorems about a hand-written executable model, tied to /repo by a '
         'differential correspondence check on every run (DESIGN.md). bin/check <ID> quick|thorough; known findings in known_findings.txt.')
NOT_YET = {}

APPLY_NOTE = ('Trusted: Lean kernel; that RQ/Model/Apply.lean is patch/mod.rs (checked on every run by comparing reports, content and '
              'rollback states of the real TextFilePatch::apply/rollback with the model on generated stacks of patches); hunks are '
              'well-formed as the parser produces them; line type abstracted to an equality-only type (libpatch only compares lines).')
META = {
    'C03': {
        'engine': 'rqharness apply + rqmodel',
        'design_ref': 'DESIGN.md section 5 C03',
        'technique': 'Lean 4 proof (induction over hunks: splice-with-running-offset = offset-free spec) + differential correspondence',
        'text': 'Theorem C03_applyModify (all files, hunk lists, directions, fuzz limits): content after apply_modify = original with '
                'the changed lines of each applied hunk replaced (applySpec of coreEdits), edits ordered and disjoint, failed hunks '
                'contribute nothing, no panic; C03_create/C03_delete for whole-file kinds. The same predicate is evaluated on the '
                'implementation output of every generated case.',
        'note': APPLY_NOTE,
    },
    'C20': {
        'engine': 'rqharness fuzzpair + rqmodel',
        'design_ref': 'DESIGN.md section 5 C20',
        'technique': 'Lean 4 proof (fuzz levels for F are a prefix of those for F\'; first success wins) + differential correspondence on pairs of runs',
        'text': 'Theorems C20_phase1 / C20_applyModify / C20_file: for all file patches, files, directions and F <= F\', an application '
                'that succeeds completely with limit F gives the identical file and hunk reports with limit F\'. Evaluated on pairs '
                'of real applications; model compared with the implementation on both runs.',
        'note': APPLY_NOTE + ' Series level (whole push) is covered as far as a push is a sequence of file-patch applications with one limit.',
    },
    'C02': {
        'engine': 'rqharness apply + rqmodel',
        'design_ref': 'DESIGN.md section 5 C02',
        'technique': 'Lean 4 proof (interleaved scan is key-sorted => find? = brute-force nearest admissible match; fuzz-level monotonicity) + differential correspondence',
        'text': 'Theorems C02_place (search = brute-force specification for every view, file and first guess), C02_hunk / C02_applyModify '
                '(lowest acceptable fuzz level, anchoring, frozen lines, failed-for-no-match means no admissible match at any permitted level), '
                'C02_fuzz0. The relation reportsOK is evaluated on the reports of the real code for every generated case.',
        'note': APPLY_NOTE,
    },
    'C04': {
        'engine': 'rqharness apply + rqmodel',
        'design_ref': 'DESIGN.md section 5 C04',
        'technique': 'Lean 4 proof (inverse edits undo applySpec; recorded previous deleted/permissions) + differential correspondence with LIFO rollback',
        'text': 'Theorems C04_file and C04_stack: rollback after any application (complete or partial, both directions, any fuzz, all kinds, '
                'mode changes) returns exactly the previous file and never aborts; stacks undone LIFO. Checked on the real apply/rollback of stacks of 1-4 patches.',
        'note': APPLY_NOTE + ' Rename-level undo is modelled at driver level.',
    },
    'C07': {
        'engine': 'rqharness dist + rqmodel',
        'design_ref': 'DESIGN.md section 5 C07',
        'technique': 'Lean 4 proof (union-find invariant, equivalence closure) + exhaustive-small and random differential correspondence',
        'text': 'Theorems C07 / C07_total / C07_disjoint for all pair sequences and thread counts: related names (transitively, any order, any '
                'multiplicity) share a worker; entries on different workers share no file name. The real FilenameDistributor is run on every '
                'sequence of <= 3 pairs over 4 names (and long random ones) and must agree with the model and satisfy pairsOK.',
        'note': 'Trusted: Lean kernel; RQ/Model/Dist.lean is FilenameDistributor (HashMap as insertion-ordered list; compared on every run); '
                'that apply_patches feeds exactly (old,new) / single names and dispatches by old-or-new name is part of the parallel driver model (C06).',
    },
}

PUSH_NOTE = ('Trusted: Lean kernel; that RQ/Model/{Push,FS,Path,Series,Parse,Write,Apply}.lean are the code (checked on every run: the real '
             'cmd::run is executed in-process on generated workspaces, 1-3 consecutive invocations, and exit status + whole resulting tree '
             '(paths, bytes, modes, directories, .pc, *.rej) must equal the model\'s and RQ.Spec.pushSpec\'s); the abstract file system stands '
             'for the kernel (lexical paths, no symlinks); std::path/getopts/HashMap order/BufWriter modelled; diagnostics rendering, '
             'statistics and colours not modelled.')

def _push(pid, technique, text, extra_note=''):
    META[pid] = {'engine': 'rqharness push (+ path/series/parse where listed) + rqmodel', 'design_ref': 'DESIGN.md section 5 ' + pid,
                 'technique': technique, 'text': text, 'note': PUSH_NOTE + extra_note}

_push('C10', 'Lean 4 proof (dry run returns the world unchanged incl. operation trace; same application loop decides the exit) + differential correspondence with full metadata snapshots',
      'Theorems C10_no_write (for every workspace and option set the model performs no file-system operation under --dry-run) and '
      'applyLoop_dry_same_final (same number of applied patches as a real run). Every generated --dry-run invocation of the real tool must '
      'leave paths, bytes, modes, inodes, mtime, ctime untouched and report the model\'s exit status.')
_push('C17', 'Lean 4 proof (case analysis of the plan function; error of the application loop leaves the world untouched) + differential correspondence on mutated quilt state',
      'Theorems: every refusal condition of the property (applied-patches differs from / is longer than the series, goal unknown, goal already '
      'applied, series unreadable, missing or unparseable patch before any failure) gives exit 1 with the world unchanged, no panic. Checked on '
      'workspaces with mutated .pc/applied-patches, goals and broken patch files: exit and tree = pushSpec = model, never exit 101.')
_push('C19', 'Lean 4 proof (keys have only plain components; unsafe names have no key and the file patch is refused before any access) + differential correspondence with a sentinel directory',
      'Theorems C19_key_below / C19_unsafe / C19_refuse / C19_patch_refused for all names and strip levels. The real tool is run on patches with '
      'absolute names, .. before/after the strip point, quoted escapes, on either side, at strip 0-2: nothing above the working directory may '
      'change and exit/tree must equal the model\'s (refusal).', ' Symlinks inside the tree are outside the lexical model.')
_push('C15', 'Lean 4 proof (invariant over all file-system operations of the driver: in-place writes only hit fresh inodes) + hard-link twin check on the real tool',
      'Theorem C15_old_inodes_intact: after any push (no injected fault) every pre-existing file object still reachable has the same path, '
      'bytes and mode; all changed files, rejects and backups are fresh inodes; only .pc/applied-patches is appended in place. Real runs: twins '
      'created with hard links keep bytes and mode; set of re-created inodes = model\'s.')
_push('C16', 'Lean 4 proof (byte-level model of Path::components / strip: stripPath n = drop n components and a leading ./; no two spellings of one path survive stripping; series-line contract; choose) + differential correspondence (series, path, push engines incl. parallel runs)',
      'Theorems C16_strip_components (for all names and n), C16_no_cur, C16_no_alias (two stripped names with the same path on disk are the same cache key), C16_comment_ignored, C16_default_strip, C16_choose_is_name, C16_choose_old_iff. '
      'read_series_file and std::path are compared with their models on every run; whole pushes (incl. split pushes, files created/deleted '
      'earlier in the run, .orig-style differing names) must equal pushSpec.')
META['C11'] = {'engine': 'rqharness parse + series + push(evil) + rqmodel', 'design_ref': 'DESIGN.md section 5 C11',
    'technique': 'Lean 4 proof (fuel of every parser loop is never exhausted; invariants of parsed patches; no NoMatch escapes) + differential correspondence with catch_unwind on boundary inputs',
    'text': 'Theorems C11_fuel, C11_noMatch, C11_wf, C11_alloc about the byte-level model of parser.rs for all byte strings. The real parser, series '
            'reader and whole tool are run on line sequences with boundary numbers (2^63, 2^64-1, 2^64), truncations, byte flips and mutated '
            'fixtures: never a panic, same result class and parse dump as the model.',
    'note': 'Trusted: Lean kernel; RQ/Model/Parse.lean is parser.rs (compared on every run, full dump); stack depth (parser is loop-based, by reading) and OOM outside the model.'}
META['C12'] = {'engine': 'rqharness parse + rqmodel', 'design_ref': 'DESIGN.md section 5 C12',
    'technique': 'Lean 4 proof (parser inverts writer: numbers, names incl. C-string quoting, lines incl. no-newline marker, hunks via the closest-match walk, file headers, header garbage) + differential round trip on the real code',
    'text': 'Theorem C12_partial (all accepted byte strings except two documented classes, proven false for the full statement by C12_full_false) '
            'and C12_fixpoint. parse -> write -> parse -> write of the real code on every generated input must preserve kind, names, rename flag, '
            'modes, hashes, sides, start lines and be a byte fixed point.',
    'note': 'Trusted: Lean kernel; RQ/Model/{Parse,Write}.lean are parser.rs/writer.rs (compared bytewise on every run). Known findings: hunkless-noop-vanishes, dev-null-named-file.'}

_push('C14', 'Lean 4 proof (option model: presentation options filtered out leave configuration, outcome and world unchanged) + differential correspondence under random option combinations',
      'Theorems C14_options / C14_push / C14_same over the token model of the command line. Every generated invocation of the real tool carries a '
      'random combination of -q/-v/-vv/--mmap/--stats/--color/-A multiapply and must equal the option-free model and pushSpec (zero-length '
      'source and patch files, failing series included).', ' Known residue: concurrent modification under --mmap.')
_push('C09', 'Lean 4 proof (range composition and prefix lemmas on the abstract application spec, tied to the driver by the C05 refinement) + multi-invocation differential correspondence',
      'Theorems C09_applyRange_append, C09_failed_is_prefix, applyRange_success_no_rej, C20_series. Every workspace is pushed in 1-4 consecutive '
      'invocations with varying goals; after each one the real tree must equal pushSpec evaluated on the tree left by the previous one, and the model.')
_push('C13', 'Lean 4 proof (reject text = header + failed hunks parses back to exactly those hunks, via the C12 round-trip lemmas) + differential correspondence on failing pushes',
      'Theorems writeRej_eq, C13_rej_parses, C13_no_rej_on_success. Reject files of real failing pushes (any subset of files and hunks, all failure '
      'reasons) must be byte-identical to pushSpec\'s: present exactly for failing file patches of the failing patch whose directory exists.',
      ' Known limitation (documented): two failing file patches for one file overwrite each other\'s reject (dup-entry-rej-overwrite) - mirrored by the specification, see DESIGN.md.')

_push('C05', 'Lean 4 proof (forward simulation: memory cache + LIFO rollback refine the abstract patch-by-patch application; the save phase writes out exactly the cache: saveAll_flush; uses C04, C11, C16_no_alias) + differential correspondence against pushSpec',
      'Theorem C05_apply_refines (application loop = abstract patch-by-patch application) C05_oracle_agrees / C05_disk_is_pushSpec (under prefix-free names and terminated lines — the two known-finding classes, each shown necessary by a decided counterexample — the executable oracle pushSpec that is evaluated on the output of the implementation holds exactly the files the abstract specification and the disk of the driver model hold) and C05_tree_on_disk (whenever the model of the driver finishes without an I/O error, the file found on disk under every non-reject, non-.pc name is exactly the file the abstract specification has under that name after the first k patches, k = the number recorded) for all file systems, configurations and ranges; C05_exit_and_names. Real pushes (multi-file patches, creates, '
      'deletes, renames, mode changes, failure at any position and in any subset of files, all backup modes) must leave exactly pushSpec\'s tree, '
      'rejects, .pc and exit status.')

_push('C08', 'Lean 4 proof (backup loop = LIFO undo chain per patch; last write per backup file = pre-patch state; window arithmetic) + differential correspondence on .pc contents',
      'Theorems C08_calls, C08_backup_is_prestate, C08_backups_total, C08_window, C08_modes for all workspaces. The real .pc/<patch>/<file> '
      'files (bytes and modes) and .pc/applied-patches must equal pushSpec\'s for backup modes always/onfail/never, counts all/0/1/2/100, '
      'renames, creates, deletes, repeated files.')

_push('C18', 'Lean 4 proof (invariant: no driver function turns a failed operation into success; applied-patches recorded last) + fault injection at every output operation of real runs',
      'Theorems C18_fault_is_error / C18_success_means_no_fault / C18_recorded_last for all workspaces, configurations and fault positions k. '
      'Real runs: the k-th write operation (modified file, reject, backup, applied-patches, directory) is failed by the hook for every k; exit must '
      'be 1, no panic, applied-patches untouched, the message must name the file.', ' Faults are injected at operation granularity.')

_push('C06', 'Lean 4 proof (all-schedules invariant of the apply-phase transition system; disjoint name sets => file patches of different workers commute on the abstract tree; save phase: ownership invariant over every interleaving of the workers\' file-system operations) + forced-schedule correspondence via the baton hook',
      'Theorems C06_apply_phase (every schedule), C06_save_phase (every schedule of the workers\' save operations: each worker issues exactly the operations of its solo run and the resulting file system equals, up to inode numbers, the one-worker-after-the-other run of the model\'s save functions), C06_error_index (an error a worker runs into counts exactly when it lies in the patch the push stops at, under every schedule), C06_apply_eq_sequential and C06_parallel_eq_sequential_tree (the model of the whole parallel driver, under every pair of schedules, against the sequential driver: same error/no-error outcome, same k, same reject files, and the same file on disk under every non-reject, non-.pc name), C06_queues_sorted, C06_disjoint, C06_frame, C06_local, C06_commute. The real parallel driver is run '
      'under forced random schedules (scheduling points around the shared atomic and before every file-system write) and with free-running '
      'threads for 2-16 workers; tree, .pc, rejects and exit status must equal the single-threaded specification.',
      ' C06_save_phase assumes that no path written by one worker is a prefix of a path (or parent directory) written by another (decidable; false only when one patch turns a directory into a file or back, known finding dir-file-swap) and that every worker\'s save succeeds alone; the hand-over from the apply phase to the save phase (roll back what ran ahead) and the main thread\'s clean-up are sequential code covered by the C05 theorems; memory-model effects below SC atomics and rayon itself are outside the model.')

META['C01'] = {'engine': 'rqharness diff (+ parse) + rqmodel', 'design_ref': 'DESIGN.md section 5 C01',
    'technique': 'Lean 4 proof (declarative ValidDiff => exact application in both directions; an LCS diff with GNU-style grouping always produces a ValidDiff; bytes/lines round trip; parser reads the plain and git dialects back) + differential correspondence on rendered diffs incl. CLI runs',
    'text': 'Theorems C01_lines_roundtrip, C01_lines_shape, C01_forward, C01_reverse (all valid unified diffs, any context width, both directions, any '
            'fuzz limit: result exactly B / A, offset 0, fuzz 0), C01_diff_valid / C01_diff_applies / C01_diff_applies_rev (for ALL A, B and context widths c the diff mkDiff c (editScript A B) is valid and applies exactly, both ways) and C01_parse_plain. Real parse_patch + TextFilePatch::apply (and a sample through '
            'the command line) on rendered diffs of random (A, B) in all dialects must give exactly B / A with exact reports.',
    'note': 'Trusted: Lean kernel; models of parser.rs / patch/mod.rs / lines_with_endings.rs (compared on every run); the harness renderer as a source of valid diffs. '
            'Known finding: c0-top-of-file (single zero-context hunk at the top of a non-empty file is treated as whole-file create/delete).'}
