#!/bin/bash
# bin/run_refactor.sh <patch.diff> <tag> : apply a behaviour-preserving change to /repo, run all 20 quick checks, undo.
# Every check must exit 0 (no alarm on code where the properties hold).
set -u
P=$1; TAG=$2
cd /verif
git -C /repo diff --quiet || { echo "/repo is not clean"; exit 2; }
git -C /repo apply "$P" || { echo "patch does not apply"; exit 2; }
OUT=/tmp/refrun-$TAG; rm -rf $OUT; mkdir -p $OUT
for i in $(seq -w 1 20); do echo C$i; done | xargs -P 5 -I{} sh -c "bin/check {} quick > $OUT/{}.log 2>&1; echo \"{} rc=\$?\" >> $OUT/summary.txt"
git -C /repo checkout -- .
echo "== $TAG: $(sort $OUT/summary.txt | grep -c 'rc=0') of 20 checks exit 0"
grep -h "VIOLATION" $OUT/*.log | cut -c1-200
sort $OUT/summary.txt | grep -v "rc=0"
