#!/bin/bash
# bin/confirm_seed.sh <ID> [demo-dir] : confirm a seeded change in its scratch worktree /tmp/mut/<ID>
#   unchanged tree: demo passes; changed tree: builds, 49 tests pass, demo fails.  Copies the artefacts to seeded/<ID>/.
set -u
ID=$1; MUT_BASE=${MUT_BASE:-/tmp/mut}; WT=$MUT_BASE/$ID; DEMO=${2:-$MUT_BASE/$ID-demo}; OUT=${SEED_NAME:-$ID}
export RUST_BACKTRACE=0
cd $WT || exit 2
git checkout -q -- . && git clean -fdq -e target
cargo build --offline >/dev/null 2>&1 || { echo "UNCHANGED BUILD FAILED"; exit 2; }
bash $DEMO/demo.sh $WT/target/debug/rapidquilt >$MUT_BASE/$ID.clean.log 2>&1; CLEAN=$?
git apply $DEMO/patch.diff || { echo "PATCH DOES NOT APPLY"; exit 2; }
cargo build --offline >$MUT_BASE/$ID.build.log 2>&1 || { echo "CHANGED BUILD FAILED"; tail -5 $MUT_BASE/$ID.build.log; exit 2; }
TESTS=$(cargo test --offline 2>&1 | grep -E "^test result" | awk '{p+=$4; f+=$6} END {print p" passed "f" failed"}')
bash $DEMO/demo.sh $WT/target/debug/rapidquilt >$MUT_BASE/$ID.mut.log 2>&1; MUT=$?
echo "$ID: demo on unchanged tree: exit $CLEAN; tests with change: $TESTS; demo on changed tree: exit $MUT; lines changed: $(grep -c '^[-+][^-+]' $DEMO/patch.diff)"
if [ $CLEAN -eq 0 ] && [ $MUT -ne 0 ] && [ "$TESTS" = "49 passed 0 failed" ]; then
  mkdir -p /verif/seeded/$OUT && cp $DEMO/patch.diff /verif/seeded/$OUT/ && cp -r $DEMO/demo.sh /verif/seeded/$OUT/ && cp $DEMO/NOTES.md /verif/seeded/$OUT/ 2>/dev/null
  for f in $DEMO/*; do case "$f" in *.rs|*.py|*.patch|*.txt) cp "$f" /verif/seeded/$OUT/;; esac; done
  echo "CONFIRMED -> /verif/seeded/$OUT"
else
  echo "NOT CONFIRMED"; exit 1
fi
