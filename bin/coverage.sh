#!/bin/bash
# bin/coverage.sh : how much of /repo's code do the correspondence engines execute?  Builds the harness with
# -C instrument-coverage (nightly toolchain, own target directory), runs every distinct quick-tier job of
# bin/props.py once and prints the llvm-cov report for /repo/src (written to build/cov/report.txt).
# Not part of any check: a measurement of the reach of the generators (DESIGN.md 0.9).
set -eu
cd /verif/harness
LT=$(dirname "$(find ~/.rustup/toolchains/nightly-x86_64-unknown-linux-gnu -name llvm-profdata | head -1)")
RUSTFLAGS="--cfg opensuse_rapidquilt_verif -Awarnings -C instrument-coverage" CARGO_NET_OFFLINE=true \
  cargo +nightly build --target-dir /verif/build/cov-target >/dev/null 2>&1
cd /verif
mkdir -p build/cov; rm -f build/cov/*.profraw
python3 - > build/cov/jobs.txt <<'PY'
import sys
sys.path.insert(0, '/verif/bin')
import props
seen = []
for pid, cfg in sorted(props.PROPS.items()):
    for j in cfg['jobs']:
        if 'gen' in j or j.get('quick') is None: continue   # (Lean-generated cases / thorough-only jobs: not part of the coverage run)
        a = ' '.join(x.replace('{seed}', '1') for x in j['quick'])
        if a not in seen:
            seen.append(a)
print('\n'.join(seen))
PY
i=0
while read -r line; do
  i=$((i+1))
  LLVM_PROFILE_FILE=/verif/build/cov/j$i-%p.profraw build/cov-target/debug/rqharness $line > /dev/null 2>&1 &
  if [ $((i % 6)) -eq 0 ]; then wait; fi
done < build/cov/jobs.txt
wait
# the corpus (witnesses of repaired defects and known findings)
for c in corpus/*/*.case; do
  eng=$(python3 -c "import sys; sys.path.insert(0,'bin'); import props; print(props.replay_engine('$c'))")
  LLVM_PROFILE_FILE=/verif/build/cov/c-%p.profraw build/cov-target/debug/rqharness $eng file=$c > /dev/null 2>&1 || true
done
$LT/llvm-profdata merge -sparse build/cov/*.profraw -o build/cov/all.profdata
$LT/llvm-cov report build/cov-target/debug/rqharness -instr-profile=build/cov/all.profdata \
  --ignore-filename-regex='(registry|rustc|harness/src|rustlib)' 2>/dev/null | sed 's/  */ /g' | cut -d' ' -f1,8-10 > build/cov/report.txt
cat build/cov/report.txt
rm -f build/cov/*.profraw
