#!/usr/bin/env python3
"""Write MANIFEST.json from bin/props.py + bin/manifest_meta.py (kept in one place so it stays valid)."""
import json, os, sys
ROOT = os.path.dirname(os.path.dirname(os.path.abspath(__file__)))
sys.path.insert(0, os.path.join(ROOT, 'bin'))
import props, manifest_meta as mm

checks = []
for pid in sorted(props.PROPS):
    meta = mm.META[pid]
    checks.append({
        'property_id': pid,
        'quick_cmd': 'bin/check %s quick' % pid,
        'thorough_cmd': 'bin/check %s thorough' % pid,
        'evidence_file': '/verif/evidence/%s.json' % pid,
        'replay_cmd_template': 'bin/check %s --replay {path}' % pid,
        'engine': meta['engine'],
        'level_claimed': {'category': 'proof', 'text': meta['text'], 'design_ref': meta['design_ref']},
        'level_note': meta['note'],
        'technique': meta['technique'],
    })
all_ids = [json.loads(l)['id'] for l in open(os.path.join(ROOT, 'properties.jsonl'))]
na = [{'property_id': i, 'reason': mm.NOT_YET.get(i, 'check not built yet in this session; see DESIGN.md section 5 for the plan')}
      for i in all_ids if i not in props.PROPS]
manifest = {
    'version': 1,
    'setup_cmd': 'bin/check --setup',
    'hooks': mm.HOOKS,
    'engines': mm.ENGINES,
    'checks': checks,
    'notes': mm.NOTES,
    'not_applicable': na,
}
json.dump(manifest, open(os.path.join(ROOT, 'MANIFEST.json'), 'w'), indent=1)
print('MANIFEST.json: %d checks, %d not claimed' % (len(checks), len(na)))
