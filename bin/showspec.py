#!/usr/bin/env python3
"""show where pushSpec and the implementation differ: needs a helper run of the driver printing spec trees"""
import sys, subprocess
def unhex(s): return b'' if s=='-' else bytes.fromhex(s)
def tree(s):
    d={}
    if s=='-': return d
    for e in s.split(','):
        f=e.split(':'); d[unhex(f[0])]='DIR' if len(f)==2 else (f[1], unhex(f[2]))
    return d
cases=open(sys.argv[1]).read().split('\n'); outs=open(sys.argv[2]).read().split('\n')
n=0
for c,o in zip(cases,outs):
    if 'SPEC=FAIL' not in o: continue
    n+=1
    if n>int(sys.argv[3]) if len(sys.argv)>3 else n>2: break
    f=c.split('|'); sep=f.index('=>'); invs=f[3:sep]; impl=f[sep+1:]
    print('=== case',f[1], o.split(' model=')[0])
    for p,v in sorted(tree(f[2]).items()): print('  ',p,v)
    for a,r in zip(invs,impl):
        kv=dict(x.split('=',1) for x in r.split(';'))
        print(' inv:',a,' exit',kv['exit'])
        for p,v in sorted(tree(kv['tree']).items()):
            if not p.startswith(b'patches') and p!=b'series': print('     ',p,v)
