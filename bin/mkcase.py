#!/usr/bin/env python3
"""bin/mkcase.py <dir> '<args of invocation 1>' ['<args 2>' ...]  — print a push-engine case line (W|0|tree|inv...|=>|-) for a directory"""
import sys, os
base = sys.argv[1]
ents = []
for root, dirs, files in os.walk(base):
    dirs.sort()
    for d in dirs:
        p = os.path.relpath(os.path.join(root, d), base)
        if not os.listdir(os.path.join(root, d)):
            ents.append((p.encode(), None, None))
    for f in sorted(files):
        full = os.path.join(root, f)
        p = os.path.relpath(full, base)
        ents.append((p.encode(), os.stat(full).st_mode & 0o7777, open(full, 'rb').read()))
ents.sort()
tree = ','.join(('%s:d' % p.hex()) if m is None else ('%s:%o:%s' % (p.hex(), m, c.hex())) for p, m, c in ents) or '-'
print('W|0|%s|%s|=>|-' % (tree, '|'.join(a if a else '-' for a in sys.argv[2:])))
