"""Per-property configuration of bin/check: theorems that decide the property, harness jobs that tie the
model to the code (quick / thorough), what counts as a non-trivial case, what the evidence says."""
import re

TRUSTED_BASE = [
    "Lean 4.33.0 kernel (thorough: re-checked by leanchecker); axioms per theorem as listed under 'theorems'",
    "no sorry/admit/native_decide/bv_decide/own axioms (bin/check audits the sources and #print axioms)",
    "hand-written Lean model RQ/Model/*.lean mirrors the Rust code function by function; the tie is the "
    "differential correspondence run by this check (harness generators, canonical line protocol, driver parsing)",
    "bin/check verdict logic, bin/extract_consts.py",
]


def apply_nontrivial(line):
    # >= 2 hunks in some patch, or an offset / fuzz / failure in the implementation output
    out = line.split('|=>|')[-1]
    if ';' in out:
        return True
    for m in re.finditer(r'A\((-?\d+),(-?\d+),(-?\d+),(-?\d+),(\d+)\)', out):
        if m.group(3) != '0' or m.group(5) != '0':
            return True
    return 'F(' in out


def apply_hist(c, d):
    out = c.split('|=>|')[-1]
    keys = []
    npatch = out.count('a') and len(re.findall(r'\ba\d+=', out))
    keys.append('stack=%d' % npatch)
    for m in re.finditer(r'A\((-?\d+),(-?\d+),(-?\d+),(-?\d+),(\d+)\)', out):
        keys.append('applied:offset' if m.group(3) != '0' else 'applied:exact')
        if m.group(5) != '0':
            keys.append('applied:fuzz%s' % m.group(5))
    for m in re.finditer(r'F\((\w+)\)', out):
        keys.append('failed:' + m.group(1))
    if '=P' in out:
        keys.append('panic')
    return keys


APPLY_RULE = ("generated: file of 0-9 lines over a 2- or 3-letter alphabet; stack of 1-3 file patches, each generated "
              "against the content the real code produced so far: 1-3 hunks cut from the file with random context "
              "extents (20% corrupted outer context to force fuzz, stated line perturbed by -4..+5), or random hunks, "
              "or whole-file create/delete; direction F/R, fuzz limit 0-3, modes. distinct = by hash of the input; "
              "non-trivial = some patch has >= 2 hunks, or a hunk applied with offset != 0 or fuzz > 0, or a hunk failed")

APPLY_JOBS = [{'quick': ['apply', 'seed={seed}', 'n=60000'],
               'thorough': ['apply', 'seed={seed}', 'n=1500000', 'maxlen=12', 'stack=4', 'hunks=4']}]

PROPS = {
    'C03': {
        'theorems': ['RQ.C03_applyModify', 'RQ.C03_oracle', 'RQ.contentOK_iff', 'RQ.C03_failed_contribute_nothing',
                     'RQ.C03_create', 'RQ.C03_delete'],
        'jobs': APPLY_JOBS,
        'nontrivial': apply_nontrivial,
        'histogram': apply_hist,
        'rule': APPLY_RULE,
        'explanation': "Theorem C03_applyModify: for all files, hunk lists, directions and fuzz limits the content after "
                       "apply_modify is applySpec (original with the changed lines of every applied hunk replaced, "
                       "failed hunks contributing nothing), the edits being ordered and disjoint. The same statement "
                       "(contentOK) is evaluated on the real TextFilePatch::apply output of every generated case, and the "
                       "model's full output (reports, content, rollback states) is compared with the implementation's.",
        'assumptions': ["hunks are well-formed (context counts within side lengths), which is what the parser produces"],
    },
}


PROPS['C20'] = {
    'theorems': ['RQ.C20_phase1', 'RQ.C20_applyModify', 'RQ.C20_file',
                 'RQ.Fuzz.C20_driver_on_disk', 'RQ.Fuzz.C20_driver_same_world', 'RQ.Fuzz.C20_driver_outsidePc',
                 'RQ.Fuzz.C20_specRun', 'RQ.Fuzz.C20_pushSpec', 'RQ.Fuzz.C20_push'],
    'extra_modules': ['RQ.Props.C20Disk'],
    'jobs': [{'quick': ['fuzzpair', 'seed={seed}', 'n=40000'],
              'thorough': ['fuzzpair', 'seed={seed}', 'n=1000000', 'maxlen=12', 'hunks=4']}],
    'nontrivial': lambda l: 'A(' in l.split('|=>|')[-1].split('|')[0] and 'F(' not in l.split('|=>|')[-1].split('|')[0],
    'histogram': lambda c, d: ['pair:' + (re.search(r'C20=(\w+)', d).group(1) if re.search(r'C20=(\w+)', d) else '?')],
    'rule': "generated: file of 0-9 lines over a 2/3-letter alphabet, one file patch as for C02/C03 (cut hunks with corrupted "
            "context, random hunks, create/delete), applied by the real code with fuzz limit F in 0..2 and again with "
            "F' = F+1..F+3. distinct = hash of input; non-trivial = the application with limit F succeeded completely "
            "(only then the property says something)",
    'explanation': "Theorem C20_file: for every file patch, direction, file and F <= F', if apply with limit F succeeds "
                   "completely then apply with F' yields the identical file (and identical hunk reports for Modify). "
                   "The same implication is evaluated on pairs of real TextFilePatch::apply runs; model output compared on both.",
    'assumptions': ["file-patch level; the series level follows because a push applies file patches one after another with the same limit"],
}


PROPS['C02'] = {
    'theorems': ['RQ.key_le_iff', 'RQ.specPlace_some', 'RQ.specPlace_none', 'RQ.C02_place', 'RQ.C02_monotone',
                 'RQ.C02_hunk', 'RQ.C02_applyModify', 'RQ.C02_fuzz0'],
    'jobs': APPLY_JOBS,
    'nontrivial': apply_nontrivial,
    'histogram': apply_hist,
    'rule': APPLY_RULE,
    'explanation': "Theorems: findPlace (first guess + forward/backward interleaved scan) = specPlace (brute force over all "
                   "positions: admissible, matching, least key = nearest to stated line + previous offset, forward wins ties; "
                   "anchored views only at their anchor); C02_hunk: the fuzz loop's report satisfies hunkOK (lowest acceptable "
                   "level; failed-for-no-match => no admissible match at any permitted level, via C02_monotone); "
                   "C02_applyModify threads offset / frozen line over all hunks. reportsOK is evaluated on the real reports.",
    'assumptions': ["hunks are well-formed (context counts within side lengths)",
                    "'expected line' read as stated line + previous hunk's offset, exactly as the property words it"],
}
PROPS['C04'] = {
    'theorems': ['RQ.C04_file', 'RQ.C04_modify', 'RQ.C04_stack'],
    'jobs': APPLY_JOBS,
    'nontrivial': apply_nontrivial,
    'histogram': apply_hist,
    'rule': APPLY_RULE + "; every case rolls the whole stack back in LIFO order with the real TextFilePatch::rollback",
    'explanation': "Theorem C04_file: for every file patch (Modify/Create/Delete, mode change), direction, fuzz, file: if apply "
                   "returns (f', report) then rollback report f' = some f - no panic, same content, deleted flag, permissions. "
                   "C04_stack: any stack undone in reverse order restores the start. On the implementation: state after each "
                   "rollback equals the state before the corresponding apply; no panic outcome.",
    'assumptions': ["hunks are well-formed", "rename-level undo (ModifiedFiles::rollback, move_in/move_out) is part of the driver model (C05), not of this check"],
}


PROPS['C07'] = {
    'theorems': ['RQ.pairsOK_related', 'RQ.pairsOK_mentioned', 'RQ.C07_pairs', 'RQ.C07', 'RQ.C07_total', 'RQ.C07_disjoint'],
    'jobs': [{'quick': ['dist', 'seed={seed}', 'n=30000', 'names=4', 'len=3'],
              'thorough': ['dist', 'seed={seed}', 'n=400000', 'names=5', 'len=4']}] +
            # the real parallel driver: which file patches it queues for which worker (hook record_queues)
            [{'quick': ['push', 'seed={seed}', 'n=3000', 'inv=2', 'threads=2,3,4', 'patches=6'],
              'thorough': ['push', 'seed={seed}', 'n=30000', 'inv=2', 'threads=2,3,4,8', 'patches=8']}],
    'nontrivial': lambda l: (re.search(r'queues=\d', l) is not None) if l.startswith('W|') else (l.split('|')[3].count(';') >= 1 and re.search(r'\d:\d', l.split('|')[3]) is not None),
    'histogram': lambda c, d: (['driver-level:' + (re.search(r'C07=(\w+)', d).group(1) if re.search(r'C07=(\w+)', d) else '?')] if c.startswith('W|') else
                              ['pairs=%d' % min(9, (c.split('|')[3].count(';') + 1 if c.split('|')[3] != '-' else 0)),
                               'threads=' + c.split('|')[2]]),
    'rule': "exhaustive: every sequence of <= 3 (thorough: 4) pairs (name, optional related name) over 4 (thorough: 5) names, "
            "each with thread counts 1, 2, 3, 4096; plus random sequences of up to 24 pairs over 2-13 names, thread counts "
            "1..4096. distinct = hash of input; non-trivial = at least two pairs, one of them relating two names. Plus generated "
            "workspaces pushed with --threads 2-4 (thorough: 8): the parallel driver reports through a hook which file patches it "
            "queued for which worker thread, and every file name must be mentioned by the queue of one worker only",
    'explanation': "Theorem C07: for every sequence of pairs (any order, any multiplicity) and every positive thread count, names "
                   "in the equivalence closure of the pairs get the same worker from FilenameDistributor add/build (union-find "
                   "invariant: parents point to smaller indices, unions are root-to-root, one compression pass reaches roots); "
                   "C07_disjoint: entries on different workers share no name. pairsOK (which implies the closure statement by "
                   "pairsOK_related) is evaluated on the real FilenameDistributor's assignment; exhaustive for short sequences.",
    'assumptions': ["HashMap<T, usize> modelled as insertion-ordered name list", "thread count > 0 (rayon guarantees it)"],
}


def push_nontrivial(line):
    # some patch of the workspace was applied and something interesting happened:
    # a failure (exit=1), a reject file, a backup, a rename or more than one invocation
    out = line.split('|=>|')[-1]
    return 'exit=1' in out or '2e72656a:' in out or out.count('exit=') > 1 or '2e70632f70' in out


def push_hist(c, d):
    out = c.split('|=>|')[-1]
    keys = ['invocations=%d' % out.count('exit=')]
    for r in out.split('|'):
        m = re.search(r'exit=(\d+)', r)
        if m:
            keys.append('exit=' + m.group(1))
        if '2e72656a:' in r:
            keys.append('with-rej')
        if re.search(r'2e70632f70[0-9a-f]*2f', r):
            keys.append('with-backups')
    inv = c.split('|=>|')[0]
    for opt in ('--dry-run', '--mmap', '-v', '-q', '--backup always', '--backup never', '-A multiapply', '--stats', '--color always'):
        if opt in inv:
            keys.append('opt:' + opt)
    m = re.search(r'--threads (\d+)', inv)
    if m:
        keys.append('threads=' + m.group(1))
    # do the hypotheses of the refinement theorems hold for (the first invocation of) this case?
    m = re.search(r' THM=(\w+)', d)
    if m:
        keys.append('refinement-theorem-instance=' + {'ok': 'checked-on-the-executed-model', 'na': 'not-applicable'}.get(m.group(1), m.group(1)))
    m = re.search(r' HYP=(\w+)', d)
    if m:
        keys.append('refinement-theorem-hypotheses=' + {'1': 'hold', '0': 'do-not-hold', 'na': 'not-applicable'}.get(m.group(1), m.group(1)))
    return keys


PUSH_RULE = ("generated workspace: 1-4 files (0-8 lines over a small alphabet, 30% 'rich' lines with \\, -, +, @@, tabs, CR, "
             "0xff, missing final newline; modes 644/755), series of 1-4 patches, each 1-3 file patches produced as unified "
             "diffs (context 0-3) of random edit scripts against the generator's idea of the tree: modify / create / delete / "
             "rename(+edits) / mode change, header dialects plain, timestamps, git, quoted, .orig, strip -p0/-p1/-p2 in various "
             "spellings, garbage between file patches, 45% of workspaces with one deliberately failing patch; 1-3 consecutive "
             "invocations (goals -a, N, name, none; backup modes and counts; fuzz; presentation options). The real cmd::run is "
             "executed in-process in a temp dir with a hard-linked twin of every file and a sentinel outside. distinct = hash of "
             "the input; non-trivial = a failing push, a reject file, a quilt backup or more than one invocation")


def push_jobs(extra_quick, extra_thorough, nq=6000, nt=150000):
    # the thorough tier splits its cases over six processes (seeds <seed>1 .. <seed>6: bin/check runs the jobs of a
    # check side by side); the quick tier runs the first job only
    jobs = [{'quick': ['push', 'seed={seed}', 'n=%d' % nq] + extra_quick,
             'thorough': ['push', 'seed={seed}1', 'n=%d' % (nt // 6)] + extra_thorough}]
    for k in range(2, 7):
        jobs.append({'quick': None, 'thorough': ['push', 'seed={seed}%d' % k, 'n=%d' % (nt // 6)] + extra_thorough})
    return jobs


PUSH_TRUSTED = ["abstract file system RQ/Model/FS.lean stands for the kernel (lexical paths, no symlinks, atomic operations)",
                "std::path, getopts, HashMap order, BufWriter modelled (RQ/Model/Path.lean, Series.lean; validated by the path/series engines)",
                "diagnostics rendering (print_difference_to_closest_match), statistics, colours are not modelled: the model has no "
                "presentation options at all; runs with -v/-vv/--stats/--color/-A must give the model's result"]

PROPS['C10'] = {
    'theorems': ['RQ.Push.C10_no_write', 'RQ.Push.applyLoop_dry_same_final', 'RQ.Push.C10_parallel',
                 'RQ.Push.C10_push_predicts', 'RQ.Push.C10_push_predicts_or_output_failure', 'RQ.Push.C10_push_exit', 'RQ.Push.C10_push_error_iff',
                 'RQ.Push.C10_failingPatch', 'RQ.Push.C10_notAll_iff_failing', 'RQ.Spec.C10_spec_no_write', 'RQ.Spec.C10_spec_exit', 'RQ.Spec.C10_spec_failing'],
    'extra_modules': ['RQ.Props.C10Push'],
    'verdict': 'C10',
    'jobs': push_jobs(['dry=50', 'inv=2', 'unsafe=10'], ['dry=50', 'inv=3', 'unsafe=10'], nq=4000) +
            [{'quick': ['pushsched', 'seed={seed}', 'n=900', 'perws=3', 'dry=100', 'fail=90', 'morefail=85'], 'thorough': ['pushsched', 'seed={seed}1', 'n=1500', 'perws=6', 'dry=100', 'fail=90', 'morefail=85']}] + [{'quick': None, 'thorough': ['pushsched', 'seed={seed}%d' % k, 'n=1500', 'perws=6', 'dry=100', 'fail=90', 'morefail=85']} for k in range(2, 7)],
    'nontrivial': lambda l: '--dry-run' in l.split('|=>|')[0],
    'histogram': push_hist,
    'rule': PUSH_RULE + "; here 50% of the invocations carry --dry-run; non-trivial = has a --dry-run invocation",
    'explanation': "Theorem C10_no_write: with dryRun the model's world (files, inodes, operation trace) after push is the world "
                   "before - for every workspace, failing or not. applyLoop_dry_same_final: the number of applied patches (hence "
                   "exit status and failing patch) is the same as in a real run. On the implementation: for every --dry-run "
                   "invocation the full snapshot (paths, bytes, modes, inodes, mtime, ctime) is identical before and after, and "
                   "exit status and tree equal the model's.",
    'trusted': PUSH_TRUSTED,
    'assumptions': ["atime not observed"],
}
PROPS['C17'] = {
    'theorems': ['RQ.Push.C17_refuse', 'RQ.Push.plan_refuse_differs', 'RQ.Push.plan_refuse_longer', 'RQ.Push.plan_refuse_unknown',
                 'RQ.Push.plan_refuse_already_applied', 'RQ.Push.plan_refuse_no_series', 'RQ.Push.applyLoop_bad_patch',
                 'RQ.Push.C17_apply_error'],
    'verdict': 'SPEC',
    'jobs': push_jobs(['state=85', 'inv=2'], ['state=85', 'inv=3']),
    'nontrivial': lambda l: 'exit=1' in l.split('|=>|')[-1],
    'histogram': push_hist,
    'rule': PUSH_RULE + "; here 85% of the workspaces get a mutated .pc/applied-patches (prefix, longer than series, reordered, "
            "edited, comment only, bad options), unknown / already applied / huge-number goals, and a deleted, truncated or "
            "garbage patch file at a random position; non-trivial = some invocation exits 1",
    'explanation': "Theorems: plan refuses (differs / longer / unknown goal / already applied goal / no series) => push = (error, "
                   "world unchanged), exit 1; a missing or unparseable patch met while everything before applied => error with "
                   "the world untouched. On the implementation: exit status and whole tree must equal pushSpec's (refusal = tree "
                   "unchanged), no crash (exit 101 never), and equal the model's.",
    'trusted': PUSH_TRUSTED,
}
PROPS['C19'] = {
    'theorems': ['RQ.Push.C19_key_below', 'RQ.Push.C19_unsafe', 'RQ.Push.C19_refuse', 'RQ.Push.C19_patch_refused'],
    'verdict': 'C19',
    'jobs': push_jobs(['unsafe=75'], ['unsafe=75', 'inv=2']) +
            # parallel runs: a worker that runs ahead of a failing patch meets the unsafe name (its error is dropped: nothing of it may stay)
            [{'quick': ['push', 'seed={seed}7', 'n=3000', 'unsafe=60', 'threads=2,3,4', 'patches=6'], 'thorough': ['push', 'seed={seed}7', 'n=30000', 'unsafe=60', 'threads=2,3,4,8', 'patches=6']}] +
            [{'quick': ['path', 'seed={seed}', 'n=20000', 'pieces=3'],
                                                                 'thorough': ['path', 'seed={seed}', 'n=400000', 'pieces=4']}],
    'nontrivial': lambda l: l.startswith('P|') or '2e2e' in l or '2f746d70' in l,
    'histogram': push_hist,
    'rule': PUSH_RULE + "; here 75% of the workspaces have a patch whose ---/+++/diff --git names are ../outside, ../../outside, "
            "/tmp/..., a/../../outside, quoted \\056\\056/outside, '..', '' ... on either or both sides, at strip levels 0-2; "
            "plus the path engine (every name of <= 3 pieces from {a,b,..,.,'',a.b,.x,x.,d.e.f} with/without leading '/', strip "
            "0-4, and random byte names): model of components / strip / reject name vs std::path",
    'explanation': "Theorems: a key obtained from a name by safeKey has only plain components (non-empty, not '.', '..', no '/'): "
                   "every operation of the model stays lexically below the working directory; a name with root or '..' component "
                   "or an empty name has no key; a file patch with such a name is refused by apply_one_file_patch before anything "
                   "is loaded or written, and the patch (hence the push) fails with an error. On the implementation: a sentinel "
                   "directory level above the working directory must be untouched after every invocation; exit/tree = model.",
    'trusted': PUSH_TRUSTED + ["symlinks inside the tree that point outside are not modelled (lexical check only, as the property's statement)"],
}
PROPS['C15'] = {
    'theorems': ['RQ.Push.C15_old_inodes_intact'],
    'verdict': 'C15',
    'jobs': push_jobs(['inv=3'], ['inv=4']),
    'nontrivial': push_nontrivial,
    'histogram': push_hist,
    'rule': PUSH_RULE + "; every regular file present before an invocation is hard-linked into a twin directory first (cp -al), "
            "both loaders (--mmap or not)",
    'explanation': "Theorem C15_old_inodes_intact: in the model (abstract FS with inode numbers), after any push without injected "
                   "fault every file object that existed before and is still reachable sits at the same path with the same bytes "
                   "and mode (only .pc/applied-patches is appended in place): changed files, reject files and backups are fresh "
                   "inodes. On the implementation: the hard-linked twin of every file outside .pc keeps bytes and mode after every "
                   "invocation (modify, delete, rename, mode change, rollback after failure, re-saved unchanged files), and the set "
                   "of files with new inode numbers equals the model's.",
    'trusted': PUSH_TRUSTED + ["kernel: unlink + create gives a fresh inode; File::create truncates in place"],
    'assumptions': [".pc (quilt metadata) is outside the claim: applied-patches is appended in place by design"],
}
PROPS['C16'] = {
    'theorems': ['RQ.C16_strip_components', 'RQ.C16_no_cur', 'RQ.C16_no_alias', 'RQ.C16_comment_ignored', 'RQ.C16_default_strip', 'RQ.C16_choose_is_name', 'RQ.C16_choose_old_iff'],
    'verdict': 'SPEC',
    'jobs': push_jobs(['inv=2'], ['inv=3'], nq=4000) + push_jobs(['inv=2', 'threads=2,3,4'], ['inv=3', 'threads=2,3,4,8'], nq=2000, nt=50000) +
            [{'quick': ['series', 'seed={seed}', 'n=30000'], 'thorough': ['series', 'seed={seed}', 'n=600000']},
             {'quick': ['path', 'seed={seed}', 'n=20000', 'pieces=3'], 'thorough': ['path', 'seed={seed}', 'n=400000', 'pieces=4']}],
    'par_verdict': 'C06',
    'nontrivial': lambda l: not l.startswith('W|') or push_nontrivial(l),
    'histogram': lambda c, d: push_hist(c, d) if c.startswith('W|') else ['engine=' + c[:1]],
    'rule': PUSH_RULE + "; series engine: files of 0-4 lines built from patch names, -pN/-p N/--strip=N/--strip N/-R/--reverse, "
            "clusters (-Rp1), duplicates, unknown and malformed options, '--', comments, blank lines, CRLF, invalid UTF-8; path "
            "engine as for C19. Workspaces use -p0/-p1/-p2 patches with .orig-style differing names, files created/deleted "
            "earlier in the run",
    'explanation': "Theorems: stripPath n removes exactly n leading components (components (stripPath n raw) = drop n); comment and "
                   "empty series lines are ignored, a bare name gets strip 1 and no -R; choose returns one of the two names, the "
                   "old one iff that file currently exists (memory first, then disk). Series reader and path model are compared "
                   "with the real read_series_file / std::path on every run; whole pushes must equal pushSpec, whose file-name "
                   "choice is made on the flushed tree (consistency across split pushes).",
    'trusted': PUSH_TRUSTED,
}
PROPS['C11'] = {
    'module': 'RQ.Props.C11',
    'theorems': ['RQ.Parse.C11_fuel', 'RQ.Parse.C11_noMatch', 'RQ.Parse.C11_wf', 'RQ.Parse.C11_alloc', 'RQ.Parse.C11_scan_bounded', 'RQ.Parse.C11_strip_bounded', 'RQ.Parse.C11_strip_huge_refused',
                 'RQ.Push.C11_push_never_panics', 'RQ.Push.C11_push_exit', 'RQ.Push.C11_apply_total', 'RQ.Push.C11_applyOne_never_panics',
                 'RQ.Push.C11_applyPatches_never_panics', 'RQ.Par.C11_par_never_panics', 'RQ.Par.C11_par_driver_never_panics'],
    'extra_modules': ['RQ.Props.C11Push'],
    'verdict': 'C11',
    # (thorough: the parse cases over four processes)
    'jobs': [{'quick': None, 'thorough': ['parse', 'seed={seed}%d' % k, 'n=250000', 'huge=4']} for k in range(2, 5)] +
            [{'quick': ['parse', 'seed={seed}', 'n=60000'], 'thorough': ['parse', 'seed={seed}1', 'n=250000', 'huge=4']},
             {'quick': ['series', 'seed={seed}', 'n=20000'], 'thorough': ['series', 'seed={seed}', 'n=400000']}] +
            push_jobs(['evil=70'], ['evil=70', 'inv=2'], nq=4000, nt=100000),
    'nontrivial': lambda l: True,
    'histogram': lambda c, d: (['engine=' + c[:1], 'impl=' + c.split('|=>|')[-1].split(' ')[0][:12]] if not c.startswith('W|') else push_hist(c, d)),
    'rule': "parse engine: all testdata fixtures; sequences of 1-9 syntactically meaningful lines (file headers, git metadata, hunk "
            "headers with counts / line numbers 0, 1, 2^63-1, 2^63, 2^64-1, 2^64, empty sides, hunk lines, '\\' lines, garbage, "
            "unterminated lines), 10% truncated at a random byte, 5% with a random byte flipped, mutated fixtures; strip 0-3. "
            "series engine as for C16. push engine with 70% of the workspaces carrying one such 'evil' patch file: the whole tool "
            "must exit 0 or 1. distinct = hash of the input (every case counts as non-trivial: the property is about all bytes)",
    'explanation': "Theorems about the model of parser.rs: C11_fuel (the fuel handed to every loop is never exhausted: the parser "
                   "terminates on every byte string), C11_noMatch (the internal NoMatch never reaches the unreachable!() "
                   "conversion), C11_wf (every parsed patch satisfies what later stages assert/unwrap/slice: a name present, "
                   "Create/Delete have exactly one hunk, context counts within the sides, line numbers in 0..2^63), C11_alloc "
                   "(stored lines <= consumed bytes). Implementation: no panic outcome (catch_unwind) on any generated input, "
                   "result class and full parse dump equal the model's; series reader likewise; whole tool never exits by a crash.",
    'trusted': ["stack depth: the Rust parser has no recursion (by reading); out-of-memory on genuinely huge inputs is outside the model"],
}
PROPS['C12'] = {
    'theorems': ['RQ.Write.C12_partial', 'RQ.Write.C12_fixpoint', 'RQ.Write.C12_full_false'],
    'verdict': 'C12',
    'jobs': [{'quick': ['parse', 'seed={seed}', 'n=60000'], 'thorough': ['parse', 'seed={seed}', 'n=1500000', 'huge=4']}],
    'nontrivial': lambda l: '|=>|OK ' in l and 'hunks=[' in l,
    'histogram': lambda c, d: ['impl=' + c.split('|=>|')[-1].split(' ')[0][:12], 'C12=' + (field(d, 'C12') or '?').split(':')[0]],
    'rule': "parse engine as for C11; every accepted input is written with the real UnifiedPatchWriter, parsed again (strip 0) and "
            "written again. non-trivial = the input parses to at least one file patch with a hunk",
    'explanation': "Theorem C12_partial: for every byte string the parser accepts (any strip level, header or not), unless a file "
                   "patch is a hunk-less no-op or carries a real name equal to /dev/null (the two documented classes, for which "
                   "C12_full_false proves the full statement false), the written form is accepted and yields the same header, "
                   "kinds, names, rename flags, modes, hashes and per hunk the same sides, start lines and function; "
                   "C12_fixpoint: writing that patch again gives the same bytes. The same comparison is made on the real "
                   "parse -> write -> parse -> write of every generated input.",
    'assumptions': ["context counts (prefix/suffix) of hunks are not part of the property and may differ after re-parsing"],
}


PROPS['C14'] = {
    'theorems': ['RQ.Args.C14_options', 'RQ.Args.C14_push', 'RQ.Args.C14_same', 'RQ.Args.C14_add', 'RQ.Args.C14_repeated_refused',
                 'RQ.Args.C14_needs_single_once', 'RQ.Args.C14_goal_first_arg',
                 'RQ.Analysis.C14_search_total', 'RQ.Analysis.C14_search_empty_needle', 'RQ.Analysis.C14_search_correct', 'RQ.Analysis.C14_search_mem',
                 'RQ.Analysis.C14_multiapply_places', 'RQ.Analysis.C14_multiapply_stops', 'RQ.Analysis.C14_multiapply_pure'],
    'extra_modules': ['RQ.Props.C14Analysis'],
    'verdict': 'SPEC',
    'jobs': push_jobs(['inv=2'], ['inv=3']) +
            # the -A multiapply analysis and its line searcher: model (RQ/Model/Analysis.lean) against the real code
            [{'quick': ['analysis', 'seed={seed}', 'n=30000'], 'thorough': ['analysis', 'seed={seed}', 'n=1000000']}],
    'nontrivial': lambda l: (l.split('|=>|')[-1] not in ('-', '-|-')) if l.startswith('N|') else (any(o in l.split('|=>|')[0] for o in ('--mmap', ' -v', '--stats', '--color', '-A multiapply')) or ' -q' not in l.split('|=>|')[0]),
    'histogram': lambda c, d: (['analysis:' + ('searcher' if c.split('|')[2] == 'S' else ('notes' if not c.endswith('|-') else 'no-notes'))] if c.startswith('N|') else push_hist(c, d)),
    'rule': PUSH_RULE + "; every invocation draws its presentation/loader options at random: -q | -v | -v -v | -q -v | none, "
            "--mmap (25%), --stats (10%), --color always|never (20%), -A multiapply (10%); trees contain zero-length source "
            "files, series contain zero-length patch files, 45% failing series. non-trivial = an invocation with a "
            "presentation option other than plain -q",
    'explanation': "Theorem C14_options/C14_push/C14_same/C14_add: in the option model, for an invocation getopts accepts (no option "
                   "other than -v/-A given twice: SingleOnce), removing or adding -q, -v, --mmap, --stats, --color X, -A X anywhere "
                   "yields the same configuration, hence the same outcome and world of push - the driver model has no presentation "
                   "parameter at all; C14_repeated_refused: an invocation that repeats such an option is refused, nothing touched "
                   "(as the tool does: 'Option quiet given more than once'). On the implementation: every generated "
                   "invocation, whatever its presentation options, must produce exactly the exit status and tree of that "
                   "option-free model (and of pushSpec).",
    'trusted': PUSH_TRUSTED,
    'assumptions': ["concurrent external modification under --mmap is outside the claim (documented caveat of the tool)"],
}
PROPS['C09'] = {
    'theorems': ['RQ.Abs.C09_applyRange_append', 'RQ.Abs.C09_failed_is_prefix', 'RQ.Abs.applyRange_success_no_rej', 'RQ.Abs.C20_series',
                 'RQ.Compose.C09_oracle_composes', 'RQ.Compose.C09_refused_together', 'RQ.Compose.C09_exit_composes',
                 'RQ.Compose.C09_success_iff', 'RQ.Compose.C09_failing_first_push', 'RQ.Compose.C09_plan_composes',
                 'RQ.Compose.C09_pushSpec_composes', 'RQ.Compose.C09_hash_name_roundtrip', 'RQ.Compose.C09_disk_composes_of_bridge',
                 'RQ.Compose.C09_bridge', 'RQ.Compose.C09_disk_composes', "RQ.Compose.C09_disk_composes'", 'RQ.Compose.C09_driver_keeps_tight',
                 'RQ.Compose.C09_nothing_to_do', 'RQ.Compose.C09_nothing_to_do_driver', 'RQ.Compose.C09_refused_changes_nothing',
                 'RQ.Compose.C09_nothing_to_do_iff', 'RQ.Compose.C09_failed_push_repeats', 'RQ.Compose.C09_failed_push_repeats_files',
                 'RQ.Compose.C09_failed_push_repeats_goal'],
    'extra_modules': ['RQ.Props.C09Disk', 'RQ.Props.C09Fail'],
    'verdict': 'SPEC',
    'jobs': push_jobs(['inv=4', 'patches=5'], ['inv=4', 'patches=6']),
    'nontrivial': lambda l: l.split('|=>|')[-1].count('exit=') > 1,
    'histogram': push_hist,
    'rule': PUSH_RULE + "; here 1-4 consecutive invocations per workspace with goals drawn from -a, none (=1), N in 0..n+1, a "
            "patch name, different thread counts/backup modes per invocation; after each invocation pushSpec is evaluated on "
            "the tree the implementation left, so every split is compared with the specification of a single push from that "
            "state. non-trivial = more than one invocation",
    'explanation': "Theorems on the specification of the application phase (RQ.Abs.applyRange, which RQ.Abs.C05_apply_refines "
                   "ties to the driver model): applying r1 ++ r2 = applying r1, then r2 on the resulting tree if r1 applied "
                   "completely (C09_applyRange_append); a failing range leaves exactly the tree of its applied prefix "
                   "(C09_failed_is_prefix), so the next push starts from the same state and stops at the same patch; "
                   "C20_series. Real runs: each workspace is pushed in 1-4 invocations and every intermediate and final tree, "
                   ".pc and reject files must equal pushSpec and the model.",
    'trusted': PUSH_TRUSTED,
    'assumptions': ["that the tree between two invocations equals the flushed in-memory state is established by the correspondence run (model saveAll vs real tree), not by a theorem"],
}
PROPS['C13'] = {
    'theorems': ['RQ.Write.writeRej_eq', 'RQ.Write.C13_rej_parses', 'RQ.Write.C13_no_rej_on_success', 'RQ.Write.C13_rej_on_disk', 'RQ.Write.C13_rej_on_disk_once', 'RQ.Write.C13_rej_no_dir'],
    'verdict': 'C13',
    'jobs': push_jobs(['inv=2'], ['inv=3'], nq=5000) + push_jobs(['inv=1', 'bigfile=15', 'large=5'], ['inv=2', 'bigfile=15', 'large=5', 'huge=30'], nq=1000, nt=20000),
    'nontrivial': lambda l: '2e72656a:' in l.split('|=>|')[-1],
    'histogram': push_hist,
    'rule': PUSH_RULE + "; failures are injected in any file patch of the failing patch (corrupted context or removed lines, "
            "create over existing, delete mismatch, missing file) and several file patches of it may fail. non-trivial = a "
            "reject file was written",
    'explanation': "Theorem C13_rej_parses: for every file patch that came out of the parser and every report with a failed hunk, "
                   "the reject text (header + failed hunks) parses to exactly one file patch with the same names, rename flag, "
                   "modes, hashes whose hunks are the failed hunks in order with the same sides and start lines; "
                   "C13_no_rej_on_success: a completely applied range renders no reject. Which rejects exist and their bytes: "
                   "pushSpec (rejects only for failing file patches of the failing patch, if the directory exists in the final "
                   "tree) is compared with the real tree on every run.",
    'trusted': PUSH_TRUSTED,
}


PROPS['C05'] = {
    'theorems': ['RQ.Abs.C05_apply_refines', 'RQ.Abs.C05_tree_on_disk', 'RQ.Abs.C05_oracle_agrees', 'RQ.Abs.C05_disk_is_oracle', 'RQ.Abs.C05_pushSpec_agrees', 'RQ.Abs.C05_disk_is_pushSpec', 'RQ.Abs.C05_exit_and_names',
                 'RQ.Refine2.C05_push_refines_pushSpec', 'RQ.Refine2.C05_push_refines_pushSpec_any', 'RQ.Refine2.C05_push_refines_pushSpec_files', 'RQ.Refine2.C05_push_refines_pushSpec_whole', 'RQ.Refine2.C05_push_refines_pushSpec_all',
                 'RQ.Refine2.C05_driver_succeeds', 'RQ.Refine2.C05_push_is_pushSpec', 'RQ.Refine2.C05_push_is_pushSpec_all', 'RQ.Refine2.C05_exit_zero_iff', 'RQ.Refine2.C05_whole_range_applies',
                 'RQ.HypsSound.hypsHold_sound', 'RQ.Refine2.C05_checked_instance', 'RQ.Refine2.C05_checked_exit_zero_iff'],
    'extra_modules': ['RQ.Props.C05Refine', 'RQ.Props.C08Refine', 'RQ.Props.C05Complete', 'RQ.Props.C05Hyps'],
    'verdict': 'SPEC',
    'jobs': push_jobs(['inv=2', 'patches=5'], ['inv=3', 'patches=6'], nq=4000) +
            [{'quick': ['pushsched', 'seed={seed}', 'n=900', 'perws=3', 'fail=75', 'morefail=70'], 'thorough': ['pushsched', 'seed={seed}1', 'n=1500', 'perws=6', 'fail=75', 'morefail=70']}] + [{'quick': None, 'thorough': ['pushsched', 'seed={seed}%d' % k, 'n=1500', 'perws=6', 'fail=75', 'morefail=70']} for k in range(2, 7)],
    'par_verdict': 'C06',
    'nontrivial': push_nontrivial,
    'histogram': push_hist,
    'rule': PUSH_RULE + "; plus parallel runs (--threads 2-16) under forced random schedules of the baton hook (see C06), which must leave the same tree / .pc / exit status",
    'explanation': "Theorem C05_apply_refines: for every file system, configuration and range, the driver model's application "
                   "loop (ModifiedFile cache, partial application of the failing patch, LIFO rollback incl. rename undo, reject "
                   "rendering) computes exactly RQ.Abs.applyRange - file patches applied to the tree one after another, the "
                   "first patch with a failing hunk discarded as a whole: same number k of applied patches, same reject files, "
                   "same tree (pointwise over all names); or both fail with the same error kind. C05_exit_and_names: exit 0 "
                   "iff k = |range|, k names appended. The flush of the memory to disk is tied to pushSpec by the run: exit "
                   "status and the whole real tree must equal pushSpec (tree = first k patches, rejects, backups, applied-patches).",
    'trusted': PUSH_TRUSTED,
    'assumptions': ["the save phase (saveAll/cleanAll) is related to the specification by the correspondence run, not by a theorem",
                    "workspaces where a path is used both as file and as directory during one push are outside the generator (save order = HashMap order)"],
}


PROPS['C08'] = {
    'theorems': ['RQ.Abs.C08_calls', 'RQ.Abs.C08_window', 'RQ.Abs.C08_modes', 'RQ.Abs.C08_backup_is_prestate', 'RQ.Abs.C08_backups_total',
                 'RQ.Abs.C08_backups_on_disk', 'RQ.Abs.C08_backup_on_disk_is_prestate', 'RQ.Abs.C08_every_status_backed_up',
                 'RQ.Abs.C08_apart_of_distinct_patches', 'RQ.Abs.C08_backup_paths_no_prefix', 'RQ.Abs.C08_no_backups_on_disk', 'RQ.Abs.C08_no_backups_on_disk_of_clean',
                 'RQ.Refine2.C08_backups_refine_nodes', 'RQ.Refine2.C08_backups_refine', 'RQ.Refine2.C08_backup_files_refine', 'RQ.Refine2.C05_push_refines_pushSpec_all'],
    'extra_modules': ['RQ.Props.C08Disk', 'RQ.Props.C08Refine'],
    'verdict': 'SPEC',
    'jobs': push_jobs(['inv=2', 'patches=5'], ['inv=3', 'patches=6']),
    'nontrivial': lambda l: re.search(r'2e70632f70[0-9a-f]*2f', l.split('|=>|')[-1]) is not None,
    'histogram': push_hist,
    'rule': PUSH_RULE + "; backup modes always / onfail / never and counts all / 0 / 1 / 2 / default are drawn per invocation; "
            "series have several patches touching the same file and several file patches for one file in a patch, creates, "
            "deletes, renames; prior applied state through earlier invocations. non-trivial = a quilt backup file exists",
    'explanation': "Theorems: the backup loop = undo in memory + these writes (C08_calls); the backup that stays on disk for patch j "
                   "and file n holds n exactly as it was before patch j - its state in the tree after the first j patches - for "
                   "every push (C08_backup_is_prestate, via the refinement invariant: the applied stack is a chain of undoable "
                   "steps per patch); every file patch of a patch in the window gets one and the undo never aborts "
                   "(C08_backups_total); window arithmetic of --backup-count (C08_window); never / onfail-on-success write none "
                   "(C08_modes). pushSpec's .pc/<patch>/<file> (pre-patch bytes and mode, zero-length if absent, both names of "
                   "a rename) and .pc/applied-patches are compared byte for byte with the real tree.",
    'trusted': PUSH_TRUSTED,
    'assumptions': ["'restoring the backups in reverse order recreates the pre-push tree' (quilt pop) is checked through pushSpec's "
                    "backup contents = pre-states; pop itself is not part of rapidquilt"],
}


PROPS['C18'] = {
    'theorems': ['RQ.Push.C18_fault_is_error', 'RQ.Push.C18_success_means_no_fault', 'RQ.Push.C18_recorded_last',
                 'RQ.Par.C18_par_save_fault_is_error', 'RQ.Par.C18_par_driver_fault_is_error', 'RQ.Par.C18_par_fault_is_error', 'RQ.Par.C18_par_success_means_no_fault',
                 'RQ.Par.C18_par_recorded_last', 'RQ.Par.C18_par_applied_unchanged', 'RQ.Par.C18_par_no_fault',
                 'RQ.Par.saveNoPanic', 'RQ.Par.C18_par_fault_is_error_clean', 'RQ.Par.C18_par_outcome_clean'],
    'extra_modules': ['RQ.Props.C18Par', 'RQ.Props.C18ParClean'],
    'verdict': 'C18',
    # (thorough: up to 64 fault positions per workspace, the workspaces over six processes)
    'jobs': [{'quick': ['pushfault', 'seed={seed}', 'n=2000', 'perws=8'], 'thorough': ['pushfault', 'seed={seed}1', 'n=3000', 'perws=64']},
             {'quick': ['pushfault', 'seed={seed}', 'n=1200', 'perws=8', 'threads=2,3,4'], 'thorough': ['pushfault', 'seed={seed}1', 'n=1500', 'perws=64', 'threads=2,3,4,8']}] +
            [{'quick': None, 'thorough': ['pushfault', 'seed={seed}%d' % k, 'n=3000', 'perws=64']} for k in range(2, 5)] +
            [{'quick': None, 'thorough': ['pushfault', 'seed={seed}%d' % k, 'n=1500', 'perws=64', 'threads=2,3,4,8']} for k in range(2, 4)],
    'nontrivial': lambda l: True,
    'histogram': lambda c, d: ['op=' + (re.search(r'op=([a-z_]+)', c).group(1) if re.search(r'op=([a-z_]+)', c) else '?'),
                               'where=' + ('applied-patches' if '6170706c6965642d70617463686573;' in c.split('|=>|')[-1].split('op=')[-1][:120] else
                                           'rej' if '2e72656a;' in c.split('op=')[-1][:200] else 'none' if 'op=-;' in c else 'pc' if 'op=' in c and (c.split('op=')[-1].split(':') + ['', ''])[1][:6] == '2e7063' else 'tree')],
    'rule': "generated workspace (as for C05, up to 3 patches), one invocation; a fault-free run counts the n file-system write "
            "operations (remove_file, create_dir_all, create, set_permissions, write of modified files, reject files, backup "
            "files, .pc/applied-patches, remove_dir of emptied directories); then the same invocation is repeated in a fresh copy "
            "once per fault position k (quick: all k if n <= 8 else 8 random k; thorough: all k up to 64) with the hook failing the "
            "k-th operation. Every case is non-trivial (each is one (workspace, k) pair); distinct = hash of input incl. k",
    'explanation': "Theorems (model with a fault index in the world): if the faulty operation was reached the outcome of push is "
                   "'error' - exit 1, never success, never 'some patches failed', never a crash (C18_fault_is_error, for every "
                   "configuration, workspace and k); a reported success means the fault was not hit; applied-patches is written "
                   "only after applyPatches returned without error (C18_recorded_last). Implementation: for every k the real run "
                   "must exit 1 (not 0, not a panic), leave .pc/applied-patches as it was, print a message naming the file, and "
                   "agree with the model on exit status and on the number of operations of the fault-free run.",
    'trusted': PUSH_TRUSTED + ["faults are injected at operation granularity by the cfg-guarded hook (src/rapidquilt/verif.rs), as io::Error from the hook point right before the real operation; real ENOSPC/EIO timing inside a write is not modelled"],
    'assumptions': ["the tree at the point of failure depends on HashMap iteration order and is not compared; sequential driver (parallel faults: see C06 notes)"],
}


PROPS['C06'] = {
    'theorems': ['RQ.Par.C06_apply_phase', 'RQ.Par.C06_save_phase', 'RQ.Par.C06_error_index', 'RQ.Par.C06_apply_eq_sequential', 'RQ.Par.C06_parallel_eq_sequential_tree', 'RQ.Par.C06_queues_sorted', 'RQ.Par.C06_frame', 'RQ.Par.C06_local', 'RQ.Par.C06_commute', 'RQ.Par.C06_disjoint',
                 'RQ.Par.C06_parallel_tight', 'RQ.Par.C06_parallel_outsidePc', 'RQ.Par.C06_parallel_files', 'RQ.Par.C06_par_refines_pushSpec', 'RQ.Par.C06_par_refines_pushSpec_via_seq',
                 'RQ.Par.C06_workers_disjoint', 'RQ.Par.C06_worker_saves_alone', 'RQ.Par.C06_par_succeeds', 'RQ.Par.C06_par_is_pushSpec', 'RQ.Par.C06_par_exit_zero_iff', 'RQ.Par.C06_par_equals_seq_static'],
    'extra_modules': ['RQ.Props.C06Refine', 'RQ.Props.C06Complete'],
    'verdict': 'C06',
    'jobs': [{'quick': ['pushsched', 'seed={seed}', 'n=900', 'perws=3', 'fail=75', 'morefail=70'], 'thorough': ['pushsched', 'seed={seed}1', 'n=1500', 'perws=6', 'fail=75', 'morefail=70']}] + [{'quick': None, 'thorough': ['pushsched', 'seed={seed}%d' % k, 'n=1500', 'perws=6', 'fail=75', 'morefail=70']} for k in range(2, 7)] +
            push_jobs(['threads=2,3,4,8,16', 'inv=2'], ['threads=2,3,4,8,16', 'inv=3'], nq=2500, nt=60000),
    'nontrivial': lambda l: l.split('|=>|')[-1].count('2f') > 0,
    'histogram': push_hist,
    'rule': "sched engine: generated workspace (up to 5 patches over up to 4+ files so that several workers have work, 45% with "
            "a failing patch), one invocation with --threads in {2,3,4,8,16}; a probe run under the baton hook (one worker at a "
            "time, free order) records every scheduling point each worker passes (before reading the shared index, before "
            "fetch_min, before every file-system write); then the workspace is run again under 3 forced schedules of exactly "
            "those steps: a uniform shuffle, one-worker-after-the-other, long runs with random swaps (others run ahead), "
            "permuted within the apply and the save phase. Plus the push engine with real free-running threads (2-16). "
            "The result must equal the single-threaded specification whenever all patches of the range parse (the "
            "property's premise). distinct = hash of input incl. schedule length; non-trivial = the tree has a sub-directory",
    'explanation': "Theorems: (1) C06_apply_phase - for every schedule (list of worker ids) of the two-micro-step transition system "
                   "of apply_worker instantiated with apply_one_file_patch, once all workers are done the shared index is the "
                   "first failing patch and every worker has applied a prefix of its (index-sorted, C06_queues_sorted) queue "
                   "containing all entries up to it; (2) workers share no file name (C06_disjoint, from C07), a file patch reads "
                   "and writes only entries of its own names (C06_frame, C06_local), so file patches of different workers "
                   "commute (C06_commute) and every interleaving yields the tree of the series order, which C05_apply_refines "
                   "identifies with the single-threaded driver. The save phase (independent writes to distinct paths) is not "
                   "a theorem. Implementation: forced random schedules through the baton hook + free-running threads; tree, "
                   ".pc, rejects, exit status must equal pushSpec.",
    'trusted': PUSH_TRUSTED + ["Acquire/AcqRel atomics on the single shared index modelled as sequentially consistent steps; rayon as 'each queue is processed by one worker, workers interleave arbitrarily at the hook points'; kernel atomicity of individual file operations",
                               "the baton hook serialises hooked threads: sound here because the only cross-thread interactions are the atomic and the file system, both bracketed by hooks"],
    'assumptions': ["save phase not covered by a theorem (level_note); parallel drivers parse the whole range up front, so a range with an unparseable later patch legitimately differs from the single-threaded run (excluded by the property)"],
}


PROPS['C01'] = {
    'theorems': ['RQ.C01_lines_roundtrip', 'RQ.C01_lines_shape', 'RQ.C01_forward', 'RQ.C01_reverse', 'RQ.Write.C01_parse_plain',
                 'RQ.C01_diff_valid', 'RQ.C01_diff_valid_script', 'RQ.C01_diff_applies', 'RQ.C01_diff_applies_rev',
                 'RQ.C01_e2e_parse', 'RQ.C01_e2e_forward', 'RQ.C01_e2e_reverse', 'RQ.C01_e2e_reports', 'RQ.C01_e2e_c0_only', 'RQ.C01_e2e_pushSpec', 'RQ.C01_e2e_pushSpec_R', 'RQ.C01_e2e_push', 'RQ.C01_e2e_push_R', 'RQ.C01_e2e_push_eq_spec', 'RQ.C01_e2e_create', 'RQ.C01_e2e_delete', 'RQ.C01_e2e_pushSpec_create', 'RQ.C01_e2e_pushSpec_delete', 'RQ.C01_e2e_push_create', 'RQ.C01_e2e_push_delete'],
    'extra_modules': ['RQ.Props.C01Text', 'RQ.Props.C01Diff', 'RQ.Props.C01E2E'],
    'verdict': 'C01',
    'jobs': [{'quick': ['diff', 'seed={seed}', 'n=40000', 'cli=4'], 'thorough': ['diff', 'seed={seed}', 'n=1000000', 'cli=4']},
             # the diff texts the theorems C01_e2e_* speak about, computed by Lean (RQ.diffTextOpt), pushed through the real code
             {'gen': {'quick': ['lake', 'env', 'lean', '--run', 'E2EGen.lean', '4000', '{seed}'],
                      'thorough': ['lake', 'env', 'lean', '--run', 'E2EGen.lean', '200000', '{seed}']},
              'engine': 'diff-replay', 'args': ['cli=8']}],
    'nontrivial': lambda l: l.split('|')[6].count('4040202d') >= 1,
    'histogram': lambda c, d: ['dir=' + c.split('|')[4], 'strip=' + c.split('|')[5], 'hunks=%d' % min(6, c.split('|')[6].count('4040202d')),
                               'A=' + ('absent' if c.split('|')[2] == '~' else 'empty' if c.split('|')[2] == '-' else 'file'),
                               'B=' + ('absent' if c.split('|')[3] == '~' else 'empty' if c.split('|')[3] == '-' else 'file'),
                               'cli=' + ('no' if c.endswith('|-') else 'yes'), 'C01=' + (field(d, 'C01') or '?').split(':')[0]],
    'rule': "generated pair (A, B): A of 0-14 lines (small alphabet; 50% 'rich' lines: leading -, +, @@, \\, tabs, CR, 0xff, "
            "empty lines; last line with or without newline), or absent, or empty; B from a random edit script (keep / delete / "
            "insert, any density), or absent (deletion), or all of A deleted; the diff is rendered GNU-style with context width "
            "0, 1, 2, 3 or 5 in the dialects plain, timestamps, git (index line), quoted names, .orig old name, with /dev/null "
            "or both names for creations/deletions, strip -p0/-p1/-p2, optional mail-style preamble; 35% are applied reversed "
            "(-R) to B. Parsed by the real parse_patch and applied by the real TextFilePatch::apply; 4% additionally pushed "
            "through the real command line driver in a temp dir. non-trivial = the patch has at least one hunk",
    'explanation': "Theorems: bytes <-> lines are inverse (C01_lines_roundtrip/_shape); for EVERY valid unified diff from A to B "
                   "(ValidDiff: any context width incl. 0, any grouping) apply_modify yields exactly B with every hunk at its "
                   "stated line, offset 0, fuzz 0, for every fuzz limit (C01_forward), and in the reverse direction from B "
                   "yields A (C01_reverse); the plain ---/+++ dialect with or without timestamps parses back to the same names "
                   "and hunks (C01_parse_plain; the git dialect is C12). On the implementation: result must be exactly B "
                   "(resp. A), all reports offset 0 fuzz 0, exit 0 for the CLI sample; model output equal.",
    'assumptions': ["known finding c0-top-of-file (single zero-context hunk with its empty side at line 0 on a non-empty file) is excluded from the end-to-end claim; the hunk-level theorems do cover it",
                    "the renderer of the harness is GNU-diff style; ValidDiff is the declarative notion the theorem quantifies over (non-vacuity example in C01.lean)"],
}


def field(line, name):
    m = re.search(r'(?:^| )' + re.escape(name) + r'=(\S*)', line)
    return m.group(1) if m else None


def replay_engine(path):
    first = ''
    for l in open(path):
        if l and not l.startswith('#'):
            first = l
            break
    return {'A': 'apply-replay', 'T': 'fuzzpair-replay', 'D': 'dist-replay', 'U': 'parse-replay', 'N': 'analysis-replay', 'S': 'series-replay', 'P': 'path-replay', 'W': 'push-replay', 'F': 'pushfault-replay', 'C': 'diff-replay'}.get(first.split('|')[0], 'apply-replay')
