"""Per-property configuration of bin/check: theorems that decide the property, harness jobs that tie the
model to the code (quick / thorough), what counts as a non-trivial case, what the evidence says."""
import re

TRUSTED_BASE = [
    "Lean 4.33.0 kernel (thorough: re-checked by leanchecker); axioms per theorem as listed under 'theorems'",
    "no sorry/admit/native_decide/bv_decide/own axioms (bin/check audits the sources and #print axioms)",
    "hand-written Lean model RQ/Model/*.lean mirrors the Rust code function by function; the tie is the "
    "differential correspondence run by this check (harness generators, canonical line protocol, driver parsing)",
    "bin/check verdict logic, bin/extract_consts.py",
]


def apply_nontrivial(line):
    # >= 2 hunks in some patch, or an offset / fuzz / failure in the implementation output
    out = line.split('|=>|')[-1]
    if ';' in out:
        return True
    for m in re.finditer(r'A\((-?\d+),(-?\d+),(-?\d+),(-?\d+),(\d+)\)', out):
        if m.group(3) != '0' or m.group(5) != '0':
            return True
    return 'F(' in out


def apply_hist(c, d):
    out = c.split('|=>|')[-1]
    keys = []
    npatch = out.count('a') and len(re.findall(r'\ba\d+=', out))
    keys.append('stack=%d' % npatch)
    for m in re.finditer(r'A\((-?\d+),(-?\d+),(-?\d+),(-?\d+),(\d+)\)', out):
        keys.append('applied:offset' if m.group(3) != '0' else 'applied:exact')
        if m.group(5) != '0':
            keys.append('applied:fuzz%s' % m.group(5))
    for m in re.finditer(r'F\((\w+)\)', out):
        keys.append('failed:' + m.group(1))
    if '=P' in out:
        keys.append('panic')
    return keys


APPLY_RULE = ("generated: file of 0-9 lines over a 2- or 3-letter alphabet; stack of 1-3 file patches, each generated "
              "against the content the real code produced so far: 1-3 hunks cut from the file with random context "
              "extents (20% corrupted outer context to force fuzz, stated line perturbed by -4..+5), or random hunks, "
              "or whole-file create/delete; direction F/R, fuzz limit 0-3, modes. distinct = by hash of the input; "
              "non-trivial = some patch has >= 2 hunks, or a hunk applied with offset != 0 or fuzz > 0, or a hunk failed")

APPLY_JOBS = [{'quick': ['apply', 'seed={seed}', 'n=60000'],
               'thorough': ['apply', 'seed={seed}', 'n=1500000', 'maxlen=12', 'stack=4', 'hunks=4']}]

PROPS = {
    'C03': {
        'theorems': ['RQ.C03_applyModify', 'RQ.C03_oracle', 'RQ.contentOK_iff', 'RQ.C03_failed_contribute_nothing',
                     'RQ.C03_create', 'RQ.C03_delete'],
        'jobs': APPLY_JOBS,
        'nontrivial': apply_nontrivial,
        'histogram': apply_hist,
        'rule': APPLY_RULE,
        'explanation': "Theorem C03_applyModify: for all files, hunk lists, directions and fuzz limits the content after "
                       "apply_modify is applySpec (original with the changed lines of every applied hunk replaced, "
                       "failed hunks contributing nothing), the edits being ordered and disjoint. The same statement "
                       "(contentOK) is evaluated on the real TextFilePatch::apply output of every generated case, and the "
                       "model's full output (reports, content, rollback states) is compared with the implementation's.",
        'assumptions': ["hunks are well-formed (context counts within side lengths), which is what the parser produces"],
    },
}


def replay_engine(path):
    first = ''
    for l in open(path):
        if l and not l.startswith('#'):
            first = l
            break
    return {'A': 'apply-replay'}.get(first.split('|')[0], 'apply-replay')
