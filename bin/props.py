"""Per-property configuration of bin/check: theorems that decide the property, harness jobs that tie the
model to the code (quick / thorough), what counts as a non-trivial case, what the evidence says."""
import re

TRUSTED_BASE = [
    "Lean 4.33.0 kernel (thorough: re-checked by leanchecker); axioms per theorem as listed under 'theorems'",
    "no sorry/admit/native_decide/bv_decide/own axioms (bin/check audits the sources and #print axioms)",
    "hand-written Lean model RQ/Model/*.lean mirrors the Rust code function by function; the tie is the "
    "differential correspondence run by this check (harness generators, canonical line protocol, driver parsing)",
    "bin/check verdict logic, bin/extract_consts.py",
]


def apply_nontrivial(line):
    # >= 2 hunks in some patch, or an offset / fuzz / failure in the implementation output
    out = line.split('|=>|')[-1]
    if ';' in out:
        return True
    for m in re.finditer(r'A\((-?\d+),(-?\d+),(-?\d+),(-?\d+),(\d+)\)', out):
        if m.group(3) != '0' or m.group(5) != '0':
            return True
    return 'F(' in out


def apply_hist(c, d):
    out = c.split('|=>|')[-1]
    keys = []
    npatch = out.count('a') and len(re.findall(r'\ba\d+=', out))
    keys.append('stack=%d' % npatch)
    for m in re.finditer(r'A\((-?\d+),(-?\d+),(-?\d+),(-?\d+),(\d+)\)', out):
        keys.append('applied:offset' if m.group(3) != '0' else 'applied:exact')
        if m.group(5) != '0':
            keys.append('applied:fuzz%s' % m.group(5))
    for m in re.finditer(r'F\((\w+)\)', out):
        keys.append('failed:' + m.group(1))
    if '=P' in out:
        keys.append('panic')
    return keys


APPLY_RULE = ("generated: file of 0-9 lines over a 2- or 3-letter alphabet; stack of 1-3 file patches, each generated "
              "against the content the real code produced so far: 1-3 hunks cut from the file with random context "
              "extents (20% corrupted outer context to force fuzz, stated line perturbed by -4..+5), or random hunks, "
              "or whole-file create/delete; direction F/R, fuzz limit 0-3, modes. distinct = by hash of the input; "
              "non-trivial = some patch has >= 2 hunks, or a hunk applied with offset != 0 or fuzz > 0, or a hunk failed")

APPLY_JOBS = [{'quick': ['apply', 'seed={seed}', 'n=60000'],
               'thorough': ['apply', 'seed={seed}', 'n=1500000', 'maxlen=12', 'stack=4', 'hunks=4']}]

PROPS = {
    'C03': {
        'theorems': ['RQ.C03_applyModify', 'RQ.C03_oracle', 'RQ.contentOK_iff', 'RQ.C03_failed_contribute_nothing',
                     'RQ.C03_create', 'RQ.C03_delete'],
        'jobs': APPLY_JOBS,
        'nontrivial': apply_nontrivial,
        'histogram': apply_hist,
        'rule': APPLY_RULE,
        'explanation': "Theorem C03_applyModify: for all files, hunk lists, directions and fuzz limits the content after "
                       "apply_modify is applySpec (original with the changed lines of every applied hunk replaced, "
                       "failed hunks contributing nothing), the edits being ordered and disjoint. The same statement "
                       "(contentOK) is evaluated on the real TextFilePatch::apply output of every generated case, and the "
                       "model's full output (reports, content, rollback states) is compared with the implementation's.",
        'assumptions': ["hunks are well-formed (context counts within side lengths), which is what the parser produces"],
    },
}


PROPS['C20'] = {
    'theorems': ['RQ.C20_phase1', 'RQ.C20_applyModify', 'RQ.C20_file'],
    'jobs': [{'quick': ['fuzzpair', 'seed={seed}', 'n=40000'],
              'thorough': ['fuzzpair', 'seed={seed}', 'n=1000000', 'maxlen=12', 'hunks=4']}],
    'nontrivial': lambda l: 'A(' in l.split('|=>|')[-1].split('|')[0] and 'F(' not in l.split('|=>|')[-1].split('|')[0],
    'histogram': lambda c, d: ['pair:' + (re.search(r'C20=(\w+)', d).group(1) if re.search(r'C20=(\w+)', d) else '?')],
    'rule': "generated: file of 0-9 lines over a 2/3-letter alphabet, one file patch as for C02/C03 (cut hunks with corrupted "
            "context, random hunks, create/delete), applied by the real code with fuzz limit F in 0..2 and again with "
            "F' = F+1..F+3. distinct = hash of input; non-trivial = the application with limit F succeeded completely "
            "(only then the property says something)",
    'explanation': "Theorem C20_file: for every file patch, direction, file and F <= F', if apply with limit F succeeds "
                   "completely then apply with F' yields the identical file (and identical hunk reports for Modify). "
                   "The same implication is evaluated on pairs of real TextFilePatch::apply runs; model output compared on both.",
    'assumptions': ["file-patch level; the series level follows because a push applies file patches one after another with the same limit"],
}


PROPS['C02'] = {
    'theorems': ['RQ.key_le_iff', 'RQ.specPlace_some', 'RQ.specPlace_none', 'RQ.C02_place', 'RQ.C02_monotone',
                 'RQ.C02_hunk', 'RQ.C02_applyModify', 'RQ.C02_fuzz0'],
    'jobs': APPLY_JOBS,
    'nontrivial': apply_nontrivial,
    'histogram': apply_hist,
    'rule': APPLY_RULE,
    'explanation': "Theorems: findPlace (first guess + forward/backward interleaved scan) = specPlace (brute force over all "
                   "positions: admissible, matching, least key = nearest to stated line + previous offset, forward wins ties; "
                   "anchored views only at their anchor); C02_hunk: the fuzz loop's report satisfies hunkOK (lowest acceptable "
                   "level; failed-for-no-match => no admissible match at any permitted level, via C02_monotone); "
                   "C02_applyModify threads offset / frozen line over all hunks. reportsOK is evaluated on the real reports.",
    'assumptions': ["hunks are well-formed (context counts within side lengths)",
                    "'expected line' read as stated line + previous hunk's offset, exactly as the property words it"],
}
PROPS['C04'] = {
    'theorems': ['RQ.C04_file', 'RQ.C04_modify', 'RQ.C04_stack'],
    'jobs': APPLY_JOBS,
    'nontrivial': apply_nontrivial,
    'histogram': apply_hist,
    'rule': APPLY_RULE + "; every case rolls the whole stack back in LIFO order with the real TextFilePatch::rollback",
    'explanation': "Theorem C04_file: for every file patch (Modify/Create/Delete, mode change), direction, fuzz, file: if apply "
                   "returns (f', report) then rollback report f' = some f - no panic, same content, deleted flag, permissions. "
                   "C04_stack: any stack undone in reverse order restores the start. On the implementation: state after each "
                   "rollback equals the state before the corresponding apply; no panic outcome.",
    'assumptions': ["hunks are well-formed", "rename-level undo (ModifiedFiles::rollback, move_in/move_out) is part of the driver model (C05), not of this check"],
}


PROPS['C07'] = {
    'theorems': ['RQ.pairsOK_related', 'RQ.pairsOK_mentioned', 'RQ.C07_pairs', 'RQ.C07', 'RQ.C07_total', 'RQ.C07_disjoint'],
    'jobs': [{'quick': ['dist', 'seed={seed}', 'n=30000', 'names=4', 'len=3'],
              'thorough': ['dist', 'seed={seed}', 'n=400000', 'names=5', 'len=4']}],
    'nontrivial': lambda l: l.split('|')[3].count(';') >= 1 and re.search(r'\d:\d', l.split('|')[3]) is not None,
    'histogram': lambda c, d: ['pairs=%d' % min(9, (c.split('|')[3].count(';') + 1 if c.split('|')[3] != '-' else 0)),
                               'threads=' + c.split('|')[2]],
    'rule': "exhaustive: every sequence of <= 3 (thorough: 4) pairs (name, optional related name) over 4 (thorough: 5) names, "
            "each with thread counts 1, 2, 3, 4096; plus random sequences of up to 24 pairs over 2-13 names, thread counts "
            "1..4096. distinct = hash of input; non-trivial = at least two pairs, one of them relating two names",
    'explanation': "Theorem C07: for every sequence of pairs (any order, any multiplicity) and every positive thread count, names "
                   "in the equivalence closure of the pairs get the same worker from FilenameDistributor add/build (union-find "
                   "invariant: parents point to smaller indices, unions are root-to-root, one compression pass reaches roots); "
                   "C07_disjoint: entries on different workers share no name. pairsOK (which implies the closure statement by "
                   "pairsOK_related) is evaluated on the real FilenameDistributor's assignment; exhaustive for short sequences.",
    'assumptions': ["HashMap<T, usize> modelled as insertion-ordered name list", "thread count > 0 (rayon guarantees it)"],
}


def replay_engine(path):
    first = ''
    for l in open(path):
        if l and not l.startswith('#'):
            first = l
            break
    return {'A': 'apply-replay', 'T': 'fuzzpair-replay', 'D': 'dist-replay'}.get(first.split('|')[0], 'apply-replay')
