#!/usr/bin/env python3
"""validate MANIFEST.json and evidence/*.json against the schemas (uses the tooling venv's jsonschema)"""
import json, glob, sys, jsonschema
ok = True
try:
    jsonschema.validate(json.load(open('/verif/MANIFEST.json')), json.load(open('/root/.vp/MANIFEST.schema.json')))
    print('MANIFEST.json valid')
except Exception as e:
    ok = False; print('MANIFEST invalid:', str(e)[:500])
es = json.load(open('/root/.vp/EVIDENCE.schema.json'))
for f in sorted(glob.glob('/verif/evidence/*.json')):
    try:
        jsonschema.validate(json.load(open(f)), es); print(f, 'valid')
    except Exception as e:
        ok = False; print(f, 'INVALID:', str(e)[:500])
sys.exit(0 if ok else 1)
