#!/bin/bash
# bin/run_seed.sh <seed-dir-name> <check ids...> : apply seeded/<name>/patch.diff to /repo, run the quick checks, undo.
set -u
NAME=$1; shift
cd /verif
git -C /repo diff --quiet || { echo "/repo is not clean"; exit 2; }
git -C /repo apply /verif/seeded/$NAME/patch.diff || { echo "patch does not apply to /repo"; exit 2; }
for id in "$@"; do
  out=$(bin/check $id quick 2>&1); rc=$?
  echo "--- $NAME vs $id: exit $rc"; echo "$out" | grep -E "VIOLATION|^C[0-9]+ quick" | cut -c1-220
done
git -C /repo checkout -- .
git -C /repo status --short | head -3
