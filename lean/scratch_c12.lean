import RQ.Spec.Write
open RQ RQ.Parse RQ.Write
def s2b (s : String) : Bytes := s.toUTF8.toList
def b2s (b : Bytes) : String := String.fromUTF8! b.toByteArray

instance : DecidableEq PHunk := inferInstance
def sameHunkB (a b : PHunk) : Bool := a.rem == b.rem && a.add == b.add && a.remLine == b.remLine && a.addLine == b.addLine && a.func == b.func
def sameHunksB : List PHunk → List PHunk → Bool
  | [], [] => true
  | a :: as, b :: bs => sameHunkB a b && sameHunksB as bs
  | _, _ => false
def sameFPB (a b : PFilePatch) : Bool :=
  a.kind == b.kind && a.old == b.old && a.new == b.new && a.rename == b.rename && a.oldPerm == b.oldPerm && a.newPerm == b.newPerm && a.oldHash == b.oldHash && a.newHash == b.newHash && sameHunksB a.hunks b.hunks
def sameFPsB : List PFilePatch → List PFilePatch → Bool
  | [], [] => true
  | a :: as, b :: bs => sameFPB a b && sameFPsB as bs
  | _, _ => false

def names : Array String := #["a", "b", "a/b", "b/c/d", "\"a b\"", "/dev/null", "a/", "./a", "\"\"", "\"\\\\\"", "\"x\\ty\"", "/dev/null/", "a\\b", "\"/dev/null\"", "x/dev/null", "./", ".", "/", "a//b/.", "\"a\\\"b\"", "\"\\001\"", "c", "\"a\\nb\"", "//dev/null", "/dev/null/."]
def hashes : Array String := #["abc", "0", "DEF012", "1234567"]
def modes : Array String := #["100644", "100755", "000000", "777777"]
def lineBodies : Array String := #["x", "y", "", "\\", "\\ No", "z z", "\t", "@@ -1 +1 @@", "diff --git a b", "--- a"]

structure G where
  s : Nat
def G.next (g : G) (n : Nat) : Nat × G :=
  let s := (g.s * 6364136223846793005 + 1442695040888963407) % (2^64)
  ((s / 2^33) % n, ⟨s⟩)

def pick (g : G) (a : Array String) : String × G :=
  let (i, g) := g.next a.size
  (a[i]!, g)

def genHunk (g : G) : String × G := Id.run do
  let mut g := g
  let (ac, g1) := g.next 4; g := g1
  let (rc, g1) := g.next 4; g := g1
  let (rl, g1) := g.next 3; g := g1
  let (al, g1) := g.next 3; g := g1
  let (fsel, g1) := g.next 4; g := g1
  let (omt, g1) := g.next 5; g := g1
  let mut s := "@@ -" ++ toString rl ++ (if omt == 0 && rc == 1 then "" else "," ++ toString rc) ++ " +" ++ toString al ++ (if omt == 1 && ac == 1 then "" else "," ++ toString ac) ++ " @@" ++ (match fsel with | 0 => "" | 1 => " fn" | 2 => " " | _ => "x") ++ "\n"
  let mut a := ac
  let mut r := rc
  for _ in [0:10] do
    if a == 0 && r == 0 then break
    let (k, g1) := g.next 4; g := g1
    let (body, g1) := pick g lineBodies; g := g1
    let (nonl, g1) := g.next 6; g := g1
    let tail := if nonl == 0 then "\n\\ No newline at end of file\n" else "\n"
    if k == 0 && a > 0 then
      s := s ++ "+" ++ body ++ tail; a := a - 1
    else if k == 1 && r > 0 then
      s := s ++ "-" ++ body ++ tail; r := r - 1
    else if a > 0 && r > 0 then
      let (e, g1) := g.next 5; g := g1
      s := s ++ (if e == 0 then (if body == "" then "" else "\t" ++ body) else " " ++ body) ++ tail; a := a - 1; r := r - 1
    else if a > 0 then
      s := s ++ "+" ++ body ++ tail; a := a - 1
    else
      s := s ++ "-" ++ body ++ tail; r := r - 1
  return (s, g)

def genLine (g : G) : String × G := Id.run do
  let (k, g) := g.next 22
  let (n1, g) := pick g names
  let (n2, g) := pick g names
  let (h1, g) := pick g hashes
  let (h2, g) := pick g hashes
  let (m, g) := pick g modes
  match k with
  | 0 | 1 | 2 => return ("diff --git " ++ n1 ++ " " ++ n2 ++ "\n", g)
  | 3 | 4 | 5 => return ("--- " ++ n1 ++ "\n", g)
  | 6 | 7 | 8 => return ("+++ " ++ n1 ++ "\n", g)
  | 9 => return ("index " ++ h1 ++ ".." ++ h2 ++ "\n", g)
  | 10 => return ("index " ++ h1 ++ ".." ++ h2 ++ " " ++ m ++ "\n", g)
  | 11 => return ("old mode " ++ m ++ "\n", g)
  | 12 => return ("new mode " ++ m ++ "\n", g)
  | 13 => return ("deleted file mode " ++ m ++ "\n", g)
  | 14 => return ("new file mode " ++ m ++ "\n", g)
  | 15 => return ("rename from " ++ n1 ++ "\n", g)
  | 16 => return ("rename to " ++ n1 ++ "\n", g)
  | 17 => return ("garbage\n", g)
  | 18 => return ("--- " ++ n1 ++ "\tdate\n", g)
  | _ => genHunk g

def genPatch (seed : Nat) : String := Id.run do
  let mut g : G := ⟨seed⟩
  let (n, g1) := g.next 14; g := g1
  let mut s := ""
  for _ in [0:n+1] do
    let (l, g1) := genLine g; g := g1
    s := s ++ l
  return s

def check (s : String) (strip : Nat) (wh : Bool) : Option String :=
  match parsePatch (s2b s) strip wh with
  | .error _ => none
  | .ok p =>
    if p.fps.any noopHunkless then none else
    if p.fps.any (fun f => f.old == some nullFilename || f.new == some nullFilename) then none else
    match parsePatch (writePatch p) 0 true with
    | .error e => some s!"reparse error {repr e}"
    | .ok p' => if p.header == p'.header && sameFPsB p.fps p'.fps then none else some "differs"

def run (lo hi : Nat) : IO Unit := do
  let mut okc := 0
  let mut nonempty := 0
  for seed in [lo:hi] do
    let s := genPatch seed
    for strip in [0, 1, 2] do
      for wh in [true, false] do
        match parsePatch (s2b s) strip wh with
        | .ok p => okc := okc + 1; if p.fps.length > 0 then nonempty := nonempty + 1
        | _ => pure ()
        match check s strip wh with
        | some msg => IO.println s!"COUNTEREXAMPLE seed={seed} strip={strip} wh={wh}: {msg}\n{s}\n-----"
        | none => pure ()
  IO.println s!"parsed ok {okc}, nonempty {nonempty}"
#eval run 3000 30000
