import RQ.Spec.Write
open RQ RQ.Parse RQ.Write
example : ∀ n : Fin 10, isDigit (UInt8.ofNat (48 + n.val)) = true := by decide
example (n : Nat) (h : n < 10) : (UInt8.ofNat (48 + n)).toNat = 48 + n := by
  simp [UInt8.toNat_ofNat']; omega
#check @UInt8.toNat_ofNat'
#check @UInt8.le_iff_toNat_le
#check @UInt8.ofNat_toNat
