import RQ.Lemmas.RoundTripInvFile
#print axioms RQ.Write.parsePatch_inv
