import RQ.Lemmas.C01EndToEnd
import RQ.Driver.Proto
/-!
Generator for the tie of the text-level theorems `C01_e2e_*` (RQ/Props/C01E2E.lean) to the real code:
`lake env lean --run E2EGen.lean <n> <seed>` prints `n` cases of the `diff` engine's replay format

    C|id|hexA|hexB|F or R|strip|hex(diffText c A B "a/f" "b/f")

where the patch text is computed by the very function the theorems speak about (`RQ.diffTextOpt`: the LCS diff of
the two files, grouped with context width `c`, rendered as `diff -u` does) and the hypotheses of the theorems hold
(`A ≠ B`, not the class `c0-top-of-file`).  The harness pushes each text through the real parser, the real
`apply` and (for a sample) the real command line; the driver then demands what the theorems promise: exactly `B`
(or, `-R`, exactly `A`), every hunk at its stated line with offset 0 and fuzz 0.
-/
open RQ RQ.Proto

def lcg (s : Nat) : Nat := (s * 6364136223846793005 + 1442695040888963407) % 18446744073709551616

def pick (s : Nat) (n : Nat) : Nat × Nat := let s' := lcg s; (s', (s' / 4294967296) % n)

/-- a random file: up to `maxl` lines over a small alphabet (so that lines repeat), sometimes with bytes a diff
must not trip over, sometimes without the final newline -/
def genFile (s : Nat) (maxl : Nat) : Nat × Bytes := Id.run do
  let mut s := s
  let (s1, n) := pick s (maxl + 1)
  s := s1
  let mut out : Bytes := []
  for i in [0:n] do
    let (s2, k) := pick s 12
    s := s2
    let line : Bytes := match k with
      | 0 | 1 | 2 => [97] | 3 | 4 => [98] | 5 => [99] | 6 => []
      | 7 => [45, 100] | 8 => [43, 112] | 9 => [64, 64, 32, 45, 49, 32, 43, 49, 32, 64, 64] | 10 => [92, 32, 78] | _ => [255, 9, 13]
    let (s3, nl) := pick s 100
    s := s3
    -- only the last line may lack its newline
    let last := i + 1 == n
    out := out ++ line ++ (if last && nl < 20 && !line.isEmpty then [] else [10])
  return (s, out)

partial def gen (id n s : Nat) : IO Unit := do
  if id ≥ n then return ()
  let (s, maxl) := pick s 9
  let (s, A) := genFile s maxl
  let (s, mode) := pick s 10
  -- B: mostly an edit of A (keep / drop / insert lines), sometimes an unrelated file
  let (s, B) : Nat × Bytes :=
    if mode == 0 then genFile s maxl
    else Id.run do
      let mut s := s
      let mut out : Bytes := []
      let ls := linesOf A
      let mut idx := 0
      for l in ls do
        idx := idx + 1
        let (s1, k) := pick s 10
        s := s1
        -- never put anything behind an unterminated last line
        let terminated := l.getLast? == some 10
        if k < 6 then out := out ++ l
        else if k < 8 then out := out
        else if terminated then out := out ++ l ++ [120, 10]
        else out := out ++ [121, 10] ++ l
      let (s2, k) := pick s 10
      s := s2
      if k < 2 && (out.getLast? == some 10 || out.isEmpty) then out := out ++ [122] ++ (if k == 0 then [10] else [])
      return (s, out)
  let (s, c) := pick s 6
  let (s, rev) := pick s 3
  let (s, absent) := pick s 12
  let old : Option Bytes := if absent == 0 && A.isEmpty then none else some nmOld
  let new : Option Bytes := if absent == 1 && B.isEmpty && old.isSome then none else some nmNew
  if A == B || c0TopOfFile c A B || A.isEmpty && B.isEmpty then
    gen id n s          -- outside the hypotheses of the theorems: draw again
  else do
    let text := diffTextOpt [] c A B old new
    let a := if old.isNone then "~" else hexOf A
    let b := if new.isNone then "~" else hexOf B
    IO.println s!"C|{id}|{a}|{b}|{if rev == 0 then "R" else "F"}|1|{hexOf text}"
    gen (id + 1) n s

def main (args : List String) : IO Unit := do
  let n := (args.getD 0 "100").toNat!
  let seed := (args.getD 1 "1").toNat!
  gen 0 n (lcg (seed + 12345))
