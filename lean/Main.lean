import RQ.Driver.ApplyEngine
import RQ.Driver.DistEngine
import RQ.Driver.PathEngine
import RQ.Driver.ParseEngine
import RQ.Driver.SeriesEngine
import RQ.Driver.PushEngine
import RQ.Driver.DiffEngine
import RQ.Driver.AnalysisEngine
open RQ

def step (line : String) : String :=
  let fields := line.trimAscii.toString.splitOn "|"
  match fields.head? with
  | some "A" => ApplyEngine.step fields
  | some "D" => DistEngine.step fields
  | some "P" => PathEngine.step fields
  | some "U" => ParseEngine.step fields
  | some "S" => SeriesEngine.step fields
  | some "W" => PushEngine.step fields
  | some "C" => DiffEngine.step fields
  | some "F" => PushEngine.stepF fields
  | some "T" => ApplyEngine.stepT fields
  | some "N" => AnalysisEngine.step fields
  | _ => "bad-op"

partial def loop (h : IO.FS.Stream) (out : IO.FS.Stream) : IO Unit := do
  let line ← h.getLine
  if line.isEmpty then return ()
  out.putStrLn (step line)
  loop h out

def main : IO Unit := do
  let out ← IO.getStdout
  loop (← IO.getStdin) out
  out.flush
