import RQ.Model.Push
namespace RQ.FS
open RQ
theorem find_map_set_self (l : List (Key × Node)) (k : Key) (n : Node)
    (h : l.any (fun p => p.1 == k) = true) :
    ((l.map (fun p => if p.1 == k then (k, n) else p)).find? (fun p => p.1 == k)).map (·.2) = some n := by
  induction l with
  | nil => simp at h
  | cons p t ih =>
    rw [List.map_cons, List.find?_cons]
    by_cases hp : p.1 = k
    · simp [hp]
    · have ht : t.any (fun p => p.1 == k) = true := by
        simpa [hp] using h
      have : ((if (p.fst == k) = true then (k, n) else p).fst == k) = false := by simp [hp]
      rw [this]
      exact ih ht

theorem find_map_set_ne (l : List (Key × Node)) (k k' : Key) (n : Node) (hne : k' ≠ k) :
    (l.map (fun p => if p.1 == k then (k, n) else p)).find? (fun p => p.1 == k') =
      l.find? (fun p => p.1 == k') := by
  induction l with
  | nil => rfl
  | cons p t ih =>
    rw [List.map_cons, List.find?_cons, List.find?_cons, ih]
    by_cases hp : p.1 = k
    · have h1 : (p.1 == k') = false := by
        simp; exact fun h => hne (h ▸ hp)
      have h2 : ((if (p.fst == k) = true then (k, n) else p).fst == k') = false := by
        simp [hp]; exact fun h => hne h.symm
      rw [h1, h2]
    · have : (if (p.fst == k) = true then (k, n) else p) = p := by simp [hp]
      rw [this]
end RQ.FS
