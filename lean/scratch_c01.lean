import RQ.Spec.Diff
import RQ.Props.C03
namespace RQ
def fileOf' (A : List Nat) : FileSt Nat := { content := A, existed := true, deleted := false, perms := none }
-- a=1 b=2 x=7 s=3 y=8
def cA : List Nat := [1,2,7,3]
def cB : List Nat := [1,2,3,8]
def cD : List (Hunk Nat) :=
  [ { rem := [1,2,7,3], add := [1,2,3], remLine := 0, addLine := 0, pre := 2, suf := 1 },
    { rem := [3], add := [3,8], remLine := 3, addLine := 2, pre := 1, suf := 0 } ]
example : ValidDiff cA cB cD := by
  refine ⟨[], [1,2], [7], [], [3], [], [8], rfl, rfl, rfl, rfl, rfl, rfl, rfl, rfl, by simp, by simp, by simp, ?_⟩
  refine ⟨[], [3], [], [8], [], [], [], rfl, rfl, rfl, rfl, rfl, rfl, rfl, rfl, by simp, by simp, by simp, ?_⟩
  rfl
#eval applyModify cD .fwd 0 .normal (fileOf' cA)
#eval applyModify cD .rev 0 .normal (fileOf' cB)
#eval applyModify cD .rev 2 .normal (fileOf' cB)
#eval exactReports (cD.map Hunk.swap) 0
end RQ
