import RQ.Lemmas.RefineApply
/-! Helper lemmas for C05, part 3: memories that differ by entries loaded from the file system (`Ext`),
undoing a list of `Status` (`undoAll`, `Undoable`), and what `rollbackOne` computes. -/
namespace RQ.Abs
open RQ RQ.Push RQ.Spec

/-- `m'` holds everything `m` holds; what it holds in addition is what the file system has -/
def Ext (fs : FS) (m m' : Mem) : Prop :=
  (∀ n f, m.get n = some f → m'.get n = some f) ∧
  (∀ n f, m.get n = none → m'.get n = some f → loadTree fs n = .ok f)

theorem Ext.refl (fs : FS) (m : Mem) : Ext fs m m :=
  ⟨fun _ _ h => h, fun _ _ h1 h2 => by rw [h1] at h2; cases h2⟩

theorem Ext.trans {fs : FS} {a b c : Mem} (h1 : Ext fs a b) (h2 : Ext fs b c) : Ext fs a c := by
  refine ⟨fun n f h => h2.1 n f (h1.1 n f h), ?_⟩
  intro n f ha hc
  cases hb : b.get n with
  | none => exact h2.2 n f hb hc
  | some g =>
    have := h2.1 n g hb
    rw [this] at hc
    cases hc
    exact h1.2 n _ ha hb

theorem Ext.sameTree {fs : FS} {m m' : Mem} (h : Ext fs m m') : SameTree fs (ofMem m') (ofMem m) := by
  intro n
  rw [look_ofMem, look_ofMem]
  cases hm : m.get n with
  | some f => rw [h.1 n f hm]
  | none =>
    cases hm' : m'.get n with
    | none => rfl
    | some f => simp only; rw [h.2 n f hm hm']

/-- adding a loaded entry -/
theorem ext_put_loaded {fs : FS} {m : Mem} {n : Bytes} {f : FileSt Bytes} (hg : m.get n = none)
    (hl : loadTree fs n = .ok f) : Ext fs m (m.put n f) := by
  constructor
  · intro n' g h
    rw [get_put]
    split
    · rename_i hk
      have hk : components n' = components n := by simpa using hk
      rw [get_congr m hk, hg] at h; cases h
    · exact h
  · intro n' g h h'
    rw [get_put] at h'
    split at h'
    · rename_i hk
      have hk : components n' = components n := by simpa using hk
      cases h'
      rw [loadTree_congr fs hk]; exact hl
    · rw [h] at h'; cases h'

/-- the core of every undo step: if `mem` extends `m` and holds `file` at `target`, and `M` extends `mem`
with `target` overwritten, then putting `file` back gives an extension of `m` -/
theorem ext_put_back {fs : FS} {m mem M : Mem} {target : Bytes} {file x : FileSt Bytes}
    (h1 : Ext fs m mem) (hg : mem.get target = some file) (h2 : Ext fs (mem.put target x) M) :
    Ext fs m (M.put target file) := by
  constructor
  · intro n g h
    rw [get_put]
    split
    · rename_i hk
      have hk : components n = components target := by simpa using hk
      have := h1.1 n g h
      rw [get_congr mem hk, hg] at this
      exact this
    · rename_i hk
      apply h2.1
      rw [get_put]
      simp only [hk]
      exact h1.1 n g h
  · intro n g h h'
    rw [get_put] at h'
    split at h'
    · rename_i hk
      have hk : components n = components target := by simpa using hk
      cases h'
      apply h1.2 n _ h
      rw [get_congr mem hk, hg]
    · rename_i hk
      cases hmem : mem.get n with
      | some g' =>
        have : M.get n = some g' := by
          apply h2.1
          rw [get_put]
          simp only [hk]
          exact hmem
        rw [this] at h'
        cases h'
        exact h1.2 n _ h hmem
      | none =>
        apply h2.2 n g ?_ h'
        rw [get_put]
        simp only [hk]
        exact hmem

/-! ### deleted entries have no content -/

def MemDE (m : Mem) : Prop := ∀ n f, m.get n = some f → DE f

theorem memDE_nil : MemDE [] := by
  intro n f h; simp [Mem.get] at h

theorem MemDE.put {m : Mem} (h : MemDE m) (n : Bytes) {f : FileSt Bytes} (hf : DE f) : MemDE (m.put n f) := by
  intro n' g hg
  rw [get_put] at hg
  split at hg
  · cases hg; exact hf
  · exact h n' g hg

theorem loadTree_DE {fs : FS} {n : Bytes} {f : FileSt Bytes} (h : loadTree fs n = .ok f) : DE f := by
  unfold loadTree at h
  split at h
  · cases h
  · split at h
    · cases h; intro hd; cases hd
    · cases h; intro _; rfl
    · cases h

/-! ### `getOrLoad` against `look` -/

theorem getOrLoad_ok_look {fs : FS} {m m' : Mem} {t : ATree} {n : Bytes} {f : FileSt Bytes}
    (hs : SameTree fs (ofMem m) t) (h : getOrLoad m fs n = .ok (m', f)) :
    look t fs n = .ok (absOf f) ∧ SameTree fs (ofMem m') t ∧ Ext fs m m' ∧ m'.get n = some f ∧
      (MemDE m → MemDE m' ∧ DE f) := by
  rw [getOrLoad_eq] at h
  have hl := hs n
  rw [look_ofMem] at hl
  cases hg : m.get n with
  | some g =>
    rw [hg] at h hl
    simp only at h hl
    cases h
    exact ⟨hl.symm, hs, Ext.refl _ _, hg, fun hd => ⟨hd, hd n _ hg⟩⟩
  | none =>
    rw [hg] at h hl
    simp only at h hl
    cases hld : loadTree fs n with
    | error e => rw [hld] at h; cases h
    | ok g =>
      rw [hld] at h hl
      simp only at h hl
      cases h
      have hext := ext_put_loaded hg hld
      exact ⟨hl.symm, (Ext.sameTree hext).trans hs, hext, get_put_self _ _ _,
        fun hd => ⟨hd.put n (loadTree_DE hld), loadTree_DE hld⟩⟩

theorem getOrLoad_err_look {fs : FS} {m : Mem} {t : ATree} {n : Bytes} {e : Fail}
    (hs : SameTree fs (ofMem m) t) (h : getOrLoad m fs n = .error e) :
    e = .err ∧ ∃ u, look t fs n = .error u := by
  rw [getOrLoad_eq] at h
  have hl := hs n
  rw [look_ofMem] at hl
  cases hg : m.get n with
  | some g => rw [hg] at h; cases h
  | none =>
    rw [hg] at h hl
    simp only at h hl
    cases hld : loadTree fs n with
    | ok g => rw [hld] at h; cases h
    | error u =>
      rw [hld] at h hl
      simp only at h hl
      cases h
      exact ⟨rfl, u, hl.symm⟩

/-! ### undoing -/

/-- `rollbackOne` over a list of `Status`, newest first -/
def undoAll : Mem → List Status → Except Fail Mem
  | m, [] => .ok m
  | m, s :: L =>
    match rollbackOne m s with
    | .error e => .error e
    | .ok (m', _) => undoAll m' L

theorem undoAll_append (L1 L2 : List Status) : ∀ m : Mem,
    undoAll m (L1 ++ L2) = match undoAll m L1 with | .error e => .error e | .ok m' => undoAll m' L2 := by
  induction L1 with
  | nil => intro m; rfl
  | cons s L1 ih =>
    intro m
    simp only [List.cons_append, undoAll]
    cases rollbackOne m s with
    | error e => rfl
    | ok r => exact ih r.1

/-- from any memory that extends `m'`, undoing `L` succeeds and leaves an extension of `m` -/
def Undoable (fs : FS) (m : Mem) (L : List Status) (m' : Mem) : Prop :=
  ∀ M, Ext fs m' M → ∃ M', undoAll M L = .ok M' ∧ Ext fs m M'

theorem Undoable.nil {fs : FS} {m m' : Mem} (h : Ext fs m m') : Undoable fs m [] m' :=
  fun M hM => ⟨M, rfl, h.trans hM⟩

theorem Undoable.append {fs : FS} {m m1 m2 : Mem} {L1 L2 : List Status}
    (h1 : Undoable fs m L1 m1) (h2 : Undoable fs m1 L2 m2) : Undoable fs m (L2 ++ L1) m2 := by
  intro M hM
  obtain ⟨M1, hu1, he1⟩ := h2 M hM
  obtain ⟨M0, hu0, he0⟩ := h1 M1 he1
  refine ⟨M0, ?_, he0⟩
  rw [undoAll_append, hu1]
  exact hu0

theorem Undoable.single {fs : FS} {m m' : Mem} {s : Status}
    (h : ∀ M, Ext fs m' M → ∃ M' x, rollbackOne M s = .ok (M', x) ∧ Ext fs m M') : Undoable fs m [s] m' := by
  intro M hM
  obtain ⟨M', x, hr, he⟩ := h M hM
  refine ⟨M', ?_, he⟩
  simp only [undoAll, hr]

/-! ### undoing one `Status`, with what the backup code needs to know -/

/-- `s` took the memory from (an extension of) `m` to `m'`: from any extension of `m'`, `rollbackOne`
succeeds, leaves an extension of `m`, returns the restored entry of `s.target`, leaves an entry at `s.final`,
and touches no other entry.  Also the shape of `s`: a rename records the new name as `final`. -/
def StepU (fs : FS) (m : Mem) (s : Status) (m' : Mem) : Prop :=
  (s.fp.rename = true → s.fp.new = some s.final) ∧ (s.fp.rename = false → s.final = s.target) ∧
  ∀ M, Ext fs m' M → ∃ M' x, rollbackOne M s = .ok (M', x) ∧ Ext fs m M' ∧ M'.get s.target = some x ∧
    (∃ y, M'.get s.final = some y) ∧
    (∀ n, components n ≠ components s.target → components n ≠ components s.final → M'.get n = M.get n)

theorem StepU.ext_right {fs : FS} {m m' m'' : Mem} {s : Status} (h : StepU fs m s m') (he : Ext fs m' m'') :
    StepU fs m s m'' :=
  ⟨h.1, h.2.1, fun M hM => h.2.2 M (he.trans hM)⟩

theorem StepU.ext_left {fs : FS} {m0 m m' : Mem} {s : Status} (he : Ext fs m0 m) (h : StepU fs m s m') :
    StepU fs m0 s m' := by
  refine ⟨h.1, h.2.1, fun M hM => ?_⟩
  obtain ⟨M', x, h1, h2, h3⟩ := h.2.2 M hM
  exact ⟨M', x, h1, he.trans h2, h3⟩

/-- a stack of `Status` (newest first) leading from `m` to `m'`, entries loaded on the way allowed -/
def Chain (fs : FS) : Mem → List Status → Mem → Prop
  | m, [], m' => Ext fs m m'
  | m, s :: L, m' => ∃ m1, Chain fs m L m1 ∧ StepU fs m1 s m'

theorem Chain.ext_right {fs : FS} {m m' m'' : Mem} {L : List Status} (h : Chain fs m L m') (he : Ext fs m' m'') :
    Chain fs m L m'' := by
  cases L with
  | nil => exact Ext.trans h he
  | cons s L =>
    obtain ⟨m1, h1, h2⟩ := h
    exact ⟨m1, h1, h2.ext_right he⟩

theorem Chain.ext_left {fs : FS} {m0 m : Mem} (he : Ext fs m0 m) : ∀ {L : List Status} {m' : Mem},
    Chain fs m L m' → Chain fs m0 L m' := by
  intro L
  induction L with
  | nil => intro m' h; exact Ext.trans he h
  | cons s L ih =>
    intro m' h
    obtain ⟨m1, h1, h2⟩ := h
    exact ⟨m1, ih h1, h2⟩

theorem Chain.single {fs : FS} {m m' : Mem} {s : Status} (h : StepU fs m s m') : Chain fs m [s] m' :=
  ⟨m, Ext.refl _ _, h⟩

theorem Chain.append {fs : FS} {m m1 : Mem} {L1 : List Status} (h1 : Chain fs m L1 m1) :
    ∀ {L2 : List Status} {m2 : Mem}, Chain fs m1 L2 m2 → Chain fs m (L2 ++ L1) m2 := by
  intro L2
  induction L2 with
  | nil => intro m2 h2; exact h1.ext_right h2
  | cons s L2 ih =>
    intro m2 h2
    obtain ⟨m', h3, h4⟩ := h2
    exact ⟨m', ih h3, h4⟩

theorem Chain.undoable {fs : FS} {m : Mem} : ∀ {L : List Status} {m' : Mem},
    Chain fs m L m' → Undoable fs m L m' := by
  intro L
  induction L with
  | nil => intro m' h; exact Undoable.nil h
  | cons s L ih =>
    intro m' h
    obtain ⟨m1, h1, h2⟩ := h
    have hs : Undoable fs m1 [s] m' := by
      apply Undoable.single
      intro M hM
      obtain ⟨M', x, hr, he, _⟩ := h2.2.2 M hM
      exact ⟨M', x, hr, he⟩
    exact Undoable.append (ih h1) hs

/-! ### what `rollbackOne` computes -/

theorem rollbackOne_plain {M : Mem} {s : Status} {f' file : FileSt Bytes}
    (hb : s.beforeRename = none) (hg : M.get s.final = some f')
    (hrb : s.fp.rollback s.report.dir s.report f' = some file) :
    rollbackOne M s = .ok (M.put s.final file, file) := by
  unfold rollbackOne
  rw [hg]
  simp only
  rw [hrb]
  simp only
  rw [hb]

theorem rollbackOne_rename {M : Mem} {s : Status} {f' file newFile moved : FileSt Bytes}
    (hb : s.beforeRename = some (file.deleted, newFile.deleted, newFile.perms))
    (hg : M.get s.final = some f')
    (hrb : s.fp.rollback s.report.dir s.report f' = some moved)
    (hmoved : moved = { newFile with content := file.content, deleted := false, perms := file.perms })
    (hnf : newFile.content = [])
    (hgt : (M.put s.final newFile).get s.target = some { file with content := [], deleted := true, perms := none }) :
    rollbackOne M s = .ok ((M.put s.final newFile).put s.target file, file) := by
  unfold rollbackOne
  rw [hg]
  simp only
  rw [hrb]
  simp only
  rw [hb]
  simp only [moveOut]
  have hnew : ({ content := [], existed := moved.existed, deleted := newFile.deleted, perms := newFile.perms } : FileSt Bytes)
      = newFile := by
    subst hmoved
    obtain ⟨c, e, d, p⟩ := newFile
    simp only at hnf
    subst hnf
    rfl
  rw [hnew, hgt]
  simp only [moveIn, List.isEmpty_nil, Bool.not_true, Bool.false_and, Bool.false_eq_true, if_false]
  subst hmoved
  rfl

end RQ.Abs
