import RQ.Props.C01Text
import RQ.Props.C01Diff
import RQ.Spec.Push
import RQ.Spec.Flush
/-!
# C01 end to end, helper lemmas: bytes → diff → text → parser → application

`renderHunk` writes a hunk the way `diff -u` writes one change: hunk header, leading context, the removed
lines, the added lines, trailing context (a line without its newline is followed by the
`\ No newline at end of file` marker).  Unlike the tool's own writer (`writeHunk`, which re-derives the
context lines from the two sides with `find_closest_match`), this rendering is read back by the parser as
exactly the same hunk, context counts included (`parseHunk_renderHunk`).

Sections: lines of a file are parser-acceptable lines; what `ValidFrom` says about each hunk (`HunkShape`);
rendering and reading back one hunk, a sequence of hunks, a whole file patch (`parsePatch_rendered`); the diff of
two files as text (`diffTextOpt`, `diffTextTs`, `diffText`) and its parse (`diffTextOpt_parses`); applying the parsed
file patch (`diffFP_apply_fwd/_rev`, the excluded class `c0TopOfFile`, empty for `c > 0`); the whole tool on a
concrete working directory (`pushSpec_e2e_core`, `push_e2e_core`); absent files (`/dev/null` names:
`diffFPOpt_create_*`, `diffFPOpt_delete_*`, `pushSpec_e2e_create/_remove`, `push_e2e_create/_remove`).
-/
set_option linter.unusedSectionVars false
set_option linter.unusedVariables false
namespace RQ.Write
open RQ RQ.Parse

/-! ## lines of a file -/

theorem lineOK_of_shape (l : Bytes) (h : ∀ i (hi : i < l.length), l[i] = 10 → i + 1 = l.length) : LineOK l := by
  by_cases hm : (10 : UInt8) ∈ l
  · left
    obtain ⟨i, hi, e⟩ := List.mem_iff_getElem.mp hm
    have hlen := h i hi e
    have hne : l ≠ [] := by intro e; subst e; simp at hi
    have hlast : l.getLast hne = 10 := by
      rw [List.getLast_eq_getElem]
      have : l.length - 1 = i := by omega
      simp only [this, e]
    refine ⟨l.dropLast, ?_, ?_⟩
    · rw [← hlast]; exact (List.dropLast_concat_getLast hne).symm
    · intro b hb eb
      subst eb
      obtain ⟨j, hj, ej⟩ := List.mem_iff_getElem.mp hb
      rw [List.getElem_dropLast] at ej
      simp only [List.length_dropLast] at hj
      have := h j (by omega) ej
      omega
  · right
    intro b hb e
    subst e
    exact hm hb

theorem linesOf_lineOK (bs : Bytes) : ∀ l ∈ linesOf bs, LineOK l :=
  fun l hl => lineOK_of_shape l ((C01_lines_shape bs).1 l hl).2

theorem length_le_flatten_of_ne_nil : ∀ (ls : List Bytes), (∀ l ∈ ls, l ≠ []) → ls.length ≤ ls.flatten.length := by
  intro ls
  induction ls with
  | nil => intro _; simp
  | cons l ls ih =>
    intro h
    have h1 : l ≠ [] := h l (by simp)
    have h2 := ih (fun x hx => h x (by simp [hx]))
    have : 1 ≤ l.length := by
      cases l with
      | nil => exact absurd rfl h1
      | cons _ _ => simp
    simp only [List.flatten_cons, List.length_append, List.length_cons]
    omega

theorem linesOf_length_le (bs : Bytes) : (linesOf bs).length ≤ bs.length := by
  have h := length_le_flatten_of_ne_nil (linesOf bs) (fun l hl => ((C01_lines_shape bs).1 l hl).1)
  have e := C01_lines_roundtrip bs
  unfold bytesOf at e
  rw [e] at h
  exact h

theorem linesOf_nil : linesOf [] = [] := rfl

theorem linesOf_eq_nil (bs : Bytes) (h : linesOf bs = []) : bs = [] := by
  have e := C01_lines_roundtrip bs
  rw [h] at e
  exact e.symm

end RQ.Write

namespace RQ
variable {α : Type}

/-! ## what `ValidFrom` says about each hunk -/

/-- the shape of a hunk of a unified diff of `A` and `B` whose remaining parts start at lines `pa`, `pb` -/
def HunkShape (pa pb : Nat) (A B : List α) (h : Hunk α) : Prop :=
  (∃ P D I S : List α, h.rem = P ++ D ++ S ∧ h.add = P ++ I ++ S ∧ h.pre = P.length ∧ h.suf = S.length ∧
      (D ≠ [] ∨ I ≠ [])) ∧
  (∀ l ∈ h.rem, l ∈ A) ∧ (∀ l ∈ h.add, l ∈ B) ∧
  (pa : Int) ≤ h.remLine ∧ (pb : Int) ≤ h.addLine ∧
  h.remLine + h.rem.length ≤ ((pa + A.length : Nat) : Int) ∧ h.addLine + h.add.length ≤ ((pb + B.length : Nat) : Int)

theorem validFrom_shape : ∀ (hs : List (Hunk α)) (gap : Bool) (pa pb : Nat) (A B : List α),
    ValidFrom gap pa pb A B hs → ∀ h ∈ hs, HunkShape pa pb A B h := by
  intro hs
  induction hs with
  | nil => intro _ _ _ _ _ _ h hh; cases hh
  | cons h0 hs ih =>
    intro gap pa pb A B hv h hh
    obtain ⟨G0, P, D, I, S, A', B', eA, eB, er, ea, hp, hsf, hrl, hal, hdi, _, _, hrest⟩ := hv
    rcases List.mem_cons.mp hh with rfl | hh
    · refine ⟨⟨P, D, I, S, er, ea, hp, hsf, hdi⟩, ?_, ?_, ?_, ?_, ?_, ?_⟩
      · intro l hl; rw [er] at hl; rw [eA]; simp only [List.mem_append] at hl ⊢; grind
      · intro l hl; rw [ea] at hl; rw [eB]; simp only [List.mem_append] at hl ⊢; grind
      · rw [hrl]; omega
      · rw [hal]; omega
      · rw [hrl, er, eA]; simp only [List.length_append]; omega
      · rw [hal, ea, eB]; simp only [List.length_append]; omega
    · obtain ⟨x, y1, y2, z1, z2, z3, z4⟩ := ih true _ _ _ _ hrest h hh
      refine ⟨x, ?_, ?_, ?_, ?_, ?_, ?_⟩
      · intro l hl; have := y1 l hl; rw [eA]; simp only [List.mem_append] at this ⊢; grind
      · intro l hl; have := y2 l hl; rw [eB]; simp only [List.mem_append] at this ⊢; grind
      · omega
      · omega
      · rw [eA]; simp only [List.length_append] at z3 z4 ⊢; omega
      · rw [eB]; simp only [List.length_append] at z3 z4 ⊢; omega

/-! ## `mkDiff` leaves the function-name field empty -/

theorem emit_func (c : Nat) : ∀ (s : List (Seg α)) (pa pb : Nat) (lead : List α),
    ∀ h ∈ emit c pa pb lead s, h.func = [] := by
  intro s
  induction s with
  | nil => intro pa pb lead h hh; simp [emit] at hh
  | cons x r ih =>
    intro pa pb lead h hh
    cases x with
    | keep ls => exact ih _ _ _ h hh
    | change d i =>
      simp only [emit, List.mem_cons] at hh
      rcases hh with rfl | hh
      · rfl
      · exact ih _ _ _ h hh

theorem mkDiff_func (c : Nat) (s : List (Seg α)) : ∀ h ∈ mkDiff c s, h.func = [] :=
  emit_func c _ _ _ _

end RQ

namespace RQ.Write
open RQ RQ.Parse

/-! ## rendering a hunk the way `diff -u` does, and reading it back -/

/-- leading context, removed lines, added lines, trailing context -/
def renderBody (h : PHunk) : Bytes :=
  flatLines 32 (h.rem.take h.pre) ++ (flatLines 45 (core h.rem h.pre h.suf) ++
    (flatLines 43 (core h.add h.pre h.suf) ++ flatLines 32 (h.rem.drop (h.rem.length - h.suf))))

/-- `@@ -l,c +l,c @@`, then the body -/
def renderHunk (h : PHunk) : Bytes := writeHunkHeader h ++ 10 :: renderBody h

theorem hunkLoop_ctx_pre (f : Nat) (c rest : Bytes) (ac rc : Nat) (h : PHunk) (hc : LineOK c) (hr : No92 rest) :
    hunkLoop (f+1) (writeLine 32 c ++ rest) (ac+1) (rc+1) h false =
      hunkLoop f rest ac rc { h with add := h.add ++ [c], rem := h.rem ++ [c], pre := h.pre + 1 } false := by
  rw [hunkLoop_succ]
  have := parseHunkLine_writeLine .ctx c rest hc hr
  simp only [tagByte] at this
  simp [this]

theorem hunkLoop_ctx_suf (f : Nat) (c rest : Bytes) (ac rc : Nat) (h : PHunk) (hc : LineOK c) (hr : No92 rest) :
    hunkLoop (f+1) (writeLine 32 c ++ rest) (ac+1) (rc+1) h true =
      hunkLoop f rest ac rc { h with add := h.add ++ [c], rem := h.rem ++ [c], suf := h.suf + 1 } true := by
  rw [hunkLoop_succ]
  have := parseHunkLine_writeLine .ctx c rest hc hr
  simp only [tagByte] at this
  simp [this]

theorem flatLines_cons (tag : UInt8) (c : Bytes) (ls : List Bytes) (rest : Bytes) :
    flatLines tag (c :: ls) ++ rest = writeLine tag c ++ (flatLines tag ls ++ rest) := by
  simp [flatLines]

theorem hunkLoop_pre_lines : ∀ (ls : List Bytes) (f ac rc : Nat) (h : PHunk) (rest : Bytes),
    (∀ l ∈ ls, LineOK l) → No92 rest →
    hunkLoop (f + ls.length) (flatLines 32 ls ++ rest) (ac + ls.length) (rc + ls.length) h false =
      hunkLoop f rest ac rc { h with add := h.add ++ ls, rem := h.rem ++ ls, pre := h.pre + ls.length } false := by
  intro ls
  induction ls with
  | nil => intro f ac rc h rest _ _; simp [flatLines]
  | cons c ls ih =>
    intro f ac rc h rest hl hr
    have hc : LineOK c := hl c (by simp)
    have hls : ∀ l ∈ ls, LineOK l := fun l hl' => hl l (by simp [hl'])
    rw [flatLines_cons, show f + (c :: ls).length = (f + ls.length) + 1 from by simp; omega,
      show ac + (c :: ls).length = (ac + ls.length) + 1 from by simp; omega,
      show rc + (c :: ls).length = (rc + ls.length) + 1 from by simp; omega,
      hunkLoop_ctx_pre _ _ _ _ _ _ hc (No92_flat 32 ls rest (by decide) hr), ih _ _ _ _ _ hls hr]
    congr 1
    simp only [List.append_assoc, List.singleton_append, List.length_cons]
    congr 1
    omega

theorem hunkLoop_suf_lines : ∀ (ls : List Bytes) (f ac rc : Nat) (h : PHunk) (rest : Bytes),
    (∀ l ∈ ls, LineOK l) → No92 rest →
    hunkLoop (f + ls.length) (flatLines 32 ls ++ rest) (ac + ls.length) (rc + ls.length) h true =
      hunkLoop f rest ac rc { h with add := h.add ++ ls, rem := h.rem ++ ls, suf := h.suf + ls.length } true := by
  intro ls
  induction ls with
  | nil => intro f ac rc h rest _ _; simp [flatLines]
  | cons c ls ih =>
    intro f ac rc h rest hl hr
    have hc : LineOK c := hl c (by simp)
    have hls : ∀ l ∈ ls, LineOK l := fun l hl' => hl l (by simp [hl'])
    rw [flatLines_cons, show f + (c :: ls).length = (f + ls.length) + 1 from by simp; omega,
      show ac + (c :: ls).length = (ac + ls.length) + 1 from by simp; omega,
      show rc + (c :: ls).length = (rc + ls.length) + 1 from by simp; omega,
      hunkLoop_ctx_suf _ _ _ _ _ _ hc (No92_flat 32 ls rest (by decide) hr), ih _ _ _ _ _ hls hr]
    congr 1
    simp only [List.append_assoc, List.singleton_append, List.length_cons]
    congr 1
    omega

/-- removed lines; the trailing-context counter is (still) zero -/
theorem hunkLoop_minus_lines : ∀ (ls : List Bytes) (f ac rc : Nat) (h : PHunk) (nc : Bool) (rest : Bytes),
    (∀ l ∈ ls, LineOK l) → No92 rest → h.suf = 0 →
    hunkLoop (f + ls.length) (flatLines 45 ls ++ rest) ac (rc + ls.length) h nc =
      hunkLoop f rest ac rc { h with rem := h.rem ++ ls } (nc || !ls.isEmpty) := by
  intro ls
  induction ls with
  | nil => intro f ac rc h nc rest _ _ _; simp [flatLines]
  | cons c ls ih =>
    intro f ac rc h nc rest hl hr hs
    have hc : LineOK c := hl c (by simp)
    have hls : ∀ l ∈ ls, LineOK l := fun l hl' => hl l (by simp [hl'])
    rw [flatLines_cons, show f + (c :: ls).length = (f + ls.length) + 1 from by simp; omega,
      show rc + (c :: ls).length = (rc + ls.length) + 1 from by simp; omega,
      hunkLoop_rem_step _ _ _ _ _ _ _ hc (No92_flat 45 ls rest (by decide) hr), ih _ _ _ _ _ _ hls hr rfl]
    congr 1
    · cases h; simp_all
    · simp

theorem hunkLoop_plus_lines : ∀ (ls : List Bytes) (f ac rc : Nat) (h : PHunk) (nc : Bool) (rest : Bytes),
    (∀ l ∈ ls, LineOK l) → No92 rest → h.suf = 0 →
    hunkLoop (f + ls.length) (flatLines 43 ls ++ rest) (ac + ls.length) rc h nc =
      hunkLoop f rest ac rc { h with add := h.add ++ ls } (nc || !ls.isEmpty) := by
  intro ls
  induction ls with
  | nil => intro f ac rc h nc rest _ _ _; simp [flatLines]
  | cons c ls ih =>
    intro f ac rc h nc rest hl hr hs
    have hc : LineOK c := hl c (by simp)
    have hls : ∀ l ∈ ls, LineOK l := fun l hl' => hl l (by simp [hl'])
    rw [flatLines_cons, show f + (c :: ls).length = (f + ls.length) + 1 from by simp; omega,
      show ac + (c :: ls).length = (ac + ls.length) + 1 from by simp; omega,
      hunkLoop_add_step _ _ _ _ _ _ _ hc (No92_flat 43 ls rest (by decide) hr), ih _ _ _ _ _ _ hls hr rfl]
    congr 1
    · cases h; simp_all
    · simp

end RQ.Write

namespace RQ.Write
open RQ RQ.Parse

theorem hunkLoop_rendered (P D I S : List Bytes) (rl al : Int) (fn rest : Bytes)
    (hP : ∀ l ∈ P, LineOK l) (hD : ∀ l ∈ D, LineOK l) (hI : ∀ l ∈ I, LineOK l) (hS : ∀ l ∈ S, LineOK l)
    (hdi : D ≠ [] ∨ I ≠ []) (hr : No92 rest) (f : Nat) (hf : P.length + D.length + I.length + S.length < f) :
    hunkLoop f (flatLines 32 P ++ (flatLines 45 D ++ (flatLines 43 I ++ (flatLines 32 S ++ rest))))
        (P ++ I ++ S).length (P ++ D ++ S).length
        { rem := [], add := [], remLine := rl, addLine := al, pre := 0, suf := 0, func := fn } false =
      .ok (rest, { rem := P ++ D ++ S, add := P ++ I ++ S, remLine := rl, addLine := al,
                   pre := P.length, suf := S.length, func := fn }) := by
  obtain ⟨f0, rfl⟩ : ∃ f0, f = ((((f0 + 1) + S.length) + I.length) + D.length) + P.length :=
    ⟨f - 1 - S.length - I.length - D.length - P.length, by omega⟩
  have n4 : No92 (flatLines 32 S ++ rest) := No92_flat 32 _ _ (by decide) hr
  have n3 : No92 (flatLines 43 I ++ (flatLines 32 S ++ rest)) := No92_flat 43 _ _ (by decide) n4
  have n2 : No92 (flatLines 45 D ++ (flatLines 43 I ++ (flatLines 32 S ++ rest))) := No92_flat 45 _ _ (by decide) n3
  have hnc : (false || !D.isEmpty || !I.isEmpty) = true := by
    rcases hdi with h | h
    · cases D with
      | nil => exact absurd rfl h
      | cons _ _ => simp
    · cases I with
      | nil => exact absurd rfl h
      | cons _ _ => simp
  rw [show (P ++ I ++ S).length = ((0 + S.length) + I.length) + P.length from by simp; omega,
    show (P ++ D ++ S).length = ((0 + S.length) + D.length) + P.length from by simp; omega,
    hunkLoop_pre_lines P _ _ _ _ _ hP n2,
    hunkLoop_minus_lines D _ _ _ _ _ _ hD n3 rfl,
    hunkLoop_plus_lines I _ _ _ _ _ _ hI n4 rfl, hnc,
    hunkLoop_suf_lines S _ _ _ _ _ hS hr, hunkLoop_done _ _ _ _ (by omega)]
  simp

theorem take_left' {β : Type} (P X : List β) : (P ++ X).take P.length = P := by simp

theorem drop_right' {β : Type} (X S : List β) : (X ++ S).drop ((X ++ S).length - S.length) = S := by
  have : (X ++ S).length - S.length = X.length := by simp
  rw [this]; simp

/-- **the parser reads a rendered hunk back exactly** (context counts included) -/
theorem parseHunk_renderHunk (h : PHunk) (P D I S : List Bytes) (rest : Bytes) (ok : HunkOK h)
    (er : h.rem = P ++ D ++ S) (ea : h.add = P ++ I ++ S) (hp : h.pre = P.length) (hs : h.suf = S.length)
    (hdi : D ≠ [] ∨ I ≠ []) (hr : No92 rest) :
    parseHunk (renderHunk h ++ rest) = .ok (rest, h) := by
  have hP : ∀ l ∈ P, LineOK l := fun l hl => ok.remOK l (by rw [er]; simp [hl])
  have hD : ∀ l ∈ D, LineOK l := fun l hl => ok.remOK l (by rw [er]; simp [hl])
  have hS : ∀ l ∈ S, LineOK l := fun l hl => ok.remOK l (by rw [er]; simp [hl])
  have hI : ∀ l ∈ I, LineOK l := fun l hl => ok.addOK l (by rw [ea]; simp [hl])
  have eb : renderBody h = flatLines 32 P ++ (flatLines 45 D ++ (flatLines 43 I ++ flatLines 32 S)) := by
    unfold renderBody
    rw [hp, hs, er, ea, core_mid, core_mid, List.append_assoc P D S, take_left', ← List.append_assoc P D S, drop_right']
  have e : renderHunk h ++ rest =
      writeHunkHeader h ++ 10 :: (flatLines 32 P ++ (flatLines 45 D ++ (flatLines 43 I ++ (flatLines 32 S ++ rest)))) := by
    simp only [renderHunk, eb, List.append_assoc, List.cons_append]
  rw [e]
  unfold parseHunk
  rw [parseHunkHeader_written h _ ok]
  simp only []
  rw [startLine_written _ _ ok.remLine0, startLine_written _ _ ok.addLine0]
  have hlen : P.length + D.length + I.length + S.length <
      (flatLines 32 P ++ (flatLines 45 D ++ (flatLines 43 I ++ (flatLines 32 S ++ rest)))).length + 2 := by
    have l1 := flatLines_length 32 P
    have l2 := flatLines_length 45 D
    have l3 := flatLines_length 43 I
    have l4 := flatLines_length 32 S
    simp only [List.length_append]
    omega
  have := hunkLoop_rendered P D I S h.remLine h.addLine h.func rest hP hD hI hS hdi hr _ hlen
  rw [ea, er, this]
  congr 2
  cases h
  simp_all

end RQ.Write

namespace RQ.Write
open RQ RQ.Parse

/-! ## a sequence of rendered hunks, a whole file patch -/

/-- what `renderHunk` needs to be read back: the parser's bounds, and a non-empty change between the
context lines -/
def Renderable (h : PHunk) : Prop :=
  HunkOK h ∧ ∃ P D I S : List Bytes, h.rem = P ++ D ++ S ∧ h.add = P ++ I ++ S ∧ h.pre = P.length ∧
    h.suf = S.length ∧ (D ≠ [] ∨ I ≠ [])

theorem renderHunk_head (h : PHunk) (x : Bytes) : ∃ t, renderHunk h ++ x = 64 :: t := by
  simp [renderHunk, writeHunkHeader, sHunkStart]

theorem No92_renderHunks (hs : List PHunk) (next : Bytes) (hn : No92 next) :
    No92 ((hs.map renderHunk).flatten ++ next) := by
  cases hs with
  | nil => simpa using hn
  | cons h hs =>
    simp only [List.map_cons, List.flatten_cons, List.append_assoc]
    obtain ⟨t, e⟩ := renderHunk_head h ((List.map renderHunk hs).flatten ++ next)
    rw [e]
    intro r' e'
    cases e'

theorem hunksLoop_rendered : ∀ (hs : List PHunk) (f : Nat) (next : Bytes) (acc : List PHunk),
    (∀ h ∈ hs, Renderable h) → No92 next → stripPrefix sHunkStart next = none → hs.length < f →
    hunksLoop f ((hs.map renderHunk).flatten ++ next) acc = .ok (next, acc ++ hs) := by
  intro hs
  induction hs with
  | nil =>
    intro f next acc _ _ hnm hf
    obtain ⟨f', rfl⟩ : ∃ f', f = f' + 1 := ⟨f - 1, by simp at hf; omega⟩
    rw [hunksLoop_succ]
    simp [parseHunk_noMatch next hnm]
  | cons h hs ih =>
    intro f next acc hok hn hnm hf
    obtain ⟨f', rfl⟩ : ∃ f', f = f' + 1 := ⟨f - 1, by simp at hf; omega⟩
    obtain ⟨ok1, P, D, I, S, er, ea, hp, hs', hdi⟩ := hok h (by simp)
    have hok2 : ∀ h' ∈ hs, Renderable h' := fun h' hh => hok h' (by simp [hh])
    simp only [List.map_cons, List.flatten_cons, List.append_assoc]
    rw [hunksLoop_succ, parseHunk_renderHunk h P D I S _ ok1 er ea hp hs' hdi (No92_renderHunks hs next hn)]
    simp only []
    rw [ih f' next (acc ++ [h]) hok2 hn hnm (by simp at hf; omega)]
    simp

theorem renderHunks_length (hs : List PHunk) : hs.length ≤ ((hs.map renderHunk).flatten).length := by
  induction hs with
  | nil => simp
  | cons h hs ih =>
    have : 1 ≤ (renderHunk h).length := by simp [renderHunk, writeHunkHeader, sHunkStart]
    simp only [List.map_cons, List.flatten_cons, List.length_append, List.length_cons]
    omega

/-- **a plain `---`/`+++` header (optionally with timestamps; a missing side written as `/dev/null`) followed
by rendered hunks is parsed, at any strip level, to one file patch with exactly these hunks** -/
theorem parsePatch_rendered (old new : Option Bytes) (ts : Bytes) (hs : List PHunk) (strip : Nat)
    (hno : old ≠ some nullFilename) (hnn : new ≠ some nullFilename) (hnm : old.isSome = true ∨ new.isSome = true)
    (hts : TsOK' ts) (hh : hs ≠ []) (hok : ∀ h ∈ hs, Renderable h) :
    parsePatch (plainR old new ts ((hs.map renderHunk).flatten)) strip false =
      .ok { header := [],
            fps := [{ kind := recognizeKind hs, old := old.map (stripPath strip), new := new.map (stripPath strip),
                      rename := false, oldPerm := none, newPerm := none, oldHash := none, newHash := none,
                      hunks := hs }] } := by
  generalize hH : (hs.map renderHunk).flatten = H
  have okg : FPW ({ kind := .modify, old := old, new := new, hunks := hs } : PFilePatch) :=
    ⟨fun h hm => (hok h hm).1, (by intro h; cases h), hnm, (by intro x h; cases h),
      (by intro x h; cases h), Or.inl ⟨rfl, rfl⟩⟩
  have hb := build_final _ okg
  simp only [mk] at hb
  have hnm' : stripPrefix sHunkStart ([] : Bytes) = none := rfl
  have e1 := hunksLoop_rendered hs (H.length + 2) [] [] hok
    (by intro r' e; cases e) hnm' (by have := renderHunks_length hs; rw [hH] at this; omega)
  rw [List.append_nil, hH, List.nil_append] at e1
  have hcH : ∀ m : Meta, haveFilename m = true → lineCond m H = false := by
    intro m hm
    have : hdrNoMatch H = false := by
      cases hv : hdrNoMatch H with
      | false => rfl
      | true =>
        rw [hdrNoMatch_iff, ← hH] at hv
        cases hf : hs with
        | nil => exact absurd hf hh
        | cons h0 hs0 =>
          rw [hf] at hv
          simp only [List.map_cons, List.flatten_cons, renderHunk, writeHunkHeader, List.append_assoc] at hv
          rw [stripPrefix_append] at hv
          cases hv
    simp [lineCond, this, hm]
  have hfirst : ∀ total F,
      filePatchLoop total (F + 3) (plainR old new ts H) false 0 false false {} =
        .ok ([], 0, { kind := recognizeKind hs, old := old, new := new, rename := false, oldPerm := none,
                      newPerm := none, oldHash := none, newHash := none, hunks := hs }) := by
    intro total F
    unfold plainR
    rw [fpl_pass total (F + 2) _ _ false 0 false false {} _ _ (by rfl)
      (parse_minus_ts false old ts _ hno hts) rfl]
    rw [fpl_pass total (F + 1) _ _ false 0 false _ _ _ _
      (lineCond_of_hdr _ _ (hdrNoMatch_append_of sPlus _ 43 _ rfl (by decide)))
      (parse_plus_ts false new ts H hnn hts) rfl]
    rw [fpl_hunks total F H false 0 false _ _ (hcH _ rfl), e1]
    simp only []
    have := hb hs
    rw [show (({ ({ ({} : Meta) with old := some (nameVal old) } : Meta) with new := some (nameVal new) } : Meta)) =
      { old := some (nameVal old), new := some (nameVal new), renFrom := false, renTo := false,
        oldPerm := none, newPerm := none, oldHash := none, newHash := none } from rfl, this]
  unfold parsePatch
  have hl : 1 ≤ (plainR old new ts H).length := by simp [plainR, sMinus]
  obtain ⟨L, hL⟩ : ∃ L, (plainR old new ts H).length = L + 1 := ⟨_, (Nat.sub_add_cancel hl).symm⟩
  rw [patchLoop_succ]
  unfold parseFilePatch
  rw [hL, show L + 1 + 2 = L + 3 from rfl, hfirst (L + 1) L]
  simp only [Bool.false_eq_true, if_false]
  rw [patchLoop_succ, parseFilePatch_nil]
  rfl

end RQ.Write

namespace RQ
open RQ.Parse RQ.Write

/-! ## the diff of two files as text -/

/-- the hunks of the diff of the files `A` and `B` (bytes) with context width `c` -/
def diffHunks (c : Nat) (A B : Bytes) : List PHunk := mkDiff c (editScript (linesOf A) (linesOf B))

/-- `--- old<ts>`, `+++ new<ts>` (a missing name: `/dev/null`), then the hunks as `diff -u` writes them -/
def diffTextOpt (ts : Bytes) (c : Nat) (A B : Bytes) (old new : Option Bytes) : Bytes :=
  plainHeader old new ts ++ ((diffHunks c A B).map renderHunk).flatten

/-- both files named -/
def diffTextTs (ts : Bytes) (c : Nat) (A B : Bytes) (old new : Bytes) : Bytes :=
  diffTextOpt ts c A B (some old) (some new)

/-- the unified diff without timestamps -/
def diffText (c : Nat) (A B : Bytes) (old new : Bytes) : Bytes := diffTextTs [] c A B old new

/-- the file patch the parser makes of `diffTextOpt` -/
def diffFPOpt (c : Nat) (A B : Bytes) (old new : Option Bytes) : PFilePatch :=
  { kind := recognizeKind (diffHunks c A B), old := old, new := new, hunks := diffHunks c A B }

/-- the file patch the parser makes of `diffText` -/
def diffFP (c : Nat) (A B : Bytes) (old new : Bytes) : PFilePatch := diffFPOpt c A B (some old) (some new)

theorem diffHunks_valid (c : Nat) (A B : Bytes) : ValidDiff (linesOf A) (linesOf B) (diffHunks c A B) :=
  C01_diff_valid c (linesOf A) (linesOf B)

theorem diffHunks_ne_nil (c : Nat) (A B : Bytes) (h : A ≠ B) : diffHunks c A B ≠ [] := by
  intro e
  have hv := diffHunks_valid c A B
  rw [e] at hv
  have hl : linesOf A = linesOf B := hv
  apply h
  rw [← C01_lines_roundtrip A, ← C01_lines_roundtrip B, hl]

theorem diffHunks_renderable (c : Nat) (A B : Bytes) (hA : A.length < 2 ^ 63) (hB : B.length < 2 ^ 63) :
    ∀ h ∈ diffHunks c A B, Renderable h := by
  intro h hh
  obtain ⟨hex, hrs, has, hr0, ha0, hr1, ha1⟩ := validFrom_shape _ _ _ _ _ _ (diffHunks_valid c A B) h hh
  have lA := linesOf_length_le A
  have lB := linesOf_length_le B
  have hfn : h.func = [] := mkDiff_func c _ h hh
  refine ⟨⟨?_, ?_, by omega, by omega, ?_, ?_, by omega, by omega, ?_⟩, hex⟩
  · intro l hl; exact linesOf_lineOK A l (hrs l hl)
  · intro l hl; exact linesOf_lineOK B l (has l hl)
  · split <;> omega
  · split <;> omega
  · rw [hfn]; exact NLfree_nil

/-- **text level**: the diff text is parsed (at any strip level) to exactly one file patch carrying exactly the
hunks of the diff -/
theorem diffTextOpt_parses (ts : Bytes) (c : Nat) (A B : Bytes) (old new : Option Bytes) (strip : Nat)
    (hAB : A ≠ B) (hA : A.length < 2 ^ 63) (hB : B.length < 2 ^ 63)
    (ho : old ≠ some nullFilename) (hn : new ≠ some nullFilename) (hnm : old.isSome = true ∨ new.isSome = true)
    (hts : TsOK ts) :
    parsePatch (diffTextOpt ts c A B old new) strip false =
      .ok { header := [], fps := [diffFPOpt c A B (old.map (stripPath strip)) (new.map (stripPath strip))] } := by
  have e : diffTextOpt ts c A B old new =
      plainR old new ts (((diffHunks c A B).map renderHunk).flatten) := by
    simp only [diffTextOpt, plainHeader, plainR, nameBytes, List.append_assoc, List.cons_append, List.nil_append]
    cases old <;> cases new <;> rfl
  rw [e, parsePatch_rendered old new ts (diffHunks c A B) strip ho hn hnm hts (diffHunks_ne_nil c A B hAB)
    (diffHunks_renderable c A B hA hB)]
  rfl

theorem diffTextTs_parses (ts : Bytes) (c : Nat) (A B old new : Bytes) (strip : Nat)
    (hAB : A ≠ B) (hA : A.length < 2 ^ 63) (hB : B.length < 2 ^ 63)
    (ho : old ≠ nullFilename) (hn : new ≠ nullFilename) (hts : TsOK ts) :
    parsePatch (diffTextTs ts c A B old new) strip false =
      .ok { header := [], fps := [diffFP c A B (stripPath strip old) (stripPath strip new)] } :=
  diffTextOpt_parses ts c A B (some old) (some new) strip hAB hA hB
    (by intro e; exact ho (Option.some.inj e)) (by intro e; exact hn (Option.some.inj e)) (Or.inl rfl) hts

/-! ## applying the parsed file patch -/

theorem recognizeKind_create (hs : List PHunk) (h : recognizeKind hs = .create) :
    ∃ x, hs = [x] ∧ x.suf = 0 ∧ x.pre = 0 ∧ x.rem = [] ∧ x.add ≠ [] ∧ x.remLine = 0 := by
  unfold recognizeKind at h
  split at h
  · rename_i x
    split at h
    · rename_i h0
      split at h
      · cases h
      · split at h
        · rename_i h2
          refine ⟨x, rfl, h0.1, h0.2, ?_, ?_, h2.2.2⟩
          · simpa using h2.2.1
          · have := h2.1; intro e; simp [e] at this
        · cases h
    · cases h
  · cases h

theorem recognizeKind_delete (hs : List PHunk) (h : recognizeKind hs = .delete) :
    ∃ x, hs = [x] ∧ x.suf = 0 ∧ x.pre = 0 ∧ x.add = [] ∧ x.rem ≠ [] ∧ x.addLine = 0 := by
  unfold recognizeKind at h
  split at h
  · rename_i x
    split at h
    · rename_i h0
      split at h
      · rename_i h2
        refine ⟨x, rfl, h0.1, h0.2, ?_, ?_, h2.2.1⟩
        · simpa using h2.1
        · have := h2.2.2; intro e; simp [e] at this
      · split at h
        · cases h
        · cases h
    · cases h
  · cases h

/-- known finding `c0-top-of-file`: the diff is a single context-free hunk whose empty side is at line 0 (so
the parser takes it for a whole-file creation / deletion) although neither file is empty -/
def c0TopOfFile (c : Nat) (A B : Bytes) : Bool :=
  recognizeKind (diffHunks c A B) != .modify && !A.isEmpty && !B.isEmpty

/-- a single hunk `x` is a diff of `LA` and `LB` -/
theorem validDiff_single {α : Type} (LA LB : List α) (x : Hunk α) (h : ValidDiff LA LB [x]) :
    ∃ G0 P D I S T : List α, LA = G0 ++ P ++ D ++ S ++ T ∧ LB = G0 ++ P ++ I ++ S ++ T ∧
      x.rem = P ++ D ++ S ∧ x.add = P ++ I ++ S ∧ x.remLine = (G0.length : Int) ∧ x.addLine = (G0.length : Int) := by
  obtain ⟨G0, P, D, I, S, A', B', eA, eB, er, ea, _, _, hrl, hal, _, _, _, hrest⟩ := h
  have hT : S ++ A' = S ++ B' := hrest
  have hT' : A' = B' := List.append_cancel_left hT
  subst hT'
  exact ⟨G0, P, D, I, S, A', eA, eB, er, ea, by simpa using hrl, by simpa using hal⟩

/-- a creation-shaped diff outside the excluded class: `A` is empty and the hunk adds all of `B` -/
theorem create_shape (c : Nat) (A B : Bytes) (x : PHunk) (hx : diffHunks c A B = [x]) (hr : x.rem = [])
    (ha : x.add ≠ []) (hl : x.remLine = 0) (hex : A = [] ∨ B = []) :
    linesOf A = [] ∧ x.add = linesOf B := by
  have hv := diffHunks_valid c A B
  rw [hx] at hv
  obtain ⟨G0, P, D, I, S, T, eA, eB, er, ea, hrl, _⟩ := validDiff_single _ _ _ hv
  rw [hr] at er
  have hG : G0 = [] := by
    rw [hl] at hrl
    cases G0 with
    | nil => rfl
    | cons _ _ => simp at hrl; omega
  have h3 := er.symm
  simp only [List.append_eq_nil_iff] at h3
  obtain ⟨⟨hP, hD⟩, hS⟩ := h3
  subst hG hP hD hS
  simp only [List.nil_append, List.append_nil] at eA eB ea
  rcases hex with rfl | rfl
  · rw [linesOf_nil] at eA
    subst eA
    simp only [List.append_nil] at eB
    exact ⟨linesOf_nil, by rw [ea, eB]⟩
  · rw [linesOf_nil] at eB
    have h4 := eB
    simp only [List.nil_eq, List.append_eq_nil_iff] at h4
    exact absurd (by rw [ea, h4.1]) ha

/-- a deletion-shaped diff outside the excluded class: `B` is empty and the hunk removes all of `A` -/
theorem delete_shape (c : Nat) (A B : Bytes) (x : PHunk) (hx : diffHunks c A B = [x]) (ha : x.add = [])
    (hr : x.rem ≠ []) (hl : x.addLine = 0) (hex : A = [] ∨ B = []) :
    linesOf B = [] ∧ x.rem = linesOf A := by
  have hv := diffHunks_valid c A B
  rw [hx] at hv
  obtain ⟨G0, P, D, I, S, T, eA, eB, er, ea', _, hal⟩ := validDiff_single _ _ _ hv
  rw [ha] at ea'
  have hG : G0 = [] := by
    rw [hl] at hal
    cases G0 with
    | nil => rfl
    | cons _ _ => simp at hal; omega
  have h3 := ea'.symm
  simp only [List.append_eq_nil_iff] at h3
  obtain ⟨⟨hP, hI⟩, hS⟩ := h3
  subst hG hP hI hS
  simp only [List.nil_append, List.append_nil] at eA eB er
  rcases hex with rfl | rfl
  · rw [linesOf_nil] at eA
    have h4 := eA
    simp only [List.nil_eq, List.append_eq_nil_iff] at h4
    exact absurd (by rw [er, h4.1]) hr
  · rw [linesOf_nil] at eB
    subst eB
    simp only [List.append_nil] at eA
    exact ⟨linesOf_nil, by rw [er, eA]⟩

theorem c0TopOfFile_false (c : Nat) (A B : Bytes) (h : c0TopOfFile c A B = false)
    (hk : recognizeKind (diffHunks c A B) ≠ .modify) : A = [] ∨ B = [] := by
  unfold c0TopOfFile at h
  have : (recognizeKind (diffHunks c A B) != Kind.modify) = true := by simpa using hk
  rw [this] at h
  cases A with
  | nil => left; rfl
  | cons _ _ =>
    cases B with
    | nil => right; rfl
    | cons _ _ => simp at h

/-- the reports of the end-to-end application: for an ordinary diff every hunk at its stated line, offset 0,
fuzz 0; for a whole-file creation / deletion the one report libpatch makes for it -/
def e2eReps (d : Dir) (c F : Nat) (A B : Bytes) : List Rep :=
  match recognizeKind (diffHunks c A B), d with
  | .modify, .fwd => exactReports (diffHunks c A B) 0
  | .modify, .rev => exactReports ((diffHunks c A B).map Hunk.swap) 0
  | .create, .fwd => [.applied 0 0 0 ((linesOf B).length : Int) F]
  | .create, .rev => [.applied 0 0 0 (-((linesOf B).length : Int)) F]
  | .delete, .fwd => [.applied 0 0 0 (-((linesOf A).length : Int)) F]
  | .delete, .rev => [.applied 0 0 0 ((linesOf A).length : Int) F]

/-- **forward**: the parsed diff applied to `A` gives `B`, flags and permissions untouched -/
theorem diffFP_apply_fwd (c F : Nat) (A B old new : Bytes) (ex : Bool) (m : Option Nat)
    (hex : c0TopOfFile c A B = false) :
    (diffFP c A B old new).apply .fwd F { content := linesOf A, existed := ex, deleted := false, perms := m } =
      some ({ content := linesOf B, existed := ex, deleted := false, perms := m },
            { reps := e2eReps .fwd c F A B, dir := .fwd, fuzz := F, prevPerms := m, prevDeleted := false }) := by
  cases hk : recognizeKind (diffHunks c A B) with
  | modify =>
    have := applyModify_valid (linesOf A) (linesOf B) (diffHunks c A B) F
      { content := linesOf A, existed := ex, deleted := false, perms := m } (diffHunks_valid c A B) rfl rfl
    simp only [FilePatch.apply, applyInternal, applyKind, diffFP, diffFPOpt, hk, this, e2eReps]
  | create =>
    obtain ⟨x, hx, _, _, hr, ha, hl⟩ := recognizeKind_create _ hk
    obtain ⟨eA, eB⟩ := create_shape c A B x hx hr ha hl (c0TopOfFile_false c A B hex (by rw [hk]; decide))
    have hreps : e2eReps .fwd c F A B = [.applied 0 0 0 ((linesOf B).length : Int) F] := by
      simp only [e2eReps, hk]
    have hfp : diffFP c A B old new = { kind := .create, old := some old, new := some new, hunks := [x] } := by
      unfold diffFP diffFPOpt; rw [hk, hx]
    rw [hreps, hfp, eA, ← eB]
    simp [FilePatch.apply, applyInternal, applyKind, applyCreate, prevFailed]
  | delete =>
    obtain ⟨x, hx, _, _, ha, hr, hl⟩ := recognizeKind_delete _ hk
    obtain ⟨eB, eA⟩ := delete_shape c A B x hx ha hr hl (c0TopOfFile_false c A B hex (by rw [hk]; decide))
    have hreps : e2eReps .fwd c F A B = [.applied 0 0 0 (-((linesOf A).length : Int)) F] := by
      simp only [e2eReps, hk]
    have hfp : diffFP c A B old new = { kind := .delete, old := some old, new := some new, hunks := [x] } := by
      unfold diffFP diffFPOpt; rw [hk, hx]
    rw [hreps, hfp, eB, ← eA]
    simp [FilePatch.apply, applyInternal, applyKind, applyDelete, prevFailed]

/-- **reverse** (`-R`): the parsed diff applied in reverse to `B` gives `A` -/
theorem diffFP_apply_rev (c F : Nat) (A B old new : Bytes) (ex : Bool) (m : Option Nat)
    (hex : c0TopOfFile c A B = false) :
    (diffFP c A B old new).apply .rev F { content := linesOf B, existed := ex, deleted := false, perms := m } =
      some ({ content := linesOf A, existed := ex, deleted := false, perms := m },
            { reps := e2eReps .rev c F A B, dir := .rev, fuzz := F, prevPerms := m, prevDeleted := false }) := by
  cases hk : recognizeKind (diffHunks c A B) with
  | modify =>
    have h1 := applyModify_rev_swap (diffHunks c A B) F
      { content := linesOf B, existed := ex, deleted := false, perms := m }
    have h2 := applyModify_valid (linesOf B) (linesOf A) ((diffHunks c A B).map Hunk.swap) F
      { content := linesOf B, existed := ex, deleted := false, perms := m }
      (validFrom_swap _ _ _ _ _ _ (diffHunks_valid c A B)) rfl rfl
    simp only [FilePatch.apply, applyInternal, applyKind, diffFP, diffFPOpt, hk, e2eReps]
    rw [h1, h2]
    rfl
  | create =>
    obtain ⟨x, hx, _, _, hr, ha, hl⟩ := recognizeKind_create _ hk
    obtain ⟨eA, eB⟩ := create_shape c A B x hx hr ha hl (c0TopOfFile_false c A B hex (by rw [hk]; decide))
    have hreps : e2eReps .rev c F A B = [.applied 0 0 0 (-((linesOf B).length : Int)) F] := by
      simp only [e2eReps, hk]
    have hfp : diffFP c A B old new = { kind := .create, old := some old, new := some new, hunks := [x] } := by
      unfold diffFP diffFPOpt; rw [hk, hx]
    rw [hreps, hfp, eA, ← eB]
    simp [FilePatch.apply, applyInternal, applyKind, applyDelete, prevFailed]
  | delete =>
    obtain ⟨x, hx, _, _, ha, hr, hl⟩ := recognizeKind_delete _ hk
    obtain ⟨eB, eA⟩ := delete_shape c A B x hx ha hr hl (c0TopOfFile_false c A B hex (by rw [hk]; decide))
    have hreps : e2eReps .rev c F A B = [.applied 0 0 0 ((linesOf A).length : Int) F] := by
      simp only [e2eReps, hk]
    have hfp : diffFP c A B old new = { kind := .delete, old := some old, new := some new, hunks := [x] } := by
      unfold diffFP diffFPOpt; rw [hk, hx]
    rw [hreps, hfp, eB, ← eA]
    simp [FilePatch.apply, applyInternal, applyKind, applyCreate, prevFailed]

end RQ

namespace RQ
open RQ.Parse RQ.Write

/-! ## the excluded class is empty for context widths above 0 -/

/-- a diff with context width `c > 0` that consists of a single context-free hunk covers both files entirely -/
theorem emit_single_ctxfree {α : Type} (c : Nat) (hc : 0 < c) : ∀ (s : List (Seg α)) (pa pb : Nat) (lead : List α) (x : Hunk α),
    NF s → emit c pa pb lead s = [x] → x.pre = 0 → x.suf = 0 →
    lead ++ oldOf s = x.rem ∧ lead ++ newOf s = x.add := by
  intro s
  induction s with
  | nil => intro pa pb lead x _ he; simp [emit] at he
  | cons y r ih =>
    intro pa pb lead x hnf he hp hs
    cases y with
    | keep ls =>
      simp only [emit] at he
      have := ih pa pb (lead ++ ls) x hnf.2.2 he hp hs
      simpa [oldOf, newOf, List.append_assoc] using this
    | change d i =>
      simp only [emit, List.cons.injEq] at he
      obtain ⟨hx, hrest⟩ := he
      subst hx
      simp only [List.length_drop, List.length_take] at hp hs
      have hlead : lead = [] := by
        cases lead with
        | nil => rfl
        | cons _ _ => simp only [List.length_cons] at hp; omega
      have hk : headKeep r = [] := by
        cases hh : headKeep r with
        | nil => rfl
        | cons _ _ => rw [hh] at hs; simp only [List.length_cons] at hs; omega
      have hr : r = [] := by
        cases r with
        | nil => rfl
        | cons z r' =>
          cases z with
          | keep ls => exact absurd hk hnf.2.2.1
          | change _ _ => exact absurd hnf.2.1 (by simp)
      subst hlead hr
      simp [oldOf, newOf, headKeep]

theorem diffHunks_single_ctxfree (c : Nat) (hc : 0 < c) (A B : Bytes) (x : PHunk) (hx : diffHunks c A B = [x])
    (hp : x.pre = 0) (hs : x.suf = 0) : x.rem = linesOf A ∧ x.add = linesOf B := by
  have hnf := mergeSmall_NF c _ (editScript_NF (linesOf A) (linesOf B))
  have := emit_single_ctxfree c hc (mergeSmall c (editScript (linesOf A) (linesOf B))) 0 0 [] x hnf hx hp hs
  simp only [List.nil_append, mergeSmall_old, mergeSmall_new, editScript_old, editScript_new] at this
  exact ⟨this.1.symm, this.2.symm⟩

/-- **the known finding `c0-top-of-file` concerns context width 0 only** -/
theorem c0TopOfFile_pos (c : Nat) (hc : 0 < c) (A B : Bytes) : c0TopOfFile c A B = false := by
  unfold c0TopOfFile
  cases hk : recognizeKind (diffHunks c A B) with
  | modify => simp
  | create =>
    obtain ⟨x, hx, hs, hp, hr, _, _⟩ := recognizeKind_create _ hk
    have h := (diffHunks_single_ctxfree c hc A B x hx hp hs).1
    rw [hr] at h
    have : A = [] := linesOf_eq_nil A h.symm
    simp [this]
  | delete =>
    obtain ⟨x, hx, hs, hp, ha, _, _⟩ := recognizeKind_delete _ hk
    have h := (diffHunks_single_ctxfree c hc A B x hx hp hs).2
    rw [ha] at h
    have : B = [] := linesOf_eq_nil B h.symm
    simp [this]

/-! ## the reports of the end-to-end application say: applied, offset 0 (and fuzz 0 for an ordinary diff) -/

theorem exactReports_ok {α : Type} : ∀ (hs : List (Hunk α)) (mo : Int), (exactReports hs mo).any Rep.isFailed = false := by
  intro hs
  induction hs with
  | nil => intro _; rfl
  | cons h hs ih => intro mo; simp [exactReports, Rep.isFailed, ih]

theorem exactReports_exact {α : Type} : ∀ (hs : List (Hunk α)) (mo : Int), ∀ r ∈ exactReports hs mo,
    ∃ line rb diff, r = .applied line rb 0 diff 0 := by
  intro hs
  induction hs with
  | nil => intro _ r hr; cases hr
  | cons h hs ih =>
    intro mo r hr
    simp only [exactReports, List.mem_cons] at hr
    rcases hr with rfl | hr
    · exact ⟨_, _, _, rfl⟩
    · exact ih _ r hr

theorem e2eReps_ok (d : Dir) (c F : Nat) (A B : Bytes) : (e2eReps d c F A B).any Rep.isFailed = false := by
  unfold e2eReps
  split <;> simp [exactReports_ok, Rep.isFailed]

/-- every hunk is reported applied with offset 0; with fuzz 0 unless the diff is a whole-file creation /
deletion (for which libpatch reports the configured fuzz, there being nothing to match) -/
theorem e2eReps_exact (d : Dir) (c F : Nat) (A B : Bytes) : ∀ r ∈ e2eReps d c F A B,
    ∃ line rb diff fz, r = .applied line rb 0 diff fz ∧
      (recognizeKind (diffHunks c A B) = .modify → fz = 0) := by
  intro r hr
  unfold e2eReps at hr
  split at hr
  · obtain ⟨l, rb, df, e⟩ := exactReports_exact _ _ r hr
    exact ⟨l, rb, df, 0, e, fun _ => rfl⟩
  · obtain ⟨l, rb, df, e⟩ := exactReports_exact _ _ r hr
    exact ⟨l, rb, df, 0, e, fun _ => rfl⟩
  all_goals
    rename_i hk
    simp only [List.mem_singleton] at hr
    exact ⟨_, _, _, _, hr, fun h => by rw [h] at hk; cases hk⟩

end RQ

namespace RQ
open RQ.Parse RQ.Write RQ.Push RQ.Spec

/-! ## the whole tool on a concrete working directory

`f` holds the file, `series` names the one patch `p` (with `-R` for the reverse direction), `patches/p`
is the diff of `a/f` and `b/f` (strip level 1, the default). -/

def nmF : Bytes := [102]                -- "f"
def nmP : Bytes := [112]                -- "p"
def nmOld : Bytes := [97, 47, 102]      -- "a/f"
def nmNew : Bytes := [98, 47, 102]      -- "b/f"
def patchesKey : Key := [[112, 97, 116, 99, 104, 101, 115]]   -- "patches"
def serFwd : Bytes := [112, 10]                    -- "p\n"
def serRev : Bytes := [112, 32, 45, 82, 10]        -- "p -R\n"
def entryP (rev : Bool) : Series.Entry := { name := nmP, strip := 1, reverse := rev }
def cfgAll : Cfg := { goal := .all }

/-- the working directory before the push: file `f` with content `X` and mode `m`, `series` with content
`ser`, the patch `patches/p` with content `dt` -/
def e2eFS (X : Bytes) (m : Nat) (ser dt : Bytes) : FS :=
  { nodes := [ ([nmF], .file X m 1),
               (seriesKey, .file ser 0o644 2),
               (patchesKey, .dir),
               (patchesKey ++ [nmP], .file dt 0o644 3) ],
    nextIno := 4 }

/-- after the application phase: `f` has been replaced by a new file with content `Y` -/
def e2eMid (Y : Bytes) (mode : Nat) (ser dt : Bytes) : FS :=
  { nodes := [ (seriesKey, .file ser 0o644 2),
               (patchesKey, .dir),
               (patchesKey ++ [nmP], .file dt 0o644 3),
               ([nmF], .file Y mode 4) ],
    nextIno := 5 }

/-- after the push: additionally `.pc/applied-patches` holds `p` -/
def e2eFinal (Y : Bytes) (mode : Nat) (ser dt : Bytes) : FS :=
  { nodes := [ (seriesKey, .file ser 0o644 2),
               (patchesKey, .dir),
               (patchesKey ++ [nmP], .file dt 0o644 3),
               ([nmF], .file Y mode 4),
               (pcDir, .dir),
               (appliedKey, .file [112, 10] 0o644 5) ],
    nextIno := 6 }

theorem stripPath_nmOld : stripPath 1 nmOld = nmF := by decide
theorem stripPath_nmNew : stripPath 1 nmNew = nmF := by decide

/-! ### `pushSpec` -/

theorem applyFPTree_simple (fs : FS) (cfg : Cfg) (entry : Series.Entry) (fp : PFilePatch) (target : Bytes)
    (file f' : FileSt Bytes) (rep : Report) (fs' : FS)
    (h1 : namesSafe fp = true) (h2 : chooseTree fs fp.old fp.new = some target) (h3 : loadTree fs target = .ok file)
    (h4 : fp.rename = false) (h5 : fp.apply (if entry.reverse then .rev else .fwd) cfg.fuzz file = some (f', rep))
    (h6 : rep.ok = true) (h7 : storeTree fs target f' = .ok fs') :
    applyFPTree fs cfg entry fp = .ok { fs := fs', ok := true, rej := none, touched := [(target, file)] } := by
  unfold applyFPTree
  simp [h1, h2, h3, h4, h5, h6, h7]

theorem storeTree_e2e (X Y : Bytes) (m : Nat) (ser dt : Bytes) (ls : List Bytes) (hl : bytesOf ls = Y) :
    storeTree (e2eFS X m ser dt) nmF
        { content := ls, existed := true, deleted := false, perms := some (0o100000 + m % 4096) } =
      .ok (e2eMid Y (m % 4096) ser dt) := by
  subst hl
  have h : (0o100000 + m % 4096) % 4096 = m % 4096 := by omega
  have : storeTree (e2eFS X m ser dt) nmF
      { content := ls, existed := true, deleted := false, perms := some (0o100000 + m % 4096) } =
      .ok (e2eMid (bytesOf ls) ((0o100000 + m % 4096) % 4096) ser dt) := rfl
  rw [this, h]

theorem applyRangeTree_single (cfg : Cfg) (orig : FS) (entry : Series.Entry) (pk : Key) (bytes : Bytes) (mode : Nat)
    (patch : Patch) (r : PatchResult) (p : Progress)
    (h1 : patchKey cfg entry.name = some pk) (h2 : orig.readFile pk = .ok (bytes, mode))
    (h3 : parsePatch bytes entry.strip false = .ok patch)
    (h4 : applyPatchTree cfg entry patch.fps { fs := p.fs, ok := true, rejs := [], touched := [] } = .ok r)
    (h5 : r.ok = true) :
    applyRangeTree cfg orig [entry] p =
      .ok { p with fs := r.fs, k := p.k + 1, backups := p.backups ++ [(entry.name, r.touched)] } := by
  simp [applyRangeTree, h1, h2, h3, h4, h5]

theorem applyPatchTree_single (cfg : Cfg) (entry : Series.Entry) (fp : PFilePatch) (acc : PatchResult) (r : FPResult)
    (h : applyFPTree acc.fs cfg entry fp = .ok r) :
    applyPatchTree cfg entry [fp] acc =
      .ok { fs := r.fs, ok := acc.ok && r.ok,
            rejs := acc.rejs ++ (match r.rej with | some x => [x] | none => []),
            touched := r.touched.foldl (fun t x => if t.any (fun y => components y.1 == components x.1) then t else t ++ [x]) acc.touched } := by
  simp only [applyPatchTree, h]
  cases r.rej <;> rfl

/-- `pushSpec` on the working directory, given what the patch file parses to and what that file patch does
to the lines of `X` -/
theorem pushSpec_e2e_core (rev : Bool) (X Y : Bytes) (m : Nat) (dt : Bytes) (fp : PFilePatch) (rep : Report)
    (hn : fp.old = some nmF ∧ fp.new = some nmF ∧ fp.rename = false)
    (hparse : parsePatch dt 1 false = .ok { header := [], fps := [fp] })
    (happ : fp.apply (if rev then .rev else .fwd) 0
      { content := linesOf X, existed := true, deleted := false, perms := some (0o100000 + m % 4096) } =
      some ({ content := linesOf Y, existed := true, deleted := false, perms := some (0o100000 + m % 4096) }, rep))
    (hok : rep.ok = true) :
    pushSpec cfgAll (e2eFS X m (if rev then serRev else serFwd) dt) =
      { exit := 0, fs := e2eFinal Y (m % 4096) (if rev then serRev else serFwd) dt } := by
  obtain ⟨ho, hnw, hr⟩ := hn
  have hplan : plan cfgAll (e2eFS X m (if rev then serRev else serFwd) dt) = .apply [entryP rev] := by
    cases rev <;> rfl
  have hfp := applyFPTree_simple (e2eFS X m (if rev then serRev else serFwd) dt) cfgAll (entryP rev) fp nmF _ _ rep _
    (by simp [namesSafe, ho, hnw]; rfl) (by rw [ho, hnw]; rfl) (by rfl) hr happ hok
    (storeTree_e2e X Y m _ dt (linesOf Y) (C01_lines_roundtrip Y))
  have hpt := applyPatchTree_single cfgAll (entryP rev) fp
    { fs := e2eFS X m (if rev then serRev else serFwd) dt, ok := true, rejs := [], touched := [] } _ hfp
  have hrt := applyRangeTree_single cfgAll (e2eFS X m (if rev then serRev else serFwd) dt) (entryP rev)
    (patchesKey ++ [nmP]) dt (0o100000 + 0o644 % 4096) { header := [], fps := [fp] } _
    { fs := e2eFS X m (if rev then serRev else serFwd) dt, k := 0, rejs := [], failed := false, backups := [] }
    rfl rfl hparse hpt rfl
  unfold pushSpec
  rw [hplan]
  simp only []
  rw [hrt]
  cases rev <;> rfl

/-! ### the model of the sequential driver -/

theorem applyOne_simple (st : St) (fs : FS) (cfg : Cfg) (index : Nat) (entry : Series.Entry) (fp : PFilePatch)
    (target : Bytes) (mem : Mem) (file f' : FileSt Bytes) (rep : Report)
    (h1 : namesSafe fp = true) (h4 : fp.rename = false) (h2 : choose st.mem fs fp.old fp.new = some target)
    (h3 : getOrLoad st.mem fs target = .ok (mem, file))
    (h5 : fp.apply (if entry.reverse then .rev else .fwd) cfg.fuzz file = some (f', rep)) :
    applyOne st fs cfg index entry fp =
      .ok ({ applied := { index, fp, target, final := target, report := rep, patchName := entry.name,
                          beforeRename := none } :: st.applied,
             mem := mem.put target f' }, rep.ok) := by
  unfold applyOne
  simp [h1, h2, h3, h4, h5]

theorem applyLoop_single (fs : FS) (cfg : Cfg) (entry : Series.Entry) (index : Nat) (st st' : St) (pk : Key)
    (bytes : Bytes) (mode : Nat) (fp : PFilePatch)
    (h1 : patchKey cfg entry.name = some pk) (h2 : fs.readFile pk = .ok (bytes, mode))
    (h3 : parsePatch bytes entry.strip false = .ok { header := [], fps := [fp] })
    (h4 : applyOne st fs cfg index entry fp = .ok (st', true)) :
    applyLoop fs cfg [entry] index st = .ok (st', index + 1, []) := by
  simp [applyLoop, h1, h2, h3, applyFilePatches, h4]

/-- the file-system operations of the save phase -/
def trSave (p : Nat) (bs : Bytes) : List Op :=
  [.removeFile [nmF], .createFile [nmF], .setMode [nmF] p, .write [nmF] bs]

/-- all file-system operations of the push, in order -/
def trAll (p : Nat) (bs : Bytes) : List Op :=
  trSave p bs ++ [.createDirAll pcDir, .appendOpen appliedKey, .write appliedKey [112, 10]]

theorem saveAll_e2e (X : Bytes) (m : Nat) (ser dt : Bytes) (fX fY : FileSt Bytes) (ls : List Bytes) (p : Nat)
    (hY : fY = { content := ls, existed := true, deleted := false, perms := some p }) :
    saveAll { fs := e2eFS X m ser dt } ((Mem.put [] nmF fX).put nmF fY) [] =
      .ok ({ fs := e2eMid (bytesOf ls) (p % 4096) ser dt, trace := trSave p (bytesOf ls) }, []) := by
  subst hY
  rfl

theorem saveApplied_e2e (Y : Bytes) (mode : Nat) (ser dt : Bytes) (tr : List Op) :
    saveApplied { fs := e2eMid Y mode ser dt, trace := tr } [nmP] =
      .ok { fs := e2eFinal Y mode ser dt,
            trace := tr ++ [.createDirAll pcDir] ++ [.appendOpen appliedKey] ++ [.write appliedKey [112, 10]] } := by
  rfl

/-- the driver model on the working directory -/
theorem push_e2e_core (rev : Bool) (X Y : Bytes) (m : Nat) (dt : Bytes) (fp : PFilePatch) (rep : Report)
    (hn : fp.old = some nmF ∧ fp.new = some nmF ∧ fp.rename = false)
    (hparse : parsePatch dt 1 false = .ok { header := [], fps := [fp] })
    (happ : fp.apply (if rev then .rev else .fwd) 0
      { content := linesOf X, existed := true, deleted := false, perms := some (0o100000 + m % 4096) } =
      some ({ content := linesOf Y, existed := true, deleted := false, perms := some (0o100000 + m % 4096) }, rep))
    (hok : rep.ok = true) :
    Push.push cfgAll { fs := e2eFS X m (if rev then serRev else serFwd) dt } =
      (.allApplied, { fs := e2eFinal Y (m % 4096) (if rev then serRev else serFwd) dt,
                      trace := trAll (0o100000 + m % 4096) Y, faultAt := none }) := by
  obtain ⟨ho, hnw, hr⟩ := hn
  have hplan : plan cfgAll (e2eFS X m (if rev then serRev else serFwd) dt) = .apply [entryP rev] := by
    cases rev <;> rfl
  have h1 := applyOne_simple {} (e2eFS X m (if rev then serRev else serFwd) dt) cfgAll 0 (entryP rev) fp nmF _ _ _ rep
    (by simp [namesSafe, ho, hnw]; rfl) hr (by rw [ho, hnw]; rfl) (by rfl) happ
  rw [hok] at h1
  have h2 := applyLoop_single (e2eFS X m (if rev then serRev else serFwd) dt) cfgAll (entryP rev) 0 {} _
    (patchesKey ++ [nmP]) dt (0o100000 + 0o644 % 4096) fp rfl rfl hparse h1
  have h : (0o100000 + m % 4096) % 4096 = m % 4096 := by omega
  have hY := C01_lines_roundtrip Y
  have h3 := saveAll_e2e X m (if rev then serRev else serFwd) dt
    { content := linesOf X, existed := true, deleted := false, perms := some (0o100000 + m % 4096) } _ (linesOf Y)
    (0o100000 + m % 4096) rfl
  rw [h, hY] at h3
  have h4 : applyPatches { fs := e2eFS X m (if rev then serRev else serFwd) dt } cfgAll [entryP rev] =
      .ok ({ fs := e2eMid Y (m % 4096) (if rev then serRev else serFwd) dt,
             trace := trSave (0o100000 + m % 4096) Y }, 1) := by
    unfold applyPatches
    simp only [h2]
    rw [show (({} : St).mem.put nmF
        { content := linesOf X, existed := true, deleted := false, perms := some (0o100000 + m % 4096) }) =
      Mem.put [] nmF { content := linesOf X, existed := true, deleted := false, perms := some (0o100000 + m % 4096) }
      from rfl]
    simp only [h3]
    rfl
  unfold Push.push
  simp only [hplan]
  unfold pushRange
  simp only [h4]
  have h5 := saveApplied_e2e Y (m % 4096) (if rev then serRev else serFwd) dt (trSave (0o100000 + m % 4096) Y)
  have h6 : List.map (fun x : Series.Entry => x.name) (List.take 1 [entryP rev]) = [nmP] := rfl
  rw [h6, h5]
  rfl

end RQ

namespace RQ
open RQ.Parse RQ.Write

/-! ## an absent or empty file on one side: whole-file creation / deletion -/

theorem validFrom_of_nil {α : Type} : ∀ (hs : List (Hunk α)) (gap : Bool) (pa pb : Nat) (B : List α),
    ValidFrom gap pa pb [] B hs →
    hs = [] ∨ ∃ x, hs = [x] ∧ x.rem = [] ∧ x.add = B ∧ B ≠ [] ∧ x.pre = 0 ∧ x.suf = 0 ∧
      x.remLine = (pa : Int) ∧ x.addLine = (pb : Int) := by
  intro hs gap pa pb B hv
  cases hs with
  | nil => left; rfl
  | cons h hs' =>
    right
    obtain ⟨G0, P, D, I, S, A', B', eA, eB, er, ea, hp, hsf, hrl, hal, hdi, _, _, hrest⟩ := hv
    have h0 := eA.symm
    simp only [List.append_eq_nil_iff] at h0
    obtain ⟨⟨⟨⟨hG, hP⟩, hD⟩, hS⟩, hA'⟩ := h0
    subst hG hP hD hS hA'
    have hI : I ≠ [] := by rcases hdi with h | h; exact absurd rfl h; exact h
    cases hs' with
    | cons h2 t =>
      obtain ⟨G1, P1, D1, I1, S1, A1, B1, eA1, _, _, _, _, _, _, _, _, hg, _, _⟩ := hrest
      have h1 := eA1.symm
      simp only [List.nil_append, List.append_eq_nil_iff] at h1
      exact absurd (by rw [h1.1.1.1.1, h1.1.1.1.2]; rfl) (hg rfl)
    | nil =>
      have hB' : ([] : List α) ++ [] = [] ++ B' := hrest
      simp only [List.nil_append] at hB' eB ea er
      subst hB'
      simp only [List.append_nil] at eB ea er
      refine ⟨h, rfl, er, by rw [ea, eB], by rw [eB]; exact hI, by rw [hp]; rfl, by rw [hsf]; rfl, ?_, ?_⟩
      · rw [hrl]; simp
      · rw [hal]; simp

/-- the diff of the empty file and a non-empty `B`: one hunk adding everything, recognised as a creation -/
theorem diffHunks_of_empty (c : Nat) (B : Bytes) (hB : B ≠ []) :
    ∃ x, diffHunks c [] B = [x] ∧ recognizeKind [x] = .create ∧ x.rem = [] ∧ x.add = linesOf B := by
  have hv := diffHunks_valid c [] B
  rcases validFrom_of_nil _ _ _ _ _ hv with h | ⟨x, hx, hr, ha, hne, hp, hs, hrl, _⟩
  · exact absurd h (diffHunks_ne_nil c [] B (fun e => hB e.symm))
  · refine ⟨x, hx, ?_, hr, ha⟩
    have hne' : x.add ≠ [] := by rw [ha]; exact hne
    have hrl' : x.remLine = 0 := by simpa using hrl
    cases hadd : x.add with
    | nil => exact absurd hadd hne'
    | cons a as => simp [recognizeKind, hp, hs, hr, hrl', hadd]

/-- the diff of a non-empty `A` and the empty file: one hunk removing everything, recognised as a deletion -/
theorem diffHunks_to_empty (c : Nat) (A : Bytes) (hA : A ≠ []) :
    ∃ x, diffHunks c A [] = [x] ∧ recognizeKind [x] = .delete ∧ x.rem = linesOf A ∧ x.add = [] := by
  have hv := validFrom_swap _ _ _ _ _ _ (diffHunks_valid c A [])
  rcases validFrom_of_nil _ _ _ _ _ hv with h | ⟨y, hy, hr, ha, hne, hp, hs, hal, _⟩
  · have : diffHunks c A [] = [] := by simpa using h
    exact absurd this (diffHunks_ne_nil c A [] hA)
  · cases hd : diffHunks c A [] with
    | nil => rw [hd] at hy; cases hy
    | cons x t =>
      rw [hd] at hy
      simp only [List.map_cons, List.cons.injEq, List.map_eq_nil_iff] at hy
      obtain ⟨hxy, ht⟩ := hy
      subst ht
      subst hxy
      simp only [Hunk.swap] at hr ha hp hs hal
      refine ⟨x, rfl, ?_, ha, hr⟩
      have hne' : x.rem ≠ [] := by rw [ha]; exact hne
      have hal' : x.addLine = 0 := by simpa using hal
      cases hrem : x.rem with
      | nil => exact absurd hrem hne'
      | cons a as => simp [recognizeKind, hp, hs, hr, hal', hrem]

/-- **creation, forward**: the diff of nothing and `B` (whatever the names, e.g. `/dev/null` for the old one) applied
to an empty or absent file gives `B`; the file exists afterwards -/
theorem diffFPOpt_create_fwd (c F : Nat) (B : Bytes) (old new : Option Bytes) (ex dl : Bool) (m : Option Nat)
    (hB : B ≠ []) :
    (diffFPOpt c [] B old new).apply .fwd F { content := [], existed := ex, deleted := dl, perms := m } =
      some ({ content := linesOf B, existed := ex, deleted := false, perms := m },
            { reps := [.applied 0 0 0 ((linesOf B).length : Int) F], dir := .fwd, fuzz := F,
              prevPerms := m, prevDeleted := dl }) := by
  obtain ⟨x, hx, hk, _, ha⟩ := diffHunks_of_empty c B hB
  have hfp : diffFPOpt c [] B old new = { kind := .create, old := old, new := new, hunks := [x] } := by
    unfold diffFPOpt; rw [hx, hk]
  rw [hfp, ← ha]
  simp [FilePatch.apply, applyInternal, applyKind, applyCreate, prevFailed]

/-- **creation, reverse** (`-R`): the same patch un-applied from a file holding `B` empties it; the file is gone
if the patch names no old file (`/dev/null`) -/
theorem diffFPOpt_create_rev (c F : Nat) (B : Bytes) (old new : Option Bytes) (ex dl : Bool) (m : Option Nat)
    (hB : B ≠ []) :
    (diffFPOpt c [] B old new).apply .rev F { content := linesOf B, existed := ex, deleted := dl, perms := m } =
      some ({ content := [], existed := ex, deleted := if old.isNone then true else dl,
              perms := if old.isNone then none else m },
            { reps := [.applied 0 0 0 (-((linesOf B).length : Int)) F], dir := .rev, fuzz := F,
              prevPerms := m, prevDeleted := dl }) := by
  obtain ⟨x, hx, hk, _, ha⟩ := diffHunks_of_empty c B hB
  have hfp : diffFPOpt c [] B old new = { kind := .create, old := old, new := new, hunks := [x] } := by
    unfold diffFPOpt; rw [hx, hk]
  rw [hfp, ← ha]
  simp [FilePatch.apply, applyInternal, applyKind, applyDelete, prevFailed]

/-- **deletion, forward**: the diff of `A` and nothing applied to a file holding `A` empties it; the file is gone
if the patch names no new file (`/dev/null`) -/
theorem diffFPOpt_delete_fwd (c F : Nat) (A : Bytes) (old new : Option Bytes) (ex dl : Bool) (m : Option Nat)
    (hA : A ≠ []) :
    (diffFPOpt c A [] old new).apply .fwd F { content := linesOf A, existed := ex, deleted := dl, perms := m } =
      some ({ content := [], existed := ex, deleted := if new.isNone then true else dl,
              perms := if new.isNone then none else m },
            { reps := [.applied 0 0 0 (-((linesOf A).length : Int)) F], dir := .fwd, fuzz := F,
              prevPerms := m, prevDeleted := dl }) := by
  obtain ⟨x, hx, hk, hr, _⟩ := diffHunks_to_empty c A hA
  have hfp : diffFPOpt c A [] old new = { kind := .delete, old := old, new := new, hunks := [x] } := by
    unfold diffFPOpt; rw [hx, hk]
  rw [hfp, ← hr]
  simp [FilePatch.apply, applyInternal, applyKind, applyDelete, prevFailed]

/-- **deletion, reverse** (`-R`): the same patch un-applied from an empty or absent file gives `A` -/
theorem diffFPOpt_delete_rev (c F : Nat) (A : Bytes) (old new : Option Bytes) (ex dl : Bool) (m : Option Nat)
    (hA : A ≠ []) :
    (diffFPOpt c A [] old new).apply .rev F { content := [], existed := ex, deleted := dl, perms := m } =
      some ({ content := linesOf A, existed := ex, deleted := false, perms := m },
            { reps := [.applied 0 0 0 ((linesOf A).length : Int) F], dir := .rev, fuzz := F,
              prevPerms := m, prevDeleted := dl }) := by
  obtain ⟨x, hx, hk, hr, _⟩ := diffHunks_to_empty c A hA
  have hfp : diffFPOpt c A [] old new = { kind := .delete, old := old, new := new, hunks := [x] } := by
    unfold diffFPOpt; rw [hx, hk]
  rw [hfp, ← hr]
  simp [FilePatch.apply, applyInternal, applyKind, applyCreate, prevFailed]

end RQ

namespace RQ
open RQ.Parse RQ.Write RQ.Push RQ.Spec

/-! ## the whole tool when the file is absent before or after the push -/

/-- the working directory without `f` -/
def e2eFS0 (ser dt : Bytes) : FS :=
  { nodes := [ (seriesKey, .file ser 0o644 2),
               (patchesKey, .dir),
               (patchesKey ++ [nmP], .file dt 0o644 3) ],
    nextIno := 4 }

/-- after a push that removed `f` (starting from `e2eFS`) -/
def e2eGone (ser dt : Bytes) : FS :=
  { nodes := [ (seriesKey, .file ser 0o644 2),
               (patchesKey, .dir),
               (patchesKey ++ [nmP], .file dt 0o644 3),
               (pcDir, .dir),
               (appliedKey, .file [112, 10] 0o644 4) ],
    nextIno := 5 }

/-- one side of the patch is `/dev/null`, the other is `f` -/
def OneSided (fp : PFilePatch) : Prop :=
  ((fp.old = none ∧ fp.new = some nmF) ∨ (fp.old = some nmF ∧ fp.new = none)) ∧ fp.rename = false

/-- `pushSpec` for a one-patch series whose patch has one file patch for `f`: everything that depends on the
concrete tree is a hypothesis (each an instance of `rfl` for the trees used here) -/
theorem pushSpec_one (rev : Bool) (fs0 fs1 fsF : FS) (dt : Bytes) (mode : Nat) (fp : PFilePatch)
    (file f' : FileSt Bytes) (rep : Report)
    (hplan : plan cfgAll fs0 = .apply [entryP rev])
    (hpk : fs0.readFile (patchesKey ++ [nmP]) = .ok (dt, mode))
    (hparse : parsePatch dt 1 false = .ok { header := [], fps := [fp] })
    (hsafe : namesSafe fp = true) (hch : chooseTree fs0 fp.old fp.new = some nmF) (hren : fp.rename = false)
    (hload : loadTree fs0 nmF = .ok file)
    (happ : fp.apply (if rev then .rev else .fwd) 0 file = some (f', rep)) (hok : rep.ok = true)
    (hstore : storeTree fs0 nmF f' = .ok fs1)
    (hfin : finishSpec cfgAll fs0 [entryP rev]
      { fs := fs1, k := 1, rejs := [], failed := false, backups := [(nmP, [(nmF, file)])] } = { exit := 0, fs := fsF }) :
    pushSpec cfgAll fs0 = { exit := 0, fs := fsF } := by
  have hfp := applyFPTree_simple fs0 cfgAll (entryP rev) fp nmF file f' rep fs1 hsafe hch hload hren happ hok hstore
  have hpt := applyPatchTree_single cfgAll (entryP rev) fp { fs := fs0, ok := true, rejs := [], touched := [] } _ hfp
  have hrt := applyRangeTree_single cfgAll fs0 (entryP rev) (patchesKey ++ [nmP]) dt mode { header := [], fps := [fp] } _
    { fs := fs0, k := 0, rejs := [], failed := false, backups := [] } rfl hpk hparse hpt rfl
  unfold pushSpec
  rw [hplan]
  simp only []
  rw [hrt]
  exact hfin

theorem oneSided_safe (fp : PFilePatch) (h : OneSided fp) : namesSafe fp = true := by
  rcases h.1 with ⟨ho, hn⟩ | ⟨ho, hn⟩ <;> simp [namesSafe, ho, hn] <;> rfl

theorem oneSided_chooseTree (fs : FS) (fp : PFilePatch) (h : OneSided fp) : chooseTree fs fp.old fp.new = some nmF := by
  rcases h.1 with ⟨ho, hn⟩ | ⟨ho, hn⟩ <;> rw [ho, hn] <;> rfl

theorem oneSided_choose (mem : Mem) (fs : FS) (fp : PFilePatch) (h : OneSided fp) : choose mem fs fp.old fp.new = some nmF := by
  rcases h.1 with ⟨ho, hn⟩ | ⟨ho, hn⟩ <;> rw [ho, hn] <;> rfl

theorem storeTree_e2e0 (Y : Bytes) (ser dt : Bytes) (ls : List Bytes) (hl : bytesOf ls = Y) :
    storeTree (e2eFS0 ser dt) nmF { content := ls, existed := false, deleted := false, perms := none } =
      .ok (e2eMid Y 0o644 ser dt) := by
  subst hl
  rfl

/-- `f` does not exist, the patch creates it with content `Y` (mode 644) -/
theorem pushSpec_e2e_create (rev : Bool) (Y : Bytes) (dt : Bytes) (fp : PFilePatch) (rep : Report)
    (hn : OneSided fp) (hparse : parsePatch dt 1 false = .ok { header := [], fps := [fp] })
    (happ : fp.apply (if rev then .rev else .fwd) 0 nonExistent =
      some ({ content := linesOf Y, existed := false, deleted := false, perms := none }, rep))
    (hok : rep.ok = true) :
    pushSpec cfgAll (e2eFS0 (if rev then serRev else serFwd) dt) =
      { exit := 0, fs := e2eFinal Y 0o644 (if rev then serRev else serFwd) dt } := by
  have hY := C01_lines_roundtrip Y
  refine pushSpec_one rev _ (e2eMid Y 0o644 (if rev then serRev else serFwd) dt) _ dt _ fp nonExistent _ rep
    (by cases rev <;> rfl) rfl hparse (oneSided_safe fp hn) (oneSided_chooseTree _ fp hn) hn.2 rfl happ hok ?_ ?_
  · exact storeTree_e2e0 Y _ dt (linesOf Y) hY
  · cases rev <;> rfl

/-- `f` holds `X`, the patch removes it -/
theorem pushSpec_e2e_remove (rev : Bool) (X : Bytes) (m : Nat) (dt : Bytes) (fp : PFilePatch) (rep : Report)
    (hn : OneSided fp) (hparse : parsePatch dt 1 false = .ok { header := [], fps := [fp] })
    (happ : fp.apply (if rev then .rev else .fwd) 0
      { content := linesOf X, existed := true, deleted := false, perms := some (0o100000 + m % 4096) } =
      some ({ content := [], existed := true, deleted := true, perms := none }, rep))
    (hok : rep.ok = true) :
    pushSpec cfgAll (e2eFS X m (if rev then serRev else serFwd) dt) =
      { exit := 0, fs := e2eGone (if rev then serRev else serFwd) dt } := by
  refine pushSpec_one rev _ (e2eFS0 (if rev then serRev else serFwd) dt) _ dt _ fp _ _ rep
    (by cases rev <;> rfl) rfl hparse (oneSided_safe fp hn) (oneSided_chooseTree _ fp hn) hn.2 rfl happ hok ?_ ?_
  · rfl
  · cases rev <;> rfl

/-! ### the driver model -/

/-- `Push.push` for a one-patch series whose patch has one file patch for `f`: everything that depends on the
concrete tree is a hypothesis (each an instance of `rfl` for the trees used here) -/
theorem push_one (rev : Bool) (fs0 : FS) (dt : Bytes) (mode : Nat) (fp : PFilePatch) (mem : Mem)
    (file f' : FileSt Bytes) (rep : Report) (w1 w2 w3 : World) (dirs : List Key)
    (hplan : plan cfgAll fs0 = .apply [entryP rev])
    (hpk : fs0.readFile (patchesKey ++ [nmP]) = .ok (dt, mode))
    (hparse : parsePatch dt 1 false = .ok { header := [], fps := [fp] })
    (hsafe : namesSafe fp = true) (hch : choose [] fs0 fp.old fp.new = some nmF) (hren : fp.rename = false)
    (hget : getOrLoad [] fs0 nmF = .ok (mem, file))
    (happ : fp.apply (if rev then .rev else .fwd) 0 file = some (f', rep)) (hok : rep.ok = true)
    (hsave : saveAll { fs := fs0 } (mem.put nmF f') [] = .ok (w1, dirs))
    (hclean : cleanAll w1 dirs = .ok w2)
    (hsa : saveApplied w2 [nmP] = .ok w3) :
    Push.push cfgAll { fs := fs0 } = (.allApplied, w3) := by
  have h1 := applyOne_simple {} fs0 cfgAll 0 (entryP rev) fp nmF mem file f' rep hsafe hren hch hget happ
  rw [hok] at h1
  have h2 := applyLoop_single fs0 cfgAll (entryP rev) 0 {} _ (patchesKey ++ [nmP]) dt mode fp rfl hpk hparse h1
  have h4 : applyPatches { fs := fs0 } cfgAll [entryP rev] = .ok (w2, 1) := by
    unfold applyPatches
    simp only [h2]
    simp only [hsave, hclean]
    rfl
  unfold Push.push
  simp only [hplan]
  unfold pushRange
  simp only [h4]
  have h6 : List.map (fun x : Series.Entry => x.name) (List.take 1 [entryP rev]) = [nmP] := rfl
  rw [h6, hsa]
  rfl

/-- operations of a push that creates `f` -/
def trCreate (bs : Bytes) : List Op :=
  [.createDirAll [], .createFile [nmF], .write [nmF] bs,
   .createDirAll pcDir, .appendOpen appliedKey, .write appliedKey [112, 10]]

/-- operations of a push that removes `f` -/
def trRemove : List Op :=
  [.removeFile [nmF], .createDirAll pcDir, .appendOpen appliedKey, .write appliedKey [112, 10]]

theorem saveAll_e2e0 (Y : Bytes) (ser dt : Bytes) (ls : List Bytes) (hl : bytesOf ls = Y) :
    saveAll { fs := e2eFS0 ser dt }
        ((Mem.put [] nmF nonExistent).put nmF { content := ls, existed := false, deleted := false, perms := none }) [] =
      .ok ({ fs := e2eMid Y 0o644 ser dt, trace := [.createDirAll [], .createFile [nmF], .write [nmF] Y] }, []) := by
  subst hl
  rfl

theorem push_e2e_create (rev : Bool) (Y : Bytes) (dt : Bytes) (fp : PFilePatch) (rep : Report)
    (hn : OneSided fp) (hparse : parsePatch dt 1 false = .ok { header := [], fps := [fp] })
    (happ : fp.apply (if rev then .rev else .fwd) 0 nonExistent =
      some ({ content := linesOf Y, existed := false, deleted := false, perms := none }, rep))
    (hok : rep.ok = true) :
    Push.push cfgAll { fs := e2eFS0 (if rev then serRev else serFwd) dt } =
      (.allApplied, { fs := e2eFinal Y 0o644 (if rev then serRev else serFwd) dt, trace := trCreate Y, faultAt := none }) := by
  refine push_one rev _ dt _ fp _ nonExistent _ rep _ _ _ _
    (by cases rev <;> rfl) rfl hparse (oneSided_safe fp hn) (oneSided_choose _ _ fp hn) hn.2 rfl happ hok
    (saveAll_e2e0 Y _ dt (linesOf Y) (C01_lines_roundtrip Y)) rfl ?_
  cases rev <;> rfl

theorem push_e2e_remove (rev : Bool) (X : Bytes) (m : Nat) (dt : Bytes) (fp : PFilePatch) (rep : Report)
    (hn : OneSided fp) (hparse : parsePatch dt 1 false = .ok { header := [], fps := [fp] })
    (happ : fp.apply (if rev then .rev else .fwd) 0
      { content := linesOf X, existed := true, deleted := false, perms := some (0o100000 + m % 4096) } =
      some ({ content := [], existed := true, deleted := true, perms := none }, rep))
    (hok : rep.ok = true) :
    Push.push cfgAll { fs := e2eFS X m (if rev then serRev else serFwd) dt } =
      (.allApplied, { fs := e2eGone (if rev then serRev else serFwd) dt, trace := trRemove, faultAt := none }) := by
  refine push_one rev _ dt _ fp _ _ _ rep
    { fs := e2eFS0 (if rev then serRev else serFwd) dt, trace := [.removeFile [nmF]] }
    { fs := e2eFS0 (if rev then serRev else serFwd) dt, trace := [.removeFile [nmF]] } _ [[]]
    (by cases rev <;> rfl) rfl hparse (oneSided_safe fp hn) (oneSided_choose _ _ fp hn) hn.2 rfl happ hok ?_ ?_ ?_
  · rfl
  · cases rev <;> rfl
  · cases rev <;> rfl

end RQ
