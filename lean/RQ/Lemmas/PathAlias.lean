import RQ.Lemmas.PathLemmas
import RQ.Model.FS
/-!
# Stripped names do not alias

`FilePatch::strip` (`strip_path` + `skip_cur_dir`) leaves no `.` component in a name.  A safe name without
`.` components is determined by its key, so two stripped names with the same key have the same components
(and `Path == Path`, which compares components, identifies them): `./x` and `x` can no longer be two entries
of the file cache.
-/
namespace RQ

/-- a safe name without a `.` component consists of exactly the normal components of its key -/
theorem safeKey_components_of_no_cur {name : Bytes} {k : Key} (h : safeKey name = some k)
    (hc : Comp.cur ∉ components name) : components name = k.map Comp.normal := by
  unfold safeKey at h
  split at h
  · simp at h
  · simp only [] at h
    split at h
    · rename_i hall
      simp only [Option.some.injEq] at h
      subst h
      rw [List.all_eq_true] at hall
      generalize components name = cs at hall hc
      induction cs with
      | nil => rfl
      | cons c cs ih =>
        have ih' := ih (fun x hx => hall x (by simp [hx])) (fun hx => hc (by simp [hx]))
        have h1 := hall c (by simp)
        cases c with
        | root => simp at h1
        | parent => simp at h1
        | cur => exact absurd (by simp) hc
        | normal q => simp only [List.filterMap_cons, List.map_cons]; rw [← ih']
    · simp at h

/-- **no aliases after stripping**: two stripped names with the same safe key have the same components -/
theorem safeKey_stripPath_inj (n m : Nat) (a b : Bytes) (k : Key)
    (ha : safeKey (stripPath n a) = some k) (hb : safeKey (stripPath m b) = some k) :
    components (stripPath n a) = components (stripPath m b) := by
  rw [safeKey_components_of_no_cur ha (cur_not_mem_stripPath n a),
    safeKey_components_of_no_cur hb (cur_not_mem_stripPath m b)]

end RQ
