import RQ.Props.C08
import RQ.Lemmas.Refine
import RQ.Lemmas.SaveNoPanic
/-!
# The sequential driver never panics (lemmas for C11, whole tool)

`Fail.panic` is the model's rendering of a Rust panic (`assert!`, `unwrap`, "This is a bug", slice range).
Here every place of `RQ/Model/Push.lean` that can return it is shown unreachable:

* `apply_isSome`: `FilePatch.apply` returns `some` on a file patch whose hunks are well-formed and, for the
  whole-file kinds, whose hunk count is 1 (what the parser returns: `C11_wf`);
* `Abs.applyFP_no_panic` … `Abs.applyRange_no_panic`: the abstract specification of the application phase
  never fails with `.panic` — every file patch it applies comes out of `parsePatch`;
* `applyLoop_no_panic`: the driver's loop fails exactly as the abstract specification does
  (`Abs.applyLoop_sim`), hence never with `.panic`, from every state that satisfies the loop invariant;
* `saveAll`, `cleanAll`, `saveRejFiles`, `saveBackup`, `saveApplied` only fail with `.err`;
* `rollbackAndSaveBackups` on the state the loop returned: `C08_calls` + `C08_backups_total`;
* `applyPatches_no_panic`, `pushRange_no_panic`, `push_no_panic`;
* `applyOne_no_panic`: one `apply_one_file_patch` on ANY state of the cache (no invariant needed);
* the parallel driver (`RQ.Par`, at least one thread, every pair of schedules): a worker's error is an error of
  `applyOne` (`runW_errOK`, `countingError_errOK`); when the specification runs into an error some worker's error
  counts (`countingError_ne_none`, the core of `parMemory_err`), otherwise the in-memory part succeeds
  (`parMemory_applyRange_ok`): `parMemory_err_kind`; no file patch without a name (`no_nameless`); the save phase
  (`saveNoPanic`, `savePhaseF_spec`); the main thread's last steps: `parApplyPatchesF_no_panic`,
  `parApplyPatches_no_panic`, `parPushF_no_panic`.
-/
namespace RQ
variable {α : Type} [DecidableEq α]

/-- what the later stages need from a file patch: hunks with context counts within their sides, and exactly one
hunk for `Create`/`Delete` -/
def FilePatch.ApplyOK (fp : FilePatch α) : Prop := fp.WFlen ∧ (fp.kind ≠ .modify → fp.hunks.length = 1)

theorem applyKind_normal_isSome (fp : FilePatch α) (d : Dir) (F : Nat) (f : FileSt α) (h : fp.ApplyOK) :
    (applyKind fp d F .normal f).isSome = true := by
  obtain ⟨hw, h1⟩ := h
  unfold applyKind
  cases hk : fp.kind with
  | modify =>
    simp only
    rw [applyModify_normal fp.hunks d F f hw]
    rfl
  | create =>
    have hl := h1 (by rw [hk]; exact fun h => by cases h)
    match hh : fp.hunks, hl with
    | [x], _ => cases d <;> rfl
  | delete =>
    have hl := h1 (by rw [hk]; exact fun h => by cases h)
    match hh : fp.hunks, hl with
    | [x], _ => cases d <;> rfl

/-- `TextFilePatch::apply` does not panic on what the parser returns -/
theorem apply_isSome (fp : FilePatch α) (d : Dir) (F : Nat) (f : FileSt α) (h : fp.ApplyOK) :
    ∃ r, fp.apply d F f = some r := by
  have hk := applyKind_normal_isSome fp d F f h
  unfold FilePatch.apply applyInternal
  cases hx : applyKind fp d F .normal f with
  | none => rw [hx] at hk; cases hk
  | some r =>
    obtain ⟨f', rep⟩ := r
    simp only
    split <;> exact ⟨_, rfl⟩

theorem apply_ne_none (fp : FilePatch α) (d : Dir) (F : Nat) (f : FileSt α) (h : fp.ApplyOK) :
    fp.apply d F f ≠ none := by
  obtain ⟨r, hr⟩ := apply_isSome fp d F f h
  rw [hr]
  exact fun h => by cases h

end RQ

namespace RQ.Abs
open RQ RQ.Push RQ.Spec RQ.Parse RQ.Write

/-- what `applyFP` needs not to panic -/
def FPNoPanic (fp : PFilePatch) : Prop :=
  (fp.old.isSome ∨ fp.new.isSome) ∧ (fp.rename = true → fp.new.isSome) ∧ fp.ApplyOK

theorem parsed_noPanic {bytes : Bytes} {strip : Nat} {wh : Bool} {patch : Patch}
    (h : parsePatch bytes strip wh = .ok patch) : ∀ fp ∈ patch.fps, FPNoPanic fp := by
  intro fp hfp
  obtain ⟨h1, h2, h3, h4⟩ := C11_wf bytes strip wh patch h fp hfp
  exact ⟨h1, fun hr => (h3 hr).2, fun hk hhk => (h4 hk hhk).1.wflen, h2⟩

theorem ite_some_some {β : Type} (c : Prop) [Decidable c] (a b : β) :
    ∃ n, (if c then some a else some b) = some n := by
  split <;> exact ⟨_, rfl⟩

theorem chooseA_isSome (t : ATree) (fs : FS) (old new : Option Bytes) (h : old.isSome ∨ new.isSome) :
    ∃ n, chooseA t fs old new = some n := by
  unfold chooseA
  cases old with
  | none =>
    cases new with
    | none => simp at h
    | some n => exact ⟨n, rfl⟩
  | some o =>
    cases new with
    | none => exact ⟨o, rfl⟩
    | some n =>
      simp only
      split
      · exact ⟨_, rfl⟩
      · exact ite_some_some _ _ _

/-- one file patch of the abstract specification does not panic -/
theorem applyFP_no_panic (t : ATree) (fs : FS) (cfg : Cfg) (entry : Series.Entry) (fp : PFilePatch)
    (h : FPNoPanic fp) : applyFP t fs cfg entry fp ≠ .error .panic := by
  obtain ⟨hname, hren, hok⟩ := h
  unfold applyFP
  split
  · exact fun h => by cases h
  · obtain ⟨target, ht⟩ := chooseA_isSome t fs fp.old fp.new hname
    rw [ht]
    simp only
    cases look t fs target with
    | error e => exact fun h => by cases h
    | ok file =>
      simp only
      cases hr : fp.rename with
      | false =>
        simp only [Bool.false_eq_true, if_false]
        obtain ⟨r, hr⟩ := apply_isSome fp (if entry.reverse = true then Dir.rev else Dir.fwd) cfg.fuzz (concr file) hok
        rw [hr]
        exact fun h => by cases h
      | true =>
        simp only [if_true]
        have hn := hren hr
        cases hnew : fp.new with
        | none => rw [hnew] at hn; cases hn
        | some newName =>
          simp only
          cases look (put t target { content := [], deleted := true, perms := none }) fs newName with
          | error e => exact fun h => by cases h
          | ok newFile =>
            simp only
            split
            · exact fun h => by cases h
            · obtain ⟨r, hr⟩ := apply_isSome fp (if entry.reverse = true then Dir.rev else Dir.fwd) cfg.fuzz
                (concr { content := file.content, deleted := false, perms := file.perms }) hok
              rw [hr]
              exact fun h => by cases h

theorem applyFPs_no_panic (fs : FS) (cfg : Cfg) (entry : Series.Entry) :
    ∀ (fps : List PFilePatch) (t : ATree) (ok : Bool) (rejs : List (Bytes × Bytes)),
      (∀ fp ∈ fps, FPNoPanic fp) → applyFPs fs cfg entry fps t ok rejs ≠ .error .panic := by
  intro fps
  induction fps with
  | nil => intro t ok rejs _ h; unfold applyFPs at h; cases h
  | cons fp fps ih =>
    intro t ok rejs hw
    unfold applyFPs
    cases hfp : applyFP t fs cfg entry fp with
    | error e =>
      simp only
      intro h
      cases h
      exact applyFP_no_panic t fs cfg entry fp (hw fp (by simp)) hfp
    | ok r =>
      simp only
      exact ih _ _ _ (fun fp' h' => hw fp' (by simp [h']))

/-- **the abstract specification of the application phase never panics** -/
theorem applyRange_no_panic (fs : FS) (cfg : Cfg) :
    ∀ (range : List Series.Entry) (k : Nat) (t : ATree), applyRange fs cfg range k t ≠ .error .panic := by
  intro range
  induction range with
  | nil => intro k t h; unfold applyRange at h; cases h
  | cons entry rest ih =>
    intro k t
    unfold applyRange
    cases patchKey cfg entry.name with
    | none => exact fun h => by cases h
    | some pk =>
      simp only
      cases fs.readFile pk with
      | error e => exact fun h => by cases h
      | ok r =>
        obtain ⟨bytes, mode⟩ := r
        simp only
        cases hpp : parsePatch bytes entry.strip false with
        | error e => exact fun h => by cases h
        | ok patch =>
          simp only
          cases hfps : applyFPs fs cfg entry patch.fps t true [] with
          | error e =>
            simp only
            intro h
            cases h
            exact applyFPs_no_panic fs cfg entry patch.fps t true [] (parsed_noPanic hpp) hfps
          | ok r =>
            obtain ⟨t', ok, rejs⟩ := r
            simp only
            split
            · exact ih _ _
            · exact fun h => by cases h

end RQ.Abs

namespace RQ.Push
open RQ RQ.Parse RQ.Write RQ.Abs

/-- **the application loop never panics**, from every state that satisfies its invariant: cached files that are
marked deleted have no content, and the recorded file patches belong to earlier patches -/
theorem applyLoop_no_panic (fs : FS) (cfg : Cfg) (range : List Series.Entry) (k : Nat) (st : St)
    (hde : MemDE st.mem) (hidx : ∀ s ∈ st.applied, s.index < k) :
    applyLoop fs cfg range k st ≠ .error .panic := by
  intro h
  have hsim := applyLoop_sim fs cfg range k st (ofMem st.mem) (SameTree.refl fs _) hde hidx
  rw [h] at hsim
  cases hr : applyRange fs cfg range k (ofMem st.mem) with
  | ok r =>
    rw [hr] at hsim
    exact hsim
  | error e =>
    rw [hr] at hsim
    simp only at hsim
    subst hsim
    exact applyRange_no_panic fs cfg range k _ hr

/-- the loop as `apply_patches` starts it -/
theorem applyLoop_no_panic_init (fs : FS) (cfg : Cfg) (range : List Series.Entry) :
    applyLoop fs cfg range 0 {} ≠ .error .panic :=
  applyLoop_no_panic fs cfg range 0 {} memDE_nil (fun s hs => by cases hs)

/-! ### the functions that write: their only failure is `.err` -/

/-- case analysis of a hypothesis `h : (nested matches) = .error (e, w')` -/
macro "wr_cases" h:ident : tactic =>
  `(tactic| repeat' (first | (cases $h:ident; done) | (cases $h:ident; rfl) | split at $h:ident | (simp only at $h:ident)))

theorem writeNew_err {w : World} {k : Key} {perms : Option Nat} {content : Bytes} {e : Fail} {w' : World}
    (h : writeNew w k perms content = .error (e, w')) : e = .err := by
  unfold writeNew at h
  wr_cases h

theorem saveModifiedFile_err {w : World} {name : Bytes} {f : FileSt Bytes} {e : Fail} {w' : World}
    (h : saveModifiedFile w name f = .error (e, w')) : e = .err := by
  unfold saveModifiedFile at h
  cases hk : safeKey name with
  | none => rw [hk] at h; cases h; rfl
  | some k =>
    rw [hk] at h
    cases hex : f.existed <;> cases hdel : f.deleted <;>
      simp only [hex, hdel, Bool.false_eq_true, if_false, if_true, Bool.not_false, Bool.not_true] at h
    · cases ho : w.op (.createDirAll k.dropLast) <;> rw [ho] at h <;> simp only at h
      · wr_cases h
        cases h; exact writeNew_err (by assumption)
      · cases h; rfl
      · cases h; rfl
    · cases h
    · cases ho : w.op (.removeFile k) <;> rw [ho] at h <;> simp only at h
      · wr_cases h
        cases h; exact writeNew_err (by assumption)
      · wr_cases h
        cases h; exact writeNew_err (by assumption)
      · cases h; rfl
    · cases ho : w.op (.removeFile k) <;> rw [ho] at h <;> simp only at h
      · cases h
      · cases h
      · cases h; rfl

/-- `ModifiedFiles::save` only fails with an I/O error -/
theorem saveAll_err : ∀ (m : Mem) (w : World) (dirs : List Key) {e : Fail} {w' : World},
    saveAll w m dirs = .error (e, w') → e = .err := by
  intro m
  induction m with
  | nil => intro w dirs e w' h; unfold saveAll at h; cases h
  | cons x rest ih =>
    intro w dirs e w' h
    obtain ⟨c, name, f⟩ := x
    unfold saveAll at h
    cases hs : saveModifiedFile w name f with
    | error e1 =>
      rw [hs] at h
      cases h
      exact saveModifiedFile_err hs
    | ok r =>
      rw [hs] at h
      exact ih _ _ h

theorem cleanUp_err : ∀ (fuel : Nat) (w : World) (k : Key) {e : Fail} {w' : World},
    cleanUp w fuel k = .error (e, w') → e = .err := by
  intro fuel
  induction fuel with
  | zero => intro w k e w' h; unfold cleanUp at h; cases h
  | succ n ih =>
    intro w k e w' h
    unfold cleanUp at h
    wr_cases h
    all_goals exact ih _ _ h

/-- `clean_empty_directories` only fails with an I/O error -/
theorem cleanAll_err : ∀ (ks : List Key) (w : World) {e : Fail} {w' : World},
    cleanAll w ks = .error (e, w') → e = .err := by
  intro ks
  induction ks with
  | nil => intro w e w' h; unfold cleanAll at h; cases h
  | cons k ks ih =>
    intro w e w' h
    unfold cleanAll at h
    cases hc : cleanUp w (k.length + 1) k with
    | error e1 =>
      rw [hc] at h
      cases h
      exact cleanUp_err _ _ _ hc
    | ok w1 =>
      rw [hc] at h
      exact ih w1 h

/-- `save_rej_files` only fails with an I/O error -/
theorem saveRejFiles_err : ∀ (rejs : List (Bytes × Bytes)) (w : World) {e : Fail} {w' : World},
    saveRejFiles w rejs = .error (e, w') → e = .err := by
  intro rejs
  induction rejs with
  | nil => intro w e w' h; unfold saveRejFiles at h; cases h
  | cons r rest ih =>
    intro w e w' h
    obtain ⟨name, content⟩ := r
    unfold saveRejFiles at h
    wr_cases h
    all_goals exact ih _ h

/-- `save_backup_file` only fails with an I/O error -/
theorem saveBackup_err {w : World} {patchName name : Bytes} {f : FileSt Bytes} {e : Fail} {w' : World}
    (h : saveBackup w patchName name f = .error (e, w')) : e = .err := by
  unfold saveBackup at h
  wr_cases h
  all_goals exact writeNew_err h

theorem saveBackups_err : ∀ (calls : List (Nat × Bytes × Bytes × FileSt Bytes)) (w : World) {e : Fail} {w' : World},
    saveBackups w calls = .error (e, w') → e = .err := by
  intro calls
  induction calls with
  | nil => intro w e w' h; unfold saveBackups at h; cases h
  | cons c rest ih =>
    intro w e w' h
    obtain ⟨i, pn, name, f⟩ := c
    unfold saveBackups at h
    cases hs : saveBackup w pn name f with
    | error e1 =>
      rw [hs] at h
      cases h
      exact saveBackup_err hs
    | ok w1 =>
      rw [hs] at h
      exact ih w1 h

/-- **`save_applied_patches` has no panic branch**: it only fails with an I/O error -/
theorem saveApplied_err {w : World} {names : List Bytes} {e : Fail} {w' : World}
    (h : saveApplied w names = .error (e, w')) : e = .err := by
  unfold saveApplied at h
  wr_cases h

/-- the backup loop on a state whose list of backup calls can be computed (`C08_calls`) -/
theorem rollbackAndSaveBackups_err_of_calls {w : World} {mem : Mem} {applied : List Status} {downTo : Nat}
    {calls : List (Nat × Bytes × Bytes × FileSt Bytes)} {mem' : Mem}
    (hc : backupCalls mem applied downTo = .ok (calls, mem')) {e : Fail} {w' : World}
    (h : rollbackAndSaveBackups w mem applied downTo = .error (e, w')) : e = .err := by
  rw [C08_calls w mem applied downTo calls mem' hc] at h
  cases hs : saveBackups w calls with
  | error e1 =>
    rw [hs] at h
    cases h
    exact saveBackups_err calls w hs
  | ok w1 =>
    rw [hs] at h
    cases h

/-- the backup loop on the state the application loop returned: the undo never aborts (`C08_backups_total`) -/
theorem rollbackAndSaveBackups_err_of_loop {fs : FS} {cfg : Cfg} {range : List Series.Entry} {st : St} {k : Nat}
    {rejs : List (Bytes × Bytes)} (hl : applyLoop fs cfg range 0 {} = .ok (st, k, rejs)) (hd : cfg.dryRun = false)
    {w : World} (downTo : Nat) {e : Fail} {w' : World}
    (h : rollbackAndSaveBackups w st.mem st.applied downTo = .error (e, w')) : e = .err := by
  obtain ⟨calls, mem', hc, _⟩ := C08_backups_total fs cfg range st k rejs hl hd downTo
  exact rollbackAndSaveBackups_err_of_calls hc h

/-- **`sequential::apply_patches` only fails with an I/O error** (or a refusal: unsafe name, unreadable patch) -/
theorem applyPatches_err {w : World} {cfg : Cfg} {range : List Series.Entry} {e : Fail} {w' : World}
    (h : applyPatches w cfg range = .error (e, w')) : e = .err := by
  unfold applyPatches at h
  cases hl : applyLoop w.fs cfg range 0 {} with
  | error e1 =>
    rw [hl] at h
    cases h
    cases e with
    | err => rfl
    | panic => exact absurd hl (applyLoop_no_panic_init w.fs cfg range)
  | ok r =>
    obtain ⟨st, final, rejs⟩ := r
    rw [hl] at h
    simp only at h
    cases hd : cfg.dryRun with
    | true =>
      rw [hd] at h
      cases h
    | false =>
      rw [hd] at h
      simp only [Bool.false_eq_true, if_false] at h
      cases hsa : saveAll w st.mem [] with
      | error e1 =>
        rw [hsa] at h
        cases h
        exact saveAll_err _ _ _ hsa
      | ok r1 =>
        obtain ⟨w1, dirs⟩ := r1
        rw [hsa] at h
        simp only at h
        cases hca : cleanAll w1 dirs with
        | error e1 =>
          rw [hca] at h
          cases h
          exact cleanAll_err _ _ hca
        | ok w2 =>
          rw [hca] at h
          simp only at h
          cases hrj : saveRejFiles w2 rejs with
          | error e1 =>
            rw [hrj] at h
            cases h
            exact saveRejFiles_err _ _ hrj
          | ok w3 =>
            rw [hrj] at h
            simp only at h
            split at h
            · split at h
              · rename_i e1 hb
                cases h
                exact rollbackAndSaveBackups_err_of_loop hl hd _ hb
              · cases h
            · cases h

/-- **`sequential::apply_patches` never panics** -/
theorem applyPatches_no_panic (w : World) (cfg : Cfg) (range : List Series.Entry) (w' : World) :
    applyPatches w cfg range ≠ .error (.panic, w') := by
  intro h
  cases applyPatches_err h

/-- `save_applied_patches` never panics -/
theorem saveApplied_no_panic (w : World) (names : List Bytes) (w' : World) :
    saveApplied w names ≠ .error (.panic, w') := by
  intro h
  cases saveApplied_err h

/-- the second part of `cmd_push` never ends with the outcome `panic` -/
theorem pushRange_no_panic (cfg : Cfg) (w : World) (range : List Series.Entry) :
    (pushRange cfg w range).1 ≠ .panic := by
  unfold pushRange
  cases ha : applyPatches w cfg range with
  | error e =>
    obtain ⟨f, w'⟩ := e
    cases f with
    | err => exact fun h => by cases h
    | panic => exact absurd ha (applyPatches_no_panic w cfg range w')
  | ok r =>
    obtain ⟨w', final⟩ := r
    simp only
    split
    · split <;> exact fun h => by cases h
    · split
      · exact fun h => by cases h
      · split <;> exact fun h => by cases h

/-- `cmd_push` with the sequential driver never ends with the outcome `panic` -/
theorem push_no_panic (cfg : Cfg) (w : World) : (push cfg w).1 ≠ .panic := by
  unfold push
  split
  · exact fun h => by cases h
  · exact fun h => by cases h
  · exact pushRange_no_panic cfg w _

/-! ### one file patch, on any state of the cache (what a worker of the parallel driver needs) -/

theorem getOrLoad_err {m : Mem} {fs : FS} {n : Bytes} {e : Fail} (h : getOrLoad m fs n = .error e) : e = .err := by
  rw [getOrLoad_eq] at h
  wr_cases h

theorem getOrLoad_keeps {m m' : Mem} {fs : FS} {n : Bytes} {f : FileSt Bytes}
    (h : getOrLoad m fs n = .ok (m', f)) (x : Bytes) (hx : m.get x ≠ none) : m'.get x ≠ none := by
  rw [getOrLoad_eq] at h
  split at h
  · cases h; exact hx
  · split at h
    · cases h
      rw [get_put]
      split
      · exact fun h => by cases h
      · exact hx
    · cases h

/-- **`apply_one_file_patch` never panics on a file patch the parser returned**, whatever the state of the cache -/
theorem applyOne_no_panic (st : St) (fs : FS) (cfg : Cfg) (index : Nat) (entry : Series.Entry) (fp : PFilePatch)
    (hfp : FPNoPanic fp) : applyOne st fs cfg index entry fp ≠ .error .panic := by
  obtain ⟨hname, hren, hok⟩ := hfp
  intro h
  unfold applyOne at h
  split at h
  · cases h
  · cases hr : fp.rename with
    | false =>
      simp only [hr, Bool.false_eq_true, if_false] at h
      obtain ⟨target, ht⟩ := chooseA_isSome (ofMem st.mem) fs fp.old fp.new hname
      rw [choose_eq, ht] at h
      simp only at h
      cases hg : getOrLoad st.mem fs target with
      | error e =>
        rw [hg] at h
        cases h
        cases getOrLoad_err hg
      | ok r =>
        obtain ⟨mem, file⟩ := r
        rw [hg] at h
        simp only at h
        obtain ⟨r, hr⟩ := apply_isSome fp (if entry.reverse = true then Dir.rev else Dir.fwd) cfg.fuzz file hok
        rw [hr] at h
        cases h
    | true =>
      have hn := hren hr
      cases hnew : fp.new with
      | none => rw [hnew] at hn; cases hn
      | some newName =>
        simp only [hr, hnew, if_true] at h
        cases hg0 : getOrLoad st.mem fs newName with
        | error e =>
          rw [hg0] at h
          cases h
          cases getOrLoad_err hg0
        | ok r0 =>
          obtain ⟨mem0, f0⟩ := r0
          rw [hg0] at h
          simp only at h
          have hname' : fp.old.isSome ∨ (some newName : Option Bytes).isSome := Or.inr rfl
          obtain ⟨target, ht⟩ := chooseA_isSome (ofMem mem0) fs fp.old (some newName) hname'
          rw [choose_eq, ht] at h
          simp only at h
          cases hg : getOrLoad mem0 fs target with
          | error e =>
            rw [hg] at h
            cases h
            cases getOrLoad_err hg
          | ok r =>
            obtain ⟨mem, file⟩ := r
            rw [hg] at h
            simp only at h
            cases hg2 : getOrLoad (mem.put target (moveOut file).1) fs newName with
            | error e =>
              rw [hg2] at h
              cases h
              cases getOrLoad_err hg2
            | ok r2 =>
              obtain ⟨mem2, newFile⟩ := r2
              rw [hg2] at h
              simp only at h
              have hget : mem2.get target ≠ none :=
                getOrLoad_keeps hg2 target (by rw [get_put_self]; exact fun h => by cases h)
              split at h
              · split at h
                · exact hget (by assumption)
                · split at h <;> cases h
              · obtain ⟨r, hr⟩ := apply_isSome fp (if entry.reverse = true then Dir.rev else Dir.fwd) cfg.fuzz
                  (by assumption) hok
                rw [hr] at h
                cases h
end RQ.Push

#print axioms RQ.apply_isSome
#print axioms RQ.Abs.applyRange_no_panic
#print axioms RQ.Push.applyLoop_no_panic
#print axioms RQ.Push.applyPatches_no_panic
#print axioms RQ.Push.push_no_panic

/-! ## The parallel driver -/

namespace RQ.Par
open RQ RQ.Push RQ.Parse RQ.ParSave RQ.Abs

section
variable {fs : FS} {cfg : Cfg} {patches : List (Series.Entry × List PFilePatch)} {threads : Nat}

/-- the error a worker terminated with, if any, is not a panic -/
def ErrOK (s : WSt) : Prop := ∀ p, s.err = some p → p.2 = .err

theorem apW_errOK {s : WSt} {q : QEntry} (hq : FPNoPanic q.fp) (hs : ErrOK s) : ErrOK (apW fs cfg s q).1 := by
  unfold apW
  cases he : s.err with
  | some p => exact hs
  | none =>
    simp only
    cases ha : applyOne s.st fs cfg q.idx q.entry q.fp with
    | error e =>
      intro p hp
      cases hp
      cases e with
      | err => rfl
      | panic => exact absurd ha (applyOne_no_panic _ _ _ _ _ _ hq)
    | ok r =>
      intro p hp
      cases hp

theorem runW_errOK : ∀ (L : List QEntry) (s : WSt), (∀ q ∈ L, FPNoPanic q.fp) → ErrOK s → ErrOK (runW fs cfg s L) := by
  intro L
  induction L with
  | nil => intro s _ hs; exact hs
  | cons q L ih =>
    intro s hq hs
    rw [runW_cons]
    exact ih _ (fun q' h' => hq q' (by simp [h'])) (apW_errOK (hq q (by simp)) hs)

theorem parsed_entry_noPanic (hP : Parsed patches) (k0 : Nat) (q : QEntry) (hq : q ∈ allEntries patches k0) :
    FPNoPanic q.fp := by
  obtain ⟨p, hp, he, hfp⟩ := allEntries_mem patches k0 q hq
  obtain ⟨bytes, patch, hpp, hfps⟩ := hP p hp
  rw [hfps] at hfp
  exact parsed_noPanic hpp q.fp hfp

/-- the error the workers' apply phase reports is never a panic -/
theorem countingError_errOK (hP : Parsed patches) (ht : 0 < threads) {k : Nat} {t : ATree}
    (hstop : Stop fs cfg patches k t) (schedA : List Nat) (a : ApplyOut)
    (ha : applyPhase fs cfg patches threads schedA = some a) {e : Fail}
    (hc : countingError threads a.final a.ws = some e) : e = .err := by
  obtain ⟨_, hW⟩ := applyPhase_final hP ht hstop schedA a ha
  unfold countingError at hc
  obtain ⟨i, _, he⟩ := List.exists_of_findSome?_eq_some hc
  split at he
  · obtain ⟨pos, hws, _⟩ := hW i
    have hok : ErrOK (a.ws i) := by
      rw [hws]
      refine runW_errOK _ _ (fun q hq => ?_) (fun p hp => by cases hp)
      have hq' : q ∈ queuesOf patches threads i := List.mem_of_mem_take hq
      rw [queuesOf_eq] at hq'
      exact parsed_entry_noPanic hP 0 q (List.mem_filter.mp hq').1
    cases herr : (a.ws i).err with
    | none => rw [herr] at he; cases he
    | some p =>
      rw [herr] at he
      cases he
      exact hok p herr
  · cases he

/-- if the specification runs into an error (in patch `k`), some worker's error counts — the core of
`parMemory_err`, stated for `countingError` -/
theorem countingError_ne_none (hP : Parsed patches) (ht : 0 < threads) {k : Nat} {t : ATree}
    (hstop : Stop fs cfg patches k t) {x : Fail}
    (hwit : ∃ G1 q G2 t1 o1, allEntries (patches.drop k) k = G1 ++ q :: G2 ∧ q.idx = k ∧
      absRun fs cfg t G1 = .ok (t1, o1) ∧ applyFP t1 fs cfg q.entry q.fp = .error x)
    (schedA : List Nat) (a : ApplyOut) (ha : applyPhase fs cfg patches threads schedA = some a) :
    countingError threads a.final a.ws ≠ none := by
  obtain ⟨hfinal, hW⟩ := applyPhase_final hP ht hstop schedA a ha
  obtain ⟨G1, q, G2, t1, o1, hsplit, hidx, hrun1, herr⟩ := hwit
  have hqR : q ∈ allEntries (patches.drop k) k := by rw [hsplit]; simp
  have hqe := (mem_drop_entries hqR).1
  obtain ⟨w, hwlt, hw⟩ := owner_exists hP ht q hqe
  have hown : owns patches threads w q = true := by simp [owns, hw]
  have hR : qR patches threads k w =
      G1.filter (owns patches threads w) ++ q :: G2.filter (owns patches threads w) := by
    unfold qR
    rw [hsplit, List.filter_append, List.filter_cons, hown]
    rfl
  have hqueue : queuesOf patches threads w =
      (qX patches threads k w ++ G1.filter (owns patches threads w)) ++
        q :: G2.filter (owns patches threads w) := by
    rw [queue_split k w, hR, List.append_assoc]
  obtain ⟨pos, hws, hcov⟩ := hW w
  have hpos : (qX patches threads k w ++ G1.filter (owns patches threads w)).length < pos := by
    apply hcov _ q
    · rw [hqueue, List.getElem?_append_right (Nat.le_refl _)]; simp
    · omega
  have herrw : (a.ws w).err = some (k, x) := by
    rw [hws, hqueue, take_append_ge _ _ _ (Nat.le_of_lt hpos), runW_append]
    obtain ⟨m, hm⟩ : ∃ m, pos - (qX patches threads k w ++ G1.filter (owns patches threads w)).length = m + 1 :=
      ⟨pos - (qX patches threads k w ++ G1.filter (owns patches threads w)).length - 1, by omega⟩
    rw [hm, List.take_succ_cons, runW_cons, runW_append]
    obtain ⟨e1, e2, uX, outsX, e3, e4, _⟩ := worker_prefix (fs := fs) (cfg := cfg) hP ht hstop w
    obtain ⟨f1, f2, u1, f3, f4, _⟩ := worker_run (fs := fs) (cfg := cfg) hP ht w G1 t t1 o1 _ uX
      (fun q' hq' => (mem_drop_entries (by rw [hsplit]; exact List.mem_append_left _ hq')).1)
      hrun1 e1 e2 e3 e4
    have hnames := owns_in hqe hown
    have herr' := applyFP_err_local (fun n hn => f4 n (hnames _ hn)) herr
    rw [apW_of_abs_err f1 f2 f3 (parsed_entry hP 0 q hqe).1 herr']
    rw [runW_absorbing (p := (q.idx, x)) _ _ rfl, hidx]
  intro hcount
  unfold countingError at hcount
  rw [List.findSome?_eq_none_iff] at hcount
  have := hcount w (List.mem_range.mpr hwlt)
  simp [errorCounts, herrw, hfinal] at this

/-- **the in-memory part of the parallel push never fails with a panic**, under every schedule -/
theorem parMemory_err_kind {range : List Series.Entry} (hparse : parseRange fs cfg range = some patches)
    (ht : 0 < threads) (schedA : List Nat) {e : Fail}
    (hr : parMemory fs cfg patches threads schedA = some (.error e)) : e = .err := by
  cases hspec : applyRange fs cfg range 0 [] with
  | ok y =>
    obtain ⟨t, k, rejs⟩ := y
    obtain ⟨_, pr, hpr, _⟩ := parMemory_applyRange_ok hparse ht hspec schedA _ hr
    cases hpr
  | error x =>
    rw [applyRange_eq_absRange range patches hparse] at hspec
    obtain ⟨k, t, hstop, hwit⟩ := stop_of_absRange_err hspec
    have hP := parsed_of_parseRange hparse
    unfold parMemory at hr
    cases ha : applyPhase fs cfg patches threads schedA with
    | none => rw [ha] at hr; cases hr
    | some a =>
      rw [ha] at hr
      simp only at hr
      cases hcount : countingError threads a.final a.ws with
      | some e' =>
        rw [hcount] at hr
        simp only [Option.some.injEq, Except.error.injEq] at hr
        subst hr
        exact countingError_errOK hP ht hstop schedA a ha hcount
      | none => exact absurd hcount (countingError_ne_none hP ht hstop hwit schedA a ha)

/-- the `unreachable!()` of the distribution step: a parsed file patch always has a name -/
theorem no_nameless (hP : Parsed patches) :
    (allEntries patches 0).any (fun q => (distPair q.fp).isNone) = false := by
  cases hany : (allEntries patches 0).any (fun q => (distPair q.fp).isNone) with
  | false => rfl
  | true =>
    obtain ⟨q, hq, hnone⟩ := List.any_eq_true.mp hany
    obtain ⟨hname, _⟩ := parsed_entry_noPanic hP 0 q hq
    unfold distPair at hnone
    cases hold : q.fp.old with
    | none =>
      cases hnew : q.fp.new with
      | none => rw [hold, hnew] at hname; simp at hname
      | some n => rw [hold, hnew] at hnone; cases hnone
    | some o =>
      cases hnew : q.fp.new with
      | none => rw [hold, hnew] at hnone; cases hnone
      | some n =>
        rw [hold, hnew] at hnone
        simp only at hnone
        split at hnone <;> cases hnone
end

theorem cleanWorkers_err (dirs : Nat → List Key) : ∀ (n : Nat) (w : World) {e : Fail} {w' : World},
    cleanWorkers w dirs n = .error (e, w') → e = .err := by
  intro n
  induction n with
  | zero => intro w e w' h; unfold cleanWorkers at h; cases h
  | succ n ih =>
    intro w e w' h
    unfold cleanWorkers at h
    cases hc : cleanWorkers w dirs n with
    | error e1 =>
      rw [hc] at h
      cases h
      exact ih w hc
    | ok w1 =>
      rw [hc] at h
      exact cleanAll_err _ _ h

theorem rejWorkers_err (rejs : Nat → List (Bytes × Bytes)) : ∀ (n : Nat) (w : World) {e : Fail} {w' : World},
    rejWorkers w rejs n = .error (e, w') → e = .err := by
  intro n
  induction n with
  | zero => intro w e w' h; unfold rejWorkers at h; cases h
  | succ n ih =>
    intro w e w' h
    unfold rejWorkers at h
    cases hc : rejWorkers w rejs n with
    | error e1 =>
      rw [hc] at h
      cases h
      exact ih w hc
    | ok w1 =>
      rw [hc] at h
      exact saveRejFiles_err _ _ h

/-- the main thread's last steps only fail with an I/O error -/
theorem mainFinish_err {w : World} {dirs : Nat → List Key} {rejs : Nat → List (Bytes × Bytes)} {threads final : Nat}
    {e : Fail} {w' : World} (h : mainFinish w dirs rejs threads final = .error (e, w')) : e = .err := by
  unfold mainFinish at h
  cases hc : cleanWorkers w dirs threads with
  | error e1 =>
    rw [hc] at h
    cases h
    exact cleanWorkers_err dirs threads w hc
  | ok w2 =>
    rw [hc] at h
    simp only at h
    cases hj : rejWorkers w2 rejs threads with
    | error e1 =>
      rw [hj] at h
      cases h
      exact rejWorkers_err rejs threads w2 hj
    | ok w3 =>
      rw [hj] at h
      cases h

/-- the save phase (with fault injection) only fails with an I/O error, when no worker's save code has a
panic leaf -/
theorem savePhaseF_err_kind {w : World} {cfg : Cfg} {final rangeLen threads : Nat} {mems : Nat → Mem}
    {applieds : Nat → List Status} {schedS : List Nat} {p : Fail × World}
    (hnp : ∀ i, i < threads → (workerSaveC cfg final rangeLen (mems i) (applieds i)).noPanic = true)
    (h : savePhaseF w cfg final rangeLen threads mems applieds schedS = some (.error p)) : p.1 = .err :=
  (savePhaseF_spec (P := WorkerOp) w cfg final rangeLen threads mems applieds schedS _
    (fun i _ => (workerSaveC_good cfg final rangeLen (mems i) (applieds i)).all) h).2.2 hnp p rfl

/-- **`parallel::apply_patches` never panics**: for every world, configuration, range, fault position,
at least one thread, and every pair of schedules under which the run finishes -/
theorem parApplyPatchesF_no_panic (fault : Option Nat) (w : World) (cfg : Cfg) (range : List Series.Entry)
    (threads : Nat) (schedA schedS : List Nat) (ht : 0 < threads) {e : Fail} {w' : World}
    (h : parApplyPatchesF fault w cfg range threads schedA schedS = some (.error (e, w'))) : e = .err := by
  unfold parApplyPatchesF at h
  simp only at h
  rw [if_neg (by omega)] at h
  cases hparse : parseRange w.fs cfg range with
  | none =>
    rw [hparse] at h
    simp only [Option.some.injEq, Except.error.injEq, Prod.mk.injEq] at h
    exact h.1.symm
  | some patches =>
    rw [hparse] at h
    simp only at h
    rw [no_nameless (parsed_of_parseRange hparse)] at h
    simp only [Bool.false_eq_true, if_false] at h
    cases hm : parMemory w.fs cfg patches threads schedA with
    | none => rw [hm] at h; cases h
    | some r =>
      cases r with
      | error e1 =>
        rw [hm] at h
        simp only [Option.some.injEq, Except.error.injEq, Prod.mk.injEq] at h
        rw [← h.1]
        exact parMemory_err_kind hparse ht schedA hm
      | ok r =>
        rw [hm] at h
        simp only at h
        split at h
        · cases h
        · cases hs : savePhaseF { fs := w.fs, trace := w.trace, faultAt := fault } cfg r.final patches.length threads
              (fun i => (r.sts i).mem) (fun i => (r.sts i).applied) schedS with
          | none => rw [hs] at h; cases h
          | some x =>
            rw [hs] at h
            cases x with
            | error p =>
              simp only [Option.some.injEq, Except.error.injEq] at h
              subst h
              exact savePhaseF_err_kind
                (fun i hi => saveNoPanic cfg w.fs range threads schedA patches r hparse hm i hi) hs
            | ok y =>
              obtain ⟨w1, dirs⟩ := y
              simp only [Option.some.injEq] at h
              exact mainFinish_err h

/-- the kind of failure of the save phase does not depend on the fault counter of the world it starts from
(`savePhase` does not inject faults; `savePhaseF` does) -/
theorem savePhase_err_kind {w : World} {cfg : Cfg} {final rangeLen threads : Nat} {mems : Nat → Mem}
    {applieds : Nat → List Status} {schedS : List Nat} {p : Fail × World}
    (hnp : ∀ i, i < threads → (workerSaveC cfg final rangeLen (mems i) (applieds i)).noPanic = true)
    (h : savePhase w cfg final rangeLen threads mems applieds schedS = some (.error p)) : p.1 = .err := by
  have key : ∃ w1, savePhase { w with faultAt := none } cfg final rangeLen threads mems applieds schedS =
      some (.error (p.1, w1)) := by
    unfold savePhase at h ⊢
    simp only at h ⊢
    split at h
    · rename_i hall
      rw [if_pos hall]
      split at h
      · cases h
        exact ⟨_, rfl⟩
      · cases h
    · cases h
  obtain ⟨w1, hk⟩ := key
  rw [← savePhaseF_none _ rfl] at hk
  exact savePhaseF_err_kind (p := (p.1, w1)) hnp hk

/-- **`parallel::apply_patches` (model without fault injection in the save phase) never panics** -/
theorem parApplyPatches_no_panic (w : World) (cfg : Cfg) (range : List Series.Entry)
    (threads : Nat) (schedA schedS : List Nat) (ht : 0 < threads) {e : Fail} {w' : World}
    (h : parApplyPatches w cfg range threads schedA schedS = some (.error (e, w'))) : e = .err := by
  unfold parApplyPatches at h
  rw [if_neg (by omega)] at h
  cases hparse : parseRange w.fs cfg range with
  | none =>
    rw [hparse] at h
    simp only [Option.some.injEq, Except.error.injEq, Prod.mk.injEq] at h
    exact h.1.symm
  | some patches =>
    rw [hparse] at h
    simp only at h
    rw [no_nameless (parsed_of_parseRange hparse)] at h
    simp only [Bool.false_eq_true, if_false] at h
    cases hm : parMemory w.fs cfg patches threads schedA with
    | none => rw [hm] at h; cases h
    | some r =>
      cases r with
      | error e1 =>
        rw [hm] at h
        simp only [Option.some.injEq, Except.error.injEq, Prod.mk.injEq] at h
        rw [← h.1]
        exact parMemory_err_kind hparse ht schedA hm
      | ok r =>
        rw [hm] at h
        simp only at h
        split at h
        · cases h
        · cases hs : savePhase w cfg r.final patches.length threads
              (fun i => (r.sts i).mem) (fun i => (r.sts i).applied) schedS with
          | none => rw [hs] at h; cases h
          | some x =>
            rw [hs] at h
            cases x with
            | error p =>
              simp only [Option.some.injEq, Except.error.injEq] at h
              subst h
              exact savePhase_err_kind
                (fun i hi => saveNoPanic cfg w.fs range threads schedA patches r hparse hm i hi) hs
            | ok y =>
              obtain ⟨w1, dirs⟩ := y
              simp only [Option.some.injEq] at h
              exact mainFinish_err h

/-- the second part of `cmd_push` with the parallel driver never ends with the outcome `panic` -/
theorem parPushRangeF_no_panic (fault : Option Nat) (cfg : Cfg) (w : World) (range : List Series.Entry)
    (threads : Nat) (schedA schedS : List Nat) (ht : 0 < threads) {out : Outcome} {w' : World}
    (h : parPushRangeF fault cfg w range threads schedA schedS = some (out, w')) : out ≠ .panic := by
  unfold parPushRangeF at h
  cases ha : parApplyPatchesF fault w cfg range threads schedA schedS with
  | none => rw [ha] at h; cases h
  | some r =>
    rw [ha] at h
    cases r with
    | error p =>
      obtain ⟨f, w1⟩ := p
      cases f with
      | err => cases h; exact fun h => by cases h
      | panic => cases parApplyPatchesF_no_panic fault w cfg range threads schedA schedS ht ha
    | ok y =>
      obtain ⟨w1, final⟩ := y
      simp only at h
      split at h
      · cases h; split <;> exact fun h => by cases h
      · split at h
        · cases h; exact fun h => by cases h
        · cases h; split <;> exact fun h => by cases h

/-- `cmd_push` with the parallel driver never ends with the outcome `panic` -/
theorem parPushF_no_panic (fault : Option Nat) (cfg : Cfg) (w : World) (threads : Nat) (schedA schedS : List Nat)
    (ht : 0 < threads) {out : Outcome} {w' : World}
    (h : parPushF fault cfg w threads schedA schedS = some (out, w')) : out ≠ .panic := by
  unfold parPushF at h
  split at h
  · cases h; exact fun h => by cases h
  · cases h; exact fun h => by cases h
  · exact parPushRangeF_no_panic fault cfg w _ threads schedA schedS ht h
end RQ.Par
#print axioms RQ.Par.parApplyPatches_no_panic
#print axioms RQ.Par.parPushF_no_panic
