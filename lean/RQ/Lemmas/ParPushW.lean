import RQ.Lemmas.ParPushAbs
import RQ.Lemmas.DiskTree
/-!
# One worker of the parallel driver (C06, stage 2)

`runW`: the worker's `apply_one_file_patch` folded over a piece of its queue (`apW`, absorbing after an
error).  The state the scheduler model leaves (`pre`) is such a fold (`pre_apSched`).
* `runW_sim`: along an abstract run without error (`absRun`) the worker has no error either, its cache
  stands for the abstract tree, the `Status`es it pushed can be undone (`Chain`) and render the same rejects.
* `runW_chain`: whatever else it applies (running ahead), the `Status`es it pushes can be undone.
* `rollbackAheadL_eq`: the first loop of `save_files_worker` is `undoAll` of the `Status`es behind `final`.
-/
namespace RQ.Par
open RQ RQ.Push RQ.Parse RQ.Abs

/-- `apW` over a list of entries -/
def runW (fs : FS) (cfg : Cfg) (s : WSt) (L : List QEntry) : WSt :=
  L.foldl (fun s q => (apW fs cfg s q).1) s

variable {fs : FS} {cfg : Cfg}

theorem runW_nil (s : WSt) : runW fs cfg s [] = s := rfl

theorem runW_cons (s : WSt) (q : QEntry) (L : List QEntry) :
    runW fs cfg s (q :: L) = runW fs cfg (apW fs cfg s q).1 L := rfl

theorem runW_append (s : WSt) (L1 L2 : List QEntry) :
    runW fs cfg s (L1 ++ L2) = runW fs cfg (runW fs cfg s L1) L2 := by
  unfold runW; rw [List.foldl_append]

theorem apW_absorbing {s : WSt} {p : Nat × Fail} (h : s.err = some p) (q : QEntry) : apW fs cfg s q = (s, false) := by
  unfold apW; rw [h]

theorem runW_absorbing {p : Nat × Fail} : ∀ (L : List QEntry) (s : WSt), s.err = some p → runW fs cfg s L = s := by
  intro L
  induction L with
  | nil => intro s _; rfl
  | cons q L ih =>
    intro s h
    rw [runW_cons, apW_absorbing h]
    exact ih s h

/-! ## The scheduler model's `pre` and `fails` are folds of `apW` -/

theorem toEntries_getElem? (q : List QEntry) (n : Nat) :
    (toEntries q)[n]? = q[n]?.map (fun e => ({ idx := e.idx, tag := n } : Entry)) := by
  unfold toEntries
  exact getElem?_zipIdx_map_entries q n

theorem toEntries_length (q : List QEntry) : (toEntries q).length = q.length := by
  unfold toEntries; simp

theorem pre_apSched (queues : Nat → List QEntry) (w : Nat) (s0 : WSt) : ∀ n,
    pre (apSched fs cfg queues) (w, s0) (toEntries (queues w)) n = (w, runW fs cfg s0 ((queues w).take n)) := by
  intro n
  induction n with
  | zero => simp [pre, runW]
  | succ n ih =>
    unfold pre
    rw [toEntries_getElem?]
    cases hq : (queues w)[n]? with
    | none =>
      simp only [Option.map_none]
      rw [ih]
      have hlen : (queues w).length ≤ n := by
        rcases Nat.lt_or_ge n (queues w).length with h | h
        · rw [List.getElem?_eq_getElem h] at hq; cases hq
        · exact h
      rw [List.take_of_length_le hlen, List.take_of_length_le (by omega)]
    | some qe =>
      simp only [Option.map_some]
      rw [ih]
      simp only [apSched, hq]
      rw [List.take_add_one, hq, Option.toList_some, runW_append]
      rfl

theorem fails_apSched (queues : Nat → List QEntry) (w : Nat) (s0 : WSt) (n : Nat) :
    fails (apSched fs cfg queues) (w, s0) (toEntries (queues w)) n =
      match (queues w)[n]? with
      | none => false
      | some qe => (apW fs cfg (runW fs cfg s0 ((queues w).take n)) qe).2 := by
  unfold fails
  rw [toEntries_getElem?]
  cases hq : (queues w)[n]? with
  | none => rfl
  | some qe =>
    simp only [Option.map_some]
    rw [pre_apSched]
    simp only [apSched, hq]

/-! ## Invariants of a worker's cache -/

/-- every cache entry is keyed by a name of the set `A` (the worker's names) -/
def MemIn (A : List Comp → Prop) (m : Mem) : Prop := ∀ e ∈ m, A e.1

theorem memIn_nil (A : List Comp → Prop) : MemIn A [] := fun _ he => by cases he

theorem MemIn.put {A : List Comp → Prop} {m : Mem} {name : Bytes} {f : FileSt Bytes} (h : MemIn A m)
    (hn : A (components name)) : MemIn A (m.put name f) := by
  unfold Mem.put
  split
  · intro e he
    rw [List.mem_map] at he
    obtain ⟨e0, he0, rfl⟩ := he
    split
    · exact h e0 he0
    · exact h e0 he0
  · intro e he
    rw [List.mem_append] at he
    rcases he with he | he
    · exact h e he
    · simp only [List.mem_singleton] at he
      subst he
      exact hn

theorem memIn_of_get {A : List Comp → Prop} {m : Mem} {name : Bytes} {g : FileSt Bytes} (h : MemIn A m)
    (hg : m.get name = some g) : A (components name) := by
  unfold Mem.get at hg
  cases hfind : m.find? (fun e => e.1 == components name) with
  | none => rw [hfind] at hg; cases hg
  | some e =>
    have hp := List.find?_some hfind
    simp only [beq_iff_eq] at hp
    rw [← hp]
    exact h e (List.mem_of_find?_eq_some hfind)

theorem MemIn.put_of_get {A : List Comp → Prop} {m : Mem} {name : Bytes} {f g : FileSt Bytes} (h : MemIn A m)
    (hg : m.get name = some g) : MemIn A (m.put name f) :=
  h.put (memIn_of_get h hg)

theorem getOrLoad_in {A : List Comp → Prop} {m m' : Mem} {name : Bytes} {f : FileSt Bytes} (h : MemIn A m)
    (hn : A (components name)) (e : getOrLoad m fs name = .ok (m', f)) : MemIn A m' := by
  unfold getOrLoad at e
  split at e
  · cases e
    exact h
  · split at e
    · cases e
    · split at e
      · cases e
        exact h.put hn
      · cases e
        exact h.put hn
      · cases e

theorem applyCore_in {A : List Comp → Prop} {st st' : St} {index : Nat} {entry : Series.Entry}
    {fp : PFilePatch} {b : Bool} (h : MemIn A st.mem) (hfp : ∀ c ∈ fpNames fp, A c)
    (e : applyCore st fs cfg index entry fp = .ok (st', b)) : MemIn A st'.mem := by
  unfold applyCore at e
  split at e
  · cases e
  · split at e
    · cases e
    · rename_i target hch
      have ht : A (components target) := by
        rcases Disk.choose_mem hch with h' | h'
        · exact hfp _ (mem_fpNames_old h')
        · exact hfp _ (mem_fpNames_new h')
      split at e
      · cases e
      · rename_i mem file hload
        have hm := getOrLoad_in h ht hload
        simp only at e
        split at e
        · split at e
          · cases e
          · rename_i newName hnew
            have hnn : A (components newName) := hfp _ (mem_fpNames_new hnew)
            simp only [moveOut] at e
            have hm1 : MemIn A (mem.put target { file with content := [], deleted := true, perms := none }) :=
              hm.put ht
            split at e
            · cases e
            · rename_i mem2 newFile hload2
              have hm2 := getOrLoad_in hm1 hnn hload2
              split at e
              · split at e
                · cases e
                · split at e
                  · cases e
                    exact hm2.put ht
                  · cases e
                    exact hm2.put ht
              · split at e
                · cases e
                · cases e
                  exact hm2.put hnn
        · split at e
          · cases e
          · cases e
            exact hm.put ht

theorem applyOne_in {A : List Comp → Prop} {st st' : St} {index : Nat} {entry : Series.Entry}
    {fp : PFilePatch} {b : Bool} (h : MemIn A st.mem) (hfp : ∀ c ∈ fpNames fp, A c)
    (e : applyOne st fs cfg index entry fp = .ok (st', b)) : MemIn A st'.mem := by
  obtain ⟨mem0, hp, hc⟩ := applyOne_ok_split e
  refine applyCore_in (st := { st with mem := mem0 }) ?_ hfp hc
  rcases preLoad_ok hp with rfl | ⟨n, f, _, hnew, hl⟩
  · exact h
  · exact getOrLoad_in h (hfp _ (mem_fpNames_new hnew)) hl

theorem rollbackOne_in {A : List Comp → Prop} {m m' : Mem} {s : Status} {f : FileSt Bytes} (h : MemIn A m)
    (e : rollbackOne m s = .ok (m', f)) : MemIn A m' := by
  unfold rollbackOne at e
  split at e
  · cases e
  · rename_i file hget
    split at e
    · cases e
    · rename_i file' hrb
      split at e
      · simp only [moveOut] at e
        have hm1 := h.put_of_get (name := s.final)
          (f := { content := [], existed := file'.existed, deleted := ‹Bool›, perms := ‹Option Nat› }) hget
        split at e
        · cases e
        · rename_i oldFile hget2
          split at e
          · cases e
          · cases e
            exact hm1.put_of_get hget2
      · cases e
        exact h.put_of_get hget

/-- what is known of a worker's cache: deleted entries have no content, one entry per key and no `.`
component, `existed` is truthful, all keys are names of the worker -/
structure MInv (fs : FS) (A : List Comp → Prop) (m : Mem) : Prop where
  de : MemDE m
  good : Disk.MemGood m
  ok : MemOK fs m
  inA : MemIn A m

theorem mInv_nil (fs : FS) (A : List Comp → Prop) : MInv fs A [] :=
  ⟨memDE_nil, Disk.memGood_nil, memOK_nil fs, memIn_nil A⟩

/-- what the parser guarantees of a file patch -/
structure QWF (q : QEntry) : Prop where
  wflen : q.fp.WFlen
  rn : q.fp.rename = true → q.fp.new.isSome
  nocur : Disk.FPNoCur q.fp

/-! ## One step -/

/-- one `apply_one_file_patch` that the abstract tree accepts -/
theorem apW_of_abs_ok {A : List Comp → Prop} {s : WSt} {q : QEntry} {u : ATree} {r : FPOut}
    (herr : s.err = none) (hinv : MInv fs A s.st.mem) (hs : SameTree fs (ofMem s.st.mem) u)
    (hq : QWF q) (hqA : ∀ c ∈ fpNames q.fp, A c)
    (h : applyFP u fs cfg q.entry q.fp = .ok r) :
    ∃ st', apW fs cfg s q = (⟨st', none⟩, !r.ok) ∧ SameTree fs (ofMem st'.mem) r.tree ∧ MInv fs A st'.mem ∧
      ∃ L, st'.applied = L ++ s.st.applied ∧ (∀ x ∈ L, x.index = q.idx) ∧ Chain fs s.st.mem L st'.mem ∧
        rejsOf L = r.rej.toList := by
  cases ha : applyOne s.st fs cfg q.idx q.entry q.fp with
  | error e =>
    have := applyOne_err_sim hs hinv.de hq.rn ha
    rw [h] at this
    cases this
  | ok x =>
    obtain ⟨st', b⟩ := x
    obtain ⟨r', hr', hb, hs', hde', L, happ, hidx, hch, hrej⟩ := applyOne_ok_sim hs hinv.de hq.wflen ha
    rw [h] at hr'
    cases hr'
    refine ⟨st', ?_, hs', ⟨hde', Disk.applyOne_good hinv.good hq.nocur ha, applyOne_ok hinv.ok ha,
      applyOne_in hinv.inA hqA ha⟩, L, happ, hidx, hch, hrej⟩
    simp only [apW, herr, ha, hb]

/-- one `apply_one_file_patch` that the abstract tree refuses -/
theorem apW_of_abs_err {A : List Comp → Prop} {s : WSt} {q : QEntry} {u : ATree} {x : Fail}
    (herr : s.err = none) (hinv : MInv fs A s.st.mem) (hs : SameTree fs (ofMem s.st.mem) u)
    (hq : QWF q) (h : applyFP u fs cfg q.entry q.fp = .error x) :
    apW fs cfg s q = (⟨s.st, some (q.idx, x)⟩, true) := by
  cases ha : applyOne s.st fs cfg q.idx q.entry q.fp with
  | error e =>
    have := applyOne_err_sim hs hinv.de hq.rn ha
    rw [h] at this
    cases this
    simp only [apW, herr, ha]
  | ok y =>
    obtain ⟨st', b⟩ := y
    obtain ⟨r', hr', _⟩ := applyOne_ok_sim hs hinv.de hq.wflen ha
    rw [h] at hr'
    cases hr'

/-- a file patch that does not apply cleanly counts as failing for the scheduler -/
theorem apW_bad {A : List Comp → Prop} {s : WSt} {q : QEntry} {u : ATree}
    (herr : s.err = none) (hinv : MInv fs A s.st.mem) (hs : SameTree fs (ofMem s.st.mem) u)
    (hq : QWF q) (hqA : ∀ c ∈ fpNames q.fp, A c) (hb : Bad fs cfg u q) :
    (apW fs cfg s q).2 = true := by
  unfold Bad at hb
  cases h : applyFP u fs cfg q.entry q.fp with
  | error x => rw [apW_of_abs_err herr hinv hs hq h]
  | ok r =>
    rw [h] at hb
    simp only at hb
    obtain ⟨st', hap, _⟩ := apW_of_abs_ok herr hinv hs hq hqA h
    rw [hap]
    simp [hb]

/-! ## A piece of the queue -/

/-- along an abstract run without error -/
theorem runW_sim {A : List Comp → Prop} : ∀ (L : List QEntry) (s : WSt) (u u' : ATree) (outs : List Out),
    s.err = none → MInv fs A s.st.mem → SameTree fs (ofMem s.st.mem) u →
    (∀ q ∈ L, QWF q ∧ ∀ c ∈ fpNames q.fp, A c) →
    absRun fs cfg u L = .ok (u', outs) →
    (runW fs cfg s L).err = none ∧ SameTree fs (ofMem (runW fs cfg s L).st.mem) u' ∧
      MInv fs A (runW fs cfg s L).st.mem ∧
      ∃ Ls, (runW fs cfg s L).st.applied = Ls ++ s.st.applied ∧ (∀ x ∈ Ls, ∃ q ∈ L, x.index = q.idx) ∧
        Chain fs s.st.mem Ls (runW fs cfg s L).st.mem ∧ rejsOf Ls = outRejs outs := by
  intro L
  induction L with
  | nil =>
    intro s u u' outs herr hinv hs _ h
    simp only [absRun] at h
    cases h
    exact ⟨herr, hs, hinv, [], rfl, (fun x hx => by cases hx), Ext.refl _ _, rfl⟩
  | cons q L ih =>
    intro s u u' outs herr hinv hs hL h
    obtain ⟨r, outs0, hr, hrest, rfl⟩ := absRun_cons_ok h
    obtain ⟨hq, hqA⟩ := hL q (List.mem_cons_self ..)
    obtain ⟨st1, hap, hs1, hinv1, L1, happ1, hidx1, hch1, hrej1⟩ := apW_of_abs_ok herr hinv hs hq hqA hr
    rw [runW_cons, hap]
    obtain ⟨herr2, hs2, hinv2, L2, happ2, hidx2, hch2, hrej2⟩ :=
      ih ⟨st1, none⟩ r.tree u' outs0 rfl hinv1 hs1 (fun q' hq' => hL q' (List.mem_cons_of_mem _ hq')) hrest
    refine ⟨herr2, hs2, hinv2, L2 ++ L1, ?_, ?_, Chain.append hch1 hch2, ?_⟩
    · rw [happ2]
      show L2 ++ st1.applied = _
      rw [happ1, List.append_assoc]
    · intro x hx
      rcases List.mem_append.mp hx with hx | hx
      · obtain ⟨q', hq', e⟩ := hidx2 x hx
        exact ⟨q', List.mem_cons_of_mem _ hq', e⟩
      · exact ⟨q, List.mem_cons_self .., hidx1 x hx⟩
    · rw [rejsOf_append, hrej1, hrej2]
      rfl

/-- whatever the entries do: the `Status`es pushed can be undone -/
theorem runW_chain {A : List Comp → Prop} : ∀ (L : List QEntry) (s : WSt),
    s.err = none → MInv fs A s.st.mem →
    (∀ q ∈ L, QWF q ∧ ∀ c ∈ fpNames q.fp, A c) →
    MInv fs A (runW fs cfg s L).st.mem ∧
      ∃ Ls, (runW fs cfg s L).st.applied = Ls ++ s.st.applied ∧ (∀ x ∈ Ls, ∃ q ∈ L, x.index = q.idx) ∧
        Chain fs s.st.mem Ls (runW fs cfg s L).st.mem := by
  intro L
  induction L with
  | nil =>
    intro s _ hinv _
    exact ⟨hinv, [], rfl, (fun x hx => by cases hx), Ext.refl _ _⟩
  | cons q L ih =>
    intro s herr hinv hL
    obtain ⟨hq, hqA⟩ := hL q (List.mem_cons_self ..)
    cases hr : applyFP (ofMem s.st.mem) fs cfg q.entry q.fp with
    | error x =>
      rw [runW_cons, apW_of_abs_err herr hinv (SameTree.refl _ _) hq hr]
      rw [runW_absorbing (p := (q.idx, x)) L _ rfl]
      exact ⟨hinv, [], rfl, (fun x hx => by cases hx), Ext.refl _ _⟩
    | ok r =>
      obtain ⟨st1, hap, _, hinv1, L1, happ1, hidx1, hch1, _⟩ :=
        apW_of_abs_ok herr hinv (SameTree.refl _ _) hq hqA hr
      rw [runW_cons, hap]
      obtain ⟨hinv2, L2, happ2, hidx2, hch2⟩ :=
        ih ⟨st1, none⟩ rfl hinv1 (fun q' hq' => hL q' (List.mem_cons_of_mem _ hq'))
      refine ⟨hinv2, L2 ++ L1, ?_, ?_, Chain.append hch1 hch2⟩
      · rw [happ2]
        show L2 ++ st1.applied = _
        rw [happ1, List.append_assoc]
      · intro x hx
        rcases List.mem_append.mp hx with hx | hx
        · obtain ⟨q', hq', e⟩ := hidx2 x hx
          exact ⟨q', List.mem_cons_of_mem _ hq', e⟩
        · exact ⟨q, List.mem_cons_self .., hidx1 x hx⟩

/-- an error the worker carries comes from one of the entries -/
theorem runW_err : ∀ (L : List QEntry) (s : WSt) (i : Nat) (x : Fail),
    s.err = none → (runW fs cfg s L).err = some (i, x) → ∃ q ∈ L, q.idx = i := by
  intro L
  induction L with
  | nil => intro s i x herr h; rw [runW_nil, herr] at h; cases h
  | cons q L ih =>
    intro s i x herr h
    rw [runW_cons] at h
    cases ha : applyOne s.st fs cfg q.idx q.entry q.fp with
    | error e =>
      have hap : (apW fs cfg s q).1 = ⟨s.st, some (q.idx, e)⟩ := by simp only [apW, herr, ha]
      rw [hap, runW_absorbing (p := (q.idx, e)) L _ rfl] at h
      cases h
      exact ⟨q, List.mem_cons_self .., rfl⟩
    | ok y =>
      have hap : (apW fs cfg s q).1 = ⟨y.1, none⟩ := by simp only [apW, herr, ha]
      rw [hap] at h
      obtain ⟨q', hq', e⟩ := ih _ i x rfl h
      exact ⟨q', List.mem_cons_of_mem _ hq', e⟩

/-! ## Undoing -/

theorem undoAll_inv {A : List Comp → Prop} : ∀ (L : List Status) (M M' : Mem),
    Disk.MemGood M → MemOK fs M → MemIn A M → undoAll M L = .ok M' →
    Disk.MemGood M' ∧ MemOK fs M' ∧ MemIn A M' := by
  intro L
  induction L with
  | nil =>
    intro M M' h1 h2 h3 h
    simp only [undoAll] at h
    cases h
    exact ⟨h1, h2, h3⟩
  | cons s L ih =>
    intro M M' h1 h2 h3 h
    unfold undoAll at h
    split at h
    · cases h
    · rename_i m1 f hr
      exact ih m1 M' (Disk.rollbackOne_good h1 hr) (rollbackOne_ok h2 hr) (rollbackOne_in h3 hr) h

/-- the first loop of `save_files_worker` pops exactly the `Status`es of the patches behind `final` -/
theorem rollbackAheadL_eq (final : Nat) : ∀ (LZ rest : List Status) (M : Mem),
    (∀ x ∈ LZ, final < x.index) → (∀ x, rest.head? = some x → x.index ≤ final) →
    rollbackAheadL final (LZ ++ rest) M = match undoAll M LZ with
      | .error e => .error e
      | .ok M' => .ok { applied := rest, mem := M' } := by
  intro LZ
  induction LZ with
  | nil =>
    intro rest M _ hrest
    simp only [List.nil_append, undoAll]
    cases rest with
    | nil => rfl
    | cons x r =>
      have := hrest x rfl
      simp only [rollbackAheadL, this, if_true]
  | cons s LZ ih =>
    intro rest M hLZ hrest
    have hs := hLZ s (List.mem_cons_self ..)
    simp only [List.cons_append, rollbackAheadL, undoAll]
    rw [if_neg (by omega)]
    cases rollbackOne M s with
    | error e => rfl
    | ok r =>
      simp only
      exact ih rest r.1 (fun x hx => hLZ x (List.mem_cons_of_mem _ hx)) hrest

end RQ.Par
