import RQ.Lemmas.ParPushDisk
import RQ.Lemmas.RefineDisk
/-!
# The parallel driver at EVERY path outside `.pc` (C06, lifted)

`C06_parallel_eq_sequential_tree` compares the disks of the parallel and the sequential driver model at regular files
under readable, non-reject, non-`.pc` names.  Here: at every path outside `.pc`, reject files and directories included
(`parallel_outsidePc`), and the parallel driver keeps tight trees tight (`parallel_tight`).

1. `TInv fs S` ("tight, except that the directories in `S` may be empty") is a property of `lookup` outside `.pc` up to
   inode numbers (`tinv_of_outsidePc`), so it transfers along `FSEquiv` — from the workers' saves one after another
   (`seqSave`) to the interleaved save phase (`C06_save_phase`) — and along `PcOnly` (backups).
2. `saveAll` reports for cleaning a list of directories that is a function of the cache (`delDirs`, `saveAll_dirs`); the
   workers' saves one after another accumulate them (`seqSave_tinv`), the save phase under a schedule reports the same
   lists (`savePhase_dirs`), `cleanWorkers` consumes them list by list (`cleanWorkers_tinv`), `rejWorkers` keeps the
   invariant (`saveRejFiles_tinv`, no hypothesis on the reject names).  Hence `Tight` after the parallel push.
3. Files after saving and cleaning, before any reject file is written (`par_stages`, `seq_stages`,
   `cache_views_agree`): at every path outside `.pc` both disks show what the caches show, and the workers' caches
   together show what the one cache of the sequential driver shows (both show the tree of `Abs.applyRange`).
4. Reject files (`rejects_agree`): `saveRejFiles` on the `fileAt` level is `rejStep` (`RQ/Lemmas/RejDisk.lean`); for one
   path only the rejects for that path matter (`rejStep_filter`); the main thread's loop over the workers' lists is
   `rejStep` over the concatenation (`rejWorkers_written`), a permutation of the sequential list in which every
   worker's list keeps the sequential order (`C06_apply_eq_sequential`); since no two workers have a reject for the same
   path (`RejApart`) the rejects for one path come in the same order on both sides (`workers_filter`).
5. `RejApart` is proven for file patches from the parser (`rejApart_of_parsed`): a reject file is `<name>.rej` for a
   name of its file patch, names from the parser have no `.` component, `<a>.rej` and `<b>.rej` are the same path only
   if `a` and `b` have the same components (`rejKey_inj`), and one `Path` lives on one worker (C07).
6. Against the specification directly (`parallel_refines_specRun`, no run of the sequential driver): what the cache of
   `applyLoop` shows is what the specification's tree holds (`spec_fileAt_eq_flushView`, the argument of
   `Refine2.saved_fileAt_eq_spec` without the sequential disk); the specification's `putRejects` is mirrored by the same
   `rejStep` as the driver's loop and keeps the invariant (`putFile_step`, `putRejects_written`).
-/
namespace RQ.ParRefine
open RQ RQ.Push RQ.Flush RQ.Compose RQ.Tight RQ.Parse RQ.Par
open RQ.ParSave (noIno noIno_cases FSEquiv)

/-! ## 1. The invariant `TInv` only looks at `lookup` outside `.pc`, up to inode numbers -/

theorem outsidePc_of_equiv {a b : FS} (h : FSEquiv a b) : OutsidePc a b := fun k _ => h k

theorem op_dir {a b : FS} (h : OutsidePc a b) {k : Key} (hk : ¬ isPcKey k) (hd : a.lookup k = some .dir) :
    b.lookup k = some .dir := by
  rcases noIno_cases (h k hk) with ⟨e1, e2⟩ | ⟨e1, e2⟩ | ⟨c, m, i, i', e1, e2⟩
  · rw [e1] at hd; cases hd
  · exact e2
  · rw [e1] at hd; cases hd

theorem op_none {a b : FS} (h : OutsidePc a b) {k : Key} (hk : ¬ isPcKey k) (hd : a.lookup k = none) :
    b.lookup k = none := by
  rcases noIno_cases (h k hk) with ⟨e1, e2⟩ | ⟨e1, e2⟩ | ⟨c, m, i, i', e1, e2⟩
  · exact e2
  · rw [e1] at hd; cases hd
  · rw [e1] at hd; cases hd

theorem op_some {a b : FS} (h : OutsidePc a b) {k : Key} (hk : ¬ isPcKey k) {n : Node} (hd : a.lookup k = some n) :
    ∃ n', b.lookup k = some n' := by
  rcases noIno_cases (h k hk) with ⟨e1, e2⟩ | ⟨e1, e2⟩ | ⟨c, m, i, i', e1, e2⟩
  · rw [e1] at hd; cases hd
  · exact ⟨_, e2⟩
  · exact ⟨_, e2⟩

theorem op_file {a b : FS} (h : OutsidePc a b) {k : Key} (hk : ¬ isPcKey k) {c : Bytes} {m i : Nat}
    (hd : a.lookup k = some (.file c m i)) : ∃ i', b.lookup k = some (.file c m i') := by
  rcases noIno_cases (h k hk) with ⟨e1, e2⟩ | ⟨e1, e2⟩ | ⟨c', m', i0, i', e1, e2⟩
  · rw [e1] at hd; cases hd
  · rw [e1] at hd; cases hd
  · rw [e1] at hd; cases hd; exact ⟨i', e2⟩

/-- `TInv` is a property of the tree outside `.pc`, up to inode numbers -/
theorem tinv_of_outsidePc {a b : FS} {S : List Key} (h : OutsidePc a b) (ha : TInv a S) : TInv b S := by
  have h' := h.symm
  refine ⟨?_, ?_, ?_, ?_⟩
  · intro k hk n hn i h0 hi
    obtain ⟨n', hn'⟩ := op_some h' hk hn
    exact op_dir h (not_pc_take hk i) (ha.wf k hk n' hn' i h0 hi)
  · intro k hk c m i hl
    obtain ⟨i', hl'⟩ := op_file h' hk hl
    exact ha.modes k hk c m i' hl'
  · exact op_none h not_pc_nil ha.root
  · intro e ⟨he0, hep, hed, hemp⟩
    apply ha.empties
    exact ⟨he0, hep, op_dir h' hep hed, fun q hs => op_none h' (not_pc_of_take he0 hep hs.2) (hemp q hs)⟩

theorem tinv_of_equiv {a b : FS} {S : List Key} (h : FSEquiv a b) (ha : TInv a S) : TInv b S :=
  tinv_of_outsidePc (outsidePc_of_equiv h) ha

theorem tinv_of_pcOnly {a b : FS} {S : List Key} (h : PcOnly a b) (ha : TInv a S) : TInv b S :=
  tinv_of_outsidePc h.outside ha

/-! ## 2. The directories a cache asks to be cleaned are a function of the cache -/

/-- the directories `saveAll` reports for cleaning: the parents of the files that existed and are deleted -/
def delDirs : Mem → List Key
  | [] => []
  | (_, name, f) :: rest =>
    (match safeKey name with
      | some k => if f.deleted && f.existed then [k.dropLast] else []
      | none => []) ++ delDirs rest

theorem saveModifiedFile_dir {w w' : World} {name : Bytes} {f : FileSt Bytes} {d : Option Key}
    (h : saveModifiedFile w name f = .ok (w', d)) :
    d.toList = (match safeKey name with
      | some k => if f.deleted && f.existed then [k.dropLast] else []
      | none => []) := by
  unfold saveModifiedFile at h
  split at h
  · cases h
  · rename_i k hk
    rw [hk]
    simp only
    cases hex : f.existed <;> cases hdel : f.deleted <;>
      simp only [hex, hdel, if_true, Bool.not_true, Bool.false_eq_true, if_false, Bool.not_false] at h
    · -- not existed, not deleted
      split at h
      · cases h
      · split at h
        · split at h
          · cases h; rfl
          · cases h
        · cases h
        · cases h
    · cases h; rfl
    · split at h
      · cases h
      · split at h
        · split at h
          · cases h; rfl
          · cases h
        · cases h
        · cases h
    · split at h
      · cases h
      · cases h; rfl

theorem saveAll_dirs : ∀ (mem : Mem) (w w' : World) (ds ds' : List Key),
    saveAll w mem ds = .ok (w', ds') → ds' = ds ++ delDirs mem := by
  intro mem
  induction mem with
  | nil =>
    intro w w' ds ds' h
    unfold saveAll at h
    cases h
    simp [delDirs]
  | cons x rest ih =>
    intro w w' ds ds' h
    obtain ⟨c, name, f⟩ := x
    unfold saveAll at h
    split at h
    · cases h
    · rename_i w1 d heq
      have hd := saveModifiedFile_dir heq
      have hdd : delDirs ((c, name, f) :: rest) = d.toList ++ delDirs rest := by
        rw [hd]; rfl
      rw [ih _ _ _ _ h, hdd]
      cases d <;> simp

/-- `saveAll` started with an empty list on a tree whose possibly empty directories are `S` -/
theorem saveAll_tinv_app : ∀ (mem : Mem) (w w' : World) (S ds ds' : List Key), TInv w.fs (S ++ ds) →
    saveAll w mem ds = .ok (w', ds') → TInv w'.fs (S ++ ds') := by
  intro mem
  induction mem with
  | nil =>
    intro w w' S ds ds' hi h
    unfold saveAll at h
    cases h
    exact hi
  | cons x rest ih =>
    intro w w' S ds ds' hi h
    obtain ⟨c, name, f⟩ := x
    unfold saveAll at h
    split at h
    · cases h
    · rename_i w1 d heq
      have h1 := saveModifiedFile_tinv hi heq
      cases d with
      | none => exact ih _ _ _ _ _ h1 h
      | some k =>
        simp only [List.append_assoc] at h1
        exact ih _ _ _ _ _ h1 h

theorem workerSave_tinv {cfg : Cfg} {k N : Nat} {w w' : World} {mem : Mem} {applied : List Status} {dirs S : List Key}
    (hdry : cfg.dryRun = false) (hi : TInv w.fs S) (h : workerSave cfg k N w mem applied = .ok (w', dirs)) :
    dirs = delDirs mem ∧ TInv w'.fs (S ++ delDirs mem) := by
  unfold workerSave at h
  simp only [hdry, Bool.false_eq_true, if_false] at h
  split at h
  · cases h
  · rename_i wa dirs' hsave
    have hd : dirs' = delDirs mem := by simpa using saveAll_dirs mem w wa [] dirs' hsave
    have ht : TInv wa.fs (S ++ dirs') := saveAll_tinv_app mem w wa S [] dirs' (by simpa using hi) hsave
    split at h
    · split at h
      · cases h
      · rename_i wb memb hbk
        cases h
        exact ⟨hd, hd ▸ tinv_of_pcOnly (rollbackAndSaveBackups_pcOnly _ _ _ _ _ _ hbk) ht⟩
    · cases h
      exact ⟨hd, hd ▸ ht⟩

/-- the directories all workers `0 .. n-1` ask to be cleaned -/
def allDirs (mems : Nat → Mem) (n : Nat) : List Key := (List.range n).flatMap (fun i => delDirs (mems i))

theorem allDirs_succ (mems : Nat → Mem) (n : Nat) : allDirs mems (n + 1) = allDirs mems n ++ delDirs (mems n) := by
  unfold allDirs
  rw [List.range_succ, List.flatMap_append]
  simp

theorem seqSave_tinv {cfg : Cfg} {k N : Nat} {mems : Nat → Mem} {applieds : Nat → List Status}
    (hdry : cfg.dryRun = false) : ∀ (n : Nat) (w w' : World), TInv w.fs [] →
    seqSave cfg k N mems applieds n w = .ok w' → TInv w'.fs (allDirs mems n) := by
  intro n
  induction n with
  | zero =>
    intro w w' hi h
    simp only [seqSave] at h
    cases h
    exact hi
  | succ n ih =>
    intro w w' hi h
    unfold seqSave at h
    split at h
    · cases h
    · rename_i wm hseq
      split at h
      · cases h
      · rename_i wn dirs hws
        cases h
        rw [allDirs_succ]
        exact (workerSave_tinv hdry (ih w wm hi hseq) hws).2

/-! ## 3. Cleaning consumes the directories, worker after worker -/

theorem cleanAll_tinv_app : ∀ (dirs : List Key) (w w' : World) (rest : List Key), TInv w.fs (dirs ++ rest) →
    cleanAll w dirs = .ok w' → TInv w'.fs rest := by
  intro dirs
  induction dirs with
  | nil =>
    intro w w' rest hi h
    unfold cleanAll at h
    cases h
    exact hi
  | cons d ds ih =>
    intro w w' rest hi h
    unfold cleanAll at h
    split at h
    · cases h
    · rename_i w1 heq
      exact ih w1 w' rest (cleanUp_tinv _ w w1 d (ds ++ rest) hi (Nat.lt_succ_self _) heq) h

theorem cleanWorkers_tinv (dirs : Nat → List Key) : ∀ (n : Nat) (w w' : World) (rest : List Key),
    TInv w.fs ((List.range n).flatMap dirs ++ rest) → cleanWorkers w dirs n = .ok w' → TInv w'.fs rest := by
  intro n
  induction n with
  | zero =>
    intro w w' rest hi h
    simp only [cleanWorkers] at h
    cases h
    simpa using hi
  | succ n ih =>
    intro w w' rest hi h
    unfold cleanWorkers at h
    split at h
    · cases h
    · rename_i w1 h1
      rw [List.range_succ, List.flatMap_append] at hi
      simp only [List.flatMap_cons, List.flatMap_nil, List.append_nil, List.append_assoc] at hi
      exact cleanAll_tinv_app _ w1 w' rest (ih w w1 _ hi h1) h

/-! ## 4. Reject files keep the invariant -/

theorem saveRejFiles_tinv (rejs : List (Bytes × Bytes)) : ∀ (w w' : World) (S : List Key), TInv w.fs S →
    saveRejFiles w rejs = .ok w' → TInv w'.fs S := by
  induction rejs with
  | nil =>
    intro w w' S hi h
    unfold saveRejFiles at h
    cases h
    exact hi
  | cons x rest ih =>
    intro w w' S hi h
    obtain ⟨name, content⟩ := x
    rw [saveRejFiles_cons] at h
    split at h
    · cases h
    · rename_i k hk
      have hcont : ∀ w0 : World, TInv w0.fs (k.dropLast :: S) →
          (match w0.op (.createFile k) with
            | .notFound w' => saveRejFiles w' rest
            | .failed w' => .error (.err, w')
            | .ok w' =>
              match w'.op (.write k content) with
              | .ok w'' => saveRejFiles w'' rest
              | .notFound w'' | .failed w'' => .error (.err, w'')) = .ok w' →
          TInv w'.fs S := by
        intro w0 a0 h
        split at h
        · rename_i w1 hop
          obtain ⟨g0, g1, _⟩ := op_notFound_run hop
          have hnd := createFile_notFound_isDir g0
          refine ih w1 w' S ?_ h
          rw [g1]
          refine a0.drop (fun hE => ?_)
          unfold FS.isDir at hnd
          rw [hE.2.2.1] at hnd
          simp at hnd
        · cases h
        · rename_i w1 hop
          split at h
          · rename_i w2 hop2
            refine ih w2 w' S ?_ h
            rw [(op_write_ok hop2).1]
            exact tinv_appendBytes (tinv_createFile a0 (op_ok_run hop).1) _ _
          · cases h
          · cases h
      split at h
      · -- bypassed (`ENOTDIR`): nothing is touched
        split at h
        · cases h
        · split at h
          · cases h
          · exact ih ((w.logged (.removeFile k)).logged (.createFile k)) w' S hi h
      split at h
      · cases h
      · rename_i w0 hop
        exact hcont w0 (tinv_removeFile hi (op_ok_run hop).1) h
      · rename_i w0 hop
        exact hcont w0 (by rw [(op_notFound_run hop).2.1]; exact hi.cons _) h

theorem rejWorkers_tinv (rejs : Nat → List (Bytes × Bytes)) : ∀ (n : Nat) (w w' : World) (S : List Key),
    TInv w.fs S → rejWorkers w rejs n = .ok w' → TInv w'.fs S := by
  intro n
  induction n with
  | zero =>
    intro w w' S hi h
    simp only [rejWorkers] at h
    cases h
    exact hi
  | succ n ih =>
    intro w w' S hi h
    unfold rejWorkers at h
    split at h
    · cases h
    · rename_i w1 h1
      exact saveRejFiles_tinv _ w1 w' S (ih w w1 S hi h1) h

/-! ## 5. The directories the save phase reports are those of the workers' solo runs -/

theorem savePhase_dirs (w : World) (cfg : Cfg) (k N threads : Nat) (mems : Nat → Mem) (applieds : Nat → List Status)
    (schedS : List Nat)
    (hsolo : ∀ i, i < threads → ∃ r, workerSave cfg k N ⟨w.fs, [], none⟩ (mems i) (applieds i) = .ok r)
    (hdisj : KeysDisjoint (saveKeys cfg k N mems applieds) threads)
    (w1 : World) (dirs : Nat → List Key)
    (hres : savePhase w cfg k N threads mems applieds schedS = some (.ok (w1, dirs))) :
    ∀ i, i < threads → ∀ r, workerSave cfg k N ⟨w.fs, [], none⟩ (mems i) (applieds i) = .ok r → dirs i = r.2 := by
  have hok : ∀ i, i < threads → ∃ a, (saveCmds cfg k N mems applieds i).result w.fs = .ok a := by
    intro i hi
    obtain ⟨r, hr⟩ := hsolo i hi
    exact ⟨r.2, (workerSave_ok cfg k N hr).1⟩
  obtain ⟨_, h2⟩ := cmd_schedule_independence (saveCmds cfg k N mems applieds)
    (saveKeys cfg k N mems applieds) threads w.fs
    (fun i _ => workerSaveC_fp cfg k N (mems i) (applieds i)) hok hdisj schedS
  unfold savePhase at hres
  simp only at hres
  split at hres
  · rename_i hall
    have hdone : ParSave.Done (saveProgs cfg k N mems applieds threads)
        (ParSave.run (saveProgs cfg k N mems applieds threads) schedS (ParSave.init w.fs)) := by
      intro i
      rcases Nat.lt_or_ge i threads with hi | hi
      · rw [List.all_eq_true] at hall
        have := hall i (List.mem_range.mpr hi)
        exact Option.isNone_iff_eq_none.mp this
      · unfold saveProgs cmdProgs
        rw [if_neg (by omega)]
    obtain ⟨wq, e, heq, _, hhist⟩ := h2 hdone
    intro i hi r hr
    have ha : (workerSaveC cfg k N (mems i) (applieds i)).result w.fs = .ok r.2 := (workerSave_ok cfg k N hr).1
    have hsr : saveResult cfg k N (mems i) (applieds i)
        ((ParSave.run (saveProgs cfg k N mems applieds threads) schedS (ParSave.init w.fs)).hist i) = .ok r.2 := by
      unfold saveResult
      have hh : (ParSave.run (saveProgs cfg k N mems applieds threads) schedS (ParSave.init w.fs)).hist i =
          ((workerSaveC cfg k N (mems i) (applieds i)).steps w.fs).map (·.2) := (hhist i hi).1
      rw [hh, Cmd.resultAt_steps, ha]
    split at hres
    · cases hres
    · simp only [Option.some.injEq, Except.ok.injEq, Prod.mk.injEq] at hres
      obtain ⟨_, hd⟩ := hres
      rw [← hd]
      simp only [hsr]
  · cases hres

/-! ## 6. The parallel driver, stage by stage -/

/-- what `parApplyPatches` went through when it succeeded: the in-memory part, the save phase, the cleaning — the
tree then (`w2`) is tight and holds, outside `.pc`, what the workers' caches say — and the reject files -/
theorem par_stages (w w' : World) (cfg : Cfg) (range : List Series.Entry) (threads : Nat)
    (schedA schedS : List Nat) (ht : 0 < threads) (hdry : cfg.dryRun = false) (hT : Tight w.fs)
    {patches : List (Series.Entry × List PFilePatch)} (hparse : parseRange w.fs cfg range = some patches)
    {t : Abs.ATree} {k k' : Nat} {rejs : List (Bytes × Bytes)}
    (hspec : Abs.applyRange w.fs cfg range 0 [] = .ok (t, k, rejs))
    (hsolo : ∀ pr, parMemory w.fs cfg patches threads schedA = some (.ok pr) → ∀ i, i < threads →
      ∃ r, workerSave cfg pr.final patches.length ⟨w.fs, [], none⟩ (pr.sts i).mem (pr.sts i).applied = .ok r)
    (hdisj : ∀ pr, parMemory w.fs cfg patches threads schedA = some (.ok pr) →
      KeysDisjoint (saveKeys cfg pr.final patches.length (fun i => (pr.sts i).mem) (fun i => (pr.sts i).applied)) threads)
    (hres : parApplyPatches w cfg range threads schedA schedS = some (.ok (w', k'))) :
    ∃ outsK pr w2, parMemory w.fs cfg patches threads schedA = some (.ok pr) ∧
      ParMem w.fs cfg patches threads k t outsK pr ∧ Par.Clean w.fs cfg patches k t outsK ∧
      rejs = outRejs outsK ∧ k' = k ∧ Tight w2.fs ∧ rejWorkers w2 pr.rejs threads = .ok w' ∧
      ∀ key, ¬ isPcKey key →
        (∀ j, j < threads → key ∈ memKeys (pr.sts j).mem → fileAt w2.fs key = flushView (pr.sts j).mem w.fs key) ∧
        ((∀ j, j < threads → key ∉ memKeys (pr.sts j).mem) → fileAt w2.fs key = fileAt w.fs key) := by
  have heq := parApplyPatches_eq w cfg range threads schedA schedS ht hparse
  rw [hres] at heq
  cases hm : parMemory w.fs cfg patches threads schedA with
  | none => rw [hm] at heq; cases heq
  | some r =>
    obtain ⟨outsK, pr, hr, pm, hc, hrejs⟩ := parMemory_applyRange_ok hparse ht hspec schedA r hm
    subst hr
    rw [hm] at heq
    simp only [hdry, Bool.false_eq_true, if_false] at heq
    have hfinal := pm.final
    rw [hfinal] at heq
    have hsolo' := hsolo pr hm
    have hdisj' := hdisj pr hm
    rw [hfinal] at hsolo' hdisj'
    cases hsv : savePhase w cfg k patches.length threads (fun i => (pr.sts i).mem)
        (fun i => (pr.sts i).applied) schedS with
    | none => rw [hsv] at heq; cases heq
    | some sres =>
      obtain ⟨w1, dirs, wq, hsres, _, hseq, hequiv⟩ := savePhase_ok w cfg k patches.length threads _ _ schedS
        hsolo' hdisj' sres hsv
      subst hsres
      rw [hsv] at heq
      simp only [Option.some.injEq] at heq
      unfold mainFinish at heq
      split at heq
      · cases heq
      · rename_i w2 hclean
        split at heq
        · cases heq
        · rename_i w3 hrej
          simp only [Except.ok.injEq, Prod.mk.injEq] at heq
          obtain ⟨hw3, hk'⟩ := heq
          subst hw3
          -- tightness
          have hwq : TInv wq.fs (allDirs (fun i => (pr.sts i).mem) threads) :=
            seqSave_tinv hdry threads ⟨w.fs, [], none⟩ wq (tinv_of_tight hT) hseq
          have hw1 : TInv w1.fs (allDirs (fun i => (pr.sts i).mem) threads) :=
            tinv_of_outsidePc (outsidePc_of_equiv hequiv).symm hwq
          have hdirs : (List.range threads).flatMap dirs = allDirs (fun i => (pr.sts i).mem) threads := by
            unfold allDirs
            apply flatMap_congr_mem
            intro i hi
            have hi' := List.mem_range.mp hi
            obtain ⟨r, hr⟩ := hsolo' i hi'
            rw [savePhase_dirs w cfg k patches.length threads _ _ schedS hsolo' hdisj' w1 dirs hsv i hi' r hr]
            obtain ⟨wr, dr⟩ := r
            exact (workerSave_tinv (w := ⟨w.fs, [], none⟩) hdry (tinv_of_tight hT) hr).1
          have hw2 : TInv w2.fs [] :=
            cleanWorkers_tinv dirs threads w1 w2 [] (by rw [List.append_nil, hdirs]; exact hw1) hclean
          -- files
          obtain ⟨_, c2⟩ := cleanWorkers_fileAt dirs threads w1 w2 hclean
          obtain ⟨_, _, q3⟩ := seqSave_fileAt (fs0 := w.fs) hdry
            (fun i => Disk.keysDistinct_of_good (pm.good i)) (fun i => pm.ok i) hdisj' threads (Nat.le_refl _) wq hseq
          have hW : ∀ key, fileAt w2.fs key = fileAt wq.fs key := fun key => by
            rw [c2 key, fileAt_of_FSEquiv hequiv]
          refine ⟨outsK, pr, w2, rfl, pm, hc, by rw [hrejs]; simp [hdry], hk', tight_of_tinv hw2, hrej, ?_⟩
          intro key hp
          refine ⟨fun j hj hmem => ?_, fun hnone => ?_⟩
          · rw [hW key]; exact (q3 key hp).1 j hj hmem
          · rw [hW key]; exact (q3 key hp).2 hnone

/-! ## 7. The sequential driver, stage by stage -/

theorem seq_stages (w wS : World) (cfg : Cfg) (range : List Series.Entry) (kS : Nat) (hdry : cfg.dryRun = false)
    (hT : Tight w.fs) (h : applyPatches w cfg range = .ok (wS, kS)) :
    ∃ st rejs t s2 s3, applyLoop w.fs cfg range 0 {} = .ok (st, kS, rejs) ∧
      Abs.applyRange w.fs cfg range 0 [] = .ok (t, kS, rejs) ∧
      Abs.SameTree w.fs (Abs.ofMem st.mem) t ∧ Disk.MemGood st.mem ∧
      Tight s2.fs ∧ (∀ key, fileAt s2.fs key = flushView st.mem w.fs key) ∧
      saveRejFiles s2 rejs = .ok s3 ∧ PcOnly s3.fs wS.fs := by
  cases hloop : applyLoop w.fs cfg range 0 {} with
  | error e =>
    unfold applyPatches at h
    rw [hloop] at h
    cases h
  | ok r =>
    obtain ⟨st, final, rejs⟩ := r
    obtain ⟨hfin, w1, dirs, w2, w3, hsave, hcl, hrej, hbk⟩ :=
      Refine2.applyPatches_stages w wS cfg range st final kS rejs hdry hloop h
    subst hfin
    have href := Disk.apply_refines w.fs cfg range
    rw [hloop] at href
    cases hspec : Abs.applyRange w.fs cfg range 0 [] with
    | error e => rw [hspec] at href; exact href.elim
    | ok r' =>
      obtain ⟨t, k', rejs'⟩ := r'
      rw [hspec] at href
      obtain ⟨hk', hrejs, hsame⟩ := href
      subst hk' hrejs
      have hgood : Disk.MemGood st.mem := Disk.applyLoop_good range Disk.memGood_nil hloop
      have hm : MemOK w.fs st.mem := applyLoop_ok range (memOK_nil _) hloop
      refine ⟨st, rejs, t, w2, w3, rfl, rfl, hsame hdry, hgood, saveAll_cleanAll_tight hT hsave hcl, ?_, hrej, ?_⟩
      · intro key
        rw [cleanAll_fileAt w1 w2 dirs hcl key]
        exact (saveAll_flush_aux st.mem w w1 [] dirs (Disk.keysDistinct_of_good hgood) (free_of_memOK hm) hsave).2 key
      · rcases hbk with e | ⟨d, mem', hb⟩
        · rw [e]; exact PcOnly.refl _
        · exact rollbackAndSaveBackups_pcOnly _ _ _ _ _ _ hb

/-! ## 8. After saving and cleaning: the workers' caches together show what the one cache shows -/

theorem cache_views_agree {fs : FS} {cfg : Cfg} {patches : List (Series.Entry × List PFilePatch)} {threads : Nat}
    (hP : Parsed patches) (ht : 0 < threads) {k : Nat} {t : Abs.ATree} {outsK : List Out} {pr : ParResult}
    (hc : Par.Clean fs cfg patches k t outsK) (pm : ParMem fs cfg patches threads k t outsK pr)
    (hdry : cfg.dryRun = false) {mem : Mem} (hgood : Disk.MemGood mem)
    (hsame : Abs.SameTree fs (Abs.ofMem mem) t) (W : FS)
    (hfile : ∀ key, ¬ isPcKey key →
      (∀ j, j < threads → key ∈ memKeys (pr.sts j).mem → fileAt W key = flushView (pr.sts j).mem fs key) ∧
      ((∀ j, j < threads → key ∉ memKeys (pr.sts j).mem) → fileAt W key = fileAt fs key))
    (key : Key) (hp : ¬ isPcKey key) : fileAt W key = flushView mem fs key := by
  by_cases hname : ∃ n a, Comp.cur ∉ components n ∧ safeKey n = some key ∧ Abs.look t fs n = .ok a
  · obtain ⟨n, a, hcur, hkey, hl⟩ := hname
    rw [disk_view hP ht hc pm hdry W hfile n key a hcur hkey hp hl]
    exact (Disk.flushView_look hcur hkey hgood.nocur (by rw [hsame n]; exact hl)).symm
  · have hnone_seq : ∀ e ∈ mem, safeKey e.2.1 ≠ some key := by
      intro e he hke
      apply hname
      obtain ⟨e1, e2⟩ := hgood.nocur e he
      have hcur : Comp.cur ∉ components e.2.1 := e1 ▸ e2
      obtain ⟨a, ha⟩ := look_of_entry fs he e1
      exact ⟨e.2.1, a, hcur, hke, by rw [← hsame]; exact ha⟩
    have hnone_par : ∀ j, j < threads → key ∉ memKeys (pr.sts j).mem := by
      intro j _ hmem
      obtain ⟨e, he, hke⟩ := mem_memKeys.mp hmem
      obtain ⟨e1, e2⟩ := (pm.good j).nocur e he
      have hcur : Comp.cur ∉ components e.2.1 := e1 ▸ e2
      obtain ⟨a, ha⟩ := look_of_entry fs he e1
      have hn : namesOf patches threads j (components e.2.1) := e1 ▸ pm.inNames j e he
      exact hname ⟨e.2.1, a, hcur, hke, by rw [← pm.look hdry j e.2.1 hn]; exact ha⟩
    rw [(hfile key hp).2 hnone_par, flushView_of_no_entry hnone_seq]

/-! ## 9. The reject files: the workers' lists one after another against the one list -/

theorem rejStep_append (fs : FS) (key : Key) : ∀ (a b : List (Bytes × Bytes)) (cur : Option (Bytes × Nat)),
    rejStep fs key cur (a ++ b) = rejStep fs key (rejStep fs key cur a) b := by
  intro a
  induction a with
  | nil => intro b cur; rfl
  | cons x rest ih =>
    intro b cur
    obtain ⟨name, content⟩ := x
    by_cases hk : safeKey name = some key
    · rw [List.cons_append, rejStep_cons_self hk, rejStep_cons_self hk]; exact ih b _
    · rw [List.cons_append, rejStep_cons_ne hk, rejStep_cons_ne hk]; exact ih b _

/-- is this a reject file for the path `key` -/
def forKey (key : Key) (r : Bytes × Bytes) : Bool := decide (safeKey r.1 = some key)

/-- only the rejects for the path matter -/
theorem rejStep_filter (fs : FS) (key : Key) : ∀ (rejs : List (Bytes × Bytes)) (cur : Option (Bytes × Nat)),
    rejStep fs key cur rejs = rejStep fs key cur (rejs.filter (forKey key)) := by
  intro rejs
  induction rejs with
  | nil => intro cur; rfl
  | cons x rest ih =>
    intro cur
    obtain ⟨name, content⟩ := x
    by_cases hk : safeKey name = some key
    · rw [List.filter_cons_of_pos (by simpa [forKey] using hk), rejStep_cons_self hk, rejStep_cons_self hk]
      exact ih _
    · rw [List.filter_cons_of_neg (by simpa [forKey] using hk), rejStep_cons_ne hk]
      exact ih _

/-- of the file system only the directory test at the parent of the path matters -/
theorem rejStep_fs {a b : FS} {key : Key} (h : a.isDir key.dropLast = b.isDir key.dropLast) :
    ∀ (rejs : List (Bytes × Bytes)) (cur : Option (Bytes × Nat)), rejStep a key cur rejs = rejStep b key cur rejs := by
  intro rejs
  induction rejs with
  | nil => intro cur; rfl
  | cons x rest ih =>
    intro cur
    obtain ⟨name, content⟩ := x
    by_cases hk : safeKey name = some key
    · rw [rejStep_cons_self hk, rejStep_cons_self hk, h]; exact ih _
    · rw [rejStep_cons_ne hk, rejStep_cons_ne hk]; exact ih _

/-- on a tree whose nodes have directories as parents the loop of `saveRejFiles` and its mirror `rejStep` agree about
a reject whose path leads through a regular file: its directory does not exist, and nothing is at its path -/
theorem pathOk_of_wfo {fs : FS} (hwf : WFo fs) {key : Key} (hk : ¬ isPcKey key) : PathOk fs key := by
  intro hfp
  have hnd : fs.isDir key.dropLast = false := by
    cases hd : fs.isDir key.dropLast with
    | false => rfl
    | true => rw [Refine2.fileOnPath_of_isDir hwf hk hd] at hfp; cases hfp
  refine ⟨hnd, ?_⟩
  cases hl : fs.lookup key with
  | none => exact fileAt_of_lookup_none hl
  | some n =>
    have := Refine2.isDir_parent_of_node hwf hk hl
    rw [hnd] at this; cases this

/-- `saveRejFiles` on the `fileAt` level, on a tree with the invariant, at a path outside `.pc` -/
theorem saveRejFiles_written_tinv (fs0 : FS) {key : Key} (hk : ¬ isPcKey key) (rejs : List (Bytes × Bytes))
    (w w' : World) (S : List Key) (hi : TInv w.fs S) (hd : ∀ p, w.fs.isDir p = fs0.isDir p)
    (h : saveRejFiles w rejs = .ok w') : fileAt w'.fs key = rejStep fs0 key (fileAt w.fs key) rejs :=
  saveRejFiles_written_aux fs0 key (fun w => TInv w.fs S) (fun _ hj => pathOk_of_wfo hj.wf hk) rejs
    (fun w x w1 _ hj h1 => saveRejFiles_tinv [x] w w1 S hj h1) w w' hi hd h

/-- the main thread's loop over the workers' reject lists, on the `fileAt` level: `rejStep` over the concatenation -/
theorem rejWorkers_written (rejs : Nat → List (Bytes × Bytes)) (fs0 : FS) {key : Key} (hk : ¬ isPcKey key)
    (S : List Key) : ∀ (n : Nat) (w w' : World),
    TInv w.fs S → (∀ p, w.fs.isDir p = fs0.isDir p) → rejWorkers w rejs n = .ok w' →
    (∀ p, w'.fs.isDir p = fs0.isDir p) ∧
      fileAt w'.fs key = rejStep fs0 key (fileAt w.fs key) ((List.range n).flatMap rejs) := by
  intro n
  induction n with
  | zero =>
    intro w w' _ hd h
    simp only [rejWorkers] at h
    cases h
    exact ⟨hd, rfl⟩
  | succ n ih =>
    intro w w' hi hd h
    unfold rejWorkers at h
    split at h
    · cases h
    · rename_i w1 h1
      obtain ⟨d1, f1⟩ := ih w w1 hi hd h1
      have hi1 : TInv w1.fs S := rejWorkers_tinv rejs n w w1 S hi h1
      refine ⟨fun p => by rw [saveRejFiles_isDir _ w1 w' h p]; exact d1 p, ?_⟩
      rw [saveRejFiles_written_tinv fs0 hk (rejs n) w1 w' S hi1 d1 h, f1, List.range_succ, List.flatMap_append,
        rejStep_append]
      simp

/-- no reject file of the one list is for the path of a reject file of the other -/
def RejsApart (a b : List (Bytes × Bytes)) : Prop :=
  ∀ x ∈ a, ∀ y ∈ b, safeKey x.1 = none ∨ safeKey x.1 ≠ safeKey y.1

instance (a b : List (Bytes × Bytes)) : Decidable (RejsApart a b) :=
  inferInstanceAs (Decidable (∀ x ∈ a, ∀ y ∈ b, safeKey x.1 = none ∨ safeKey x.1 ≠ safeKey y.1))

/-- no two workers have a reject file for the same path -/
def RejApart (rejs : Nat → List (Bytes × Bytes)) (n : Nat) : Prop :=
  ∀ i, i < n → ∀ j, j < n → i ≠ j → RejsApart (rejs i) (rejs j)

instance (rejs : Nat → List (Bytes × Bytes)) (n : Nat) : Decidable (RejApart rejs n) :=
  inferInstanceAs (Decidable (∀ i, i < n → ∀ j, j < n → i ≠ j → RejsApart (rejs i) (rejs j)))

theorem flatMap_single {β : Type} (g : Nat → List β) (i : Nat) : ∀ (l : List Nat), l.Nodup → i ∈ l →
    (∀ j ∈ l, j ≠ i → g j = []) → l.flatMap g = g i := by
  intro l
  induction l with
  | nil => intro _ hm _; cases hm
  | cons a l ih =>
    intro hnd hm hg
    rw [List.nodup_cons] at hnd
    obtain ⟨ha, hnd'⟩ := hnd
    rw [List.flatMap_cons]
    by_cases hai : a = i
    · subst hai
      have : l.flatMap g = [] := by
        rw [List.flatMap_eq_nil_iff]
        intro j hj
        exact hg j (List.mem_cons_of_mem _ hj) (fun e => ha (e ▸ hj))
      rw [this, List.append_nil]
    · rw [hg a (List.mem_cons_self ..) hai, List.nil_append]
      have hm' : i ∈ l := by
        rcases List.mem_cons.mp hm with h' | h'
        · exact absurd h'.symm hai
        · exact h'
      exact ih hnd' hm' (fun j hj => hg j (List.mem_cons_of_mem _ hj))

/-- the rejects for one path: in the workers' lists one after another they come in the order of the common list -/
theorem workers_filter {rejs : Nat → List (Bytes × Bytes)} {all : List (Bytes × Bytes)} {n : Nat} (key : Key)
    (hperm : ((List.range n).flatMap rejs).Perm all) (hsub : ∀ i, i < n → (rejs i).Sublist all)
    (hapart : RejApart rejs n) :
    ((List.range n).flatMap rejs).filter (forKey key) = all.filter (forKey key) := by
  by_cases hex : ∃ i, i < n ∧ ∃ x ∈ rejs i, safeKey x.1 = some key
  · obtain ⟨i, hi, x, hx, hxk⟩ := hex
    have hothers : ∀ j ∈ List.range n, j ≠ i → (rejs j).filter (forKey key) = [] := by
      intro j hj hji
      rw [List.filter_eq_nil_iff]
      intro y hy hyk
      have hyk' : safeKey y.1 = some key := by simpa [forKey] using hyk
      rcases hapart i hi j (List.mem_range.mp hj) (fun e => hji e.symm) x hx y hy with h0 | h0
      · rw [hxk] at h0; cases h0
      · exact h0 (by rw [hxk, hyk'])
    have hL : ((List.range n).flatMap rejs).filter (forKey key) = (rejs i).filter (forKey key) := by
      rw [List.filter_flatMap]
      exact flatMap_single (fun j => (rejs j).filter (forKey key)) i _ List.nodup_range (List.mem_range.mpr hi) hothers
    rw [hL]
    exact ((hsub i hi).filter (forKey key)).eq_of_length (by rw [← hL]; exact (hperm.filter (forKey key)).length_eq)
  · have hL : ((List.range n).flatMap rejs).filter (forKey key) = [] := by
      rw [List.filter_eq_nil_iff]
      intro y hy hyk
      obtain ⟨i, hi, hyi⟩ := List.mem_flatMap.mp hy
      exact hex ⟨i, List.mem_range.mp hi, y, hyi, by simpa [forKey] using hyk⟩
    have := (hperm.filter (forKey key)).length_eq
    rw [hL] at this ⊢
    exact (List.eq_nil_of_length_eq_zero this.symm).symm

/-- the main thread's loop over the workers' reject lists, from a tree that agrees outside `.pc` with `A`: at every
path outside `.pc` it leaves what the loop over the one list `rejs` (mirrored by `rejStep`) leaves started on `A` -/
theorem rejStep_workers {A : FS} {w2 w' : World} {rejs : List (Bytes × Bytes)} {prej : Nat → List (Bytes × Bytes)}
    {threads : Nat} {S : List Key} (hO : OutsidePc A w2.fs) (hi2 : TInv w2.fs S)
    (hp : rejWorkers w2 prej threads = .ok w')
    (hperm : ((List.range threads).flatMap prej).Perm rejs) (hsub : ∀ i, i < threads → (prej i).Sublist rejs)
    (hapart : RejApart prej threads) (key : Key) (hk : ¬ isPcKey key) :
    rejStep A key (fileAt A key) rejs = fileAt w'.fs key := by
  rw [(rejWorkers_written prej w2.fs hk S threads w2 w' hi2 (fun _ => rfl) hp).2,
    rejStep_filter w2.fs key ((List.range threads).flatMap prej), workers_filter key hperm hsub hapart,
    ← rejStep_filter, hO.fileAt_eq hk]
  exact rejStep_fs (hO.isDir_eq (not_isPcKey_dropLast hk)) _ _

/-- **the reject files on disk**: from trees that agree outside `.pc` and have directories as the parents of their
nodes (`TInv`; then a reject bypassed with `ENOTDIR` is one whose directory does not exist), the sequential loop over the one list and the
main thread's loop over the workers' lists leave the same regular file (or none) at every path outside `.pc` -/
theorem rejects_agree {s2 s3 w2 w' : World} {rejs : List (Bytes × Bytes)} {prej : Nat → List (Bytes × Bytes)}
    {threads : Nat} {S S' : List Key} (hO : OutsidePc s2.fs w2.fs) (his : TInv s2.fs S) (hi2 : TInv w2.fs S')
    (hs : saveRejFiles s2 rejs = .ok s3)
    (hp : rejWorkers w2 prej threads = .ok w')
    (hperm : ((List.range threads).flatMap prej).Perm rejs) (hsub : ∀ i, i < threads → (prej i).Sublist rejs)
    (hapart : RejApart prej threads) (key : Key) (hk : ¬ isPcKey key) :
    fileAt s3.fs key = fileAt w'.fs key := by
  rw [saveRejFiles_written_tinv s2.fs hk rejs s2 s3 S his (fun _ => rfl) hs]
  exact rejStep_workers hO hi2 hp hperm hsub hapart key hk

/-! ## 9b. `RejApart` holds when the file patches come out of the parser

A reject file is called `<name>.rej`, `<name>` one of the two names of its file patch (`chooseA`); names from the parser
have no `.` component; `<a>.rej` and `<b>.rej` then have the same path only if `a` and `b` have the same components,
and file patches with a common name (as `Path`s compare: by components) are queued for the same worker (C07). -/

theorem pieces_rej : ∀ (x : Bytes), ∃ init last, pieces x = init ++ [last] ∧ pieces (x ++ rejS) = init ++ [last ++ rejS] := by
  intro x
  induction x with
  | nil =>
    refine ⟨[], [], by simp [pieces], ?_⟩
    simp only [List.nil_append]
    exact pieces_noSep rejS sep_not_mem_rejS
  | cons b bs ih =>
    obtain ⟨init, last, h1, h2⟩ := ih
    by_cases hb : b = SEP
    · refine ⟨[] :: init, last, ?_, ?_⟩
      · simp [pieces, hb, h1]
      · simp [pieces, hb, h2]
    · cases init with
      | nil =>
        refine ⟨[], b :: last, ?_, ?_⟩
        · simp only [pieces, hb, if_false, h1, List.nil_append]
        · simp only [List.cons_append, pieces, hb, if_false, h2, List.nil_append]
      | cons i0 is =>
        refine ⟨(b :: i0) :: is, last, ?_, ?_⟩
        · simp only [pieces, hb, if_false, h1, List.cons_append]
        · simp only [List.cons_append, pieces, hb, if_false, h2]

theorem FM_rej (x : Bytes) : ∃ init last, FM x = init ++ (compOfPiece last).toList ∧
    FM (x ++ rejS) = init ++ [.normal (last ++ rejS)] := by
  obtain ⟨init, last, h1, h2⟩ := pieces_rej x
  refine ⟨init.filterMap compOfPiece, last, ?_, ?_⟩
  · unfold FM
    rw [h1, List.filterMap_append]
    cases hc : compOfPiece last <;> simp [List.filterMap, hc]
  · unfold FM
    rw [h2, List.filterMap_append]
    simp [List.filterMap, compOfPiece_rej]

theorem FM_rej_inj {x y : Bytes} (h : FM (x ++ rejS) = FM (y ++ rejS)) : FM x = FM y := by
  obtain ⟨ix, lx, x1, x2⟩ := FM_rej x
  obtain ⟨iy, ly, y1, y2⟩ := FM_rej y
  rw [x2, y2] at h
  obtain ⟨hi, hl⟩ := List.append_inj' h rfl
  simp only [List.cons.injEq, Comp.normal.injEq, and_true] at hl
  have : lx = ly := List.append_cancel_right hl
  rw [x1, y1, hi, this]

/-- a name without `.` component whose reject name is safe: its components, and those of the reject name, are the
body components -/
theorem components_of_rej_safe {a : Bytes} {k : Key} (hc : Comp.cur ∉ components a)
    (hk : safeKey (makeRejName a) = some k) :
    components a = FM a ∧ components (makeRejName a) = FM (a ++ rejS) := by
  rw [makeRejName_eq] at hk ⊢
  cases a with
  | nil =>
    refine ⟨by simp [components], ?_⟩
    exact components_plain _ ⟨by decide, by decide⟩
  | cons b bs =>
    have hb : b ≠ SEP := by
      intro e
      subst e
      rw [List.cons_append, safeKey_unsafe _ (.inr (.inl (by rw [components_sep]; simp)))] at hk
      cases hk
    have hi : includeCurDir (b :: bs) = false := by
      cases hi : includeCurDir (b :: bs) with
      | false => rfl
      | true =>
        exfalso
        apply hc
        rw [components_cur _ _ hi]
        exact List.mem_cons_self ..
    have hp : Plain (b :: bs) := ⟨by simpa using hb, hi⟩
    have hp2 : Plain (b :: bs ++ rejS) := by
      refine ⟨by simpa using hb, ?_⟩
      cases bs with
      | nil =>
        have hbd : b ≠ DOT := by simpa [includeCurDir] using hi
        simp [includeCurDir, rejS, hbd]
      | cons c t => simpa [includeCurDir] using hi
    exact ⟨components_plain _ hp, components_plain _ hp2⟩

/-- **`<a>.rej` and `<b>.rej` at the same path: `a` and `b` are the same `Path`** (no `.` components) -/
theorem rejKey_inj {a b : Bytes} {k : Key} (ha : Comp.cur ∉ components a) (hb : Comp.cur ∉ components b)
    (hka : safeKey (makeRejName a) = some k) (hkb : safeKey (makeRejName b) = some k) :
    components a = components b := by
  obtain ⟨a1, a2⟩ := components_of_rej_safe ha hka
  obtain ⟨b1, b2⟩ := components_of_rej_safe hb hkb
  have ca := safeKey_components_of_no_cur hka (by rw [a2]; exact cur_not_mem_FM _)
  have cb := safeKey_components_of_no_cur hkb (by rw [b2]; exact cur_not_mem_FM _)
  rw [a1, b1]
  apply FM_rej_inj
  rw [← a2, ← b2, ca, cb]

/-- the reject file of a file patch is called after one of its two names -/
theorem applyFP_rej_name {t : Abs.ATree} {fs : FS} {cfg : Cfg} {e : Series.Entry} {fp : PFilePatch} {r : Abs.FPOut}
    {x : Bytes × Bytes} (h : Abs.applyFP t fs cfg e fp = .ok r) (hx : r.rej = some x) :
    ∃ n, (fp.old = some n ∨ fp.new = some n) ∧ x.1 = makeRejName n := by
  unfold Abs.applyFP at h
  split at h
  · cases h
  · split at h
    · cases h
    · rename_i target hch
      have hname := chooseA_is_name _ _ _ _ _ hch
      split at h
      · cases h
      · simp only at h
        split at h
        · split at h
          · cases h
          · split at h
            · cases h
            · split at h
              · cases h
                cases hx
              · split at h
                · cases h
                · cases h
                  simp only at hx
                  split at hx
                  · cases hx
                  · cases hx
                    exact ⟨target, hname, rfl⟩
        · split at h
          · cases h
          · cases h
            simp only at hx
            split at hx
            · cases hx
            · cases hx
              exact ⟨target, hname, rfl⟩

theorem absRun_outs_rej {fs : FS} {cfg : Cfg} : ∀ (L : List QEntry) (t t' : Abs.ATree) (outs : List Out),
    absRun fs cfg t L = .ok (t', outs) → ∀ o ∈ outs, ∀ x, o.rej = some x →
      ∃ n, (o.q.fp.old = some n ∨ o.q.fp.new = some n) ∧ x.1 = makeRejName n := by
  intro L
  induction L with
  | nil =>
    intro t t' outs h o ho
    simp only [absRun] at h
    cases h
    cases ho
  | cons q L ih =>
    intro t t' outs h o ho x hx
    obtain ⟨r, outs0, hr, hL, hout⟩ := absRun_cons_ok h
    subst hout
    rcases List.mem_cons.mp ho with rfl | ho'
    · exact applyFP_rej_name hr hx
    · exact ih _ _ _ hL o ho' x hx

theorem mem_outRejs {x : Bytes × Bytes} : ∀ {outs : List Out}, x ∈ outRejs outs → ∃ o ∈ outs, o.rej = some x := by
  intro outs
  induction outs with
  | nil => intro h; cases h
  | cons o os ih =>
    intro h
    simp only [outRejs, List.mem_append] at h
    rcases h with h | h
    · obtain ⟨o', ho', e⟩ := ih h
      exact ⟨o', List.mem_cons_of_mem _ ho', e⟩
    · refine ⟨o, List.mem_cons_self .., ?_⟩
      cases hr : o.rej with
      | none => rw [hr] at h; cases h
      | some y =>
        rw [hr] at h
        simp only [Option.toList_some, List.mem_singleton] at h
        rw [h]

/-- **no two workers have a reject file for the same path**, for file patches from the parser -/
theorem rejApart_of_parsed {fs : FS} {cfg : Cfg} {patches : List (Series.Entry × List PFilePatch)} {threads : Nat}
    (hP : Parsed patches) (ht : 0 < threads) {k : Nat} {t : Abs.ATree} {outsK : List Out} {pr : ParResult}
    (hc : Par.Clean fs cfg patches k t outsK) (pm : ParMem fs cfg patches threads k t outsK pr)
    (hdry : cfg.dryRun = false) : RejApart pr.rejs threads := by
  obtain ⟨Gk, Gz, t', hsplit, _, _, hrun⟩ := hc.run
  have hq := absRun_outs_q _ _ _ _ hrun
  -- what is known about a reject of worker `i`
  have hrej : ∀ i, i < threads → ∀ x ∈ pr.rejs i, ∃ (o : Out) (n : Bytes), o.q ∈ allEntries patches 0 ∧
      owns patches threads i o.q = true ∧ components n ∈ fpNames o.q.fp ∧ Comp.cur ∉ components n ∧
      x.1 = makeRejName n := by
    intro i hi x hx
    rw [pm.rejs hdry i hi] at hx
    obtain ⟨o, ho, hox⟩ := mem_outRejs hx
    obtain ⟨hoK, hown⟩ := List.mem_filter.mp ho
    have hoq : o.q ∈ allEntries patches 0 := by
      apply (mem_drop_entries (k := k) _).1
      rw [hsplit]
      apply List.mem_append_left
      rw [← hq]
      exact List.mem_map_of_mem hoK
    obtain ⟨n, hn, hxn⟩ := absRun_outs_rej _ _ _ _ hrun o hoK x hox
    refine ⟨o, n, hoq, hown, ?_, (parsed_entry hP 0 o.q hoq).1.nocur n hn, hxn⟩
    rcases hn with hn | hn
    · exact mem_fpNames_old hn
    · exact mem_fpNames_new hn
  intro i hi j hj hij x hx y hy
  cases hkx : safeKey x.1 with
  | none => exact .inl rfl
  | some key =>
    right
    intro heq
    have hky : safeKey y.1 = some key := by rw [← heq]
    obtain ⟨o1, n1, hq1, hown1, hm1, hc1, hx1⟩ := hrej i hi x hx
    obtain ⟨o2, n2, hq2, hown2, hm2, hc2, hx2⟩ := hrej j hj y hy
    rw [hx1] at hkx
    rw [hx2] at hky
    have hcomp := rejKey_inj hc1 hc2 hkx hky
    have hw : workerOf (assignment threads (allEntries patches 0)) o1.q ≠
        workerOf (assignment threads (allEntries patches 0)) o2.q := by
      have e1 : workerOf (assignment threads (allEntries patches 0)) o1.q = some i := by simpa [owns] using hown1
      have e2 : workerOf (assignment threads (allEntries patches 0)) o2.q = some j := by simpa [owns] using hown2
      rw [e1, e2]
      intro e
      injection e with e
      exact hij e
    exact workers_disjoint threads ht _ o1.q o2.q hq1 hq2 hw _ hm1 (hcomp ▸ hm2)

/-! ## 10. All together -/

/-- **the parallel driver against the sequential driver at every path outside `.pc`** -/
theorem parallel_outsidePc (w wSeq wPar : World) (cfg : Cfg) (range : List Series.Entry) (threads : Nat)
    (schedA schedS : List Nat) (kSeq kPar : Nat) (ht : 0 < threads) (hdry : cfg.dryRun = false) (hT : Tight w.fs)
    {patches : List (Series.Entry × List PFilePatch)} (hparse : parseRange w.fs cfg range = some patches)
    (hsolo : ∀ pr, parMemory w.fs cfg patches threads schedA = some (.ok pr) → ∀ i, i < threads →
      ∃ r, workerSave cfg pr.final patches.length ⟨w.fs, [], none⟩ (pr.sts i).mem (pr.sts i).applied = .ok r)
    (hdisj : ∀ pr, parMemory w.fs cfg patches threads schedA = some (.ok pr) →
      KeysDisjoint (saveKeys cfg pr.final patches.length (fun i => (pr.sts i).mem) (fun i => (pr.sts i).applied)) threads)
    (hseq : applyPatches w cfg range = .ok (wSeq, kSeq))
    (hpar : parApplyPatches w cfg range threads schedA schedS = some (.ok (wPar, kPar))) :
    kPar = kSeq ∧ OutsidePc wSeq.fs wPar.fs ∧ Tight wSeq.fs ∧ Tight wPar.fs := by
  obtain ⟨st, rejs, t, s2, s3, _, hspec, hsame, hgood, ts2, hflush, hrejS, hpc⟩ :=
    seq_stages w wSeq cfg range kSeq hdry hT hseq
  obtain ⟨outsK, pr, w2, hm, pm, hc, hrejs, hk, tw2, hrejP, hfile⟩ :=
    par_stages w wPar cfg range threads schedA schedS ht hdry hT hparse hspec hsolo hdisj hpar
  have hP : Parsed patches := parsed_of_parseRange hparse
  -- after saving and cleaning
  have hA : ∀ key, ¬ isPcKey key → fileAt s2.fs key = fileAt w2.fs key := by
    intro key hp
    rw [hflush key]
    exact (cache_views_agree hP ht hc pm hdry hgood hsame w2.fs hfile key hp).symm
  have hO2 : OutsidePc s2.fs w2.fs := outsidePc_of_fileAt ts2 tw2 hA
  -- the reject files
  have hperm : ((List.range threads).flatMap pr.rejs).Perm rejs := by
    rw [hrejs]; exact rejs_perm hP ht hc pm hdry
  have hsub : ∀ i, i < threads → (pr.rejs i).Sublist rejs := by
    intro i hi
    rw [hrejs, pm.rejs hdry i hi]
    exact outRejs_sublist _ _
  have hB : ∀ key, ¬ isPcKey key → fileAt s3.fs key = fileAt wPar.fs key :=
    rejects_agree hO2 (tinv_of_tight ts2) (tinv_of_tight tw2) hrejS hrejP hperm hsub
      (rejApart_of_parsed hP ht hc pm hdry)
  have ts3 : Tight s3.fs := tight_of_tinv (saveRejFiles_tinv rejs s2 s3 [] (tinv_of_tight ts2) hrejS)
  have twP : Tight wPar.fs := tight_of_tinv (rejWorkers_tinv pr.rejs threads w2 wPar [] (tinv_of_tight tw2) hrejP)
  have hO3 : OutsidePc s3.fs wPar.fs := outsidePc_of_fileAt ts3 twP hB
  exact ⟨hk, hpc.outside.symm.trans hO3, tight_of_pcOnly hpc ts3, twP⟩

/-- **the parallel driver keeps tight trees tight** (no reference to the sequential driver) -/
theorem parallel_tight (w wPar : World) (cfg : Cfg) (range : List Series.Entry) (threads : Nat)
    (schedA schedS : List Nat) (kPar : Nat) (ht : 0 < threads) (hdry : cfg.dryRun = false) (hT : Tight w.fs)
    {patches : List (Series.Entry × List PFilePatch)} (hparse : parseRange w.fs cfg range = some patches)
    (hsolo : ∀ pr, parMemory w.fs cfg patches threads schedA = some (.ok pr) → ∀ i, i < threads →
      ∃ r, workerSave cfg pr.final patches.length ⟨w.fs, [], none⟩ (pr.sts i).mem (pr.sts i).applied = .ok r)
    (hdisj : ∀ pr, parMemory w.fs cfg patches threads schedA = some (.ok pr) →
      KeysDisjoint (saveKeys cfg pr.final patches.length (fun i => (pr.sts i).mem) (fun i => (pr.sts i).applied)) threads)
    (hpar : parApplyPatches w cfg range threads schedA schedS = some (.ok (wPar, kPar))) :
    Tight wPar.fs := by
  cases hspec : Abs.applyRange w.fs cfg range 0 [] with
  | error x =>
    exfalso
    have heq := parApplyPatches_eq w cfg range threads schedA schedS ht hparse
    rw [hpar] at heq
    cases hm : parMemory w.fs cfg patches threads schedA with
    | none => rw [hm] at heq; cases heq
    | some r =>
      obtain ⟨x', hx'⟩ := parMemory_applyRange_err hparse ht hspec schedA r hm
      subst hx'
      rw [hm] at heq
      simp at heq
  | ok r =>
    obtain ⟨t, k, rejs⟩ := r
    obtain ⟨outsK, pr, w2, _, _, _, _, _, tw2, hrejP, _⟩ :=
      par_stages w wPar cfg range threads schedA schedS ht hdry hT hparse hspec hsolo hdisj hpar
    exact tight_of_tinv (rejWorkers_tinv pr.rejs threads w2 wPar [] (tinv_of_tight tw2) hrejP)

/-! ## 11. The parallel driver against the specification, directly (no run of the sequential driver) -/

section SpecSide
open RQ.Spec RQ.Agree RQ.Write

/-- `Refine2.saved_fileAt_eq_spec` without the disk of the sequential driver: what the cache of the application loop
shows over the starting tree is what the specification's tree holds, at every path outside `.pc` -/
theorem spec_fileAt_eq_flushView (fs : FS) (cfg : Cfg) (range : List Series.Entry) (st : St) (final : Nat)
    (rejs : List (Bytes × Bytes)) (hdry : cfg.dryRun = false)
    (hpf : PrefixFree fs cfg range) (hterm : ∀ t' ∈ reached fs cfg range [], TreeTerminated t')
    (hwf : WFo fs) (hloop : applyLoop fs cfg range 0 {} = .ok (st, final, rejs)) :
    ∃ p, applyRangeTree cfg fs range (start fs) = .ok p ∧ p.k = final ∧ p.rejs = rejs.reverse ∧
      ∀ k, ¬ isPcKey k → flushView st.mem fs k = fileAt p.fs k := by
  have href := Disk.apply_refines fs cfg range
  rw [hloop] at href
  cases hspec : Abs.applyRange fs cfg range 0 [] with
  | error e =>
    rw [hspec] at href
    exact href.elim
  | ok r' =>
    obtain ⟨t, k', rejs'⟩ := r'
    rw [hspec] at href
    obtain ⟨hk', hrejs, hsame⟩ := href
    subst hk' hrejs
    have hgood : Disk.MemGood st.mem := Disk.applyLoop_good range Disk.memGood_nil hloop
    have hnames : ∀ entry ∈ range, ∀ patch, patchOf fs cfg entry = some patch → ∀ fp ∈ patch.fps,
        NamesIn (rangeKeys fs cfg range) fp := fun entry he patch hp fp hfp => namesIn_rangeKeys he hp hfp
    have hsim := range_sim (ks := rangeKeys fs cfg range) (fs0 := fs) hdry hpf range 0 [] (start fs) hnames
      (inv_init _ fs) rfl rfl rfl (fun t' ht' => lookNormal_of_terminated (hterm t' ht'))
    rw [hspec] at hsim
    obtain ⟨p, hp, hpk, hprej, _, hinv⟩ := hsim
    refine ⟨p, hp, hpk, hprej, ?_⟩
    have hkeep : Keep (rangeKeys fs cfg range) fs p.fs :=
      keep_applyRange hpf range (fun e he patch hpt fp hfp n hn k' hk' => (hnames e he patch hpt fp hfp n hn).2 k' hk')
        (start fs) p (keep_init hwf) hp
    intro k hk
    by_cases hname : ∃ n a, Comp.cur ∉ components n ∧ safeKey n = some k ∧ Abs.look t fs n = .ok a
    · obtain ⟨n, a, hc, hkn, hl⟩ := hname
      rw [hinv.fileAt_eq hc hkn hl]
      exact Disk.flushView_look hc hkn hgood.nocur (by rw [hsame hdry n]; exact hl)
    · have hnone : ∀ e ∈ st.mem, safeKey e.2.1 ≠ some k := by
        intro e he hke
        apply hname
        obtain ⟨e1, e2⟩ := hgood.nocur e he
        have hc : Comp.cur ∉ components e.2.1 := e1 ▸ e2
        obtain ⟨a, ha⟩ := look_of_entry fs he e1
        exact ⟨e.2.1, a, hc, hke, by rw [← hsame hdry]; exact ha⟩
      rw [flushView_of_no_entry hnone]
      by_cases hm : k ∈ rangeKeys fs cfg range
      · obtain ⟨n, hc, hkn⟩ := mem_rangeKeys hm
        cases hl : Abs.look t fs n with
        | ok a => exact absurd ⟨n, a, hc, hkn, hl⟩ hname
        | error u =>
          rcases loadTree_err_cases hkn (look_err hl) with hfp | hd | h0
          · rw [fileAt_of_lookup_none (hwf.lookup_none hk hfp)]
            exact (fileAt_eq_none_iff.mpr (dirOrNone_of_not_isFile (hkeep.blocked k hm hk hfp))).symm
          · rw [fileAt_of_lookup_dir hd,
              fileAt_of_lookup_dir (hinv.dirs0 k hd (fun k' hk' => hpf k hm k' hk'))]
          · exact absurd h0 (key_ne_nil hc hkn)
      · by_cases hfile : IsFile (p.fs.lookup k) ∨ IsFile (fs.lookup k)
        · exact (fileAt_congr (hinv.files k hm hfile)).symm
        · have h1 : ¬ IsFile (p.fs.lookup k) := fun x => hfile (.inl x)
          have h2 : ¬ IsFile (fs.lookup k) := fun x => hfile (.inr x)
          rw [fileAt_eq_none_iff.mpr (dirOrNone_of_not_isFile h1),
            fileAt_eq_none_iff.mpr (dirOrNone_of_not_isFile h2)]

/-- one reject file of the specification, when its directory exists: the invariant is kept, no directory appears or
disappears, the path holds the content with mode 644, every other path is as it was -/
theorem putFile_step {a a1 : FS} {k : Key} {c : Bytes} {S : List Key} (hi : TInv a S) (hk : ¬ isPcKey k)
    (hd : a.isDir k.dropLast = true) (hfp : a.fileOnPath k = false) (h : putFile a k c none = .ok a1) :
    TInv a1 S ∧ (∀ p, a1.isDir p = a.isDir p) ∧ fileAt a1 k = some (c, 0o644) ∧
      ∀ key, key ≠ k → fileAt a1 key = fileAt a key := by
  have hu : TInv (unlinked a k) (k.dropLast :: S) ∧ (∀ p, (unlinked a k).isDir p = a.isDir p) := by
    unfold unlinked
    cases har : a.removeFile k with
    | error e => exact ⟨hi.cons _, fun _ => rfl⟩
    | ok a0 => exact ⟨tinv_removeFile hi har, fun p => removeFile_isDir har p⟩
  obtain ⟨hne, hself⟩ := unlink_cases a k
  rw [putFile_eq'] at h
  generalize unlinked a k = u at h hu hne hself
  obtain ⟨hiu, hdu⟩ := hu
  have hdp : ¬ isPcKey k.dropLast := not_isPcKey_dropLast hk
  have hd0 : u.isDir k.dropLast = true := by rw [hdu]; exact hd
  have hnoop : u.createDirAll k.dropLast = .ok u := by
    apply createDirAll_noop
    intro i hne'
    unfold FS.isDir at hd0
    have hdl : k.dropLast ≠ [] := by
      intro e; rw [e] at hne'; simp at hne'
    have hdir : u.lookup k.dropLast = some .dir := by simpa [hdl] using hd0
    by_cases hi' : i < k.dropLast.length
    · have h0i : 0 < i := by
        apply Nat.pos_of_ne_zero
        intro e; rw [e] at hne'; simp at hne'
      exact hiu.wf k.dropLast hdp _ hdir i h0i hi'
    · rw [List.take_of_length_le (by omega)]; exact hdir
  unfold putRest at h
  rw [hnoop] at h
  simp only at h
  cases hc : u.createFile k with
  | error e => rw [hc] at h; cases h
  | ok u2 =>
    rw [hc] at h
    simp only [Except.ok.injEq] at h
    subst h
    have hun : u.lookup k = none := by
      rcases hself with ⟨e, _⟩ | ⟨e, hbad⟩
      · exact e
      · exfalso
        rcases hbad with hb | hb
        · rw [hfp] at hb; cases hb
        · exact createFile_not_dir hc (by rw [e]; exact hb)
    refine ⟨tinv_appendBytes (tinv_createFile hiu hc) _ _,
      fun p => by rw [appendBytes_isDir, createFile_isDir hc, hdu], ?_, ?_⟩
    · rw [appendBytes_fileAt_self, createFile_fileAt_new hc (fileAt_of_lookup_none hun)]
      simp
    · intro key hne'
      rw [appendBytes_fileAt_ne _ _ _ _ hne', createFile_fileAt_ne hc hne', fileAt_congr (hne key hne')]

/-- **the specification's reject files on the `fileAt` level**: `putRejects` is mirrored by `rejStep` like the driver's
`saveRejFiles` (`saveRejFiles_written`), on trees whose nodes have directories as parents; the invariant is kept -/
theorem putRejects_written : ∀ (rejs : List (Bytes × Bytes)), RejsOut rejs → ∀ (a a' fs0 : FS) (S : List Key),
    TInv a S → (∀ p, a.isDir p = fs0.isDir p) → putRejects a rejs = .ok a' →
    TInv a' S ∧ ∀ key, fileAt a' key = rejStep fs0 key (fileAt a key) rejs := by
  intro rejs
  induction rejs with
  | nil =>
    intro _ a a' fs0 S hi _ h
    unfold putRejects at h
    cases h
    exact ⟨hi, fun _ => rfl⟩
  | cons r rest ih =>
    obtain ⟨name, content⟩ := r
    intro hr a a' fs0 S hi hdir h
    have hrest : RejsOut rest := fun r hm => hr r (List.mem_cons_of_mem _ hm)
    unfold putRejects at h
    cases hk : safeKey name with
    | none => rw [hk] at h; cases h
    | some k =>
      rw [hk] at h
      simp only at h
      have hk' : ¬ isPcKey k := hr (name, content) (List.mem_cons_self ..) k hk
      -- the reject is skipped: its directory does not exist
      have hskip : a.isDir k.dropLast = false → putRejects a rest = .ok a' →
          TInv a' S ∧ ∀ key, fileAt a' key = rejStep fs0 key (fileAt a key) ((name, content) :: rest) := by
        intro hd h
        obtain ⟨t1, f1⟩ := ih hrest a a' fs0 S hi hdir h
        refine ⟨t1, fun key => ?_⟩
        rw [f1 key]
        by_cases hkk : k = key
        · subst hkk
          have hnone : fileAt a k = none := by
            cases hl : a.lookup k with
            | none => exact fileAt_of_lookup_none hl
            | some n =>
              have := Refine2.isDir_parent_of_node hi.wf hk' hl
              rw [hd] at this; cases this
          rw [rejStep_cons_self hk, ← hdir, hd, hnone]
          rfl
        · have hne : safeKey name ≠ some key := by
            rw [hk]; intro h'; injection h' with h'; exact hkk h'
          rw [rejStep_cons_ne hne]
      split at h
      · -- something on the way to `k` is a regular file: then the directory of `k` does not exist
        rename_i hfp
        refine hskip ?_ h
        cases hd : a.isDir k.dropLast with
        | false => rfl
        | true => rw [Refine2.fileOnPath_of_isDir hi.wf hk' hd] at hfp; cases hfp
      · rename_i hfp
        have hfp' : a.fileOnPath k = false := by simpa using hfp
        cases hd : a.isDir k.dropLast with
        | false =>
          rw [hd] at h
          simp only [Bool.not_false, if_true] at h
          obtain ⟨t1, f1⟩ := ih hrest a a' fs0 S hi hdir h
          refine ⟨t1, fun key => ?_⟩
          rw [f1 key]
          by_cases hkk : k = key
          · subst hkk
            have hnone : fileAt a k = none := by
              cases hl : a.lookup k with
              | none => exact fileAt_of_lookup_none hl
              | some n =>
                have := Refine2.isDir_parent_of_node hi.wf hk' hl
                rw [hd] at this; cases this
            rw [rejStep_cons_self hk, ← hdir, hd, hnone]
            rfl
          · have hne : safeKey name ≠ some key := by
              rw [hk]; intro h'; injection h' with h'; exact hkk h'
            rw [rejStep_cons_ne hne]
        | true =>
          rw [hd] at h
          simp only [Bool.not_true, Bool.false_eq_true, if_false] at h
          split at h
          · cases h
          · rename_i a1 ha1
            obtain ⟨s1, s2, s3, s4⟩ := putFile_step hi hk' hd hfp' ha1
            obtain ⟨t1, f1⟩ := ih hrest a1 a' fs0 S s1 (fun p => by rw [s2 p]; exact hdir p) h
            refine ⟨t1, fun key => ?_⟩
            rw [f1 key]
            by_cases hkk : k = key
            · subst hkk
              rw [rejStep_cons_self hk, ← hdir, hd, s3]
              rfl
            · have hne : safeKey name ≠ some key := by
                rw [hk]; intro h'; injection h' with h'; exact hkk h'
              rw [rejStep_cons_ne hne, s4 key (fun e => hkk e.symm)]

/-- **the parallel driver refines the specification (range level)**, at every path outside `.pc`; no hypothesis on
the sequential driver -/
theorem parallel_refines_specRun (w wPar : World) (cfg : Cfg) (range : List Series.Entry) (threads : Nat)
    (schedA schedS : List Nat) (kPar : Nat) (ht : 0 < threads) (hdry : cfg.dryRun = false) (hT : Tight w.fs)
    (hclean : Compose.Clean cfg w.fs range) (hpf : PrefixFree w.fs cfg range)
    (hterm : ∀ t' ∈ reached w.fs cfg range [], TreeTerminated t')
    {patches : List (Series.Entry × List PFilePatch)} (hparse : parseRange w.fs cfg range = some patches)
    (hsolo : ∀ pr, parMemory w.fs cfg patches threads schedA = some (.ok pr) → ∀ i, i < threads →
      ∃ r, workerSave cfg pr.final patches.length ⟨w.fs, [], none⟩ (pr.sts i).mem (pr.sts i).applied = .ok r)
    (hdisj : ∀ pr, parMemory w.fs cfg patches threads schedA = some (.ok pr) →
      KeysDisjoint (saveKeys cfg pr.final patches.length (fun i => (pr.sts i).mem) (fun i => (pr.sts i).applied)) threads)
    (hpar : parApplyPatches w cfg range threads schedA schedS = some (.ok (wPar, kPar)))
    (hio : (specRun cfg w.fs range).ioError = false) :
    (specRun cfg w.fs range).exit = (if kPar == range.length then 0 else 1) ∧
    OutsidePc (specRun cfg w.fs range).fs wPar.fs ∧ Tight wPar.fs := by
  cases hloop : applyLoop w.fs cfg range 0 {} with
  | error e =>
    exfalso
    have heq := parApplyPatches_eq w cfg range threads schedA schedS ht hparse
    rw [hpar] at heq
    cases hm : parMemory w.fs cfg patches threads schedA with
    | none => rw [hm] at heq; cases heq
    | some r =>
      obtain ⟨x', hx'⟩ := parMemory_applyLoop_err hparse ht hloop schedA r hm
      subst hx'
      rw [hm] at heq
      simp at heq
  | ok r =>
    obtain ⟨st, final, rejs⟩ := r
    have href := Disk.apply_refines w.fs cfg range
    rw [hloop] at href
    cases hspec : Abs.applyRange w.fs cfg range 0 [] with
    | error e => rw [hspec] at href; exact href.elim
    | ok r' =>
      obtain ⟨t, k', rejs'⟩ := r'
      rw [hspec] at href
      obtain ⟨hk', hrejs', hsame⟩ := href
      subst hk' hrejs'
      have hgood : Disk.MemGood st.mem := Disk.applyLoop_good range Disk.memGood_nil hloop
      obtain ⟨p, hp, hpk, hprej, hfileS⟩ :=
        spec_fileAt_eq_flushView w.fs cfg range st final rejs hdry hpf hterm hT.wf hloop
      have htp : Tight p.fs := applyRangeTree_tight range hclean.namesOut (start w.fs) p hT hp
      obtain ⟨outsK, pr, w2, hm, pm, hc, hrejs, hk, tw2, hrejP, hfile⟩ :=
        par_stages w wPar cfg range threads schedA schedS ht hdry hT hparse hspec hsolo hdisj hpar
      have hP : Parsed patches := parsed_of_parseRange hparse
      have hA : ∀ key, ¬ isPcKey key → fileAt p.fs key = fileAt w2.fs key := by
        intro key hp'
        rw [← hfileS key hp']
        exact (cache_views_agree hP ht hc pm hdry hgood (hsame hdry) w2.fs hfile key hp').symm
      have hO2 : OutsidePc p.fs w2.fs := outsidePc_of_fileAt htp tw2 hA
      obtain ⟨fs1, hr1, _, _, hpc⟩ := failed_push_setup hdry hp hio
      have hrr : p.rejs.reverse = rejs := by rw [hprej, List.reverse_reverse]
      rw [hrr] at hr1
      have hrejOut : RejsOut rejs := (BackupDisk.applyLoop_out hclean.namesOut hloop).2
      obtain ⟨t1, f1⟩ := putRejects_written rejs hrejOut p.fs fs1 p.fs [] (tinv_of_tight htp) (fun _ => rfl) hr1
      have hperm : ((List.range threads).flatMap pr.rejs).Perm rejs := by
        rw [hrejs]; exact rejs_perm hP ht hc pm hdry
      have hsub : ∀ i, i < threads → (pr.rejs i).Sublist rejs := by
        intro i hi
        rw [hrejs, pm.rejs hdry i hi]
        exact outRejs_sublist _ _
      have hB : ∀ key, ¬ isPcKey key → fileAt fs1 key = fileAt wPar.fs key := by
        intro key hk'
        rw [f1 key]
        exact rejStep_workers hO2 (tinv_of_tight tw2) hrejP hperm hsub (rejApart_of_parsed hP ht hc pm hdry) key hk'
      have twP : Tight wPar.fs := tight_of_tinv (rejWorkers_tinv pr.rejs threads w2 wPar [] (tinv_of_tight tw2) hrejP)
      have hO3 : OutsidePc fs1 wPar.fs := outsidePc_of_fileAt (tight_of_tinv t1) twP hB
      refine ⟨?_, hpc.outside.symm.trans hO3, twP⟩
      rw [(run_applied hdry hclean hp hio).1, hpk, hk]

end SpecSide

end RQ.ParRefine

#print axioms RQ.ParRefine.tinv_of_outsidePc
#print axioms RQ.ParRefine.seqSave_tinv
#print axioms RQ.ParRefine.cleanWorkers_tinv
#print axioms RQ.ParRefine.saveRejFiles_tinv
#print axioms RQ.ParRefine.par_stages
#print axioms RQ.ParRefine.rejects_agree
#print axioms RQ.ParRefine.rejKey_inj
#print axioms RQ.ParRefine.rejApart_of_parsed
#print axioms RQ.ParRefine.parallel_outsidePc
#print axioms RQ.ParRefine.parallel_tight
#print axioms RQ.ParRefine.putRejects_written
#print axioms RQ.ParRefine.parallel_refines_specRun
