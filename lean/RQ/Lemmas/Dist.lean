import RQ.Spec.Dist
/-! Helper lemmas for C07: union-find invariant of the `FilenameDistributor` model. -/
namespace RQ
variable {ν : Type} [DecidableEq ν]

/-! ### list helpers -/

theorem getD_set_self (l : List Nat) (i a j : Nat) :
    (l.set i a).getD j j = if j = i ∧ i < l.length then a else l.getD j j := by
  simp only [List.getD_eq_getElem?_getD, List.getElem?_set]
  by_cases h : i = j
  · subst h
    by_cases h2 : i < l.length
    · simp [h2]
    · simp [h2]
  · have h' : ¬ j = i := fun e => h e.symm
    simp [h, h']

theorem getD_append_self (l : List Nat) (j : Nat) :
    (l ++ [l.length]).getD j j = l.getD j j := by
  simp only [List.getD_eq_getElem?_getD]
  by_cases h : j < l.length
  · simp [List.getElem?_append_left h]
  · have h1 : l.length ≤ j := by omega
    rw [List.getElem?_append_right h1]
    have : l[j]? = none := by simp; omega
    rw [this]
    by_cases h2 : j = l.length
    · subst h2; simp
    · have : j - l.length ≠ 0 := by omega
      cases hk : j - l.length with
      | zero => omega
      | succ k => simp

theorem idxOf?_of_mem {l : List ν} {n : ν} (h : n ∈ l) : l.idxOf? n = some (l.idxOf n) := by
  induction l with
  | nil => cases h
  | cons x l ih =>
    rw [List.idxOf?_cons, List.idxOf_cons]
    by_cases hx : x = n
    · simp [hx]
    · have hm : n ∈ l := by
        rcases List.mem_cons.1 h with e | e
        · exact absurd e.symm hx
        · exact e
      have hb : (x == n) = false := by simp [hx]
      simp [hb, ih hm]

theorem find?_zipIdx_map (g : Nat → Nat) (n : ν) (l : List ν) (k : Nat) (h : n ∈ l) :
    ((l.zipIdx k).map (fun (x, i) => (x, g i))).find? (fun p => decide (p.1 = n))
      = some (n, g (k + l.idxOf n)) := by
  induction l generalizing k with
  | nil => cases h
  | cons x l ih =>
    rw [List.zipIdx_cons, List.map_cons, List.find?_cons, List.idxOf_cons]
    by_cases hx : x = n
    · simp [hx]
    · have hm : n ∈ l := by
        rcases List.mem_cons.1 h with e | e
        · exact absurd e.symm hx
        · exact e
      have hb : (x == n) = false := by simp [hx]
      simp only [hx, decide_false, hb, cond_false]
      rw [ih (k+1) hm]
      congr 3
      omega

/-! ### roots -/

/-- parent pointers never point upwards -/
def Below (parent : List Nat) : Prop := ∀ i, parent.getD i i ≤ i

/-- canonical root: `i` steps of fuel always suffice under `Below` -/
def root (parent : List Nat) (i : Nat) : Nat := findRoot parent i i

theorem findRoot_fuel {parent : List Nat} (hB : Below parent) :
    ∀ f1 f2 i, i ≤ f1 → i ≤ f2 → findRoot parent f1 i = findRoot parent f2 i := by
  intro f1
  induction f1 with
  | zero =>
    intro f2 i h1 h2
    have : i = 0 := by omega
    subst this
    cases f2 with
    | zero => rfl
    | succ f2 =>
      have := hB 0
      simp only [findRoot]
      have h0 : parent.getD 0 0 = 0 := by omega
      rw [if_pos h0]
  | succ f1 ih =>
    intro f2 i h1 h2
    cases f2 with
    | zero =>
      have : i = 0 := by omega
      subst this
      have := hB 0
      simp only [findRoot]
      have h0 : parent.getD 0 0 = 0 := by omega
      rw [if_pos h0]
    | succ f2 =>
      simp only [findRoot]
      by_cases hp : parent.getD i i = i
      · rw [if_pos hp, if_pos hp]
      · rw [if_neg hp, if_neg hp]
        have := hB i
        exact ih f2 _ (by omega) (by omega)

theorem findRoot_eq_root {parent : List Nat} (hB : Below parent) (f i : Nat) (h : i ≤ f) :
    findRoot parent f i = root parent i :=
  findRoot_fuel hB f i i h (Nat.le_refl _)

theorem root_eq {parent : List Nat} (hB : Below parent) (i : Nat) :
    root parent i = if parent.getD i i = i then i else root parent (parent.getD i i) := by
  rw [← findRoot_eq_root hB (i+1) i (by omega)]
  simp only [findRoot]
  by_cases hp : parent.getD i i = i
  · simp only [if_pos hp]
  · simp only [if_neg hp]
    have := hB i
    exact findRoot_eq_root hB _ _ (by omega)

theorem root_of_fix {parent : List Nat} (hB : Below parent) {i : Nat} (h : parent.getD i i = i) :
    root parent i = i := by
  rw [root_eq hB, if_pos h]

theorem root_le {parent : List Nat} (hB : Below parent) (i : Nat) : root parent i ≤ i := by
  induction i using Nat.strongRecOn with
  | _ i ih =>
    rw [root_eq hB]
    by_cases hp : parent.getD i i = i
    · rw [if_pos hp]; exact Nat.le_refl _
    · rw [if_neg hp]
      have := hB i
      have := ih (parent.getD i i) (by omega)
      omega

theorem root_fix {parent : List Nat} (hB : Below parent) (i : Nat) :
    parent.getD (root parent i) (root parent i) = root parent i := by
  induction i using Nat.strongRecOn with
  | _ i ih =>
    rw [root_eq hB]
    by_cases hp : parent.getD i i = i
    · rw [if_pos hp]; exact hp
    · rw [if_neg hp]
      have := hB i
      exact ih (parent.getD i i) (by omega)

theorem root_congr {p q : List Nat} (hB : Below p) (h : ∀ i, q.getD i i = p.getD i i) :
    Below q ∧ ∀ i, root q i = root p i := by
  have hQ : Below q := fun i => by rw [h]; exact hB i
  refine ⟨hQ, ?_⟩
  intro i
  induction i using Nat.strongRecOn with
  | _ i ih =>
    rw [root_eq hB, root_eq hQ, h]
    by_cases hp : p.getD i i = i
    · simp only [if_pos hp]
    · simp only [if_neg hp]
      have := hB i
      exact ih _ (by omega)

/-- union of two roots `lo ≤ hi` -/
theorem root_union {p q : List Nat} (hB : Below p) {lo hi : Nat} (hle : lo ≤ hi)
    (hlo : p.getD lo lo = lo) (hhi : p.getD hi hi = hi)
    (h : ∀ i, q.getD i i = if i = hi then lo else p.getD i i) :
    Below q ∧ ∀ i, root q i = if root p i = hi then lo else root p i := by
  have hQ : Below q := fun i => by
    rw [h]; split
    · omega
    · exact hB i
  refine ⟨hQ, ?_⟩
  intro i
  induction i using Nat.strongRecOn with
  | _ i ih =>
    rw [root_eq hQ, h]
    by_cases hi' : i = hi
    · subst hi'
      simp only [if_true]
      rw [root_of_fix hB hhi]
      simp only [if_true]
      by_cases hl : lo = i
      · simp [hl]
      · simp only [hl, if_false]
        rw [ih lo (by omega), root_of_fix hB hlo]
        simp [hl]
    · simp only [hi', if_false]
      by_cases hp : p.getD i i = i
      · rw [root_of_fix hB hp]
        simp only [if_pos hp, if_neg hi']
      · simp only [if_neg hp]
        have := hB i
        rw [ih _ (by omega)]
        rw [root_eq hB i]
        simp only [if_neg hp]

/-! ### the invariant -/

structure Inv (d : Dist ν) : Prop where
  nodup : d.names.Nodup
  len : d.names.length = d.parent.length
  below : Below d.parent

/-- `x` and `y` are interned and in the same component -/
def Same (d : Dist ν) (x y : ν) : Prop :=
  x ∈ d.names ∧ y ∈ d.names ∧
    root d.parent (d.names.idxOf x) = root d.parent (d.names.idxOf y)

omit [DecidableEq ν] in
theorem inv_new (t : Nat) : Inv (Dist.new t : Dist ν) :=
  ⟨List.nodup_nil, rfl, fun i => by simp [Dist.new]⟩

theorem intern_spec (d : Dist ν) (hI : Inv d) (n : ν) :
    Inv (d.intern n).1 ∧ (d.intern n).1.threads = d.threads ∧ n ∈ (d.intern n).1.names ∧
    (d.intern n).2 = (d.intern n).1.names.idxOf n ∧
    (∀ x ∈ d.names, x ∈ (d.intern n).1.names ∧ (d.intern n).1.names.idxOf x = d.names.idxOf x) ∧
    (∀ i, (d.intern n).1.parent.getD i i = d.parent.getD i i) := by
  unfold Dist.intern
  by_cases hm : n ∈ d.names
  · rw [idxOf?_of_mem hm]
    exact ⟨hI, rfl, hm, rfl, fun x hx => ⟨hx, rfl⟩, fun i => rfl⟩
  · rw [List.idxOf?_eq_none_iff.2 hm]
    refine ⟨⟨?_, ?_, ?_⟩, rfl, ?_, ?_, ?_, ?_⟩
    · simp only
      rw [List.nodup_append]
      refine ⟨hI.nodup, by simp, ?_⟩
      intro a ha b hb
      simp at hb
      subst hb
      intro e; subst e; exact hm ha
    · simp [hI.len]
    · intro i
      simp only
      rw [getD_append_self]
      exact hI.below i
    · simp
    · simp only
      rw [List.idxOf_append, if_neg hm, hI.len]
      simp
    · intro x hx
      simp only
      refine ⟨by simp [hx], ?_⟩
      rw [List.idxOf_append, if_pos hx]
    · intro i
      exact getD_append_self _ _

theorem same_of_congr {d d' : Dist ν} (hI : Inv d)
    (hn : ∀ x ∈ d.names, x ∈ d'.names ∧ d'.names.idxOf x = d.names.idxOf x)
    (hp : ∀ i, d'.parent.getD i i = d.parent.getD i i) {x y : ν} (h : Same d x y) : Same d' x y := by
  obtain ⟨hx, hy, hr⟩ := h
  refine ⟨(hn x hx).1, (hn y hy).1, ?_⟩
  rw [(hn x hx).2, (hn y hy).2, (root_congr hI.below hp).2, (root_congr hI.below hp).2]
  exact hr

theorem add_spec (d : Dist ν) (hI : Inv d) (a : ν) (b : Option ν) :
    Inv (d.add a b) ∧ (d.add a b).threads = d.threads ∧ a ∈ (d.add a b).names ∧
    (∀ x ∈ d.names, x ∈ (d.add a b).names) ∧
    (∀ x y, Same d x y → Same (d.add a b) x y) ∧
    (∀ b', b = some b' → Same (d.add a b) a b') := by
  obtain ⟨hI1, ht1, ha1, hi1, hn1, hp1⟩ := intern_spec d hI a
  cases b with
  | none =>
    have e : d.add a none = (d.intern a).1 := rfl
    rw [e]
    exact ⟨hI1, ht1, ha1, fun x hx => (hn1 x hx).1, fun x y h => same_of_congr hI hn1 hp1 h,
      fun b' hb => by cases hb⟩
  | some b =>
    obtain ⟨hI2, ht2, hb2, hi2, hn2, hp2⟩ := intern_spec (d.intern a).1 hI1 b
    -- abbreviations
    generalize hd1 : d.intern a = r1 at *
    obtain ⟨d1, ia⟩ := r1
    generalize hd2 : d1.intern b = r2 at *
    obtain ⟨d2, ib⟩ := r2
    simp only at hI1 ht1 ha1 hi1 hn1 hp1 hI2 ht2 hb2 hi2 hn2 hp2
    have ha2 : a ∈ d2.names := (hn2 a ha1).1
    have hia : ia = d2.names.idxOf a := by rw [(hn2 a ha1).2]; exact hi1
    have hialt : ia < d2.parent.length := by
      rw [hia, ← hI2.len]; exact List.idxOf_lt_length_of_mem ha2
    have hiblt : ib < d2.parent.length := by
      rw [hi2, ← hI2.len]; exact List.idxOf_lt_length_of_mem hb2
    have hB := hI2.below
    have hra : findRoot d2.parent d2.parent.length ia = root d2.parent ia :=
      findRoot_eq_root hB _ _ (by omega)
    have hrb : findRoot d2.parent d2.parent.length ib = root d2.parent ib :=
      findRoot_eq_root hB _ _ (by omega)
    have hS12 : ∀ x y, Same d x y → Same d2 x y := fun x y h =>
      same_of_congr hI1 hn2 hp2 (same_of_congr hI hn1 hp1 h)
    -- generic union step
    have key : ∀ lo hi, lo ≤ hi → hi < d2.parent.length →
        d2.parent.getD lo lo = lo → d2.parent.getD hi hi = hi →
        ((root d2.parent ia = lo ∧ root d2.parent ib = hi) ∨
          (root d2.parent ia = hi ∧ root d2.parent ib = lo)) →
        let d3 : Dist ν := { d2 with parent := d2.parent.set hi lo }
        Inv d3 ∧ d3.threads = d.threads ∧ a ∈ d3.names ∧ (∀ x ∈ d.names, x ∈ d3.names) ∧
        (∀ x y, Same d x y → Same d3 x y) ∧ (∀ b', some b = some b' → Same d3 a b') := by
      intro lo hi hle hlt hlo hhi hcase d3
      have hq : ∀ i, d3.parent.getD i i = if i = hi then lo else d2.parent.getD i i := by
        intro i
        show (d2.parent.set hi lo).getD i i = _
        rw [getD_set_self]
        by_cases e : i = hi <;> simp [e, hlt]
      obtain ⟨hB3, hr3⟩ := root_union hB hle hlo hhi hq
      refine ⟨⟨hI2.nodup, ?_, hB3⟩, ?_, ha2, ?_, ?_, ?_⟩
      · show d2.names.length = (d2.parent.set hi lo).length
        simp [hI2.len]
      · show d2.threads = d.threads
        rw [ht2, ht1]
      · intro x hx
        exact (hn2 x (hn1 x hx).1).1
      · intro x y h
        obtain ⟨hx, hy, hr⟩ := hS12 x y h
        refine ⟨hx, hy, ?_⟩
        show root d3.parent (d2.names.idxOf x) = root d3.parent (d2.names.idxOf y)
        rw [hr3, hr3, hr]
      · intro b' hb'
        cases hb'
        refine ⟨ha2, hb2, ?_⟩
        show root d3.parent (d2.names.idxOf a) = root d3.parent (d2.names.idxOf b)
        rw [hr3, hr3, ← hia, ← hi2]
        rcases hcase with ⟨e1, e2⟩ | ⟨e1, e2⟩
        · rw [e1, e2]; simp
        · rw [e1, e2]; simp
    have e : d.add a (some b) =
        if root d2.parent ia < root d2.parent ib
        then { d2 with parent := d2.parent.set (root d2.parent ib) (root d2.parent ia) }
        else { d2 with parent := d2.parent.set (root d2.parent ia) (root d2.parent ib) } := by
      simp only [Dist.add, hd1, hd2, hra, hrb]
    rw [e]
    have hla := root_le hB ia
    have hlb := root_le hB ib
    split
    · next hlt =>
      exact key _ _ (by omega) (by omega) (root_fix hB ia) (root_fix hB ib) (Or.inl ⟨rfl, rfl⟩)
    · next hge =>
      exact key _ _ (by omega) (by omega) (root_fix hB ib) (root_fix hB ia) (Or.inr ⟨rfl, rfl⟩)

theorem addAll_spec (pairs : List (ν × Option ν)) (d : Dist ν) (hI : Inv d) :
    Inv (d.addAll pairs) ∧ (d.addAll pairs).threads = d.threads ∧
    (∀ x ∈ d.names, x ∈ (d.addAll pairs).names) ∧
    (∀ x y, Same d x y → Same (d.addAll pairs) x y) ∧
    (∀ p ∈ pairs, p.1 ∈ (d.addAll pairs).names ∧ ∀ b, p.2 = some b → Same (d.addAll pairs) p.1 b) := by
  induction pairs generalizing d with
  | nil =>
    exact ⟨hI, rfl, fun x hx => hx, fun x y h => h, fun p hp => by cases hp⟩
  | cons p ps ih =>
    obtain ⟨hI1, ht1, ha1, hn1, hs1, hb1⟩ := add_spec d hI p.1 p.2
    obtain ⟨hI2, ht2, hn2, hs2, hp2⟩ := ih (d.add p.1 p.2) hI1
    have e : d.addAll (p :: ps) = (d.add p.1 p.2).addAll ps := rfl
    rw [e]
    refine ⟨hI2, by rw [ht2, ht1], fun x hx => hn2 x (hn1 x hx), fun x y h => hs2 x y (hs1 x y h), ?_⟩
    intro q hq
    rcases List.mem_cons.1 hq with e | hq
    · subst e
      exact ⟨hn2 _ ha1, fun b hb => hs2 _ _ (hb1 b hb)⟩
    · exact hp2 q hq

/-! ### compression and `worker` -/

theorem compress_spec {parent : List Nat} (hB : Below parent) :
    ∀ k, k ≤ parent.length → (compress parent k).length = parent.length ∧
      ∀ i, (compress parent k).getD i i = if i < k then root parent i else parent.getD i i := by
  intro k
  induction k with
  | zero => intro _; exact ⟨rfl, fun i => by simp [compress]⟩
  | succ k ih =>
    intro hk
    obtain ⟨hl, hg⟩ := ih (by omega)
    have hpk : (compress parent k).getD k k = parent.getD k k := by rw [hg]; simp
    simp only [compress, hpk]
    have hb := hB k
    by_cases hp : parent.getD k k = k
    · simp only [hp, ne_eq, not_true_eq_false, if_false]
      refine ⟨hl, ?_⟩
      intro i
      rw [hg]
      by_cases h1 : i < k
      · have : i < k + 1 := by omega
        simp [h1, this]
      · by_cases h2 : i = k
        · subst h2
          rw [if_neg h1, if_pos (Nat.lt_succ_self _), root_of_fix hB hp, hp]
        · have : ¬ i < k + 1 := by omega
          simp [h1, this]
    · simp only [ne_eq, hp, not_false_eq_true, if_true]
      refine ⟨by simp [hl], ?_⟩
      intro i
      rw [getD_set_self, hl, hg, hg]
      have hlt : parent.getD k k < k := by omega
      by_cases h2 : i = k
      · subst h2
        simp only [hlt, if_true, true_and]
        have : i < parent.length := by omega
        simp only [this, if_true, Nat.lt_succ_self]
        rw [root_eq hB i, if_neg hp]
      · simp only [h2, false_and, if_false]
        by_cases h1 : i < k
        · have : i < k + 1 := by omega
          simp [h1, this]
        · have : ¬ i < k + 1 := by omega
          simp [h1, this]

theorem worker_spec (d : Dist ν) (hI : Inv d) (n : ν) (hn : n ∈ d.names) :
    d.worker n = some (root d.parent (d.names.idxOf n) % d.threads) := by
  unfold Dist.worker Dist.build
  simp only
  have := find?_zipIdx_map
    (fun i => (compress d.parent d.parent.length).getD i i % d.threads) n d.names 0 hn
  rw [this]
  simp only [Option.map_some, Nat.zero_add]
  have hlt : d.names.idxOf n < d.parent.length := by
    rw [← hI.len]; exact List.idxOf_lt_length_of_mem hn
  rw [(compress_spec hI.below _ (Nat.le_refl _)).2]
  simp [hlt]

/-! ### reading `pairsOK` -/

omit [DecidableEq ν] in
theorem pairsOK_mem {t : Nat} {pairs : List (ν × Option ν)} {w : ν → Option Nat}
    (h : pairsOK t pairs w = true) {p : ν × Option ν} (hp : p ∈ pairs) :
    (∃ x, w p.1 = some x ∧ x < t) ∧
    ∀ b, p.2 = some b → (∃ y, w b = some y ∧ y < t) ∧ w p.1 = w b := by
  unfold pairsOK at h
  have h1 := List.all_eq_true.1 h p hp
  rw [Bool.and_eq_true] at h1
  obtain ⟨ha, hb⟩ := h1
  constructor
  · cases hw : w p.1 with
    | none => rw [hw] at ha; cases ha
    | some x => rw [hw] at ha; exact ⟨x, rfl, of_decide_eq_true ha⟩
  · intro b hb'
    rw [hb'] at hb
    simp only [Bool.and_eq_true] at hb
    obtain ⟨hb1, hb2⟩ := hb
    constructor
    · cases hw : w b with
      | none => rw [hw] at hb1; cases hb1
      | some y => rw [hw] at hb1; exact ⟨y, rfl, of_decide_eq_true hb1⟩
    · exact eq_of_beq hb2

omit [DecidableEq ν] in
theorem pairsOK_intro {t : Nat} {pairs : List (ν × Option ν)} {w : ν → Option Nat}
    (h : ∀ p ∈ pairs, (∃ x, w p.1 = some x ∧ x < t) ∧
      ∀ b, p.2 = some b → (∃ y, w b = some y ∧ y < t) ∧ w p.1 = w b) :
    pairsOK t pairs w = true := by
  unfold pairsOK
  rw [List.all_eq_true]
  intro p hp
  obtain ⟨⟨x, hx, hxt⟩, hb⟩ := h p hp
  rw [Bool.and_eq_true]
  constructor
  · rw [hx]; exact decide_eq_true hxt
  · cases hp2 : p.2 with
    | none => rfl
    | some b =>
      obtain ⟨⟨y, hy, hyt⟩, he⟩ := hb b hp2
      simp only [Bool.and_eq_true]
      constructor
      · rw [hy]; exact decide_eq_true hyt
      · rw [he]; exact beq_self_eq_true _

end RQ
