import RQ.Spec.Dist
/-! Helper lemmas for C07: union-find invariant of the `FilenameDistributor` model. -/
namespace RQ
variable {ν : Type} [DecidableEq ν]

end RQ
