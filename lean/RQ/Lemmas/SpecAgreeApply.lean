import RQ.Lemmas.RefineApply
import RQ.Spec.Flush
/-!
# `FilePatch.apply` does not look at how the permissions are represented

`Abs.applyFP` hands libpatch the file as the overlay has it (`perms := none`, or what a patch set), `Spec.applyFPTree`
hands it the file as read back from the tree (`perms := some st_mode`).  The two differ only in the `existed` flag and
in the representation of the permission bits (`PEq`); `FilePatch.apply` treats such files alike (`apply_peq`): same
hunk reports, results again related by `PEq`.  Also: a deleted file keeps having no permissions (`apply_PD`).

This is the libpatch half of `RQ/Lemmas/SpecAgree.lean`.
-/
namespace RQ.Agree
open RQ RQ.Flush

section
variable {α : Type} [DecidableEq α]

/-- same lines, same existence, same permission bits once written (`existed` and the representation of `perms`
are ignored) -/
def PEq (f g : FileSt α) : Prop :=
  f.content = g.content ∧ f.deleted = g.deleted ∧ modeOf f.perms = modeOf g.perms

/-- both panic, or both return `PEq` files with the same hunk reports -/
def ResEq : Option (FileSt α × Report) → Option (FileSt α × Report) → Prop
  | none, none => True
  | some x, some y => PEq x.1 y.1 ∧ x.2.reps = y.2.reps ∧ x.2.dir = y.2.dir ∧ x.2.fuzz = y.2.fuzz
  | _, _ => False

omit [DecidableEq α] in
theorem PEq.refl (f : FileSt α) : PEq f f := ⟨rfl, rfl, rfl⟩

theorem applyModify_peq (hs : List (Hunk α)) (d : Dir) (F : Nat) (mode : Mode) {f g : FileSt α} (h : PEq f g) :
    ResEq (applyModify hs d F mode f) (applyModify hs d F mode g) := by
  obtain ⟨fc, fe, fd, fp⟩ := f
  obtain ⟨gc, ge, gd, gp⟩ := g
  obtain ⟨hc, hd, hp⟩ := h
  simp only at hc hd hp
  subst hc hd
  unfold applyModify
  simp only
  cases phase2 d hs (match mode with
    | .normal => phase1 d F fc fd hs 0 (-1)
    | .rollback prev => rbPhase1 d fc fd hs prev.reps) fc 0 with
  | none => exact trivial
  | some r => exact ⟨⟨rfl, rfl, hp⟩, rfl, rfl, rfl⟩

omit [DecidableEq α] in
theorem applyCreate_peq (h : Hunk α) (d : Dir) (F : Nat) (mode : Mode) {f g : FileSt α} (hfg : PEq f g) :
    PEq (applyCreate h d F mode f).1 (applyCreate h d F mode g).1 ∧
      (applyCreate h d F mode f).2 = (applyCreate h d F mode g).2 := by
  obtain ⟨fc, fe, fd, fp⟩ := f
  obtain ⟨gc, ge, gd, gp⟩ := g
  obtain ⟨hc, hd, hp⟩ := hfg
  simp only at hc hd hp
  subst hc hd
  cases hpf : prevFailed mode <;> cases he : fc.isEmpty <;> simp [applyCreate, hpf, he, PEq, hp]

theorem applyDelete_peq (fp : FilePatch α) (h : Hunk α) (d : Dir) (F : Nat) (mode : Mode) {f g : FileSt α}
    (hfg : PEq f g) :
    PEq (applyDelete fp h d F mode f).1 (applyDelete fp h d F mode g).1 ∧
      (applyDelete fp h d F mode f).2 = (applyDelete fp h d F mode g).2 := by
  obtain ⟨fc, fe, fd, fpm⟩ := f
  obtain ⟨gc, ge, gd, gp⟩ := g
  obtain ⟨hc, hd, hp⟩ := hfg
  simp only at hc hd hp
  subst hc hd
  cases hpf : prevFailed mode
  · cases d
    · by_cases he : h.rem = fc
      · cases hn : fp.new.isNone <;> simp [applyDelete, hpf, he, PEq, hp, hn]
      · simp [applyDelete, hpf, he, PEq, hp]
    · by_cases he : h.add = fc
      · cases hn : fp.old.isNone <;> simp [applyDelete, hpf, he, PEq, hp, hn]
      · simp [applyDelete, hpf, he, PEq, hp]
  · simp [applyDelete, hpf, PEq, hp]

theorem applyKind_peq (fp : FilePatch α) (d : Dir) (F : Nat) (mode : Mode) {f g : FileSt α} (hfg : PEq f g) :
    ResEq (applyKind fp d F mode f) (applyKind fp d F mode g) := by
  unfold applyKind
  split
  · exact applyModify_peq _ _ F mode hfg
  · rename_i h _ _
    have := applyCreate_peq h .fwd F mode hfg
    exact ⟨this.1, by rw [this.2], by rw [this.2], by rw [this.2]⟩
  · rename_i h _ _
    have := applyCreate_peq h .rev F mode hfg
    exact ⟨this.1, by rw [this.2], by rw [this.2], by rw [this.2]⟩
  · rename_i h _ _
    have := applyDelete_peq fp h .fwd F mode hfg
    exact ⟨this.1, by rw [this.2], by rw [this.2], by rw [this.2]⟩
  · rename_i h _ _
    have := applyDelete_peq fp h .rev F mode hfg
    exact ⟨this.1, by rw [this.2], by rw [this.2], by rw [this.2]⟩
  · exact trivial

/-- **libpatch treats `PEq` files alike** -/
theorem apply_peq (fp : FilePatch α) (d : Dir) (F : Nat) {f g : FileSt α} (hfg : PEq f g) :
    ResEq (fp.apply d F f) (fp.apply d F g) := by
  have hk := applyKind_peq fp d F .normal hfg
  unfold FilePatch.apply applyInternal
  cases hf : applyKind fp d F .normal f with
  | none =>
    cases hg : applyKind fp d F .normal g with
    | none => exact trivial
    | some r => rw [hf, hg] at hk; exact hk.elim
  | some r =>
    obtain ⟨f', rep⟩ := r
    cases hg : applyKind fp d F .normal g with
    | none => rw [hf, hg] at hk; exact hk.elim
    | some r' =>
      obtain ⟨g', rep'⟩ := r'
      rw [hf, hg] at hk
      obtain ⟨⟨hc, hd, hp⟩, hr, hdir, hfz⟩ := hk
      simp only
      split
      · refine ⟨⟨hc, hd, ?_⟩, hr, hdir, hfz⟩
        simp only
        rw [hd]
        split
        · exact hp
        · rfl
      · exact ⟨⟨hc, hd, hp⟩, hr, hdir, hfz⟩

/-! ### a deleted file has no permissions -/

/-- `deleted` implies no recorded permissions -/
def PD (f : FileSt α) : Prop := f.deleted = true → f.perms = none

theorem applyKind_PD {fp : FilePatch α} {d : Dir} {F : Nat} {f f' : FileSt α}
    {rep : Report} (hf : PD f) (h : applyKind fp d F .normal f = some (f', rep)) : PD f' := by
  unfold applyKind at h
  split at h
  · unfold applyModify at h
    simp only at h
    split at h
    · cases h
    · cases h; exact hf
  all_goals first
    | (cases h; done)
    | (injection h with h
       have := congrArg Prod.fst h
       simp only at this
       rw [← this]
       first
        | (unfold applyCreate
           split
           · exact hf
           · split
             · exact hf
             · intro hd; cases hd)
        | (unfold applyDelete
           split
           · exact hf
           · simp only
             split
             · exact hf
             · intro hd
               simp only at hd ⊢
               split
               · rfl
               · rename_i hn
                 simp only [hn, Bool.false_eq_true, if_false] at hd
                 exact hf hd))

theorem apply_PD {fp : FilePatch α} {d : Dir} {F : Nat} {f f' : FileSt α}
    {rep : Report} (hf : PD f) (h : fp.apply d F f = some (f', rep)) : PD f' := by
  unfold FilePatch.apply applyInternal at h
  split at h
  · cases h
  · rename_i f1 rep1 hk
    have h1 := applyKind_PD hf hk
    simp only at h
    split at h
    · cases h
      intro hd
      simp only at hd ⊢
      rw [hd]
      exact h1 hd
    · cases h; exact h1

end

/-- the outcome and the reject file only depend on the hunk reports -/
theorem ok_of_reps {r r' : Report} (h : r.reps = r'.reps) : r.ok = r'.ok := by
  unfold Report.ok Report.failed; rw [h]

theorem writeRej_of_reps (fp : Parse.PFilePatch) {r r' : Report} (h : r.reps = r'.reps) :
    Write.writeRej fp r = Write.writeRej fp r' := by
  unfold Write.writeRej
  rw [ok_of_reps h, h]

end RQ.Agree
