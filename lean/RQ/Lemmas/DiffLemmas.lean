import RQ.Spec.Diff
import RQ.Lemmas.Place
/-! Helper lemmas for C01: a valid diff applies exactly. -/
set_option linter.unusedSectionVars false
set_option linter.unusedVariables false
namespace RQ

/-! ## bytes ↔ lines -/

theorem splitLinesKeep_flatten (bs : Bytes) : ∀ cur : Bytes, (splitLinesKeep bs cur).flatten = cur ++ bs := by
  induction bs with
  | nil => intro cur; cases cur <;> simp [splitLinesKeep]
  | cons b bs ih =>
    intro cur
    simp only [splitLinesKeep]
    split
    · rename_i hb; subst hb; simp [ih]
    · rw [ih]; simp

/-- no line is empty; a newline inside a line is its last byte -/
theorem splitLinesKeep_lines (bs : Bytes) : ∀ cur : Bytes, (∀ x ∈ cur, x ≠ 10) →
    ∀ l ∈ splitLinesKeep bs cur, l ≠ [] ∧ ∀ i (h : i < l.length), l[i] = 10 → i + 1 = l.length := by
  induction bs with
  | nil =>
    intro cur hc l hl
    cases cur with
    | nil => simp [splitLinesKeep] at hl
    | cons c cs =>
      simp only [splitLinesKeep, List.mem_singleton] at hl
      subst hl
      refine ⟨by simp, ?_⟩
      intro i h hi
      exact absurd hi (hc _ (List.getElem_mem h))
  | cons b bs ih =>
    intro cur hc l hl
    simp only [splitLinesKeep] at hl
    split at hl
    · rename_i hb; subst hb
      rcases List.mem_cons.mp hl with rfl | hl
      · refine ⟨by simp, ?_⟩
        intro i h hi
        simp only [List.length_append, List.length_singleton] at h ⊢
        by_cases hlt : i < cur.length
        · rw [List.getElem_append_left hlt] at hi
          exact absurd hi (hc _ (List.getElem_mem hlt))
        · omega
      · exact ih [] (by simp) l hl
    · rename_i hb
      refine ih (cur ++ [b]) ?_ l hl
      intro x hx
      rcases List.mem_append.mp hx with hx | hx
      · exact hc x hx
      · simp only [List.mem_singleton] at hx; subst hx; exact hb

/-- every line but the last ends with a newline -/
theorem splitLinesKeep_last (bs : Bytes) : ∀ cur : Bytes,
    ∀ i (h : i + 1 < (splitLinesKeep bs cur).length),
      ((splitLinesKeep bs cur)[i]'(by omega)).getLast? = some 10 := by
  induction bs with
  | nil =>
    intro cur i h
    cases cur <;> simp [splitLinesKeep] at h
  | cons b bs ih =>
    intro cur i h
    by_cases hb : b = 10
    · subst hb
      have e : splitLinesKeep (10 :: bs) cur = (cur ++ [10]) :: splitLinesKeep bs [] := by
        simp [splitLinesKeep]
      simp only [e] at h ⊢
      cases i with
      | zero => simp
      | succ j =>
        simp only [List.length_cons] at h
        simp only [List.getElem_cons_succ]
        exact ih [] j (by omega)
    · have e : splitLinesKeep (b :: bs) cur = splitLinesKeep bs (cur ++ [b]) := by
        simp [splitLinesKeep, hb]
      simp only [e] at h ⊢
      exact ih _ i h

variable {α : Type} [DecidableEq α]

/-! ## the reverse direction is the forward direction of the swapped hunks -/

theorem view_rev_swap (h : Hunk α) (f : Nat) : view h .rev f = view h.swap .fwd f := rfl

theorem maxFuzz_swap (h : Hunk α) : h.swap.maxFuzz = h.maxFuzz := rfl

theorem levelLoop_rev_swap (h : Hunk α) (content : List α) (deleted : Bool) (lo lf : Int) :
    ∀ (k f : Nat) (last : Rep),
      levelLoop h .rev content deleted lo lf k f last = levelLoop h.swap .fwd content deleted lo lf k f last := by
  intro k
  induction k with
  | zero => intro f last; rfl
  | succ k ih =>
    intro f last
    simp only [levelLoop, view_rev_swap, ih]

theorem phase1_rev_swap (F : Nat) (content : List α) (deleted : Bool) :
    ∀ (hs : List (Hunk α)) (lo lf : Int),
      phase1 .rev F content deleted hs lo lf = phase1 .fwd F content deleted (hs.map Hunk.swap) lo lf := by
  intro hs
  induction hs with
  | nil => intro lo lf; rfl
  | cons h hs ih =>
    intro lo lf
    simp only [phase1, List.map_cons, levelLoop_rev_swap, maxFuzz_swap, ih]

theorem phase2_rev_swap :
    ∀ (hs : List (Hunk α)) (reps : List Rep) (content : List α) (mo : Int),
      phase2 .rev hs reps content mo = phase2 .fwd (hs.map Hunk.swap) reps content mo := by
  intro hs
  induction hs with
  | nil => intro reps content mo; cases reps <;> rfl
  | cons h hs ih =>
    intro reps content mo
    cases reps with
    | nil => rfl
    | cons r rs =>
      cases r <;> simp only [phase2, List.map_cons, view_rev_swap, ih]

/-! ## the first loop on a valid diff -/

theorem view_zero_fwd (h : Hunk α) :
    view h .fwd 0 = { rem := h.rem, add := h.add, remLine := h.remLine, addLine := h.addLine,
                      pre := h.pre, suf := h.suf, fuzz := 0 } := by
  have e1 : h.preFuzz 0 = 0 := by unfold Hunk.preFuzz; omega
  have e2 : h.sufFuzz 0 = 0 := by unfold Hunk.sufFuzz; omega
  simp [view, e1, e2, trim]

theorem matchesAt_mid (U N V : List α) : matchesAt N (U ++ N ++ V) (U.length : Int) = true := by
  rw [matchesAt_iff]
  refine ⟨by omega, by simp only [List.length_append, Int.toNat_natCast]; omega, ?_⟩
  simp only [Int.toNat_natCast, List.append_assoc, List.drop_left]
  exact List.prefix_append _ _

/-- with previous offset 0 the first guess is the stated line, provided an end-anchored view ends the file -/
theorem firstGuess_exact (v : View α) (len : Nat)
    (hend : v.pre > v.suf → (len : Int) - v.rem.length = v.remLine) :
    firstGuess v len 0 = v.remLine := by
  unfold firstGuess
  cases hp : v.position with
  | start => rfl
  | middle => simp
  | end_ =>
    simp only
    apply hend
    unfold View.position at hp
    split at hp
    · cases hp
    · split at hp
      · assumption
      · cases hp

theorem tryApply_exact (v : View α) (W : List α) (lo lf t : Int)
    (hfg : firstGuess v W.length lo = t) (hm : matchesAt v.rem W t = true) (hfr : lf < t + v.pre) :
    tryApply v W false lo lf = .applied t t (t - v.remLine) ((v.add.length : Int) - v.rem.length) v.fuzz := by
  have hlen := (matchesAt_true hm).2.1
  have hfp : findPlace v W lo = some t := by
    unfold findPlace
    simp [hfg, hm]
  unfold tryApply
  rw [hfp]
  simp only [Bool.false_eq_true, if_false]
  rw [if_neg (by omega), if_neg (by omega)]

/-- the reports of the first loop on a valid diff (`rollback_line` not yet adjusted) -/
def exactP1 : List (Hunk α) → List Rep
  | [] => []
  | h :: hs => .applied h.remLine h.remLine 0 ((h.add.length : Int) - h.rem.length) 0 :: exactP1 hs

theorem setRb_exactP1 : ∀ (hs : List (Hunk α)) (mo : Int), setRb (exactP1 hs) mo = exactReports hs mo := by
  intro hs
  induction hs with
  | nil => intro mo; rfl
  | cons h hs ih => intro mo; simp only [exactP1, setRb, exactReports, ih]

theorem validFrom_wflen : ∀ (hs : List (Hunk α)) (gap : Bool) (pa pb : Nat) (A B : List α),
    ValidFrom gap pa pb A B hs → ∀ h ∈ hs, h.WFlen := by
  intro hs
  induction hs with
  | nil => intro _ _ _ _ _ _ h hh; simp at hh
  | cons h hs ih =>
    intro gap pa pb A B hv x hx
    obtain ⟨G0, P, D, I, S, A', B', hA, hB, hrem, hadd, hpre, hsuf, hrl, hal, hne, hgap, hend, hrest⟩ := hv
    rcases List.mem_cons.mp hx with rfl | hx
    · unfold Hunk.WFlen
      rw [hrem, hadd, hpre, hsuf]
      simp only [List.length_append]
      omega
    · exact ih _ _ _ _ _ hrest x hx

/-- every hunk of a valid diff is placed at its stated line at fuzz level 0 -/
theorem phase1_valid (F : Nat) (W : List α) : ∀ (hs : List (Hunk α)) (gap : Bool) (pa pb : Nat)
    (X A B : List α) (lf : Int),
    ValidFrom gap pa pb A B hs → W = X ++ A → X.length = pa → lf ≤ pa → (gap = false → lf < pa) →
    phase1 .fwd F W false hs 0 lf = exactP1 hs := by
  intro hs
  induction hs with
  | nil => intro _ _ _ _ _ _ _ _ _ _ _ _; rfl
  | cons h hs ih =>
    intro gap pa pb X A B lf hv hW hX hlf hlf'
    obtain ⟨G0, P, D, I, S, A', B', hA, hB, hrem, hadd, hpre, hsuf, hrl, hal, hne, hgap, hend, hrest⟩ := hv
    have hgp : gap = true → 1 ≤ G0.length + P.length := by
      intro hg
      have := hgap hg
      cases G0 with
      | cons _ _ => simp only [List.length_cons]; omega
      | nil =>
        cases P with
        | cons _ _ => simp only [List.length_cons]; omega
        | nil => simp at this
    have hWe : W = (X ++ G0) ++ h.rem ++ A' := by
      rw [hW, hA, hrem]; simp only [List.append_assoc]
    have hWl : W.length = pa + G0.length + h.rem.length + A'.length := by
      rw [hWe]; simp only [List.length_append]; omega
    have hm : matchesAt (view h .fwd 0).rem W h.remLine = true := by
      rw [view_zero_fwd, hrl, hWe]
      have := matchesAt_mid (X ++ G0) h.rem A'
      simpa only [List.length_append, hX] using this
    have hfg : firstGuess (view h .fwd 0) W.length 0 = h.remLine := by
      have := firstGuess_exact (view h .fwd 0) W.length (by
        rw [view_zero_fwd]
        simp only
        intro hps
        have := (hend hps).1
        rw [hWl, this, hrl]
        simp only [List.length_nil]
        omega)
      rw [this, view_zero_fwd]
    have hfr : lf < h.remLine + ((view h .fwd 0).pre : Int) := by
      rw [view_zero_fwd]
      simp only
      rw [hrl, hpre]
      cases gap with
      | true => have := hgp rfl; omega
      | false => have := hlf' rfl; omega
    have htry := tryApply_exact (view h .fwd 0) W 0 lf h.remLine hfg hm hfr
    simp only [phase1, levelLoop, htry, exactP1]
    rw [view_zero_fwd]
    simp only [Int.sub_self]
    congr 1
    refine ih true (pa + G0.length + P.length + D.length) _ (X ++ G0 ++ P ++ D) (S ++ A') (S ++ B') _ hrest ?_ ?_ ?_ ?_
    · rw [hW, hA]; simp only [List.append_assoc]
    · simp only [List.length_append]; omega
    · rw [hrl, hrem, hsuf]; simp only [List.length_append]; omega
    · intro hc; cases hc

/-! ## the second loop on a valid diff -/

theorem core_mid (P I S : List α) : core (P ++ I ++ S) P.length S.length = I := by
  unfold core
  simp only [List.append_assoc, List.drop_left, List.length_append]
  have : P.length + (I.length + S.length) - P.length - S.length = I.length := by omega
  rw [this, List.take_left]

theorem applySpec_valid : ∀ (hs : List (Hunk α)) (gap : Bool) (pa pb : Nat) (A B : List α),
    ValidFrom gap pa pb A B hs → applySpec pa A (coreEdits .fwd hs (exactP1 hs)) = B := by
  intro hs
  induction hs with
  | nil => intro _ _ _ A B hv; exact hv
  | cons h hs ih =>
    intro gap pa pb A B hv
    obtain ⟨G0, P, D, I, S, A', B', hA, hB, hrem, hadd, hpre, hsuf, hrl, hal, hne, hgap, hend, hrest⟩ := hv
    have ih' := ih _ _ _ _ _ hrest
    simp only [exactP1, coreEdits, applySpec]
    rw [view_zero_fwd]
    simp only
    have e1 : (h.remLine + (h.pre : Int)).toNat = pa + G0.length + P.length := by rw [hrl, hpre]; omega
    have e2 : h.rem.length - h.pre - h.suf = D.length := by
      rw [hrem, hpre, hsuf]; simp only [List.length_append]; omega
    have e3 : core h.add h.pre h.suf = I := by rw [hadd, hpre, hsuf, core_mid]
    rw [e1, e2, e3]
    have e4 : pa + G0.length + P.length - pa = (G0 ++ P).length := by simp only [List.length_append]; omega
    have e5 : pa + G0.length + P.length - pa + D.length = (G0 ++ P ++ D).length := by
      simp only [List.length_append]; omega
    rw [hA, hB]
    have t1 : (G0 ++ P ++ D ++ S ++ A').take (pa + G0.length + P.length - pa) = G0 ++ P := by
      rw [e4]
      have : G0 ++ P ++ D ++ S ++ A' = (G0 ++ P) ++ (D ++ S ++ A') := by simp only [List.append_assoc]
      rw [this, List.take_left]
    have t2 : (G0 ++ P ++ D ++ S ++ A').drop (pa + G0.length + P.length - pa + D.length) = S ++ A' := by
      rw [e5]
      have : G0 ++ P ++ D ++ S ++ A' = (G0 ++ P ++ D) ++ (S ++ A') := by simp only [List.append_assoc]
      rw [this, List.drop_left]
    rw [t1, t2, ih']
    simp only [List.append_assoc]

/-- a valid diff, pushed onto `A`, gives `B` with exact reports -/
theorem applyModify_valid (A B : List α) (hs : List (Hunk α)) (F : Nat) (f : FileSt α)
    (hv : ValidDiff A B hs) (hc : f.content = A) (hd : f.deleted = false) :
    applyModify hs .fwd F .normal f =
      some ({ f with content := B }, { reps := exactReports hs 0, dir := .fwd, fuzz := F }) := by
  have hw := validFrom_wflen hs _ _ _ _ _ hv
  have hp1 : phase1 .fwd F f.content f.deleted hs 0 (-1) = exactP1 hs := by
    rw [hc, hd]
    exact phase1_valid F A hs false 0 0 [] A B (-1) hv rfl rfl (by omega) (by intro _; omega)
  have hfit := phase1_fits .fwd F f.content f.deleted hs 0 (-1) hw
  have hord := phase1_ordered .fwd F f.content f.deleted hs 0 (-1) 0 hw (by omega) (by omega)
  rw [hp1] at hfit hord
  have h2 := phase2_eq .fwd hs (exactP1 hs) [] f.content 0 0 hfit (by simpa using hord) (by simp)
  simp only [List.nil_append] at h2
  simp only [applyModify, hp1, h2]
  rw [hc, applySpec_valid hs _ _ _ _ _ hv, setRb_exactP1]

/-! ## a valid diff read backwards is a valid diff -/

theorem validFrom_swap : ∀ (hs : List (Hunk α)) (gap : Bool) (pa pb : Nat) (A B : List α),
    ValidFrom gap pa pb A B hs → ValidFrom gap pb pa B A (hs.map Hunk.swap) := by
  intro hs
  induction hs with
  | nil => intro _ _ _ A B hv; exact hv.symm
  | cons h hs ih =>
    intro gap pa pb A B hv
    obtain ⟨G0, P, D, I, S, A', B', hA, hB, hrem, hadd, hpre, hsuf, hrl, hal, hne, hgap, hend, hrest⟩ := hv
    exact ⟨G0, P, I, D, S, B', A', hB, hA, hadd, hrem, hpre, hsuf, hal, hrl, hne.symm, hgap,
      fun hh => (hend hh).symm, ih _ _ _ _ _ hrest⟩

theorem applyModify_rev_swap (hs : List (Hunk α)) (F : Nat) (f : FileSt α) :
    applyModify hs .rev F .normal f =
      (applyModify (hs.map Hunk.swap) .fwd F .normal f).map (fun r => (r.1, { r.2 with dir := .rev })) := by
  simp only [applyModify, phase1_rev_swap, phase2_rev_swap]
  cases phase2 .fwd (hs.map Hunk.swap) (phase1 .fwd F f.content f.deleted (hs.map Hunk.swap) 0 (-1)) f.content 0 <;> rfl

end RQ
