import RQ.Lemmas.Tight
import RQ.Lemmas.Compose3
/-!
# The specification keeps trees tight

`Tight` (RQ/Lemmas/Tight.lean): outside `.pc`, the parents of every node are directories, every directory holds a
regular file somewhere below it, permission bits are permission bits, and the working directory is not a node.

* `storeTree_tight`: `Spec.storeTree` on a path outside `.pc` keeps a tight tree tight — the creation branch
  (`createDirAll` of the parent, `createFile`: every new directory is an ancestor of the new file) and the removal
  branch (`removeFile`, then `pruneUp` from the parent: the only directories that may have lost their last file are the
  ancestors of the removed file, and `pruneUp` removes exactly those of them that have no entry left).
* lifted through `applyFPTree` / `applyPatchTree` / `applyRangeTree` (names outside `.pc`), and
* `specRun_tight`: a run of the specification with exit status 0 (`Clean`, not a dry run) keeps a tight tree tight
  (the last phase only works below `.pc`).
-/
namespace RQ.Tight
open RQ RQ.Push RQ.Spec RQ.Flush RQ.Agree RQ.Compose RQ.Parse RQ.Write

/-! ## paths -/

theorem spre_asymm {a b : Key} (h1 : SPre a b) (h2 : SPre b a) : False := by
  have := h1.1
  have := h2.1
  omega

/-- the child of `d` on the way to `p` -/
theorem child_of_spre {d p : Key} (h : SPre d p) :
    (p.take (d.length + 1)).length = d.length + 1 ∧ (p.take (d.length + 1)).take d.length = d ∧
      (p.take (d.length + 1) = p ∨ SPre (p.take (d.length + 1)) p) := by
  obtain ⟨h1, h2⟩ := h
  refine ⟨by rw [List.length_take]; omega, ?_, ?_⟩
  · rw [List.take_take, Nat.min_eq_left (by omega)]; exact h2
  · by_cases e : d.length + 1 = p.length
    · left; rw [e, List.take_length]
    · right; exact spre_take (by omega)

/-- a strict prefix of `q` is the parent of `q` or a strict prefix of the parent -/
theorem spre_dropLast_cases {d q : Key} (h : SPre d q) : d = q.dropLast ∨ SPre d q.dropLast := by
  obtain ⟨h1, h2⟩ := h
  by_cases e : d.length = q.length - 1
  · left
    rw [List.dropLast_eq_take, ← e, h2]
  · right
    refine ⟨by rw [List.length_dropLast]; omega, ?_⟩
    rw [List.dropLast_eq_take, List.take_take, Nat.min_eq_left (by omega)]
    exact h2

/-- a non-empty strict prefix of `k` is a prefix of the parent of `k` -/
theorem spre_eq_take_dropLast {q k : Key} (h : SPre q k) : q = k.dropLast.take q.length := by
  obtain ⟨h1, h2⟩ := h
  rw [List.dropLast_eq_take, List.take_take, Nat.min_eq_left (by omega)]
  exact h2.symm

theorem ne_nil_of_length_succ {c : Key} {n : Nat} (h : c.length = n + 1) : c ≠ [] := by
  intro e
  rw [e] at h
  simp at h

/-! ## `WFo` in terms of strict prefixes -/

theorem wfo_spre {fs : FS} (h : WFo fs) {k q : Key} {n : Node} (hk : ¬ isPcKey k) (hl : fs.lookup k = some n)
    (hs : SPre q k) (hq : q ≠ []) : fs.lookup q = some .dir := by
  have hlen : 0 < q.length := List.length_pos_iff.mpr hq
  have := h k hk n hl q.length hlen hs.1
  rw [hs.2] at this
  exact this

theorem fileOnPath_of_wfo {fs : FS} (h : WFo fs) {q : Key} {n : Node} (hq : ¬ isPcKey q)
    (hl : fs.lookup q = some n) : fs.fileOnPath q = false := by
  rw [fileOnPath_false_iff]
  intro p hs hp hf
  rw [wfo_spre h hq hl hs hp] at hf
  exact hf

/-! ## exact agreement outside `.pc` -/

theorem tight_of_pcOnly {a b : FS} (h : PcOnly a b) (ht : Tight a) : Tight b := by
  refine ⟨?_, ?_, ?_, ?_⟩
  · intro k hk n hl i hi0 hi
    rw [h k hk] at hl
    rw [h _ (not_pc_take hk i)]
    exact ht.wf k hk n hl i hi0 hi
  · intro d hd0 hd hl
    rw [h d hd] at hl
    obtain ⟨f, hs, hf⟩ := ht.full d hd0 hd hl
    refine ⟨f, hs, ?_⟩
    rw [h f (not_pc_of_take hd0 hd hs.2)]
    exact hf
  · intro k hk c m i hl
    rw [h k hk] at hl
    exact ht.modes k hk c m i hl
  · rw [h [] not_pc_nil]
    exact ht.root

/-! ## directories without entries -/

/-- "the directory `k` has an entry" -/
def hasChild (fs : FS) (k : Key) : Bool :=
  fs.nodes.any (fun p => p.1.length == k.length + 1 && p.1.take k.length == k)

/-- under `WFo`, a directory without entries has nothing below it at all -/
theorem noBelow_of_noChild {fs : FS} (h : WFo fs) {d : Key} (hd0 : d ≠ []) (hd : ¬ isPcKey d)
    (hc : hasChild fs d = false) : ∀ p, SPre d p → fs.lookup p = none := by
  intro p hs
  cases hl : fs.lookup p with
  | none => rfl
  | some n =>
    exfalso
    have hp : ¬ isPcKey p := not_pc_of_take hd0 hd hs.2
    obtain ⟨c1, c2, c3⟩ := child_of_spre hs
    have : hasChild fs d = true := by
      unfold hasChild
      rw [hasChild_iff]
      refine ⟨p.take (d.length + 1), c1, c2, ?_⟩
      rcases c3 with e | s
      · rw [e, hl]; rfl
      · rw [wfo_spre h hp hl s (ne_nil_of_length_succ c1)]; rfl
    rw [hc] at this
    cases this

theorem dirEmpty_of_dir {fs : FS} {q : Key} (hfp : fs.fileOnPath q = false) (hl : fs.lookup q = some .dir) :
    fs.dirEmpty q = .ok (!hasChild fs q) := by
  unfold FS.dirEmpty FS.isDir hasChild
  simp [hfp, hl]

theorem removeDir_of_noChild {fs : FS} {q : Key} (hq : q ≠ []) (hl : fs.lookup q = some .dir)
    (hc : hasChild fs q = false) : fs.removeDir q = .ok (fs.erase q) := by
  unfold FS.removeDir
  unfold hasChild at hc
  have hqb : (q == []) = false := by simpa using hq
  simp [hqb, hl, hc]

theorem removeFile_ok_file {fs fs' : FS} {k : Key} (h : fs.removeFile k = .ok fs') :
    ∃ c m i, fs.lookup k = some (.file c m i) := by
  unfold FS.removeFile at h
  split at h
  · cases h
  · split at h
    · rename_i c m i hl; exact ⟨c, m, i, hl⟩
    · cases h
    · split at h <;> cases h

/-! ## `erase` -/

theorem wfo_erase {fs : FS} (h : WFo fs) {k : Key} (hb : ∀ p, ¬ isPcKey p → SPre k p → fs.lookup p = none) :
    WFo (fs.erase k) := by
  intro q hq n hl i hi0 hi
  have hqk : q ≠ k := by
    intro e; subst e; rw [FS.lookup_erase_self] at hl; cases hl
  rw [FS.lookup_erase_ne fs k q hqk] at hl
  have hs : SPre (q.take i) q := spre_take hi
  have hpk : q.take i ≠ k := by
    intro e
    rw [e] at hs
    rw [hb q hq hs] at hl
    cases hl
  rw [FS.lookup_erase_ne fs k _ hpk]
  exact h q hq n hl i hi0 hi

theorem lookup_erase_some {fs : FS} {k q : Key} {n : Node} (h : (fs.erase k).lookup q = some n) :
    q ≠ k ∧ fs.lookup q = some n := by
  have hqk : q ≠ k := by
    intro e; subst e; rw [FS.lookup_erase_self] at h; cases h
  rw [FS.lookup_erase_ne fs k q hqk] at h
  exact ⟨hqk, h⟩

/-! ## tight, except on the way to `q` -/

/-- tight, except that the directories on the way to `q` (`q` included) may have no file below them -/
structure TightExc (fs : FS) (q : Key) : Prop where
  wf : WFo fs
  full : ∀ d, d ≠ [] → ¬ isPcKey d → fs.lookup d = some .dir →
    (∃ k, SPre d k ∧ IsFile (fs.lookup k)) ∨ (d = q ∨ SPre d q)
  modes : Modeso fs
  root : fs.lookup [] = none

theorem Tight.toExc {fs : FS} (h : Tight fs) (q : Key) : TightExc fs q :=
  ⟨h.wf, fun d hd0 hd hl => .inl (h.full d hd0 hd hl), h.modes, h.root⟩

theorem TightExc.tight_nil {fs : FS} (h : TightExc fs []) : Tight fs := by
  refine ⟨h.wf, ?_, h.modes, h.root⟩
  intro d hd0 hd hl
  rcases h.full d hd0 hd hl with w | e | s
  · exact w
  · exact absurd e hd0
  · have := s.1
    simp at this

/-- the directory at the end of the way has an entry: nothing is missing -/
theorem TightExc.tight_of_child {fs : FS} {q : Key} (ht : TightExc fs q) (hq0 : q ≠ []) (hpc : ¬ isPcKey q)
    (hc : hasChild fs q = true) : Tight fs := by
  refine ⟨ht.wf, ?_, ht.modes, ht.root⟩
  intro d hd0 hdpc hdl
  rcases ht.full d hd0 hdpc hdl with w | hex
  · exact w
  · unfold hasChild at hc
    rw [hasChild_iff] at hc
    obtain ⟨c, c1, c2, c3⟩ := hc
    have hsqc : SPre q c := ⟨by omega, c2⟩
    have hsdc : SPre d c := by
      rcases hex with e | s
      · exact e ▸ hsqc
      · exact spre_trans s hsqc
    have hcpc : ¬ isPcKey c := not_pc_of_take hq0 hpc c2
    cases hlc : fs.lookup c with
    | none => rw [hlc] at c3; cases c3
    | some n =>
      cases n with
      | file cc m i => exact ⟨c, hsdc, by rw [hlc]; trivial⟩
      | dir =>
        rcases ht.full c (ne_nil_of_length_succ c1) hcpc hlc with ⟨f, hf1, hf2⟩ | hex2
        · exact ⟨f, spre_trans hsdc hf1, hf2⟩
        · exfalso
          rcases hex2 with e | s
          · rw [e] at c1; omega
          · have := s.1; omega

/-- removing the node at the end of the way (nothing is below it): the way ends at its parent -/
theorem TightExc.erase {fs : FS} {k : Key} (ht : TightExc fs k)
    (hb : ∀ p, ¬ isPcKey p → SPre k p → fs.lookup p = none) : TightExc (fs.erase k) k.dropLast := by
  refine ⟨wfo_erase ht.wf hb, ?_, ?_, ?_⟩
  · intro d hd0 hd hl
    obtain ⟨hdk, hl'⟩ := lookup_erase_some hl
    rcases ht.full d hd0 hd hl' with ⟨f, hs, hf⟩ | e | s
    · by_cases hfk : f = k
      · subst hfk
        exact .inr (spre_dropLast_cases hs)
      · exact .inl ⟨f, hs, by rw [FS.lookup_erase_ne fs k f hfk]; exact hf⟩
    · exact absurd e hdk
    · exact .inr (spre_dropLast_cases s)
  · intro q hq c m i hl
    exact ht.modes q hq c m i (lookup_erase_some hl).2
  · cases hl : (fs.erase k).lookup [] with
    | none => rfl
    | some n =>
      have := (lookup_erase_some hl).2
      rw [ht.root] at this
      cases this

/-! ## `pruneUp` -/

/-- `pruneUp` from the end of the way, with enough fuel to reach the working directory, repairs the tree -/
theorem pruneUp_tight : ∀ (fuel : Nat) (fs : FS) (q : Key), q.length < fuel → ¬ isPcKey q → TightExc fs q →
    (q = [] ∨ fs.lookup q = some .dir) → Tight (pruneUp fs fuel q) := by
  intro fuel
  induction fuel with
  | zero => intro fs q h; omega
  | succ n ih =>
    intro fs q hlen hpc ht hdir
    unfold pruneUp
    split
    · rename_i he
      have : q = [] := by simpa using he
      subst this
      exact ht.tight_nil
    · rename_i hne
      have hq0 : q ≠ [] := by simpa using hne
      have hl : fs.lookup q = some .dir := by
        rcases hdir with e | e
        · exact absurd e hq0
        · exact e
      rw [dirEmpty_of_dir (fileOnPath_of_wfo ht.wf hpc hl) hl]
      cases hc : hasChild fs q with
      | true => exact ht.tight_of_child hq0 hpc hc
      | false =>
        simp only [Bool.not_false]
        rw [removeDir_of_noChild hq0 hl hc]
        simp only
        have hb := noBelow_of_noChild ht.wf hq0 hpc hc
        apply ih
        · rw [List.length_dropLast]
          have : 0 < q.length := List.length_pos_iff.mpr hq0
          omega
        · exact not_isPcKey_dropLast hpc
        · exact ht.erase (fun p _ hs => hb p hs)
        · by_cases hd0 : q.dropLast = []
          · exact .inl hd0
          · right
            have hs := dropLast_spre hq0
            rw [FS.lookup_erase_ne fs q _ (spre_ne hs)]
            exact wfo_spre ht.wf hpc hl hs hd0

/-! ## `createDirAll` -/

/-- `f'` is `f` with some prefixes of `d` that were nothing made directories -/
def CdaRel (d : Key) (f f' : FS) : Prop :=
  ∀ q, f'.lookup q = f.lookup q ∨ (q ≠ [] ∧ (∃ i, q = d.take i) ∧ f.lookup q = none ∧ f'.lookup q = some .dir)

theorem CdaRel.refl (d : Key) (f : FS) : CdaRel d f f := fun _ => .inl rfl

theorem CdaRel.trans {d : Key} {a b c : FS} (h1 : CdaRel d a b) (h2 : CdaRel d b c) : CdaRel d a c := by
  intro q
  rcases h1 q with e1 | ⟨n1, i1, a1, b1⟩ <;> rcases h2 q with e2 | ⟨n2, i2, a2, b2⟩
  · exact .inl (e2.trans e1)
  · exact .inr ⟨n2, i2, e1 ▸ a2, b2⟩
  · exact .inr ⟨n1, i1, a1, e2 ▸ b1⟩
  · rw [b1] at a2; cases a2

theorem CdaRel.dir {d : Key} {a b : FS} (h : CdaRel d a b) {q : Key} (hq : a.lookup q = some .dir) :
    b.lookup q = some .dir := by
  rcases h q with e | ⟨_, _, a1, _⟩
  · rw [e]; exact hq
  · rw [hq] at a1; cases a1

theorem cdaStep_rel {d : Key} {f f' : FS} {i : Nat} (h : cdaStep d (.ok f) i = .ok f') :
    CdaRel d f f' ∧ (d.take i = [] ∨ f'.lookup (d.take i) = some .dir) := by
  unfold cdaStep at h
  simp only at h
  split at h
  · rename_i he
    cases h
    exact ⟨CdaRel.refl d f, .inl (by simpa using he)⟩
  · rename_i hne
    have hne' : d.take i ≠ [] := by simpa using hne
    split at h
    · rename_i hl
      cases h
      exact ⟨CdaRel.refl d f, .inr hl⟩
    · cases h
    · rename_i hl
      cases h
      refine ⟨?_, .inr (FS.lookup_set_self f _ _)⟩
      intro q
      by_cases e : q = d.take i
      · subst e
        exact .inr ⟨hne', ⟨i, rfl⟩, hl, FS.lookup_set_self f _ _⟩
      · exact .inl (FS.lookup_set_ne f _ q _ e)

theorem cdaFold_error (d : Key) (e : IOErr) : ∀ (l : List Nat), l.foldl (cdaStep d) (.error e) = .error e := by
  intro l
  induction l with
  | nil => rfl
  | cons j t ih => rw [List.foldl_cons]; exact ih

theorem cdaFold_rel {d : Key} : ∀ (l : List Nat) (f f' : FS), l.foldl (cdaStep d) (.ok f) = .ok f' →
    CdaRel d f f' ∧ ∀ i ∈ l, d.take i = [] ∨ f'.lookup (d.take i) = some .dir := by
  intro l
  induction l with
  | nil =>
    intro f f' h
    cases h
    exact ⟨CdaRel.refl d f, fun _ hi => by cases hi⟩
  | cons i t ih =>
    intro f f' h
    rw [List.foldl_cons] at h
    cases hs : cdaStep d (.ok f) i with
    | error e =>
      rw [hs, cdaFold_error] at h
      cases h
    | ok f1 =>
      rw [hs] at h
      obtain ⟨r1, d1⟩ := cdaStep_rel hs
      obtain ⟨r2, d2⟩ := ih f1 f' h
      refine ⟨r1.trans r2, ?_⟩
      intro j hj
      rcases List.mem_cons.mp hj with e | hm
      · subst e
        rcases d1 with e1 | e1
        · exact .inl e1
        · exact .inr (r2.dir e1)
      · exact d2 j hm

/-- a successful `mkdir -p d`: some prefixes of `d` that were nothing are directories now, nothing else changed, and
every non-empty prefix of `d` is a directory -/
theorem createDirAll_rel {fs fs' : FS} {d : Key} (h : fs.createDirAll d = .ok fs') :
    CdaRel d fs fs' ∧ ∀ i, d.take i = [] ∨ fs'.lookup (d.take i) = some .dir := by
  rw [createDirAll_eq] at h
  obtain ⟨r, hd⟩ := cdaFold_rel _ _ _ h
  refine ⟨r, ?_⟩
  intro i
  by_cases hi : i < d.length + 1
  · exact hd i (List.mem_range.mpr hi)
  · have := hd d.length (List.mem_range.mpr (by omega))
    rw [List.take_of_length_le (by omega)]
    rw [List.take_length] at this
    exact this

/-! ## the creation branch -/

/-- `fs'` is `fs` with some strict prefixes of `k` that were nothing made directories (and whatever at `k`) -/
def CreateRel (k : Key) (fs fs' : FS) : Prop :=
  ∀ q, q ≠ k → fs'.lookup q = fs.lookup q ∨ (q ≠ [] ∧ SPre q k ∧ fs.lookup q = none ∧ fs'.lookup q = some .dir)

theorem createFile_ok_none {fs fs' : FS} {k : Key} (h : fs.createFile k = .ok fs') (hl : fs.lookup k = none) :
    k ≠ [] ∧ fs'.lookup k = some (.file [] 0o644 fs.nextIno) := by
  unfold FS.createFile at h
  split at h
  · cases h
  · rename_i hk
    have hk0 : k ≠ [] := by simpa using hk
    split at h
    · cases h
    · split at h
      · cases h
      · rw [hl] at h
        simp only at h
        cases h
        exact ⟨hk0, FS.lookup_set_self fs k _⟩

/-- the creation branch of `storeTree`, path by path -/
theorem storeRest_create {fs1 fs' : FS} {k : Key} {f : FileSt Bytes} {e : Bool} (hdel : f.deleted = false)
    (hl1 : fs1.lookup k = none) (h : storeRest fs1 k f e = .ok fs') :
    k ≠ [] ∧ (∃ c m i, fs'.lookup k = some (.file c m i) ∧ m < 4096) ∧
    (∀ q, SPre q k → q ≠ [] → fs'.lookup q = some .dir) ∧ CreateRel k fs1 fs' := by
  unfold storeRest at h
  simp only [hdel, Bool.false_eq_true, if_false] at h
  split at h
  · cases h
  · rename_i fs2 h2
    split at h
    · cases h
    · rename_i fs3 h3
      obtain ⟨hr2, hd2⟩ := createDirAll_rel h2
      have hl2 : fs2.lookup k = none := by
        rcases hr2 k with e2 | ⟨_, _, _, b2⟩
        · rw [e2]; exact hl1
        · exfalso
          have := createFile_not_dir h3
          exact this b2
      obtain ⟨hk0, hl3⟩ := createFile_ok_none h3 hl2
      have h4 : ∃ m, m < 4096 ∧
          (match f.perms with | some p => fs3.setMode k p | none => fs3).lookup k = some (.file [] m fs2.nextIno) ∧
          ∀ q, q ≠ k → (match f.perms with | some p => fs3.setMode k p | none => fs3).lookup q = fs3.lookup q := by
        cases f.perms with
        | none => exact ⟨0o644, by omega, hl3, fun _ _ => rfl⟩
        | some p =>
          exact ⟨p % 4096, Nat.mod_lt _ (by omega), lookup_setMode_file hl3 p,
            fun q hq => setMode_lookup_ne fs3 p hq⟩
      obtain ⟨m, hm, hl4, hne4⟩ := h4
      have h' : fs' = (match f.perms with | some p => fs3.setMode k p | none => fs3).appendBytes k
          (bytesOf f.content) := by cases h; rfl
      rw [h']
      generalize (match f.perms with | some p => fs3.setMode k p | none => fs3) = fs4 at hl4 hne4 ⊢
      have hne : ∀ q, q ≠ k → (fs4.appendBytes k (bytesOf f.content)).lookup q = fs2.lookup q := by
        intro q hq
        rw [appendBytes_lookup_ne fs4 _ hq, hne4 q hq, createFile_lookup_ne h3 hq]
      refine ⟨hk0, ⟨_, m, _, lookup_appendBytes_file hl4 _, hm⟩, ?_, ?_⟩
      · intro q hs hq
        rw [hne q (spre_ne hs)]
        rcases hd2 q.length with e0 | e0
        · rw [← spre_eq_take_dropLast hs] at e0
          exact absurd e0 hq
        · rw [← spre_eq_take_dropLast hs] at e0
          exact e0
      · intro q hq
        rw [hne q hq]
        rcases hr2 q with e2 | ⟨n2, ⟨i, hi⟩, a2, b2⟩
        · exact .inl e2
        · exact .inr ⟨n2, hi ▸ take_dropLast_spre hk0 i, a2, b2⟩

/-- a tree that differs from a tight tree by a regular file at `k` (where no directory was) and directories at all
strict prefixes of `k` (where nothing or a directory was) is tight -/
theorem tight_of_created {fs fs' : FS} {k : Key} (ht : Tight fs) (hk0 : k ≠ [])
    (hfile : ∃ c m i, fs'.lookup k = some (.file c m i) ∧ m < 4096)
    (hdirs : ∀ q, SPre q k → q ≠ [] → fs'.lookup q = some .dir)
    (hrel : CreateRel k fs fs') (hnd : fs.lookup k ≠ some .dir) : Tight fs' := by
  obtain ⟨c0, m0, i0, hlk, hm0⟩ := hfile
  refine ⟨?_, ?_, ?_, ?_⟩
  · intro q hq n hl i hi0 hi
    have hsp : SPre (q.take i) q := spre_take hi
    have hp0 : q.take i ≠ [] := by
      intro e
      have := congrArg List.length e
      rw [List.length_take] at this
      simp only [List.length_nil] at this
      omega
    by_cases hpk : SPre (q.take i) k
    · exact hdirs _ hpk hp0
    · have hqk : q ≠ k := fun e => hpk (e ▸ hsp)
      have hqs : ¬ SPre q k := fun s => hpk (spre_trans hsp s)
      have hlq : fs.lookup q = some n := by
        rcases hrel q hqk with e | ⟨_, s, _, _⟩
        · rw [← e]; exact hl
        · exact absurd s hqs
      have hdp : fs.lookup (q.take i) = some .dir := wfo_spre ht.wf hq hlq hsp hp0
      by_cases hpe : q.take i = k
      · rw [hpe] at hdp; exact absurd hdp hnd
      · rcases hrel _ hpe with e | ⟨_, s, _, _⟩
        · rw [e]; exact hdp
        · exact absurd s hpk
  · intro d hd0 hd hl
    have hdk : d ≠ k := by
      intro e; rw [e, hlk] at hl; cases hl
    by_cases hsk : SPre d k
    · exact ⟨k, hsk, by rw [hlk]; trivial⟩
    · have hl' : fs.lookup d = some .dir := by
        rcases hrel d hdk with e | ⟨_, s, _, _⟩
        · rw [← e]; exact hl
        · exact absurd s hsk
      obtain ⟨f, hs, hf⟩ := ht.full d hd0 hd hl'
      have hfk : f ≠ k := fun e => hsk (e ▸ hs)
      refine ⟨f, hs, ?_⟩
      rcases hrel f hfk with e | ⟨_, _, a, _⟩
      · rw [e]; exact hf
      · rw [a] at hf; exact hf.elim
  · intro q hq c m i hl
    by_cases hqk : q = k
    · subst hqk
      rw [hlk] at hl
      cases hl
      exact hm0
    · rcases hrel q hqk with e | ⟨_, _, _, b⟩
      · rw [e] at hl; exact ht.modes q hq c m i hl
      · rw [b] at hl; cases hl
  · rcases hrel [] (fun e => hk0 e.symm) with e | ⟨n, _, _, _⟩
    · rw [e]; exact ht.root
    · exact absurd rfl n

/-! ## `storeTree` -/

/-- **`storeTree` keeps a tight tree tight** (path of the name outside `.pc`) -/
theorem storeTree_tight {fs fs' : FS} {name : Bytes} {f : FileSt Bytes} {k : Key} (hk : safeKey name = some k)
    (hpc : ¬ isPcKey k) (ht : Tight fs) (h : storeTree fs name f = .ok fs') : Tight fs' := by
  rw [storeTree_eq, hk] at h
  simp only at h
  cases hs : (fs.lookup k).isSome with
  | false =>
    rw [hs] at h
    simp only [Bool.false_eq_true, if_false] at h
    have hl : fs.lookup k = none := by
      cases hx : fs.lookup k with
      | none => rfl
      | some n => rw [hx] at hs; cases hs
    cases hdel : f.deleted with
    | true =>
      unfold storeRest at h
      simp only [hdel, if_true, Bool.false_eq_true, if_false] at h
      cases h
      exact ht
    | false =>
      obtain ⟨hk0, hfile, hdirs, hrel⟩ := storeRest_create hdel hl h
      exact tight_of_created ht hk0 hfile hdirs hrel (by rw [hl]; exact fun e => nomatch e)
  | true =>
    rw [hs] at h
    simp only [if_true] at h
    cases hr : fs.removeFile k with
    | error e => rw [hr] at h; cases h
    | ok fs1 =>
      rw [hr] at h
      simp only at h
      have e1 := FS.removeFile_ok hr
      subst e1
      obtain ⟨c, m, i, hlk⟩ := removeFile_ok_file hr
      have hk0 : k ≠ [] := by
        intro e; rw [e, ht.root] at hlk; cases hlk
      cases hdel : f.deleted with
      | true =>
        unfold storeRest at h
        simp only [hdel, if_true] at h
        cases h
        apply pruneUp_tight
        · rw [List.length_dropLast]; omega
        · exact not_isPcKey_dropLast hpc
        · apply (ht.toExc k).erase
          intro p hp hsp
          cases hlp : fs.lookup p with
          | none => rfl
          | some n =>
            have := wfo_spre ht.wf hp hlp hsp hk0
            rw [hlk] at this
            cases this
        · by_cases hd0 : k.dropLast = []
          · exact .inl hd0
          · right
            have hsd := dropLast_spre hk0
            rw [FS.lookup_erase_ne fs k _ (spre_ne hsd)]
            exact wfo_spre ht.wf hpc hlk hsd hd0
      | false =>
        obtain ⟨_, hfile, hdirs, hrel⟩ := storeRest_create hdel (FS.lookup_erase_self fs k) h
        refine tight_of_created ht hk0 hfile hdirs ?_ (by rw [hlk]; exact fun e => nomatch e)
        intro q hq
        rcases hrel q hq with e | ⟨n, s, a, b⟩
        · exact .inl (by rw [e, FS.lookup_erase_ne fs k q hq])
        · exact .inr ⟨n, s, by rw [← FS.lookup_erase_ne fs k q hq]; exact a, b⟩

theorem storeTree_tight' {fs fs' : FS} {name : Bytes} {f : FileSt Bytes}
    (hn : ∀ k, safeKey name = some k → ¬ isPcKey k) (ht : Tight fs) (h : storeTree fs name f = .ok fs') :
    Tight fs' := by
  obtain ⟨k, hk, _⟩ := storeTree_near h
  exact storeTree_tight hk (hn k hk) ht h

/-! ## a file patch, a patch, a range -/

theorem runPlan_tight {fs : FS} {pl : FPPlan} {r : FPResult}
    (hn : ∀ n ∈ planNames pl, ∀ k, safeKey n = some k → ¬ isPcKey k) (ht : Tight fs)
    (h : runPlan fs pl = .ok r) : Tight r.fs := by
  cases pl with
  | refuse => cases h
  | keep => simp only [runPlan] at h; cases h; exact ht
  | store target f ok rej touched =>
    simp only [runPlan] at h
    split at h
    · cases h
    · rename_i fs1 h1
      cases h
      exact storeTree_tight' (hn target (by simp [planNames])) ht h1
  | move target f0 newName f ok rej touched =>
    simp only [runPlan] at h
    split at h
    · cases h
    · rename_i fs1 h1
      split at h
      · cases h
      · rename_i fs2 h2
        cases h
        exact storeTree_tight' (hn newName (by simp [planNames]))
          (storeTree_tight' (hn target (by simp [planNames])) ht h1) h2

/-- one file patch (names outside `.pc`) keeps a tight tree tight -/
theorem applyFPTree_tight {fs : FS} {cfg : Cfg} {entry : Series.Entry} {fp : PFilePatch} {r : FPResult}
    (hn : NamesSat (fun k => ¬ isPcKey k) fp) (ht : Tight fs) (h : applyFPTree fs cfg entry fp = .ok r) :
    Tight r.fs := by
  rw [applyFPTree_eq] at h
  exact runPlan_tight (fun n hm => hn n (planNames_sub hm)) ht h

theorem applyPatchTree_tight {cfg : Cfg} {entry : Series.Entry} : ∀ (fps : List PFilePatch),
    (∀ fp ∈ fps, NamesSat (fun k => ¬ isPcKey k) fp) → ∀ (acc r : PatchResult), Tight acc.fs →
    applyPatchTree cfg entry fps acc = .ok r → Tight r.fs := by
  intro fps
  induction fps with
  | nil => intro _ acc r ht h; unfold applyPatchTree at h; cases h; exact ht
  | cons fp fps ih =>
    intro hn acc r ht h
    unfold applyPatchTree at h
    split at h
    · cases h
    · rename_i r1 h1
      exact ih (fun fp' hm => hn fp' (List.mem_cons_of_mem _ hm)) _ _
        (applyFPTree_tight (hn fp (List.mem_cons_self ..)) ht h1) h

/-- applying a range of patches whose names are outside `.pc` keeps a tight tree tight (whether all of them apply or
not) -/
theorem applyRangeTree_tight {cfg : Cfg} {orig : FS} : ∀ (range : List Series.Entry),
    (∀ e ∈ range, ∀ patch, patchOf orig cfg e = some patch → ∀ fp ∈ patch.fps, NamesSat (fun k => ¬ isPcKey k) fp) →
    ∀ (p p' : Progress), Tight p.fs → applyRangeTree cfg orig range p = .ok p' → Tight p'.fs := by
  intro range
  induction range with
  | nil => intro _ p p' ht h; unfold applyRangeTree at h; cases h; exact ht
  | cons entry rest ih =>
    intro hn p p' ht h
    rw [applyRangeTree_cons] at h
    split at h
    · cases h
    · rename_i patch hp
      split at h
      · cases h
      · rename_i r hr
        have h1 : Tight r.fs :=
          applyPatchTree_tight patch.fps (hn entry (List.mem_cons_self ..) patch hp) _ _ ht hr
        split at h
        · exact ih (fun e hm => hn e (List.mem_cons_of_mem _ hm)) _ _ h1 h
        · cases h; exact ht

/-! ## the run -/

/-- **the specification keeps trees tight**: a real run with exit status 0 over a series that does not patch quilt's
own files, from a tight tree, ends in a tight tree -/
theorem specRun_tight (cfg : Cfg) (hdry : cfg.dryRun = false) (fs : FS) (range : List Series.Entry)
    (hclean : Compose.Clean cfg fs range) (ht : Tight fs) (h0 : (Compose.specRun cfg fs range).exit = 0) :
    Tight (Compose.specRun cfg fs range).fs := by
  obtain ⟨p, hp, _, _, _, ho, _⟩ := specRun_exit0 hdry h0
  have htp : Tight p.fs := applyRangeTree_tight range hclean.namesOut (start fs) p ht hp
  rw [ho]
  exact tight_of_pcOnly (finishPc_pcOnly cfg range p p.fs) htp

end RQ.Tight

#print axioms RQ.Tight.tight_of_pcOnly
#print axioms RQ.Tight.pruneUp_tight
#print axioms RQ.Tight.storeTree_tight
#print axioms RQ.Tight.applyFPTree_tight
#print axioms RQ.Tight.applyPatchTree_tight
#print axioms RQ.Tight.applyRangeTree_tight
#print axioms RQ.Tight.specRun_tight
