import RQ.Lemmas.RoundTripNum
/-! C12 layer 1: `parseHunkLine` inverts `writeLine`. -/
namespace RQ.Write
open RQ RQ.Parse

def NLfree (l : Bytes) : Prop := ∀ b ∈ l, b ≠ 10

/-- a line as stored in a parsed hunk: no newline except possibly as the final byte -/
def LineOK (c : Bytes) : Prop := (∃ body, c = body ++ [10] ∧ NLfree body) ∨ NLfree c

/-- the input does not continue with a backslash -/
def No92 (r : Bytes) : Prop := ∀ r', r ≠ 92 :: r'

theorem NLfree_nil : NLfree [] := by intro b hb; cases hb
theorem NLfree_cons {b : UInt8} {l : Bytes} (hb : b ≠ 10) (hl : NLfree l) : NLfree (b :: l) := by
  intro x hx; rcases List.mem_cons.mp hx with rfl | hx
  · exact hb
  · exact hl x hx
theorem NLfree_tail {b : UInt8} {l : Bytes} (h : NLfree (b :: l)) : NLfree l := fun x hx => h x (by simp [hx])
theorem NLfree_head {b : UInt8} {l : Bytes} (h : NLfree (b :: l)) : b ≠ 10 := h b (by simp)
theorem NLfree_append {a b : Bytes} (ha : NLfree a) (hb : NLfree b) : NLfree (a ++ b) := by
  intro x hx; rcases List.mem_append.mp hx with h | h
  · exact ha x h
  · exact hb x h

theorem takeLineIncl_body (body rest : Bytes) (h : NLfree body) :
    takeLineIncl (body ++ 10 :: rest) = .ok (rest, body ++ [10]) := by
  induction body with
  | nil => simp [takeLineIncl, NL]
  | cons b bs ih =>
    have hb : b ≠ 10 := NLfree_head h
    have := ih (NLfree_tail h)
    simp [takeLineIncl, NL, hb, this]

theorem takeLineSkip_body (body rest : Bytes) (h : NLfree body) :
    takeLineSkip (body ++ 10 :: rest) = .ok (rest, body) := by
  induction body with
  | nil => simp [takeLineSkip, NL]
  | cons b bs ih =>
    have hb : b ≠ 10 := NLfree_head h
    have := ih (NLfree_tail h)
    simp [takeLineSkip, NL, hb, this]

theorem takeLineIncl_inv : ∀ (inp rest line : Bytes), takeLineIncl inp = .ok (rest, line) →
    ∃ body, NLfree body ∧ line = body ++ [10] ∧ inp = body ++ 10 :: rest := by
  intro inp
  induction inp with
  | nil => intro rest line h; simp [takeLineIncl] at h
  | cons b bs ih =>
    intro rest line h
    unfold takeLineIncl at h
    by_cases hb : b = 10
    · subst hb
      simp [NL] at h
      exact ⟨[], NLfree_nil, by simp [h.2], by simp [h.1]⟩
    · have hb' : (b == NL) = false := by simp [NL, hb]
      simp only [hb'] at h
      cases e : takeLineIncl bs with
      | error x => simp [e] at h
      | ok v =>
        obtain ⟨r, l⟩ := v
        simp [e] at h
        obtain ⟨body, h1, h2, h3⟩ := ih r l e
        refine ⟨b :: body, NLfree_cons hb h1, ?_, ?_⟩
        · rw [← h.2, h2]; rfl
        · rw [h3, h.1]; rfl

theorem takeLineSkip_inv : ∀ (inp rest line : Bytes), takeLineSkip inp = .ok (rest, line) →
    NLfree line ∧ inp = line ++ 10 :: rest := by
  intro inp
  induction inp with
  | nil => intro rest line h; simp [takeLineSkip] at h
  | cons b bs ih =>
    intro rest line h
    unfold takeLineSkip at h
    by_cases hb : b = 10
    · subst hb
      simp [NL] at h
      obtain ⟨rfl, rfl⟩ := h
      exact ⟨NLfree_nil, by simp⟩
    · have hb' : (b == NL) = false := by simp [NL, hb]
      simp only [hb'] at h
      cases e : takeLineSkip bs with
      | error x => simp [e] at h
      | ok v =>
        obtain ⟨r, l⟩ := v
        simp [e] at h
        obtain ⟨h1, h3⟩ := ih r l e
        obtain ⟨rfl, rfl⟩ := h
        exact ⟨NLfree_cons hb h1, by rw [h3]; rfl⟩

def tagByte : Tag → UInt8 | .add => 43 | .rem => 45 | .ctx => 32

theorem noNewLineTag_shape : ∃ body, Extracted.noNewLineTag = 92 :: body ++ [10] ∧ NLfree body := by
  refine ⟨[32, 78, 111, 32, 110, 101, 119, 108, 105, 110, 101, 32, 97, 116, 32, 101, 110, 100, 32, 111, 102, 32, 102, 105, 108, 101], by decide, by unfold NLfree; decide⟩

theorem getLast?_NLfree (c : Bytes) (h : NLfree c) : c.getLast? ≠ some 10 := by
  intro e
  have := List.mem_of_getLast? e
  exact h 10 this rfl

theorem writeLine_nl (tag : UInt8) (body : Bytes) : writeLine tag (body ++ [10]) = tag :: body ++ [10] := by
  simp [writeLine]

theorem writeLine_nonl (tag : UInt8) (c : Bytes) (h : NLfree c) :
    writeLine tag c = tag :: c ++ 10 :: Extracted.noNewLineTag := by
  simp [writeLine, getLast?_NLfree c h]

theorem parseHunkLine_writeLine (t : Tag) (c rest : Bytes) (hc : LineOK c) (hrest : No92 rest) :
    parseHunkLine (writeLine (tagByte t) c ++ rest) = .ok (rest, (t, c)) := by
  obtain ⟨tb, htag, htb⟩ := noNewLineTag_shape
  rcases hc with ⟨body, rfl, hbody⟩ | hbody
  · have hl : (body ++ [10]).getLast? = some 10 := by simp
    rw [writeLine_nl]
    cases t <;>
    · simp only [tagByte, parseHunkLine, List.cons_append, List.append_assoc]
      simp [takeLineIncl_body body rest hbody]
      split
      · exact absurd rfl (hrest _)
      · rfl
  · have h2 : takeLineIncl (92 :: (tb ++ 10 :: rest)) = .ok (rest, 92 :: tb ++ [10]) :=
      takeLineIncl_body (92 :: tb) rest (NLfree_cons (by decide) htb)
    rw [writeLine_nonl _ c hbody, htag]
    cases t <;>
    · simp only [tagByte, parseHunkLine, List.cons_append, List.append_assoc]
      simp [takeLineIncl_body c _ hbody, h2]

theorem writeLine_ne_nil (tag : UInt8) (c : Bytes) : writeLine tag c ≠ [] := by simp [writeLine]

theorem writeLine_head (tag : UInt8) (c rest : Bytes) : ∃ t, writeLine tag c ++ rest = tag :: t := by
  simp [writeLine]

end RQ.Write
