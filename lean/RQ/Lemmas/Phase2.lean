import RQ.Lemmas.Splice
/-! The second loop of `apply_modify` (`phase2`) computes `applySpec` of the core edits. -/
set_option linter.unusedSectionVars false
set_option linter.unusedVariables false
namespace RQ
variable {α : Type} [DecidableEq α]

/-- lengths of a view are consistent with its context counts -/
def View.WF (v : View α) : Prop := v.pre + v.suf ≤ v.rem.length ∧ v.pre + v.suf ≤ v.add.length

/-- lengths of a hunk are consistent with its context counts (weaker than `Hunk.WF`) -/
def Hunk.WFlen (h : Hunk α) : Prop := h.pre + h.suf ≤ h.rem.length ∧ h.pre + h.suf ≤ h.add.length

theorem Hunk.WF.wflen {h : Hunk α} (w : h.WF) : h.WFlen := ⟨w.1, w.2.1⟩

theorem preFuzz_le (h : Hunk α) (f : Nat) : h.preFuzz f ≤ h.pre := by unfold Hunk.preFuzz; omega
theorem sufFuzz_le (h : Hunk α) (f : Nat) : h.sufFuzz f ≤ h.suf := by unfold Hunk.sufFuzz; omega

theorem trim_length (l : List α) (pf sf : Nat) : (trim l pf sf).length = l.length - sf - pf := by
  simp [trim, List.length_drop, List.length_take]

theorem view_wf (h : Hunk α) (d : Dir) (f : Nat) (w : h.WFlen) : (view h d f).WF := by
  have h1 := preFuzz_le h f
  have h2 := sufFuzz_le h f
  obtain ⟨w1, w2⟩ := w
  cases d <;> simp only [view, View.WF, trim_length] <;> omega

theorem core_length (l : List α) (pre suf : Nat) : (core l pre suf).length = l.length - pre - suf := by
  simp [core, List.length_take, List.length_drop]

/-- what the first loop guarantees about a report, as far as the second loop needs it -/
def RepFits (h : Hunk α) (d : Dir) : Rep → Prop
  | .applied line _ _ diff fz =>
    0 ≤ line + (view h d fz).pre ∧ diff = ((view h d fz).add.length : Int) - (view h d fz).rem.length ∧ (view h d fz).WF
  | _ => True

def AllFit (d : Dir) : List (Hunk α) → List Rep → Prop
  | h :: hs, r :: rs => RepFits h d r ∧ AllFit d hs rs
  | [], [] => True
  | _, _ => False

/-- what `phase2` does to the reports: `rollback_line := line + modification_offset` -/
def setRb : List Rep → Int → List Rep
  | (.applied line _ off diff fz) :: rs, mo => .applied line (line + mo) off diff fz :: setRb rs (mo + diff)
  | r :: rs, mo => r :: setRb rs mo
  | [], _ => []

theorem phase2_eq (d : Dir) : ∀ (hs : List (Hunk α)) (reps : List Rep) (P l : List α) (base : Nat) (mo : Int),
    AllFit d hs reps → Ordered base l.length (coreEdits d hs reps) → (P.length : Int) = base + mo →
    phase2 d hs reps (P ++ l) mo = some (P ++ applySpec base l (coreEdits d hs reps), setRb reps mo) := by
  intro hs
  induction hs with
  | nil =>
    intro reps P l base mo hf ho hP
    cases reps with
    | nil => simp [phase2, coreEdits, applySpec, setRb]
    | cons r rs => simp [AllFit] at hf
  | cons h hs ih =>
    intro reps P l base mo hf ho hP
    cases reps with
    | nil => simp [AllFit] at hf
    | cons r rs =>
      obtain ⟨hfit, hrest⟩ := hf
      cases r with
      | applied line rb off diff fz =>
        simp only [RepFits] at hfit
        obtain ⟨hnn, hdiff, hw1, hw2⟩ := hfit
        simp only [coreEdits, Ordered] at ho
        obtain ⟨o1, o2, o3⟩ := ho
        have hstart : line + mo + ((view h d fz).pre : Int) = ((P.length + ((line + (view h d fz).pre).toNat - base) : Nat) : Int) := by omega
        have hins : (core (view h d fz).add (view h d fz).pre (view h d fz).suf).length
            = (view h d fz).add.length - (view h d fz).pre - (view h d fz).suf := core_length _ _ _
        simp only [phase2, coreEdits, applySpec, setRb]
        rw [hstart]
        simp only [Int.toNat_natCast]
        rw [if_neg (by omega), if_neg (by omega), if_neg (by simp only [List.length_append]; omega)]
        rw [splice_at P l _ _ _ (by omega)]
        rw [ih rs (P ++ l.take ((line + (view h d fz).pre).toNat - base) ++ core (view h d fz).add (view h d fz).pre (view h d fz).suf)
              (l.drop ((line + (view h d fz).pre).toNat - base + ((view h d fz).rem.length - (view h d fz).pre - (view h d fz).suf)))
              ((line + (view h d fz).pre).toNat + ((view h d fz).rem.length - (view h d fz).pre - (view h d fz).suf))
              (mo + diff) hrest]
        · simp [List.append_assoc]
        · simp only [List.length_drop]
          have : l.length - ((line + (view h d fz).pre).toNat - base + ((view h d fz).rem.length - (view h d fz).pre - (view h d fz).suf))
              = base + l.length - ((line + (view h d fz).pre).toNat + ((view h d fz).rem.length - (view h d fz).pre - (view h d fz).suf)) := by omega
          rw [this]; exact o3
        · simp only [List.length_append, List.length_take, hins]; omega
      | failed r =>
        simp only [coreEdits] at ho
        simp only [phase2, coreEdits, setRb]
        rw [ih rs P l base mo hrest ho hP]
      | skipped =>
        simp only [coreEdits] at ho
        simp only [phase2, coreEdits, setRb]
        rw [ih rs P l base mo hrest ho hP]

end RQ
