import RQ.Lemmas.Phase1
/-! Helper lemmas for C04: the inverse edits undo `applySpec`. -/
set_option linter.unusedSectionVars false
set_option linter.unusedVariables false
namespace RQ
variable {α : Type} [DecidableEq α]

/-! ## inverse edits -/

/-- the edits that undo `es` on `applySpec _ _ es`: `c` is the whole original, `shift` the running
difference between new and original coordinates -/
def invEdits (c : List α) : Int → List (Edit α) → List (Edit α)
  | _, [] => []
  | shift, e :: es =>
    { pos := ((e.pos : Int) + shift).toNat, del := e.ins.length, ins := (c.drop e.pos).take e.del }
      :: invEdits c (shift + e.ins.length - e.del) es

theorem invEdits_spec (c : List α) (es : List (Edit α)) :
    ∀ (base : Nat) (l : List α) (shift : Int) (base' : Nat),
      l = c.drop base → Ordered base l.length es → (base' : Int) = base + shift →
      Ordered base' (applySpec base l es).length (invEdits c shift es) ∧
      applySpec base' (applySpec base l es) (invEdits c shift es) = l := by
  induction es with
  | nil => intro base l shift base' _ _ _; simp [invEdits, applySpec, Ordered]
  | cons e es ih =>
    intro base l shift base' hl ho hb
    obtain ⟨h1, h2, h3⟩ := ho
    have hk : (l.take (e.pos - base)).length = e.pos - base := by
      simp only [List.length_take]; omega
    have hl' : l.drop (e.pos - base + e.del) = c.drop (e.pos + e.del) := by
      rw [hl, List.drop_drop]; congr 1; omega
    have ho' : Ordered (e.pos + e.del) (l.drop (e.pos - base + e.del)).length es := by
      simp only [List.length_drop]
      have : l.length - (e.pos - base + e.del) = base + l.length - (e.pos + e.del) := by omega
      rw [this]; exact h3
    have hpos : ((e.pos : Int) + shift).toNat = base' + (e.pos - base) := by omega
    obtain ⟨ih1, ih2⟩ := ih (e.pos + e.del) (l.drop (e.pos - base + e.del))
      (shift + e.ins.length - e.del) (base' + (e.pos - base) + e.ins.length) hl' ho' (by omega)
    have hins : (c.drop e.pos).take e.del = (l.drop (e.pos - base)).take e.del := by
      rw [hl, List.drop_drop]; congr 2; omega
    simp only [invEdits, applySpec, Ordered, hpos, hins]
    refine ⟨⟨by omega, ?_, ?_⟩, ?_⟩
    · simp only [List.length_append, hk]; omega
    · have : base' + (l.take (e.pos - base) ++ e.ins ++
          applySpec (e.pos + e.del) (l.drop (e.pos - base + e.del)) es).length
          - (base' + (e.pos - base) + e.ins.length)
          = (applySpec (e.pos + e.del) (l.drop (e.pos - base + e.del)) es).length := by
        simp only [List.length_append, hk]; omega
      rw [this]; exact ih1
    · have e1 : base' + (e.pos - base) - base' = e.pos - base := by omega
      rw [e1]
      have e2 : (l.take (e.pos - base) ++ e.ins ++
          applySpec (e.pos + e.del) (l.drop (e.pos - base + e.del)) es).take (e.pos - base)
          = l.take (e.pos - base) := by
        rw [List.append_assoc, List.take_append_of_le_length (by omega)]
        rw [List.take_of_length_le (by omega)]
      have e3 : (l.take (e.pos - base) ++ e.ins ++
          applySpec (e.pos + e.del) (l.drop (e.pos - base + e.del)) es).drop (e.pos - base + e.ins.length)
          = applySpec (e.pos + e.del) (l.drop (e.pos - base + e.del)) es := by
        have : e.pos - base + e.ins.length = (l.take (e.pos - base) ++ e.ins).length := by
          simp only [List.length_append, hk]
        rw [this, List.drop_left]
      rw [e2, e3, ih2]
      rw [List.append_assoc, ← List.drop_drop, List.take_append_drop, List.take_append_drop]

/-! ## the view in the opposite direction -/

@[simp] theorem view_opp_rem (h : Hunk α) (d : Dir) (f : Nat) : (view h d.opp f).rem = (view h d f).add := by
  cases d <;> rfl
@[simp] theorem view_opp_add (h : Hunk α) (d : Dir) (f : Nat) : (view h d.opp f).add = (view h d f).rem := by
  cases d <;> rfl
@[simp] theorem view_opp_pre (h : Hunk α) (d : Dir) (f : Nat) : (view h d.opp f).pre = (view h d f).pre := by
  cases d <;> rfl
@[simp] theorem view_opp_suf (h : Hunk α) (d : Dir) (f : Nat) : (view h d.opp f).suf = (view h d f).suf := by
  cases d <;> rfl
@[simp] theorem view_opp_remLine (h : Hunk α) (d : Dir) (f : Nat) :
    (view h d.opp f).remLine = (view h d f).addLine := by
  cases d <;> rfl
@[simp] theorem view_opp_addLine (h : Hunk α) (d : Dir) (f : Nat) :
    (view h d.opp f).addLine = (view h d f).remLine := by
  cases d <;> rfl

/-! ## what the first loop guarantees about the old side -/

/-- an applied hunk's old core is what stands in the original at its place (and the file exists) -/
def RepOld (c : List α) (deleted : Bool) (h : Hunk α) (d : Dir) : Rep → Prop
  | .applied line _ _ _ fz =>
    deleted = false ∧
    core (view h d fz).rem (view h d fz).pre (view h d fz).suf
      = (c.drop (line + (view h d fz).pre).toNat).take
          ((view h d fz).rem.length - (view h d fz).pre - (view h d fz).suf)
  | _ => True

def AllOld (c : List α) (deleted : Bool) (d : Dir) : List (Hunk α) → List Rep → Prop
  | h :: hs, r :: rs => RepOld c deleted h d r ∧ AllOld c deleted d hs rs
  | _, _ => True

theorem core_of_match {needle hay : List α} {p : Int} {pre suf : Nat}
    (h : matchesAt needle hay p = true) :
    core needle pre suf = (hay.drop (p + pre).toNat).take (needle.length - pre - suf) := by
  obtain ⟨h0, h1, h2⟩ := matchesAt_true h
  have hp : (p + (pre : Int)).toNat = p.toNat + pre := by omega
  rw [hp]
  have hlen : ((hay.drop p.toNat).take needle.length).length = needle.length := by
    simp only [List.length_take, List.length_drop]; omega
  have hc : core needle pre suf = core ((hay.drop p.toNat).take needle.length) pre suf := by rw [h2]
  rw [hc, core, hlen, List.drop_take, List.take_take, List.drop_drop]
  congr 1
  omega

theorem phase1_old (d : Dir) (F : Nat) (content : List α) (deleted : Bool) :
    ∀ (hs : List (Hunk α)) (lo lf : Int),
      AllOld content deleted d hs (phase1 d F content deleted hs lo lf) := by
  intro hs
  induction hs with
  | nil => intro _ _; simp [AllOld]
  | cons h hs ih =>
    intro lo lf
    simp only [phase1]
    split
    · rename_i r lo' lf' heq
      obtain ⟨line, rb, off, diff, fz, rfl, _, _, htry, _, _, _⟩ := levelLoop_some heq
      obtain ⟨hdel, hfp, _, _, _, _, _⟩ := tryApply_applied htry
      exact ⟨⟨hdel, core_of_match (findPlace_matches hfp)⟩, ih _ _⟩
    · rename_i r heq
      have := (levelLoop_none heq rfl).1
      refine ⟨?_, ih _ _⟩
      cases r <;> simp_all [RepOld, Rep.isApplied]

/-! ## the first loop in rollback mode -/

/-- the reports `rbPhase1` produces when every recorded place still matches -/
def rbReps (d : Dir) : List (Hunk α) → List Rep → List Rep
  | h :: hs, (.applied _ rb _ _ fz) :: rs =>
    .applied rb rb (rb - (view h d fz).remLine)
      (((view h d fz).add.length : Int) - (view h d fz).rem.length) fz :: rbReps d hs rs
  | _ :: hs, _ :: rs => .skipped :: rbReps d hs rs
  | _, _ => []

/-- the recorded rollback place of an applied report matches in `c` (and the file exists) -/
def RepRb (c : List α) (deleted : Bool) (h : Hunk α) (d : Dir) : Rep → Prop
  | .applied _ rb _ _ fz =>
    deleted = false ∧
    matchesAt (core (view h d fz).rem (view h d fz).pre (view h d fz).suf) c (rb + (view h d fz).pre) = true
  | _ => True

def AllRb (c : List α) (deleted : Bool) (d : Dir) : List (Hunk α) → List Rep → Prop
  | h :: hs, r :: rs => RepRb c deleted h d r ∧ AllRb c deleted d hs rs
  | _, _ => True

theorem rbPhase1_eq (d : Dir) (c : List α) (deleted : Bool) :
    ∀ (hs : List (Hunk α)) (reps : List Rep), AllRb c deleted d hs reps →
      rbPhase1 d c deleted hs reps = rbReps d hs reps := by
  intro hs
  induction hs with
  | nil => intro reps _; cases reps <;> simp [rbPhase1, rbReps]
  | cons h hs ih =>
    intro reps ha
    cases reps with
    | nil => simp [rbPhase1, rbReps]
    | cons r rs =>
      obtain ⟨h1, h2⟩ := ha
      cases r with
      | applied line rb off diff fz =>
        obtain ⟨hd, hm⟩ := h1
        subst hd
        simp only [rbPhase1, rbReps, tryRollback, hm, ih rs h2]
        simp [view_fuzz]
      | failed _ => simp only [rbPhase1, rbReps, ih rs h2]
      | skipped => simp only [rbPhase1, rbReps, ih rs h2]

theorem rbReps_fits (d : Dir) (c : List α) (deleted : Bool) :
    ∀ (hs : List (Hunk α)) (reps : List Rep), hs.length = reps.length → (∀ h ∈ hs, h.WFlen) →
      AllRb c deleted d hs reps → AllFit d hs (rbReps d hs reps) := by
  intro hs
  induction hs with
  | nil => intro reps hl _ _; cases reps <;> simp_all [rbReps, AllFit]
  | cons h hs ih =>
    intro reps hl hw ha
    cases reps with
    | nil => simp at hl
    | cons r rs =>
      obtain ⟨h1, h2⟩ := ha
      have hrest := ih rs (by simpa using hl) (fun x hx => hw x (by simp [hx])) h2
      cases r with
      | applied line rb off diff fz =>
        obtain ⟨hd, hm⟩ := h1
        have := (matchesAt_true hm).1
        exact ⟨⟨this, rfl, view_wf h d fz (hw h (by simp))⟩, hrest⟩
      | failed _ => exact ⟨trivial, hrest⟩
      | skipped => exact ⟨trivial, hrest⟩

theorem setRb_rbReps_ok (d : Dir) : ∀ (hs : List (Hunk α)) (reps : List Rep) (mo : Int),
    (setRb (rbReps d hs reps) mo).any Rep.isFailed = false := by
  intro hs
  induction hs with
  | nil => intro reps mo; cases reps <;> simp [rbReps, setRb]
  | cons h hs ih =>
    intro reps mo
    cases reps with
    | nil => simp [rbReps, setRb]
    | cons r rs => cases r <;> simp [rbReps, setRb, Rep.isFailed, ih]

theorem matchesAt_intro (A needle B : List α) (p : Int) (h0 : 0 ≤ p) (hp : p.toNat = A.length) :
    matchesAt needle (A ++ needle ++ B) p = true := by
  unfold matchesAt
  rw [if_neg (by omega), if_neg (by simp only [List.length_append]; omega)]
  rw [hp, List.append_assoc, List.drop_left, List.take_left]
  simp

/-- after the second loop, every applied hunk's new core stands at its recorded rollback line -/
theorem allRb_setRb (d : Dir) (deleted : Bool) (c : List α) :
    ∀ (hs : List (Hunk α)) (reps : List Rep) (P l : List α) (base : Nat) (mo : Int),
    AllFit d hs reps → AllOld c deleted d hs reps → Ordered base l.length (coreEdits d hs reps) →
    (P.length : Int) = base + mo →
    AllRb (P ++ applySpec base l (coreEdits d hs reps)) deleted d.opp hs (setRb reps mo) := by
  intro hs
  induction hs with
  | nil => intro reps P l base mo _ _ _ _; cases reps <;> simp [AllRb]
  | cons h hs ih =>
    intro reps P l base mo hf hold ho hP
    cases reps with
    | nil => simp [AllFit] at hf
    | cons r rs =>
      obtain ⟨hfit, hrest⟩ := hf
      obtain ⟨ho1, hold'⟩ := hold
      cases r with
      | applied line rb off diff fz =>
        obtain ⟨hnn, hdiff, hw1, hw2⟩ := hfit
        obtain ⟨hdel, _⟩ := ho1
        simp only [coreEdits, Ordered] at ho
        obtain ⟨o1, o2, o3⟩ := ho
        have hins : (core (view h d fz).add (view h d fz).pre (view h d fz).suf).length
            = (view h d fz).add.length - (view h d fz).pre - (view h d fz).suf := core_length _ _ _
        simp only [coreEdits, applySpec, setRb, AllRb, RepRb, view_opp_rem, view_opp_pre, view_opp_suf]
        have hassoc : P ++ (l.take ((line + (view h d fz).pre).toNat - base)
              ++ core (view h d fz).add (view h d fz).pre (view h d fz).suf
              ++ applySpec ((line + (view h d fz).pre).toNat + ((view h d fz).rem.length - (view h d fz).pre - (view h d fz).suf))
                  (l.drop ((line + (view h d fz).pre).toNat - base + ((view h d fz).rem.length - (view h d fz).pre - (view h d fz).suf)))
                  (coreEdits d hs rs))
            = (P ++ l.take ((line + (view h d fz).pre).toNat - base)
              ++ core (view h d fz).add (view h d fz).pre (view h d fz).suf)
              ++ applySpec ((line + (view h d fz).pre).toNat + ((view h d fz).rem.length - (view h d fz).pre - (view h d fz).suf))
                  (l.drop ((line + (view h d fz).pre).toNat - base + ((view h d fz).rem.length - (view h d fz).pre - (view h d fz).suf)))
                  (coreEdits d hs rs) := by
          simp only [List.append_assoc]
        rw [hassoc]
        refine ⟨⟨hdel, ?_⟩, ?_⟩
        · apply matchesAt_intro
          · omega
          · simp only [List.length_append, List.length_take]; omega
        · apply ih rs _ _ _ (mo + diff) hrest hold'
          · simp only [List.length_drop]
            have : l.length - ((line + (view h d fz).pre).toNat - base + ((view h d fz).rem.length - (view h d fz).pre - (view h d fz).suf))
                = base + l.length - ((line + (view h d fz).pre).toNat + ((view h d fz).rem.length - (view h d fz).pre - (view h d fz).suf)) := by omega
            rw [this]; exact o3
          · simp only [List.length_append, List.length_take, hins]; omega
      | failed r =>
        simp only [coreEdits] at ho
        simp only [coreEdits, setRb, AllRb, RepRb, true_and]
        exact ih rs P l base mo hrest hold' ho hP
      | skipped =>
        simp only [coreEdits] at ho
        simp only [coreEdits, setRb, AllRb, RepRb, true_and]
        exact ih rs P l base mo hrest hold' ho hP

/-- the core edits of the rollback are the inverse edits -/
theorem coreEdits_rbReps (d : Dir) (deleted : Bool) (c : List α) :
    ∀ (hs : List (Hunk α)) (reps : List Rep) (mo : Int),
    AllFit d hs reps → AllOld c deleted d hs reps →
    coreEdits d.opp hs (rbReps d.opp hs (setRb reps mo)) = invEdits c mo (coreEdits d hs reps) := by
  intro hs
  induction hs with
  | nil => intro reps mo _ _; cases reps <;> simp [coreEdits, invEdits]
  | cons h hs ih =>
    intro reps mo hf hold
    cases reps with
    | nil => simp [AllFit] at hf
    | cons r rs =>
      obtain ⟨hfit, hrest⟩ := hf
      obtain ⟨ho1, hold'⟩ := hold
      cases r with
      | applied line rb off diff fz =>
        obtain ⟨hnn, hdiff, hw1, hw2⟩ := hfit
        obtain ⟨hdel, hcore⟩ := ho1
        have hins : (core (view h d fz).add (view h d fz).pre (view h d fz).suf).length
            = (view h d fz).add.length - (view h d fz).pre - (view h d fz).suf := core_length _ _ _
        simp only [setRb, rbReps, coreEdits, invEdits, view_opp_rem, view_opp_add, view_opp_pre, view_opp_suf]
        have hmo : mo + diff = mo + ↑(core (view h d fz).add (view h d fz).pre (view h d fz).suf).length
            - ↑((view h d fz).rem.length - (view h d fz).pre - (view h d fz).suf) := by
          rw [hins]; omega
        rw [ih rs (mo + diff) hrest hold', hmo, hins, hcore]
        congr 2
        omega
      | failed r =>
        simp only [setRb, rbReps, coreEdits]
        exact ih rs mo hrest hold'
      | skipped =>
        simp only [setRb, rbReps, coreEdits]
        exact ih rs mo hrest hold'

theorem setRb_length : ∀ (rs : List Rep) (mo : Int), (setRb rs mo).length = rs.length := by
  intro rs; induction rs with
  | nil => intro; rfl
  | cons r rs ih => intro mo; cases r <;> simp [setRb, ih]

theorem coreEdits_setRb' (d : Dir) : ∀ (hs : List (Hunk α)) (reps : List Rep) (mo : Int),
    coreEdits d hs (setRb reps mo) = coreEdits d hs reps := by
  intro hs
  induction hs with
  | nil => intro reps mo; cases reps with
    | nil => rfl
    | cons r rs => cases r <;> simp [coreEdits]
  | cons h hs ih =>
    intro reps mo
    cases reps with
    | nil => rfl
    | cons r rs => cases r <;> simp [setRb, coreEdits, ih]

/-- `apply_modify` in normal mode, spelled out -/
theorem applyModify_normal (hs : List (Hunk α)) (d : Dir) (F : Nat) (f : FileSt α)
    (hw : ∀ h ∈ hs, h.WFlen) :
    applyModify hs d F .normal f
      = some ({ f with content := applySpec 0 f.content (coreEdits d hs (phase1 d F f.content f.deleted hs 0 (-1))) },
              { reps := setRb (phase1 d F f.content f.deleted hs 0 (-1)) 0, dir := d, fuzz := F }) := by
  have hfit := phase1_fits d F f.content f.deleted hs 0 (-1) hw
  have hord := phase1_ordered d F f.content f.deleted hs 0 (-1) 0 hw (by omega) (by omega)
  have h2 := phase2_eq d hs _ [] f.content 0 0 hfit (by simpa using hord) (by simp)
  simp only [List.nil_append] at h2
  simp only [applyModify, h2]

/-- **rollback of `apply_modify`**: on the content produced by a normal application, with the reports
of that application, `apply_modify` in rollback mode and opposite direction does not panic, gives back
the original content and reports no failure -/
theorem rollback_modify (hs : List (Hunk α)) (d : Dir) (F F' : Nat) (f g : FileSt α) (prev : Report)
    (hw : ∀ h ∈ hs, h.WFlen)
    (hc : g.content = applySpec 0 f.content (coreEdits d hs (phase1 d F f.content f.deleted hs 0 (-1))))
    (hd : g.deleted = f.deleted)
    (hp : prev.reps = setRb (phase1 d F f.content f.deleted hs 0 (-1)) 0) :
    ∃ rr, applyModify hs d.opp F' (.rollback prev) g
        = some ({ g with content := f.content }, { reps := rr, dir := d.opp, fuzz := F' }) ∧
      rr.any Rep.isFailed = false := by
  have hfit := phase1_fits d F f.content f.deleted hs 0 (-1) hw
  have hold := phase1_old d F f.content f.deleted hs 0 (-1)
  have hord0 := phase1_ordered d F f.content f.deleted hs 0 (-1) 0 hw (by omega) (by omega)
  have hord : Ordered 0 f.content.length (coreEdits d hs (phase1 d F f.content f.deleted hs 0 (-1))) := by
    simpa using hord0
  have hrb := allRb_setRb d f.deleted f.content hs _ [] f.content 0 0 hfit hold hord (by simp)
  simp only [List.nil_append] at hrb
  rw [← hp, ← hc, ← hd] at hrb
  have hlen : hs.length = prev.reps.length := by rw [hp, setRb_length, phase1_length]
  have hfit' := rbReps_fits d.opp g.content g.deleted hs prev.reps hlen hw hrb
  have hce : coreEdits d.opp hs (rbReps d.opp hs prev.reps)
      = invEdits f.content 0 (coreEdits d hs (phase1 d F f.content f.deleted hs 0 (-1))) := by
    rw [hp]; exact coreEdits_rbReps d f.deleted f.content hs _ 0 hfit hold
  obtain ⟨hi1, hi2⟩ := invEdits_spec f.content _ 0 f.content 0 0 (by simp) hord (by simp)
  rw [← hc] at hi1 hi2
  rw [← hce] at hi1 hi2
  have h2 := phase2_eq d.opp hs (rbReps d.opp hs prev.reps) [] g.content 0 0 hfit' hi1 (by simp)
  simp only [List.nil_append] at h2
  refine ⟨setRb (rbReps d.opp hs prev.reps) 0, ?_, setRb_rbReps_ok _ _ _ _⟩
  simp only [applyModify, rbPhase1_eq d.opp g.content g.deleted hs prev.reps hrb, h2, hi2]

#print axioms rollback_modify
end RQ
