import RQ.Lemmas.RoundTripLine
/-! C12 layer 2: `parseHunk` inverts `writeHunk` up to the context counts. -/
namespace RQ.Write
open RQ RQ.Parse

/-! ### `findClosestMatch` returns either "no match" or the position of a pair of equal lines -/

theorem fcmInner_spec (a b : List Bytes) (i : Nat) : ∀ fuel j x y, fcmInner a b i fuel j = some (x, y) →
    x < a.length ∧ y < b.length ∧ a[x]? = b[y]? := by
  intro fuel
  induction fuel with
  | zero => intro j x y h; simp [fcmInner] at h
  | succ f ih =>
    intro j x y h
    unfold fcmInner at h
    split at h
    · cases h
    · split at h
      · rename_i h1 h2
        simp only [Option.some.injEq, Prod.mk.injEq] at h
        obtain ⟨rfl, rfl⟩ := h
        simp only [Bool.and_eq_true, decide_eq_true_eq, beq_iff_eq] at h2
        refine ⟨?_, h2.1, h2.2⟩
        have : ¬ j ≥ min (i + 1) a.length := h1
        omega
      · exact ih _ _ _ h

theorem fcmOuter_spec (a b : List Bytes) : ∀ fuel i x y, fcmOuter a b fuel i = (x, y) →
    (x = a.length ∧ y = b.length) ∨ (x < a.length ∧ y < b.length ∧ a[x]? = b[y]?) := by
  intro fuel
  induction fuel with
  | zero => intro i x y h; simp [fcmOuter] at h; left; omega
  | succ f ih =>
    intro i x y h
    unfold fcmOuter at h
    split at h
    · simp at h; left; omega
    · split at h
      · rename_i r hr
        subst h
        right
        exact fcmInner_spec a b i _ _ _ _ hr
      · exact ih _ _ _ h

theorem findClosestMatch_spec (a b : List Bytes) (x y : Nat) (h : findClosestMatch a b = (x, y)) :
    (x = a.length ∧ y = b.length) ∨ (x < a.length ∧ y < b.length ∧ a[x]? = b[y]?) :=
  fcmOuter_spec a b _ _ _ _ h

theorem split_at_index (l : List Bytes) (i : Nat) (h : i < l.length) :
    l = l.take i ++ l[i] :: l.drop (i + 1) := by
  have := List.take_append_drop i l
  rw [List.drop_eq_getElem_cons h] at this
  exact this.symm

abbrev flatLines (tag : UInt8) (ls : List Bytes) : Bytes := (ls.map (writeLine tag)).flatten

theorem writeBody_nil (k : Nat) : writeBody k [] [] = [] := by
  cases k <;> simp [writeBody]

theorem writeBody_succ (k : Nat) (add rem : List Bytes) : writeBody (k+1) add rem =
    if add.isEmpty && rem.isEmpty then [] else
    let (ac, rc) := findClosestMatch add rem
    let minus := ((rem.take rc).map (writeLine 45)).flatten
    let plus := ((add.take ac).map (writeLine 43)).flatten
    let add' := add.drop ac
    let rem' := rem.drop rc
    match add', rem' with
    | _ :: at_, r :: rt => minus ++ plus ++ writeLine 32 r ++ writeBody k at_ rt
    | _, _ => minus ++ plus ++ writeBody k add' rem' := by
  rfl

theorem writeBody_step (k : Nat) (add rem : List Bytes) (hne : ¬ (add = [] ∧ rem = [])) :
    (writeBody (k+1) add rem = flatLines 45 rem ++ flatLines 43 add) ∨
    (∃ a1 x a2 r1 r2, add = a1 ++ x :: a2 ∧ rem = r1 ++ x :: r2 ∧
      writeBody (k+1) add rem = flatLines 45 r1 ++ flatLines 43 a1 ++ writeLine 32 x ++ writeBody k a2 r2) := by
  have hemp : (add.isEmpty && rem.isEmpty) = false := by
    cases add <;> cases rem <;> simp at hne ⊢
  rw [writeBody_succ]
  simp only [hemp]
  cases hf : findClosestMatch add rem with
  | mk ac rc =>
    rcases findClosestMatch_spec add rem ac rc hf with ⟨h1, h2⟩ | ⟨h1, h2, h3⟩
    · left
      subst h1 h2
      simp [writeBody_nil, flatLines]
    · right
      have ea := split_at_index add ac h1
      have er := split_at_index rem rc h2
      have hx : add[ac] = rem[rc] := by
        rw [List.getElem?_eq_getElem h1, List.getElem?_eq_getElem h2] at h3
        exact Option.some.inj h3
      refine ⟨add.take ac, add[ac], add.drop (ac+1), rem.take rc, rem.drop (rc+1), ea, by rw [hx]; exact er, ?_⟩
      simp only [Bool.false_eq_true, if_false]
      rw [List.drop_eq_getElem_cons h1, List.drop_eq_getElem_cons h2]
      simp [flatLines, hx]



/-! ### `hunkLoop` reads the body back -/

/-- `h'` extends `h` by the lines `r` / `a`; everything else but the context counts is unchanged -/
def Ext (h h' : PHunk) (r a : List Bytes) : Prop :=
  h'.rem = h.rem ++ r ∧ h'.add = h.add ++ a ∧ h'.remLine = h.remLine ∧ h'.addLine = h.addLine ∧ h'.func = h.func

theorem Ext_refl (h : PHunk) : Ext h h [] [] := by simp [Ext]

theorem Ext_trans {h1 h2 h3 : PHunk} {r1 a1 r2 a2 : List Bytes} (h12 : Ext h1 h2 r1 a1) (h23 : Ext h2 h3 r2 a2) :
    Ext h1 h3 (r1 ++ r2) (a1 ++ a2) := by
  obtain ⟨p1, p2, p3, p4, p5⟩ := h12
  obtain ⟨q1, q2, q3, q4, q5⟩ := h23
  refine ⟨?_, ?_, ?_, ?_, ?_⟩
  · rw [q1, p1, List.append_assoc]
  · rw [q2, p2, List.append_assoc]
  · rw [q3, p3]
  · rw [q4, p4]
  · rw [q5, p5]

theorem hunkLoop_succ (f : Nat) (inp : Bytes) (ac rc : Nat) (h : PHunk) (nonctx : Bool) :
    hunkLoop (f+1) inp ac rc h nonctx =
    if ac == 0 && rc == 0 then .ok (inp, h) else
    match parseHunkLine inp with
    | .error e => .error e
    | .ok (inp', (t, line)) =>
      match t with
      | .add => if ac == 0 then .error .badLineInHunk else
          hunkLoop f inp' (ac-1) rc { h with add := h.add ++ [line], suf := 0 } true
      | .rem => if rc == 0 then .error .badLineInHunk else
          hunkLoop f inp' ac (rc-1) { h with rem := h.rem ++ [line], suf := 0 } true
      | .ctx => if rc == 0 || ac == 0 then .error .badLineInHunk else
          let h' := { h with add := h.add ++ [line], rem := h.rem ++ [line] }
          let h'' := if !nonctx then { h' with pre := h'.pre + 1 } else { h' with suf := h'.suf + 1 }
          hunkLoop f inp' (ac-1) (rc-1) h'' nonctx := by
  rfl

theorem hunkLoop_rem_step (f : Nat) (c rest : Bytes) (ac rc : Nat) (h : PHunk) (nc : Bool)
    (hc : LineOK c) (hr : No92 rest) :
    hunkLoop (f+1) (writeLine 45 c ++ rest) ac (rc+1) h nc =
      hunkLoop f rest ac rc { h with rem := h.rem ++ [c], suf := 0 } true := by
  rw [hunkLoop_succ]
  have := parseHunkLine_writeLine .rem c rest hc hr
  simp only [tagByte] at this
  simp [this]

theorem hunkLoop_add_step (f : Nat) (c rest : Bytes) (ac rc : Nat) (h : PHunk) (nc : Bool)
    (hc : LineOK c) (hr : No92 rest) :
    hunkLoop (f+1) (writeLine 43 c ++ rest) (ac+1) rc h nc =
      hunkLoop f rest ac rc { h with add := h.add ++ [c], suf := 0 } true := by
  rw [hunkLoop_succ]
  have := parseHunkLine_writeLine .add c rest hc hr
  simp only [tagByte] at this
  simp [this]

theorem hunkLoop_ctx_step (f : Nat) (c rest : Bytes) (ac rc : Nat) (h : PHunk) (nc : Bool)
    (hc : LineOK c) (hr : No92 rest) :
    ∃ h', hunkLoop (f+1) (writeLine 32 c ++ rest) (ac+1) (rc+1) h nc = hunkLoop f rest ac rc h' nc ∧
      Ext h h' [c] [c] := by
  rw [hunkLoop_succ]
  have := parseHunkLine_writeLine .ctx c rest hc hr
  simp only [tagByte] at this
  cases nc
  · exact ⟨_, by simp [this]; rfl, by simp [Ext]⟩
  · exact ⟨_, by simp [this]; rfl, by simp [Ext]⟩

theorem No92_writeLine (tag : UInt8) (c x : Bytes) (ht : tag ≠ 92) : No92 (writeLine tag c ++ x) := by
  intro r' e
  simp [writeLine] at e
  exact ht e.1

theorem No92_flat (tag : UInt8) (ls : List Bytes) (x : Bytes) (ht : tag ≠ 92) (hx : No92 x) :
    No92 (flatLines tag ls ++ x) := by
  cases ls with
  | nil => simpa [flatLines] using hx
  | cons c ls =>
    simp only [flatLines, List.map_cons, List.flatten_cons, List.append_assoc]
    exact No92_writeLine tag c _ ht

theorem hunkLoop_rem_lines : ∀ (ls : List Bytes) (f ac rc : Nat) (h : PHunk) (nc : Bool) (rest : Bytes),
    (∀ l ∈ ls, LineOK l) → No92 rest →
    ∃ h' nc', hunkLoop (f + ls.length) (flatLines 45 ls ++ rest) ac (rc + ls.length) h nc = hunkLoop f rest ac rc h' nc' ∧
      Ext h h' ls [] := by
  intro ls
  induction ls with
  | nil => intro f ac rc h nc rest _ _; exact ⟨h, nc, by simp [flatLines], Ext_refl h⟩
  | cons c ls ih =>
    intro f ac rc h nc rest hl hr
    have hc : LineOK c := hl c (by simp)
    have hls : ∀ l ∈ ls, LineOK l := fun l hl' => hl l (by simp [hl'])
    have e1 : flatLines 45 (c :: ls) ++ rest = writeLine 45 c ++ (flatLines 45 ls ++ rest) := by
      simp [flatLines]
    have e2 : f + (c :: ls).length = (f + ls.length) + 1 := by simp only [List.length_cons]; omega
    have e3 : rc + (c :: ls).length = (rc + ls.length) + 1 := by simp only [List.length_cons]; omega
    rw [e1, e2, e3, hunkLoop_rem_step _ _ _ _ _ _ _ hc (No92_flat 45 ls rest (by decide) hr)]
    obtain ⟨h', nc', hh, hx⟩ := ih f ac rc { h with rem := h.rem ++ [c], suf := 0 } true rest hls hr
    refine ⟨h', nc', hh, ?_⟩
    have h0 : Ext h { h with rem := h.rem ++ [c], suf := 0 } [c] [] := by simp [Ext]
    simpa using Ext_trans h0 hx

theorem hunkLoop_add_lines : ∀ (ls : List Bytes) (f ac rc : Nat) (h : PHunk) (nc : Bool) (rest : Bytes),
    (∀ l ∈ ls, LineOK l) → No92 rest →
    ∃ h' nc', hunkLoop (f + ls.length) (flatLines 43 ls ++ rest) (ac + ls.length) rc h nc = hunkLoop f rest ac rc h' nc' ∧
      Ext h h' [] ls := by
  intro ls
  induction ls with
  | nil => intro f ac rc h nc rest _ _; exact ⟨h, nc, by simp [flatLines], Ext_refl h⟩
  | cons c ls ih =>
    intro f ac rc h nc rest hl hr
    have hc : LineOK c := hl c (by simp)
    have hls : ∀ l ∈ ls, LineOK l := fun l hl' => hl l (by simp [hl'])
    have e1 : flatLines 43 (c :: ls) ++ rest = writeLine 43 c ++ (flatLines 43 ls ++ rest) := by
      simp [flatLines]
    have e2 : f + (c :: ls).length = (f + ls.length) + 1 := by simp only [List.length_cons]; omega
    have e3 : ac + (c :: ls).length = (ac + ls.length) + 1 := by simp only [List.length_cons]; omega
    rw [e1, e2, e3, hunkLoop_add_step _ _ _ _ _ _ _ hc (No92_flat 43 ls rest (by decide) hr)]
    obtain ⟨h', nc', hh, hx⟩ := ih f ac rc { h with add := h.add ++ [c], suf := 0 } true rest hls hr
    refine ⟨h', nc', hh, ?_⟩
    have h0 : Ext h { h with add := h.add ++ [c], suf := 0 } [] [c] := by simp [Ext]
    simpa using Ext_trans h0 hx

theorem writeLine_length (tag : UInt8) (c : Bytes) : 1 ≤ (writeLine tag c).length := by
  simp [writeLine]

theorem flatLines_length (tag : UInt8) (ls : List Bytes) : ls.length ≤ (flatLines tag ls).length := by
  induction ls with
  | nil => simp
  | cons c ls ih =>
    have := writeLine_length tag c
    simp only [flatLines, List.map_cons, List.flatten_cons, List.length_append, List.length_cons] at ih ⊢
    omega

theorem No92_writeBody (k : Nat) (add rem : List Bytes) (rest : Bytes) (hr : No92 rest) :
    No92 (writeBody k add rem ++ rest) := by
  cases k with
  | zero => simpa [writeBody] using hr
  | succ k =>
    by_cases hne : add = [] ∧ rem = []
    · obtain ⟨rfl, rfl⟩ := hne
      simpa [writeBody_nil] using hr
    · rcases writeBody_step k add rem hne with e | ⟨a1, x, a2, r1, r2, _, _, e⟩
      · rw [e, List.append_assoc]
        exact No92_flat 45 _ _ (by decide) (No92_flat 43 _ _ (by decide) hr)
      · rw [e]; simp only [List.append_assoc]
        exact No92_flat 45 _ _ (by decide) (No92_flat 43 _ _ (by decide) (No92_writeLine 32 _ _ (by decide)))

theorem hunkLoop_done (f : Nat) (inp : Bytes) (h : PHunk) (nc : Bool) (hf : 0 < f) :
    hunkLoop f inp 0 0 h nc = .ok (inp, h) := by
  obtain ⟨f', rfl⟩ : ∃ f', f = f' + 1 := ⟨f - 1, by omega⟩
  rw [hunkLoop_succ]; simp

theorem hunkLoop_body : ∀ (k : Nat) (add rem : List Bytes), (∀ l ∈ add, LineOK l) → (∀ l ∈ rem, LineOK l) →
    add.length + rem.length < k → ∀ (rest : Bytes), No92 rest → ∀ (f : Nat) (h : PHunk) (nc : Bool),
    (writeBody k add rem).length < f →
    ∃ h', hunkLoop f (writeBody k add rem ++ rest) add.length rem.length h nc = .ok (rest, h') ∧ Ext h h' rem add := by
  intro k
  induction k with
  | zero => intro add rem _ _ hk; omega
  | succ k ih =>
    intro add rem ha hr hk rest hrest f h nc hf
    by_cases hne : add = [] ∧ rem = []
    · obtain ⟨rfl, rfl⟩ := hne
      refine ⟨h, ?_, Ext_refl h⟩
      rw [writeBody_nil]
      exact hunkLoop_done f _ h nc (by omega)
    · rcases writeBody_step k add rem hne with e | ⟨a1, x, a2, r1, r2, ea, er, e⟩
      · rw [e] at hf ⊢
        have l1 := flatLines_length 45 rem
        have l2 := flatLines_length 43 add
        simp only [List.length_append] at hf
        obtain ⟨f0, rfl⟩ : ∃ f0, f = (f0 + 1 + add.length) + rem.length := ⟨f - 1 - add.length - rem.length, by omega⟩
        rw [List.append_assoc]
        obtain ⟨h1, nc1, e1, x1⟩ := hunkLoop_rem_lines rem (f0 + 1 + add.length) add.length 0 h nc
          (flatLines 43 add ++ rest) hr (No92_flat 43 _ _ (by decide) hrest)
        rw [Nat.zero_add] at e1
        rw [e1]
        obtain ⟨h2, nc2, e2, x2⟩ := hunkLoop_add_lines add (f0 + 1) 0 0 h1 nc1 rest ha hrest
        rw [Nat.zero_add] at e2
        rw [e2, hunkLoop_done _ _ _ _ (by omega)]
        exact ⟨h2, rfl, by simpa using Ext_trans x1 x2⟩
      · subst ea er
        rw [e] at hf ⊢
        have l1 := flatLines_length 45 r1
        have l2 := flatLines_length 43 a1
        have l3 := writeLine_length 32 x
        simp only [List.length_append] at hf
        have hk' : a2.length + r2.length < k := by simp at hk; omega
        obtain ⟨f0, rfl⟩ : ∃ f0, f = ((f0 + 1) + a1.length) + r1.length :=
          ⟨f - 1 - a1.length - r1.length, by omega⟩
        have hf0 : (writeBody k a2 r2).length < f0 := by omega
        have ha1 : ∀ l ∈ a1, LineOK l := fun l hl => ha l (by simp [hl])
        have ha2 : ∀ l ∈ a2, LineOK l := fun l hl => ha l (by simp [hl])
        have hr1 : ∀ l ∈ r1, LineOK l := fun l hl => hr l (by simp [hl])
        have hr2 : ∀ l ∈ r2, LineOK l := fun l hl => hr l (by simp [hl])
        have hx : LineOK x := ha x (by simp)
        have n3 : No92 (writeBody k a2 r2 ++ rest) := No92_writeBody k a2 r2 rest hrest
        have n2 : No92 (writeLine 32 x ++ (writeBody k a2 r2 ++ rest)) := No92_writeLine 32 _ _ (by decide)
        have n1 : No92 (flatLines 43 a1 ++ (writeLine 32 x ++ (writeBody k a2 r2 ++ rest))) :=
          No92_flat 43 _ _ (by decide) n2
        simp only [List.append_assoc]
        have ec1 : (r1 ++ x :: r2).length = (r2.length + 1) + r1.length := by simp; omega
        have ec2 : (a1 ++ x :: a2).length = (a2.length + 1) + a1.length := by simp; omega
        rw [ec1, ec2]
        obtain ⟨h1, nc1, e1, x1⟩ := hunkLoop_rem_lines r1 (f0 + 1 + a1.length) (a2.length + 1 + a1.length) (r2.length + 1) h nc _ hr1 n1
        rw [e1]
        obtain ⟨h2, nc2, e2, x2⟩ := hunkLoop_add_lines a1 (f0 + 1) (a2.length + 1) (r2.length + 1) h1 nc1 _ ha1 n2
        rw [e2]
        obtain ⟨h3, e3, x3⟩ := hunkLoop_ctx_step f0 x _ a2.length r2.length h2 nc2 hx n3
        rw [e3]
        obtain ⟨h4, e4, x4⟩ := ih a2 r2 ha2 hr2 hk' rest hrest f0 h3 nc2 hf0
        refine ⟨h4, e4, ?_⟩
        have := Ext_trans (Ext_trans (Ext_trans x1 x2) x3) x4
        simpa using this

/-! ### the hunk header -/

theorem stripPrefix_append (p x : Bytes) : stripPrefix p (p ++ x) = some x := by
  induction p with
  | nil => cases x <;> rfl
  | cons a p ih => simp [stripPrefix, ih]

theorem Stops_append_of (pred : UInt8 → Bool) (p x : Bytes) (b : UInt8) (t : Bytes) (hp : p = b :: t)
    (hb : pred b = true) : Stops pred (p ++ x) := by
  subst hp; exact Stops_cons _ _ _ hb

/-- what the parser guarantees about a hunk (and what the round trip needs) -/
structure HunkOK (h : PHunk) : Prop where
  remOK : ∀ l ∈ h.rem, LineOK l
  addOK : ∀ l ∈ h.add, LineOK l
  remLine0 : 0 ≤ h.remLine
  addLine0 : 0 ≤ h.addLine
  remLineB : (if h.rem.length = 0 then h.remLine else h.remLine + 1) ≤ 2^63 - 1
  addLineB : (if h.add.length = 0 then h.addLine else h.addLine + 1) ≤ 2^63 - 1
  remLen : h.rem.length < 2^64
  addLen : h.add.length < 2^64
  funcOK : NLfree h.func

theorem parseLineAndCount_written (l c : Nat) (rest : Bytes) (hl : l ≤ 2^63 - 1) (hc : c < 2^64)
    (hr : Stops (fun c => !isDigit c) rest) :
    parseLineAndCount (natDec l ++ 44 :: (natDec c ++ rest)) = .ok (rest, (l, c)) := by
  unfold parseLineAndCount
  rw [parseNumber_natDec l _ (by omega) (Stops_cons _ _ _ (by decide))]
  have : ¬ l > 2^63 - 1 := by omega
  simp only [bind, Except.bind, this, if_false]
  rw [parseNumber_natDec c _ hc hr]
  rfl

theorem startLine_written (x : Int) (n : Nat) (hx : 0 ≤ x) :
    startLine (if n = 0 then x else x + 1).toNat n = x := by
  unfold startLine
  by_cases hn : n = 0
  · simp [hn]; omega
  · simp [hn]; omega

theorem parseHunkHeader_written (h : PHunk) (rest : Bytes) (ok : HunkOK h) :
    parseHunkHeader (writeHunkHeader h ++ 10 :: rest) =
      .ok (rest, { addLine := (if h.add.length = 0 then h.addLine else h.addLine + 1).toNat, addCount := h.add.length,
                   remLine := (if h.rem.length = 0 then h.remLine else h.remLine + 1).toNat, remCount := h.rem.length,
                   func := h.func }) := by
  have hrl : (0:Int) ≤ (if h.rem.length = 0 then h.remLine else h.remLine + 1) := by
    have := ok.remLine0; split <;> omega
  have hal : (0:Int) ≤ (if h.add.length = 0 then h.addLine else h.addLine + 1) := by
    have := ok.addLine0; split <;> omega
  have hrb : (if h.rem.length = 0 then h.remLine else h.remLine + 1).toNat ≤ 2^63 - 1 := by
    have := ok.remLineB; omega
  have hab : (if h.add.length = 0 then h.addLine else h.addLine + 1).toNat ≤ 2^63 - 1 := by
    have := ok.addLineB; omega
  generalize hRL : (if h.rem.length = 0 then h.remLine else h.remLine + 1) = RL at *
  generalize hAL : (if h.add.length = 0 then h.addLine else h.addLine + 1) = AL at *
  have e : writeHunkHeader h ++ 10 :: rest =
      sHunkStart ++ (natDec RL.toNat ++ 44 :: (natDec h.rem.length ++ (sSpacePlus ++ (natDec AL.toNat ++ 44 ::
        (natDec h.add.length ++ (sSpaceAt ++ (64 :: ((if h.func.isEmpty then [] else 32 :: h.func) ++ 10 :: rest)))))))) := by
    simp only [writeHunkHeader, hRL, hAL, intDec_nonneg _ hrl, intDec_nonneg _ hal, sSpaceAt]
    simp only [List.append_assoc, List.cons_append, List.nil_append]
  rw [e]
  unfold parseHunkHeader
  rw [stripPrefix_append]
  simp only []
  rw [parseLineAndCount_written _ _ _ hrb ok.remLen (Stops_append_of _ sSpacePlus _ 32 [43] rfl (by decide))]
  simp only []
  rw [stripPrefix_append]
  simp only []
  rw [parseLineAndCount_written _ _ _ hab ok.addLen (Stops_append_of _ sSpaceAt _ 32 [64] rfl (by decide))]
  simp only []
  rw [stripPrefix_append]
  simp only []
  cases hf : h.func with
  | nil => simp [stripPrefix, sAtSpace, takeLineIncl, NL]
  | cons b fs =>
    have hnl : NLfree (b :: fs) := hf ▸ ok.funcOK
    simp only [List.isEmpty_cons, Bool.false_eq_true, if_false]
    have : stripPrefix sAtSpace (64 :: (32 :: b :: fs ++ 10 :: rest)) = some (b :: fs ++ 10 :: rest) := by
      simp [stripPrefix, sAtSpace]
    rw [this]
    simp only []
    rw [takeLineSkip_body _ _ hnl]

theorem parseHunk_writeHunk (h : PHunk) (rest : Bytes) (ok : HunkOK h) (hr : No92 rest) :
    ∃ h', parseHunk (writeHunk h ++ rest) = .ok (rest, h') ∧ sameHunk h h' := by
  have e : writeHunk h ++ rest = writeHunkHeader h ++ 10 :: (writeBody (h.add.length + h.rem.length + 1) h.add h.rem ++ rest) := by
    simp [writeHunk]
  rw [e]
  unfold parseHunk
  rw [parseHunkHeader_written h _ ok]
  simp only []
  obtain ⟨h', e', x⟩ := hunkLoop_body (h.add.length + h.rem.length + 1) h.add h.rem ok.addOK ok.remOK (by omega) rest hr
    ((writeBody (h.add.length + h.rem.length + 1) h.add h.rem ++ rest).length + 2)
    { rem := [], add := [], remLine := startLine (if h.rem.length = 0 then h.remLine else h.remLine + 1).toNat h.rem.length,
      addLine := startLine (if h.add.length = 0 then h.addLine else h.addLine + 1).toNat h.add.length,
      pre := 0, suf := 0, func := h.func } false (by simp; omega)
  refine ⟨h', e', ?_⟩
  obtain ⟨x1, x2, x3, x4, x5⟩ := x
  simp only [List.nil_append] at x1 x2
  rw [startLine_written _ _ ok.remLine0] at x3
  rw [startLine_written _ _ ok.addLine0] at x4
  exact ⟨x1.symm, x2.symm, x3.symm, x4.symm, x5.symm⟩

/-! ### a sequence of hunks -/

theorem parseHunk_noMatch (inp : Bytes) (h : stripPrefix sHunkStart inp = none) : parseHunk inp = .error .noMatch := by
  unfold parseHunk parseHunkHeader
  rw [h]

theorem writeHunk_head (h : PHunk) (x : Bytes) : ∃ t, writeHunk h ++ x = 64 :: t := by
  simp [writeHunk, writeHunkHeader, sHunkStart]

theorem No92_writeHunks (hs : List PHunk) (next : Bytes) (hn : No92 next) :
    No92 ((hs.map writeHunk).flatten ++ next) := by
  cases hs with
  | nil => simpa using hn
  | cons h hs =>
    simp only [List.map_cons, List.flatten_cons, List.append_assoc]
    obtain ⟨t, e⟩ := writeHunk_head h ((List.map writeHunk hs).flatten ++ next)
    rw [e]
    intro r' e'
    cases e'

theorem hunksLoop_succ (f : Nat) (inp : Bytes) (acc : List PHunk) : hunksLoop (f+1) inp acc =
    match parseHunk inp with
    | .ok (r, h) => hunksLoop f r (acc ++ [h])
    | .error .noMatch => .ok (inp, acc)
    | .error e => .error e := by
  rfl

theorem hunksLoop_written : ∀ (hs : List PHunk) (f : Nat) (next : Bytes) (acc : List PHunk),
    (∀ h ∈ hs, HunkOK h) → No92 next → stripPrefix sHunkStart next = none → hs.length < f →
    ∃ hs', hunksLoop f ((hs.map writeHunk).flatten ++ next) acc = .ok (next, acc ++ hs') ∧ sameHunks hs hs' := by
  intro hs
  induction hs with
  | nil =>
    intro f next acc _ _ hnm hf
    obtain ⟨f', rfl⟩ : ∃ f', f = f' + 1 := ⟨f - 1, by simp at hf; omega⟩
    refine ⟨[], ?_, by simp [sameHunks]⟩
    rw [hunksLoop_succ]
    simp [parseHunk_noMatch next hnm]
  | cons h hs ih =>
    intro f next acc hok hn hnm hf
    obtain ⟨f', rfl⟩ : ∃ f', f = f' + 1 := ⟨f - 1, by simp at hf; omega⟩
    have hok1 : HunkOK h := hok h (by simp)
    have hok2 : ∀ h' ∈ hs, HunkOK h' := fun h' hh => hok h' (by simp [hh])
    simp only [List.map_cons, List.flatten_cons, List.append_assoc]
    obtain ⟨h', e', sh⟩ := parseHunk_writeHunk h ((hs.map writeHunk).flatten ++ next) hok1 (No92_writeHunks hs next hn)
    rw [hunksLoop_succ, e']
    simp only []
    obtain ⟨hs', e2, sh2⟩ := ih f' next (acc ++ [h']) hok2 hn hnm (by simp at hf; omega)
    refine ⟨h' :: hs', ?_, ?_⟩
    · rw [e2]; simp
    · exact ⟨sh, sh2⟩

theorem writeHunks_length (hs : List PHunk) : hs.length ≤ ((hs.map writeHunk).flatten).length := by
  induction hs with
  | nil => simp
  | cons h hs ih =>
    have : 1 ≤ (writeHunk h).length := by simp [writeHunk, writeHunkHeader, sHunkStart]
    simp only [List.map_cons, List.flatten_cons, List.length_append, List.length_cons]
    omega

end RQ.Write
