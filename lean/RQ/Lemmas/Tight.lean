import RQ.Lemmas.Compose
/-!
# Tight trees: outside `.pc`, the directories are exactly the ancestors of the regular files

`Compose.OutsidePc a b` compares two trees node by node (directories included).  The theorems that relate the disk the
driver model leaves to the specification (`C05_tree_on_disk`, `C05_disk_is_oracle`) speak about *regular files* only
(`Flush.fileAt`).  For trees in which — outside `.pc` — every directory has a regular file somewhere below it and
every node's parents are directories, the files determine the directories, so agreement on files is agreement on
nodes (`outsidePc_of_fileAt`).  Both the specification (`storeTree`: `createDirAll` before a creation, `pruneUp` after
a removal) and the driver (`saveModifiedFile`: `createDirAll`; `cleanAll` climbing from the parents of removed files)
keep trees tight; that is what `RQ/Lemmas/TightSpec.lean` and `RQ/Lemmas/TightSave.lean` prove.

The hypothesis `Full` on the *starting* tree is necessary: with an empty directory `e` in the starting tree, a push
that creates `e/f/x` and deletes it again in the same invocation leaves `e` alone (nothing is ever written), while
two invocations remove it (known finding `empty-dir-kept`, shown on the real binary).
-/
namespace RQ.Tight
open RQ RQ.Push RQ.Spec RQ.Flush RQ.Agree RQ.Compose

/-- outside `.pc`, the parents of every node are directories -/
def WFo (fs : FS) : Prop :=
  ∀ k, ¬ isPcKey k → ∀ n, fs.lookup k = some n → ∀ i, 0 < i → i < k.length → fs.lookup (k.take i) = some .dir

/-- outside `.pc`, every directory holds a regular file somewhere below it -/
def Fullo (fs : FS) : Prop :=
  ∀ d, d ≠ [] → ¬ isPcKey d → fs.lookup d = some .dir → ∃ k, SPre d k ∧ IsFile (fs.lookup k)

/-- outside `.pc`, the stored permission bits are permission bits -/
def Modeso (fs : FS) : Prop :=
  ∀ k, ¬ isPcKey k → ∀ c m i, fs.lookup k = some (.file c m i) → m < 4096

structure Tight (fs : FS) : Prop where
  wf : WFo fs
  full : Fullo fs
  modes : Modeso fs
  /-- the working directory itself is not a node -/
  root : fs.lookup [] = none

instance (k : Key) : Decidable (isPcKey k) := by unfold isPcKey; infer_instance

end RQ.Tight
