import RQ.Lemmas.RoundTripFile
/-! C12 layer 5: header garbage, and the sequence of file patches. -/
namespace RQ.Write
open RQ RQ.Parse

/-! ### replaying the header of the first parse -/

/-- the loop, started in the given state on `c ++ W` where `W` begins with a `diff --git` line, consumes `c`
and that line without yielding, and continues behind it with the header ending at `W` -/
def HdrReplay (c : Bytes) (wH git ext : Bool) (m : Meta) : Prop :=
  ∀ (t2 : Nat) (W W' : Bytes) (o n : Filename), hdrNoMatch W = true →
    (∀ g, parsePatchLine g W = .ok (W', .mline (.gitDiff o n))) →
    ∃ k ext', k ≤ c.length ∧ ∀ F hd2,
      filePatchLoop t2 (F + k + 1) (c ++ W) wH hd2 git ext m =
        filePatchLoop t2 F W' false (t2 - W.length) true ext' { old := some o, new := some n }

theorem replay_nil (wH git ext : Bool) (m : Meta)
    (habs : (if ext then buildFilePatch m [] else none : Option PFilePatch) = none) : HdrReplay [] wH git ext m := by
  intro t2 W W' o n hW hp
  refine ⟨0, ext, by simp, ?_⟩
  intro F hd2
  simp only [List.nil_append, Nat.add_zero]
  rw [fpl_gitDiff _ _ _ _ _ _ _ _ _ _ _ (lineCond_of_hdr m W hW) (hp git), habs]

theorem replay_cons (l c' : Bytes) (wH git ext : Bool) (m : Meta) (wH' git' ext1 : Bool) (m1 : Meta)
    (hdf : Nat → Nat → Bytes → Nat)
    (step : ∀ t2 F hd2 more', filePatchLoop t2 (F+1) (l ++ 10 :: more') wH hd2 git ext m =
      filePatchLoop t2 F more' wH' (hdf t2 hd2 more') git' ext1 m1)
    (ih : HdrReplay c' wH' git' ext1 m1) : HdrReplay (l ++ 10 :: c') wH git ext m := by
  intro t2 W W' o n hW hp
  obtain ⟨k, ext', hk, hrep⟩ := ih t2 W W' o n hW hp
  refine ⟨k + 1, ext', by simp; omega, ?_⟩
  intro F hd2
  have e1 : (l ++ 10 :: c') ++ W = l ++ 10 :: (c' ++ W) := by simp
  have e2 : F + (k + 1) + 1 = (F + k + 1) + 1 := by omega
  rw [e1, e2, step, hrep]

theorem parsePatchLine_false_not_git (inp inp' : Bytes) (pl : PatchLine)
    (h : parsePatchLine false inp = .ok (inp', pl)) : passExt false pl = false := by
  rcases parsePatchLine_inv false inp inp' pl h with ⟨m, rfl, _⟩ | ⟨gl, _, hg, _⟩ | ⟨rfl, _⟩ | ⟨rfl, _⟩
  · rfl
  · cases hg
  · rfl
  · rfl

theorem header_run (t1 : Nat) : ∀ (f1 : Nat) (inp : Bytes) (wH : Bool) (hd : Nat) (git ext : Bool) (m : Meta)
    (rest : Bytes) (hlen : Nat) (fp : PFilePatch),
    filePatchLoop t1 f1 inp wH hd git ext m = .ok (rest, hlen, fp) → (wH = true → git = false ∧ ext = false) →
    hlen = hd ∨ ∃ c T, inp = c ++ T ∧ hlen = t1 - T.length ∧ HdrReplay c wH git ext m := by
  intro f1
  induction f1 with
  | zero => intro inp wH hd git ext m rest hlen fp h; simp [filePatchLoop] at h
  | succ f1 ih =>
    intro inp wH hd git ext m rest hlen fp h hinv
    by_cases hc : lineCond m inp = true
    · cases hp : parsePatchLine git inp with
      | error e => rw [fpl_error _ _ _ _ _ _ _ _ _ hc hp] at h; cases h
      | ok v =>
        obtain ⟨inp', pl⟩ := v
        rcases patchLine_cases m pl with ⟨m', hpm⟩ | rfl | rfl | ⟨o', n', rfl⟩ | rfl
        · -- a line that updates the metadata
          rw [fpl_pass _ _ _ _ _ _ _ _ _ _ _ hc hp hpm] at h
          have hne : pl ≠ .endOfPatch := by intro e; subst e; simp [passMeta] at hpm
          obtain ⟨l, hl, hinp, hloc⟩ := parsePatchLine_local git inp inp' pl hp hne
          have hinv' : wH = true → git = false ∧ passExt ext pl = false := by
            intro hw
            obtain ⟨hg, he⟩ := hinv hw
            subst hg; subst he
            exact ⟨rfl, parsePatchLine_false_not_git _ _ _ hp⟩
          rcases ih _ _ _ _ _ _ _ _ _ h hinv' with hA | ⟨c', T, hc', hT, hrep⟩
          · left; exact hA
          · right
            refine ⟨l ++ 10 :: c', T, by rw [hinp, hc']; simp, hT, ?_⟩
            refine replay_cons l c' wH git ext m wH git (passExt ext pl) m' (fun _ hd2 _ => hd2) ?_ hrep
            intro t2 F hd2 more'
            exact fpl_pass _ _ _ _ _ _ _ _ _ _ _ (by rw [lineCond_local m l more' inp', ← hinp]; exact hc) (hloc more') hpm
        · -- garbage
          rw [fpl_garbage _ _ _ _ _ _ _ _ _ hc hp] at h
          obtain ⟨l, hl, hinp, hloc⟩ := parsePatchLine_local git inp inp' _ hp (by intro e; cases e)
          have step : ∀ t2 F hd2 more', filePatchLoop t2 (F+1) (l ++ 10 :: more') wH hd2 git ext m =
              filePatchLoop t2 F more' wH (if wH then t2 - more'.length else hd2) git ext m := by
            intro t2 F hd2 more'
            exact fpl_garbage _ _ _ _ _ _ _ _ _ (by rw [lineCond_local m l more' inp', ← hinp]; exact hc) (hloc more')
          rcases ih _ _ _ _ _ _ _ _ _ h hinv with hA | ⟨c', T, hc', hT, hrep⟩
          · cases hw : wH with
            | false => left; rw [hA, hw]; rfl
            | true =>
              right
              obtain ⟨hg, he⟩ := hinv hw
              refine ⟨l ++ 10 :: [], inp', by rw [hinp]; simp, by rw [hA, hw]; rfl, ?_⟩
              rw [← hw]
              refine replay_cons l [] wH git ext m wH git ext m _ step ?_
              exact replay_nil wH git ext m (by rw [he]; rfl)
          · right
            refine ⟨l ++ 10 :: c', T, by rw [hinp, hc']; simp, hT, ?_⟩
            exact replay_cons l c' wH git ext m wH git ext m _ step hrep
        · -- end of input
          rw [fpl_end _ _ _ _ _ _ _ _ _ hc hp] at h
          left
          split at h
          · split at h
            · simp only [Except.ok.injEq, Prod.mk.injEq] at h; exact h.2.1.symm
            · cases h
          · cases h
        · -- a `diff --git` line
          rw [fpl_gitDiff _ _ _ _ _ _ _ _ _ _ _ hc hp] at h
          split at h
          · left
            simp only [Except.ok.injEq, Prod.mk.injEq] at h; exact h.2.1.symm
          · rename_i hdone
            obtain ⟨l, hl, hinp, hloc⟩ := parsePatchLine_local git inp inp' _ hp (by intro e; cases e)
            rcases ih _ _ _ _ _ _ _ _ _ h (by intro hw; cases hw) with hA | ⟨c', T, hc', hT, hrep⟩
            · right
              exact ⟨[], inp, rfl, hA, replay_nil wH git ext m hdone⟩
            · right
              refine ⟨l ++ 10 :: c', T, by rw [hinp, hc']; simp, hT, ?_⟩
              refine replay_cons l c' wH git ext m false true ext { old := some o', new := some n' }
                (fun t2 _ more' => t2 - (l ++ 10 :: more').length) ?_ hrep
              intro t2 F hd2 more'
              rw [fpl_gitDiff _ _ _ _ _ _ _ _ _ _ _ (by rw [lineCond_local m l more' inp', ← hinp]; exact hc) (hloc more'),
                hdone]
        · rw [fpl_binary _ _ _ _ _ _ _ _ _ hc hp] at h; cases h
    · have hc' : lineCond m inp = false := by simpa using hc
      rw [fpl_hunks _ _ _ _ _ _ _ _ hc'] at h
      left
      split at h
      · cases h
      · split at h
        · cases h
        · simp only [Except.ok.injEq, Prod.mk.injEq] at h; exact h.2.1.symm

/-! ### a written file patch -/

theorem gitDiffBody_written (o n rest : Bytes) (ho : o ≠ nullFilename) (hn : n ≠ nullFilename) :
    gitDiffBody (writeName o ++ 32 :: (writeName n ++ 10 :: rest)) = .ok (rest, .gitDiff (.real o) (.real n)) := by
  unfold gitDiffBody
  rw [parseFilename_writeName o _ ho (Stops_cons _ _ _ (by decide))]
  simp only [bind, Except.bind]
  rw [parseFilename_space, parseFilename_writeName n _ hn (Stops_cons _ _ _ (by decide))]
  simp only []
  rw [takeLineIncl_nl]
  rfl

theorem oName_ne (f : PFilePatch) (hnn : nullNamed f = false) : oName f ≠ nullFilename := by
  obtain ⟨h1, h2⟩ := nullNamed_false f hnn
  unfold oName
  cases ho : f.old with
  | some a => simp only [Option.orElse, Option.getD]; intro e; exact h1 (by rw [ho, e])
  | none =>
    cases hn : f.new with
    | some b => simp only [Option.orElse, Option.getD]; intro e; exact h2 (by rw [hn, e])
    | none => simp only [Option.orElse, Option.getD]; decide

theorem nName_ne (f : PFilePatch) (hnn : nullNamed f = false) : nName f ≠ nullFilename := by
  obtain ⟨h1, h2⟩ := nullNamed_false f hnn
  unfold nName
  cases hn : f.new with
  | some b => simp only [Option.orElse, Option.getD]; intro e; exact h2 (by rw [hn, e])
  | none =>
    cases ho : f.old with
    | some a => simp only [Option.orElse, Option.getD]; intro e; exact h1 (by rw [ho, e])
    | none => simp only [Option.orElse, Option.getD]; decide

theorem writeFilePatch_eq (f : PFilePatch) (next : Bytes) :
    writeFilePatch f ++ next = sDiffGit ++ (writeName (oName f) ++ 32 :: (writeName (nName f) ++ 10 ::
      hdrTailR f ((f.hunks.map writeHunk).flatten ++ next))) := by
  unfold writeFilePatch
  rw [List.append_assoc, writeFileHeader_eq]

theorem NextOK_written (f : PFilePatch) (hnn : nullNamed f = false) (next : Bytes) :
    NextOK (writeFilePatch f ++ next) := by
  right
  rw [writeFilePatch_eq]
  exact ⟨_, _, _, _, rfl, gitDiffBody_written _ _ _ (oName_ne f hnn) (nName_ne f hnn)⟩

theorem hdr_written (f : PFilePatch) (next : Bytes) : hdrNoMatch (writeFilePatch f ++ next) = true := by
  rw [writeFilePatch_eq]
  exact hdrNoMatch_append_of sDiffGit _ 100 _ rfl (by decide)

theorem diffLine_written (g : Bool) (f : PFilePatch) (hnn : nullNamed f = false) (next : Bytes) :
    parsePatchLine g (writeFilePatch f ++ next) =
      .ok (hdrTailR f ((f.hunks.map writeHunk).flatten ++ next), .mline (.gitDiff (.real (oName f)) (.real (nName f)))) := by
  rw [writeFilePatch_eq]
  exact parse_diffLine g _ _ _ (oName_ne f hnn) (nName_ne f hnn)

theorem writeFilePatch_length (f : PFilePatch) (next : Bytes) : 11 ≤ (writeFilePatch f ++ next).length := by
  rw [writeFilePatch_eq]
  simp [sDiffGit]

/-- reading back a written file patch from a state that does not yield at its `diff --git` line -/
theorem filePatch_written (total : Nat) (f : PFilePatch) (ok : FPOK' f) (hnn : nullNamed f = false)
    (hk : noopHunkless f = false) (next : Bytes) (hnext : NextOK next) (wH : Bool) (hd : Nat) (git ext : Bool) (m : Meta)
    (habs : (if ext then buildFilePatch m [] else none : Option PFilePatch) = none) (F : Nat) (hF : 10 ≤ F) :
    ∃ fp', filePatchLoop total F (writeFilePatch f ++ next) wH hd git ext m =
        .ok (next, total - (writeFilePatch f ++ next).length, fp') ∧ sameFP f (stripFP 0 fp') := by
  obtain ⟨F', rfl⟩ : ∃ F', F = F' + 1 := ⟨F - 1, by omega⟩
  rw [fpl_gitDiff _ _ _ _ _ _ _ _ _ _ _ (lineCond_of_hdr m _ (hdr_written f next)) (diffLine_written git f hnn next), habs]
  exact filePatch_tail total f ok hnn hk next hnext ext _ _ F' (by omega) false _

/-! ### the sequence of file patches -/

def FPsOK (fps : List PFilePatch) : Prop :=
  ∀ f ∈ fps, FPOK' f ∧ nullNamed f = false ∧ noopHunkless f = false

theorem writeFPs_length (fps : List PFilePatch) : fps.length ≤ ((fps.map writeFilePatch).flatten).length := by
  induction fps with
  | nil => simp
  | cons f fps ih =>
    have := writeFilePatch_length f []
    simp only [List.append_nil] at this
    simp only [List.map_cons, List.flatten_cons, List.length_append, List.length_cons]
    omega

theorem NextOK_writeFPs (fps : List PFilePatch) (h : FPsOK fps) : NextOK ((fps.map writeFilePatch).flatten) := by
  cases fps with
  | nil => left; rfl
  | cons f fps =>
    simp only [List.map_cons, List.flatten_cons]
    exact NextOK_written f (h f (by simp)).2.1 _

theorem parseFilePatch_nil (w : Bool) : parseFilePatch [] w = .error .noMatch := rfl

theorem patchLoop_succ (strip fuel : Nat) (inp : Bytes) (wants : Bool) (header : Bytes) (acc : List PFilePatch) :
    patchLoop strip (fuel+1) inp wants header acc =
    match parseFilePatch inp wants with
    | .error .noMatch => .ok { header := header, fps := acc }
    | .error e => .error e
    | .ok (inp', hlen, fp) =>
      let header := if wants then inp.take hlen else header
      patchLoop strip fuel inp' false header (acc ++ [stripFP strip fp]) := by
  rfl

theorem patchLoop_written : ∀ (fps : List PFilePatch), FPsOK fps → ∀ (F : Nat) (header : Bytes) (acc : List PFilePatch),
    fps.length < F →
    ∃ fps', patchLoop 0 F ((fps.map writeFilePatch).flatten) false header acc = .ok { header := header, fps := acc ++ fps' } ∧
      sameFPs fps fps' := by
  intro fps
  induction fps with
  | nil =>
    intro _ F header acc hF
    obtain ⟨F', rfl⟩ : ∃ F', F = F' + 1 := ⟨F - 1, by omega⟩
    refine ⟨[], ?_, trivial⟩
    simp only [List.map_nil, List.flatten_nil, List.append_nil]
    rw [patchLoop_succ, parseFilePatch_nil]
  | cons f fps ih =>
    intro hok F header acc hF
    obtain ⟨F', rfl⟩ : ∃ F', F = F' + 1 := ⟨F - 1, by omega⟩
    obtain ⟨ok1, hnn, hk⟩ := hok f (by simp)
    have hok' : FPsOK fps := fun g hg => hok g (by simp [hg])
    simp only [List.map_cons, List.flatten_cons]
    have hlen := writeFilePatch_length f ((fps.map writeFilePatch).flatten)
    obtain ⟨fp', e1, e2⟩ := filePatch_written (writeFilePatch f ++ (fps.map writeFilePatch).flatten).length f ok1 hnn hk
      ((fps.map writeFilePatch).flatten) (NextOK_writeFPs fps hok') false 0 false false {} rfl
      ((writeFilePatch f ++ (fps.map writeFilePatch).flatten).length + 2) (by omega)
    rw [patchLoop_succ]
    unfold parseFilePatch
    rw [e1]
    simp only [Bool.false_eq_true, if_false]
    obtain ⟨fps', e3, e4⟩ := ih hok' F' header (acc ++ [stripFP 0 fp']) (by simp at hF; omega)
    refine ⟨stripFP 0 fp' :: fps', ?_, ⟨e2, e4⟩⟩
    rw [e3]
    simp

/-! ### the first parse -/

theorem patchLoop_header (strip : Nat) : ∀ (F : Nat) (inp : Bytes) (header : Bytes) (acc : List PFilePatch) (p : Patch),
    patchLoop strip F inp false header acc = .ok p → p.header = header := by
  intro F
  induction F with
  | zero => intro inp header acc p h; simp [patchLoop] at h
  | succ F ih =>
    intro inp header acc p h
    rw [patchLoop_succ] at h
    split at h
    · simp only [Except.ok.injEq] at h; rw [← h]
    · cases h
    · simp only [Bool.false_eq_true, if_false] at h
      exact ih _ _ _ _ h

theorem patchLoop_acc (strip : Nat) : ∀ (F : Nat) (inp : Bytes) (w : Bool) (header : Bytes) (acc : List PFilePatch) (p : Patch),
    patchLoop strip F inp w header acc = .ok p → acc.length ≤ p.fps.length := by
  intro F
  induction F with
  | zero => intro inp w header acc p h; simp [patchLoop] at h
  | succ F ih =>
    intro inp w header acc p h
    rw [patchLoop_succ] at h
    split at h
    · simp only [Except.ok.injEq] at h; rw [← h]; exact Nat.le_refl _
    · cases h
    · have := ih _ _ _ _ _ h
      simp at this; omega

/-- the shape of an accepted patch: either nothing was found, or the first call of `parseFilePatch`
determined the header -/
theorem parsePatch_first (bs : Bytes) (strip : Nat) (wh : Bool) (p : Patch) (h : parsePatch bs strip wh = .ok p) :
    (p.header = [] ∧ p.fps = []) ∨
    ∃ inp' hlen fp0, parseFilePatch bs wh = .ok (inp', hlen, fp0) ∧ p.header = (if wh then bs.take hlen else []) ∧
      p.fps ≠ [] := by
  unfold parsePatch at h
  rw [patchLoop_succ] at h
  split at h
  · left
    simp only [Except.ok.injEq] at h; rw [← h]; exact ⟨rfl, rfl⟩
  · cases h
  · rename_i inp' hlen fp0 hp
    right
    refine ⟨inp', hlen, fp0, hp, ?_, ?_⟩
    · exact patchLoop_header strip _ _ _ _ _ h
    · have := patchLoop_acc strip _ _ _ _ _ _ h
      intro e; rw [e] at this; simp at this

/-- **C12, main statement** in terms of the invariants -/
theorem roundtrip (bs : Bytes) (strip : Nat) (wh : Bool) (p : Patch) (h : parsePatch bs strip wh = .ok p)
    (hk : ∀ fp ∈ p.fps, noopHunkless fp = false) (hn : ∀ fp ∈ p.fps, nullNamed fp = false) :
    ∃ p', parsePatch (writePatch p) 0 true = .ok p' ∧ SamePatch p p' := by
  have hinv := parsePatch_inv bs strip wh p h
  have hok : FPsOK p.fps := fun f hf => ⟨hinv f hf, hn f hf, hk f hf⟩
  rcases parsePatch_first bs strip wh p h with ⟨h1, h2⟩ | ⟨inp', hlen, fp0, hp, hhdr, hne⟩
  · refine ⟨{ header := [], fps := [] }, ?_, ?_⟩
    · unfold writePatch; rw [h1, h2]; rfl
    · exact ⟨h1, by rw [h2]; trivial⟩
  · -- the header replays
    have hrep : ∃ T, bs = p.header ++ T ∧ HdrReplay p.header true false false {} := by
      cases hw : wh with
      | false =>
        rw [hw] at hhdr
        simp only [Bool.false_eq_true, if_false] at hhdr
        rw [hhdr]
        exact ⟨bs, rfl, replay_nil _ _ _ _ rfl⟩
      | true =>
        rw [hw] at hhdr hp
        simp only [if_true] at hhdr
        unfold parseFilePatch at hp
        rcases header_run bs.length _ _ _ _ _ _ _ _ _ _ hp (fun _ => ⟨rfl, rfl⟩) with hA | ⟨c, T, e1, e2, e3⟩
        · rw [hhdr, hA]
          exact ⟨bs, by simp, by simpa using replay_nil true false false {} rfl⟩
        · have : bs.take hlen = c := by
            rw [e2, e1]; simp
          rw [hhdr, this]
          exact ⟨T, e1, e3⟩
    obtain ⟨T, _, hrep⟩ := hrep
    cases hfps : p.fps with
    | nil => exact absurd hfps hne
    | cons f fps =>
      obtain ⟨ok1, hnn, hk1⟩ := hok f (by rw [hfps]; simp)
      have hok' : FPsOK fps := fun g hg => hok g (by rw [hfps]; simp [hg])
      generalize hW2 : (fps.map writeFilePatch).flatten = W2
      have hnext : NextOK W2 := by rw [← hW2]; exact NextOK_writeFPs fps hok'
      have hwp : writePatch p = p.header ++ (writeFilePatch f ++ W2) := by
        unfold writePatch; rw [hfps, ← hW2]; simp
      generalize hT : (p.header ++ (writeFilePatch f ++ W2)).length = Tt
      have hlenW := writeFilePatch_length f W2
      obtain ⟨k, ext', hk', hrun⟩ := hrep Tt (writeFilePatch f ++ W2) _ _ _ (hdr_written f W2)
        (fun g => diffLine_written g f hnn W2)
      have hTlen : Tt = p.header.length + (writeFilePatch f ++ W2).length := by rw [← hT]; simp
      obtain ⟨fp', e1, e2⟩ := filePatch_tail Tt f ok1 hnn hk1 W2 hnext ext' (.real (oName f)) (.real (nName f))
        (Tt + 1 - k) (by omega) false (Tt - (writeFilePatch f ++ W2).length)
      have hfirst : parseFilePatch (p.header ++ (writeFilePatch f ++ W2)) true =
          .ok (W2, Tt - (writeFilePatch f ++ W2).length, fp') := by
        unfold parseFilePatch
        rw [hT]
        have : Tt + 2 = (Tt + 1 - k) + k + 1 := by omega
        rw [this, hrun]
        exact e1
      obtain ⟨fps', e3, e4⟩ := patchLoop_written fps hok' (Tt + 1) p.header ([] ++ [stripFP 0 fp'])
        (by have := writeFPs_length fps; rw [hW2] at this; simp only [List.length_append] at hTlen; omega)
      refine ⟨{ header := p.header, fps := [] ++ [stripFP 0 fp'] ++ fps' }, ?_, ?_⟩
      · rw [hwp]
        unfold parsePatch
        rw [hT, patchLoop_succ, hfirst]
        simp only [if_true]
        have : List.take (Tt - (writeFilePatch f ++ W2).length) (p.header ++ (writeFilePatch f ++ W2)) = p.header := by
          have : Tt - (writeFilePatch f ++ W2).length = p.header.length := by omega
          rw [this]; simp
        rw [this, ← hW2]
        exact e3
      · refine ⟨rfl, ?_⟩
        show sameFPs p.fps ([] ++ [stripFP 0 fp'] ++ fps')
        rw [hfps]
        exact ⟨e2, e4⟩

end RQ.Write
