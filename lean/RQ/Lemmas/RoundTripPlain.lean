import RQ.Lemmas.RoundTripRej
/-! C01 (text level): the plain `---` / `+++` header, optionally with timestamps, followed by written hunks
is read back (non-git state of `filePatchLoop`). -/
namespace RQ.Write
open RQ RQ.Parse

/-- a timestamp suffix: empty, or a tab followed by anything without a newline -/
def TsOK' (ts : Bytes) : Prop := ts = [] ∨ (ts.head? = some 9 ∧ (10 : UInt8) ∉ ts)

theorem TsOK'_NLfree (ts : Bytes) (h : TsOK' ts) : NLfree ts := by
  rcases h with rfl | ⟨_, h⟩
  · exact NLfree_nil
  · intro b hb e; subst e; exact h hb

theorem TsOK'_stops (ts rest : Bytes) (h : TsOK' ts) : Stops isWhitespace (ts ++ 10 :: rest) := by
  rcases h with rfl | ⟨h, _⟩
  · exact Stops_cons _ _ _ (by decide)
  · cases ts with
    | nil => simp at h
    | cons b t =>
      simp at h; subst h
      exact Stops_cons _ _ _ (by decide)

theorem parseFilename_null' (r : Bytes) (hr : Stops isWhitespace r) :
    parseFilename (Extracted.nullFilename ++ r) = .ok (r, .devNull) := by
  unfold parseFilename
  rw [splitAtCond_stop (fun c => !isSpace c) _ (Stops_append_of _ Extracted.nullFilename _ 47 _ rfl (by decide))]
  simp only []
  have hc : parseCString (Extracted.nullFilename ++ r) = .error .noMatch := rfl
  rw [hc]
  simp only []
  unfold parseFilenameDirect
  rw [splitAtCond_append isWhitespace Extracted.nullFilename r (by decide) hr]
  rfl

theorem parseFilename_nameBytes' (n : Option Bytes) (r : Bytes) (hn : n ≠ some nullFilename)
    (hr : Stops isWhitespace r) : parseFilename (nameBytes n ++ r) = .ok (r, nameVal n) := by
  cases n with
  | none => exact parseFilename_null' r hr
  | some x => exact parseFilename_writeName x _ (by intro e; exact hn (by rw [e])) hr

theorem nameBody_ts (k : Filename → MetaLine) (n : Option Bytes) (ts rest : Bytes) (hn : n ≠ some nullFilename)
    (hts : TsOK' ts) : nameBody k (nameBytes n ++ (ts ++ 10 :: rest)) = .ok (rest, k (nameVal n)) := by
  unfold nameBody
  rw [parseFilename_nameBytes' n _ hn (TsOK'_stops ts rest hts)]
  simp only [bind, Except.bind]
  rw [takeLineIncl_body ts rest (TsOK'_NLfree ts hts)]
  rfl

theorem parse_minus_ts (git : Bool) (n : Option Bytes) (ts rest : Bytes) (hn : n ≠ some nullFilename) (hts : TsOK' ts) :
    parsePatchLine git (sMinus ++ (nameBytes n ++ (ts ++ 10 :: rest))) = .ok (rest, .mline (.minus (nameVal n))) := by
  apply parsePatchLine_mline
  rw [meta_minus]; exact nameBody_ts _ n ts rest hn hts

theorem parse_plus_ts (git : Bool) (n : Option Bytes) (ts rest : Bytes) (hn : n ≠ some nullFilename) (hts : TsOK' ts) :
    parsePatchLine git (sPlus ++ (nameBytes n ++ (ts ++ 10 :: rest))) = .ok (rest, .mline (.plus (nameVal n))) := by
  apply parsePatchLine_mline
  rw [meta_plus]; exact nameBody_ts _ n ts rest hn hts

/-- the plain header followed by something -/
def plainR (old new : Option Bytes) (ts rest : Bytes) : Bytes :=
  sMinus ++ (nameBytes old ++ (ts ++ 10 :: (sPlus ++ (nameBytes new ++ (ts ++ 10 :: rest)))))

theorem plain_roundtrip (f : PFilePatch) (ok : FPOK' f) (hn : nullNamed f = false) (hh : f.hunks ≠ [])
    (ts : Bytes) (hts : TsOK' ts) :
    ∃ p' f', parsePatch (plainR f.old f.new ts ((f.hunks.map writeHunk).flatten)) 0 false = .ok p' ∧
      p'.fps = [f'] ∧ f'.old = f.old ∧ f'.new = f.new ∧ f'.rename = false ∧ sameHunks f.hunks f'.hunks := by
  obtain ⟨hno, hnn⟩ := nullNamed_false f hn
  generalize hH : (f.hunks.map writeHunk).flatten = H
  -- the auxiliary file patch without git extensions
  have okg : FPW ({ kind := f.kind, old := f.old, new := f.new, hunks := f.hunks } : PFilePatch) :=
    ⟨fun h hm => (ok.hunksOK h hm).1, (by intro h; cases h), ok.nameOK, (by intro x h; cases h),
      (by intro x h; cases h), Or.inl ⟨rfl, rfl⟩⟩
  have hb := build_final _ okg
  simp only [mk] at hb
  -- hunks
  have hnm : stripPrefix sHunkStart ([] : Bytes) = none := rfl
  obtain ⟨hs', e1, e2⟩ := hunksLoop_written f.hunks (H.length + 2) [] [] (fun h hm => (ok.hunksOK h hm).1)
    (by intro r' e; cases e) hnm (by have := writeHunks_length f.hunks; rw [hH] at this; omega)
  rw [List.append_nil, hH] at e1
  have hcH : ∀ m : Meta, haveFilename m = true → lineCond m H = false := by
    intro m hm
    have : hdrNoMatch H = false := by
      cases hv : hdrNoMatch H with
      | false => rfl
      | true =>
        rw [hdrNoMatch_iff, ← hH] at hv
        cases hf : f.hunks with
        | nil => exact absurd hf hh
        | cons h0 hs0 =>
          rw [hf] at hv
          simp only [List.map_cons, List.flatten_cons, writeHunk, writeHunkHeader, List.append_assoc] at hv
          rw [stripPrefix_append] at hv
          cases hv
    simp [lineCond, this, hm]
  -- the first call of parseFilePatch
  have hfirst : ∀ total F,
      filePatchLoop total (F + 3) (plainR f.old f.new ts H) false 0 false false {} =
        .ok ([], 0, { kind := recognizeKind hs', old := f.old, new := f.new, rename := false, oldPerm := none,
                      newPerm := none, oldHash := none, newHash := none, hunks := hs' }) := by
    intro total F
    unfold plainR
    rw [fpl_pass total (F + 2) _ _ false 0 false false {} _ _ (by rfl)
      (parse_minus_ts false f.old ts _ hno hts) rfl]
    rw [fpl_pass total (F + 1) _ _ false 0 false _ _ _ _
      (lineCond_of_hdr _ _ (hdrNoMatch_append_of sPlus _ 43 _ rfl (by decide)))
      (parse_plus_ts false f.new ts H hnn hts) rfl]
    rw [fpl_hunks total F H false 0 false _ _ (hcH _ rfl), e1]
    simp only [List.nil_append]
    have := hb hs'
    rw [show (({ ({ ({} : Meta) with old := some (nameVal f.old) } : Meta) with new := some (nameVal f.new) } : Meta)) =
      { old := some (nameVal f.old), new := some (nameVal f.new), renFrom := false, renTo := false,
        oldPerm := none, newPerm := none, oldHash := none, newHash := none } from rfl, this]
  refine ⟨{ header := [], fps := [stripFP 0 { kind := recognizeKind hs', old := f.old, new := f.new, rename := false, oldPerm := none, newPerm := none, oldHash := none, newHash := none, hunks := hs' }] },
    stripFP 0 { kind := recognizeKind hs', old := f.old, new := f.new, rename := false, oldPerm := none, newPerm := none, oldHash := none, newHash := none, hunks := hs' }, ?_, rfl, ?_, ?_, rfl, e2⟩
  · unfold parsePatch
    have hl : 1 ≤ (plainR f.old f.new ts H).length := by simp [plainR, sMinus]
    obtain ⟨L, hL⟩ : ∃ L, (plainR f.old f.new ts H).length = L + 1 := ⟨_, (Nat.sub_add_cancel hl).symm⟩
    rw [patchLoop_succ]
    unfold parseFilePatch
    rw [hL, show L + 1 + 2 = L + 3 from rfl, hfirst (L + 1) L]
    simp only [Bool.false_eq_true, if_false]
    rw [patchLoop_succ, parseFilePatch_nil]
    rfl
  · simp only [stripFP]
    cases ho : f.old with
    | none => rfl
    | some n => simp [ok.oldFix n ho]
  · simp only [stripFP]
    cases ho : f.new with
    | none => rfl
    | some n => simp [ok.newFix n ho]

end RQ.Write
