import RQ.Model.Parse
import RQ.Spec.Apply
/-! Helper lemmas for C11: every loop of the parser consumes input, fuel is never exhausted; invariants
of parsed hunks. -/
namespace RQ.Parse
open RQ

/-! ### generic facts about `Except` binds -/

theorem bind_ok {α β : Type} {x : R α} {f : α → R β} {v : β} (h : (x >>= f) = .ok v) :
    ∃ a, x = .ok a ∧ f a = .ok v := by
  cases x with
  | error e => cases h
  | ok a => exact ⟨a, rfl, h⟩

/-- from `h : .ok (a, b) = .ok (r, v)` substitute `r` -/
macro "okinj " h:ident : tactic =>
  `(tactic| (simp only [Except.ok.injEq, Prod.mk.injEq] at $h:ident; have hh := And.left $h:ident; subst hh))

/-! ### basic sub-parsers: progress -/

theorem stripPrefix_len : ∀ (p inp r : Bytes), stripPrefix p inp = some r → r.length + p.length = inp.length
  | [], inp, r, h => by simp [stripPrefix] at h; simp [h]
  | _ :: _, [], r, h => by simp [stripPrefix] at h
  | p :: ps, b :: bs, r, h => by
    simp only [stripPrefix] at h
    split at h
    · have := stripPrefix_len ps bs r h; simp only [List.length_cons]; omega
    · simp at h

theorem takeLineIncl_ok : ∀ (inp r l : Bytes), takeLineIncl inp = .ok (r, l) → r.length < inp.length
  | [], r, l, h => by simp [takeLineIncl] at h
  | b :: bs, r, l, h => by
    simp only [takeLineIncl] at h
    split at h
    · simp only [Except.ok.injEq, Prod.mk.injEq] at h
      simp [← h.1]
    · split at h
      · simp at h
      · rename_i rest line heq
        simp only [Except.ok.injEq, Prod.mk.injEq] at h
        have := takeLineIncl_ok bs rest line heq
        simp only [List.length_cons, ← h.1]; omega

theorem takeLineIncl_err : ∀ (inp : Bytes) (e : EB), takeLineIncl inp = .error e → e = .unexpectedEndOfFile
  | [], e, h => by simp [takeLineIncl] at h; exact h.symm
  | b :: bs, e, h => by
    simp only [takeLineIncl] at h
    split at h
    · simp at h
    · split at h
      · rename_i e' heq
        simp only [Except.error.injEq] at h
        exact h ▸ takeLineIncl_err bs e' heq
      · simp at h

theorem takeLineSkip_ok : ∀ (inp r l : Bytes), takeLineSkip inp = .ok (r, l) → r.length < inp.length
  | [], r, l, h => by simp [takeLineSkip] at h
  | b :: bs, r, l, h => by
    simp only [takeLineSkip] at h
    split at h
    · simp only [Except.ok.injEq, Prod.mk.injEq] at h
      simp [← h.1]
    · split at h
      · simp at h
      · rename_i rest line heq
        simp only [Except.ok.injEq, Prod.mk.injEq] at h
        have := takeLineSkip_ok bs rest line heq
        simp only [List.length_cons, ← h.1]; omega

theorem takeLineSkip_err : ∀ (inp : Bytes) (e : EB), takeLineSkip inp = .error e → e = .unexpectedEndOfFile
  | [], e, h => by simp [takeLineSkip] at h; exact h.symm
  | b :: bs, e, h => by
    simp only [takeLineSkip] at h
    split at h
    · simp at h
    · split at h
      · rename_i e' heq
        simp only [Except.error.injEq] at h
        exact h ▸ takeLineSkip_err bs e' heq
      · simp at h

theorem splitAtCond_len (pred : UInt8 → Bool) : ∀ (inp : Bytes),
    (splitAtCond pred inp).1.length + (splitAtCond pred inp).2.length = inp.length
  | [] => by simp [splitAtCond]
  | b :: bs => by
    simp only [splitAtCond]
    split
    · simp
    · have := splitAtCond_len pred bs
      simp only [List.length_cons]; omega

theorem splitAtCond_snd_le (pred : UInt8 → Bool) (inp : Bytes) :
    (splitAtCond pred inp).2.length ≤ inp.length := by
  have := splitAtCond_len pred inp; omega

theorem newline_ok (inp r l : Bytes) (h : newline inp = .ok (r, l)) : r.length < inp.length := by
  unfold newline at h
  split at h
  · simp at h
  · split at h
    · simp only [Except.ok.injEq, Prod.mk.injEq] at h; simp [← h.1]
    · simp at h

theorem cStringLoop_ok : ∀ (fuel : Nat) (inp acc r v : Bytes),
    cStringLoop fuel inp acc = .ok (r, v) → r.length < inp.length := by
  intro fuel
  induction fuel with
  | zero => intro inp acc r v h; simp [cStringLoop] at h
  | succ n ih =>
    intro inp acc r v h
    unfold cStringLoop at h
    split at h
    · simp at h
    · split at h
      · split at h
        all_goals first
          | (have := ih _ _ _ _ h; simp only [List.length_cons]; omega)
          | skip
        split at h
        · have := ih _ _ _ _ h
          simp only [List.length_cons, List.length_drop] at *; omega
        · simp at h
      · split at h
        · simp only [Except.ok.injEq, Prod.mk.injEq] at h; simp [← h.1]
        · split at h
          · simp at h
          · have := ih _ _ _ _ h; simp only [List.length_cons]; omega

theorem parseCString_ok (inp r v : Bytes) (h : parseCString inp = .ok (r, v)) : r.length < inp.length := by
  unfold parseCString at h
  split at h
  · have := cStringLoop_ok _ _ _ _ _ h; simp only [List.length_cons]; omega
  · simp at h

theorem parseFilenameDirect_ok (inp r v : Bytes) (h : parseFilenameDirect inp = .ok (r, v)) :
    r.length ≤ inp.length := by
  have hl := splitAtCond_snd_le isWhitespace inp
  unfold parseFilenameDirect at h
  generalize splitAtCond isWhitespace inp = p at h hl
  obtain ⟨name, rest⟩ := p
  simp only at h hl
  split at h
  · simp at h
  · okinj h; omega

theorem parseFilename_ok (inp r : Bytes) (v : Filename) (h : parseFilename inp = .ok (r, v)) :
    r.length ≤ inp.length := by
  have hl := splitAtCond_snd_le (fun c => !isSpace c) inp
  unfold parseFilename at h
  generalize splitAtCond (fun c => !isSpace c) inp = p at h hl
  obtain ⟨name, rest⟩ := p
  simp only at h hl
  split at h
  · rename_i r' v' heq
    have := parseCString_ok _ _ _ heq
    split at h <;> okinj h <;> omega
  · split at h
    · simp at h
    · rename_i r' v' heq
      have := parseFilenameDirect_ok _ _ _ heq
      split at h <;> okinj h <;> omega

theorem parseMode_ok (inp r : Bytes) (v : Nat) (h : parseMode inp = .ok (r, v)) :
    r.length ≤ inp.length := by
  have hl := splitAtCond_snd_le (fun c => !isSpace c) inp
  unfold parseMode at h
  generalize splitAtCond (fun c => !isSpace c) inp = p at h hl
  obtain ⟨a, inp1⟩ := p
  simp only at h hl
  have hl2 := splitAtCond_snd_le (fun c => !isOct c) inp1
  generalize splitAtCond (fun c => !isOct c) inp1 = q at h hl2
  obtain ⟨digits, rest⟩ := q
  simp only at h hl2
  split at h
  · simp at h
  · split at h
    · simp at h
    · okinj h; omega

theorem parseGitHash_ok (inp r v : Bytes) (h : parseGitHash inp = .ok (r, v)) :
    r.length ≤ inp.length := by
  have hl := splitAtCond_snd_le (fun c => !isHex c) inp
  unfold parseGitHash at h
  generalize splitAtCond (fun c => !isHex c) inp = p at h hl
  obtain ⟨a, rest⟩ := p
  simp only at h hl
  split at h
  · simp at h
  · okinj h; omega

theorem parseNumber_ok (inp r : Bytes) (v : Nat) (h : parseNumber inp = .ok (r, v)) :
    r.length ≤ inp.length := by
  have hl := splitAtCond_snd_le (fun c => !isDigit c) inp
  unfold parseNumber at h
  generalize splitAtCond (fun c => !isDigit c) inp = p at h hl
  obtain ⟨a, rest⟩ := p
  simp only at h hl
  split at h
  · simp at h
  · split at h
    · simp at h
    · okinj h; omega

theorem parseMetadataLine_ok (inp r : Bytes) (v : MetaLine) (h : parseMetadataLine inp = .ok (r, v)) :
    r.length < inp.length := by
  unfold parseMetadataLine at h
  split at h
  · simp at h
  · split at h
    · split at h
      · simp at h
      · rename_i r0 hs
        have h0 := stripPrefix_len _ _ _ hs
        obtain ⟨⟨r1, o⟩, h1, h⟩ := bind_ok h
        obtain ⟨⟨r2, n⟩, h2, h⟩ := bind_ok h
        obtain ⟨⟨r3, _⟩, h3, h⟩ := bind_ok h
        have := parseFilename_ok _ _ _ h1
        have := parseFilename_ok _ _ _ h2
        have := takeLineIncl_ok _ _ _ h3
        simp only [pure, Except.pure] at h
        okinj h
        simp only [sDiffGit, List.length_cons, List.length_nil] at h0 ⊢
        omega
    · split at h
      · split at h
        · simp at h
        · rename_i r0 hs
          have h0 := stripPrefix_len _ _ _ hs
          obtain ⟨⟨r1, o⟩, h1, h⟩ := bind_ok h
          obtain ⟨⟨r3, _⟩, h3, h⟩ := bind_ok h
          have := parseFilename_ok _ _ _ h1
          have := takeLineIncl_ok _ _ _ h3
          simp only [pure, Except.pure] at h
          okinj h
          simp only [sMinus, List.length_cons, List.length_nil] at h0 ⊢
          omega
      · split at h
        · split at h
          · simp at h
          · rename_i r0 hs
            have h0 := stripPrefix_len _ _ _ hs
            obtain ⟨⟨r1, o⟩, h1, h⟩ := bind_ok h
            obtain ⟨⟨r3, _⟩, h3, h⟩ := bind_ok h
            have := parseFilename_ok _ _ _ h1
            have := takeLineIncl_ok _ _ _ h3
            simp only [pure, Except.pure] at h
            okinj h
            simp only [sPlus, List.length_cons, List.length_nil] at h0 ⊢
            omega
        · simp at h

/-- shape shared by most git metadata lines: strip a prefix, then one sub-parser -/
theorem strip_then {α : Type} {p inp r0 r : Bytes} {x : R (Bytes × α)}
    (hs : stripPrefix p inp = some r0) (hx : ∀ r1 a, x = .ok (r1, a) → r1.length ≤ r0.length)
    {β : Type} {g : α → β} {v : β}
    (h : (do let (r, a) ← x; pure (r, g a)) = (.ok (r, v) : R (Bytes × β))) : r.length ≤ inp.length := by
  have h0 := stripPrefix_len _ _ _ hs
  obtain ⟨⟨r1, a⟩, h1, h⟩ := bind_ok h
  have := hx _ _ h1
  simp only [pure, Except.pure] at h
  okinj h
  omega


theorem skipLeaf {r0 r : Bytes} {v g : GitLine}
    (h : (do let (r, _) ← takeLineSkip r0; pure (r, g)) = (.ok (r, v) : R (Bytes × GitLine))) :
    r.length < r0.length := by
  obtain ⟨⟨r1, a⟩, h1, h⟩ := bind_ok h
  have := takeLineSkip_ok _ _ _ h1
  simp only [pure, Except.pure] at h
  okinj h
  omega

theorem modeLeaf {r0 r : Bytes} {v : GitLine} {g : Nat → GitLine}
    (h : (do let (r, m) ← parseMode r0; let (r, _) ← newline r; pure (r, g m)) = (.ok (r, v) : R (Bytes × GitLine))) :
    r.length < r0.length := by
  obtain ⟨⟨r1, a⟩, h1, h⟩ := bind_ok h
  obtain ⟨⟨r2, b⟩, h2, h⟩ := bind_ok h
  have := parseMode_ok _ _ _ h1
  have := newline_ok _ _ _ h2
  simp only [pure, Except.pure] at h
  okinj h
  omega

theorem parseGitMetadataLine_ok (inp r : Bytes) (v : GitLine) (h : parseGitMetadataLine inp = .ok (r, v)) :
    r.length < inp.length := by
  unfold parseGitMetadataLine at h
  split at h
  · simp at h
  · split at h
    · split at h
      · simp at h
      · rename_i r0 hs
        have h0 := stripPrefix_len _ _ _ hs
        obtain ⟨⟨r1, o⟩, h1, h⟩ := bind_ok h
        have := parseGitHash_ok _ _ _ h1
        simp only at h
        split at h
        · simp at h
        · rename_i r2 hs2
          have h02 := stripPrefix_len _ _ _ hs2
          obtain ⟨⟨r3, n⟩, h3, h⟩ := bind_ok h
          have := parseGitHash_ok _ _ _ h3
          simp only at h
          obtain ⟨⟨r4, nl⟩, h4, h⟩ := bind_ok h
          have h5 := newline_ok _ _ _ h4
          simp only [pure, Except.pure] at h
          okinj h
          simp only [sIndex, sDotDot, List.length_cons, List.length_nil] at h0 h02 ⊢
          split at h5
          · rename_i r' m hm
            have := parseMode_ok _ _ _ hm
            simp only at h5
            omega
          · simp only at h5
            omega
    all_goals repeat' split at h
    all_goals first
      | (simp at h; done)
      | (rename_i hs; have h0 := stripPrefix_len _ _ _ hs; have := skipLeaf h
         simp only [sRenameFrom, sRenameTo, sCopyFrom, sCopyTo, sGitBinary, List.length_cons, List.length_nil] at h0 ⊢
         omega)
      | (rename_i hs; have h0 := stripPrefix_len _ _ _ hs; have := modeLeaf h
         simp only [sOldMode, sNewMode, sNewFileMode, sDeletedFileMode, List.length_cons, List.length_nil] at h0 ⊢
         omega)

theorem parsePatchLine_ok (git : Bool) (inp r : Bytes) (pl : PatchLine)
    (h : parsePatchLine git inp = .ok (r, pl)) :
    r.length ≤ inp.length ∧ (pl ≠ .endOfPatch → r.length < inp.length) := by
  unfold parsePatchLine at h
  split at h
  · rename_i r' m hm
    have := parseMetadataLine_ok _ _ _ hm
    simp only [Except.ok.injEq, Prod.mk.injEq] at h
    obtain ⟨rfl, rfl⟩ := h
    exact ⟨by omega, fun _ => this⟩
  · simp only at h
    split at h
    · rename_i r' gl hg
      simp only [Except.ok.injEq, Prod.mk.injEq] at h
      obtain ⟨rfl, rfl⟩ := h
      split at hg
      · split at hg
        · rename_i x hx
          simp only [Option.some.injEq] at hg
          subst hg
          have := parseGitMetadataLine_ok _ _ _ hx
          exact ⟨by omega, fun _ => this⟩
        · simp at hg
      · simp at hg
    · split at h
      · rename_i r' l hl
        have := takeLineIncl_ok _ _ _ hl
        simp only [Except.ok.injEq, Prod.mk.injEq] at h
        obtain ⟨rfl, rfl⟩ := h
        exact ⟨by omega, fun _ => this⟩
      · split at h
        · simp only [Except.ok.injEq, Prod.mk.injEq] at h
          obtain ⟨rfl, rfl⟩ := h
          exact ⟨by omega, fun h => absurd rfl h⟩
        · simp at h

theorem parsePatchLine_err (git : Bool) (inp : Bytes) (e : EB)
    (h : parsePatchLine git inp = .error e) : e = .unexpectedEndOfFile := by
  unfold parsePatchLine at h
  split at h
  · simp at h
  · simp only at h
    split at h
    · simp at h
    · split at h
      · simp at h
      · split at h
        · simp at h
        · simp only [Except.error.injEq] at h; exact h.symm

theorem parseLineAndCount_ok (inp r : Bytes) (line count : Nat)
    (h : parseLineAndCount inp = .ok (r, (line, count))) :
    r.length ≤ inp.length ∧ line ≤ 2^63 - 1 := by
  unfold parseLineAndCount at h
  obtain ⟨⟨r1, l1⟩, h1, h⟩ := bind_ok h
  have := parseNumber_ok _ _ _ h1
  simp only at h
  split at h
  · simp at h
  · split at h
    · obtain ⟨⟨r2, c2⟩, h2, h⟩ := bind_ok h
      have := parseNumber_ok _ _ _ h2
      simp only [pure, Except.pure, Except.ok.injEq, Prod.mk.injEq] at h
      obtain ⟨rfl, rfl, rfl⟩ := h
      simp only [List.length_cons] at *
      omega
    · simp only [pure, Except.pure, Except.ok.injEq, Prod.mk.injEq] at h
      obtain ⟨rfl, rfl, rfl⟩ := h
      omega

theorem parseHunkHeader_ok (inp r : Bytes) (hd : HunkHeader) (h : parseHunkHeader inp = .ok (r, hd)) :
    r.length < inp.length ∧ hd.remLine ≤ 2^63 - 1 ∧ hd.addLine ≤ 2^63 - 1 := by
  unfold parseHunkHeader at h
  split at h
  · simp at h
  · rename_i r0 hs0
    have h0 := stripPrefix_len _ _ _ hs0
    split at h
    · simp at h
    · rename_i r1 rl rc h1
      have := parseLineAndCount_ok _ _ _ _ h1
      split at h
      · simp at h
      · rename_i r2 hs2
        have h02 := stripPrefix_len _ _ _ hs2
        split at h
        · simp at h
        · rename_i r3 al ac h3
          have := parseLineAndCount_ok _ _ _ _ h3
          split at h
          · simp at h
          · rename_i r4 hs4
            have h04 := stripPrefix_len _ _ _ hs4
            simp only [sHunkStart, List.length_cons, List.length_nil] at h0
            split at h
            · rename_i r5 hs5
              have h05 := stripPrefix_len _ _ _ hs5
              split at h
              · simp at h
              · rename_i r6 f h6
                have := takeLineSkip_ok _ _ _ h6
                simp only [Except.ok.injEq, Prod.mk.injEq] at h
                obtain ⟨rfl, rfl⟩ := h
                simp only
                omega
            · split at h
              · simp at h
              · rename_i r6 f h6
                have := takeLineIncl_ok _ _ _ h6
                simp only [Except.ok.injEq, Prod.mk.injEq] at h
                obtain ⟨rfl, rfl⟩ := h
                simp only
                omega

theorem parseHunkHeader_err (inp : Bytes) : parseHunkHeader inp ≠ .error .outOfFuel := by
  intro h
  unfold parseHunkHeader at h
  repeat' split at h
  all_goals first
    | (simp at h; done)
    | (rename_i e he; simp only [Except.error.injEq] at h; subst h
       first | (have := takeLineSkip_err _ _ he; simp at this) | (have := takeLineIncl_err _ _ he; simp at this))


theorem parseHunkLine_ok (inp r : Bytes) (t : Tag) (l : Bytes) (h : parseHunkLine inp = .ok (r, (t, l))) :
    r.length < inp.length := by
  unfold parseHunkLine at h
  simp only at h
  split at h
  · simp at h
  · simp at h
  · rename_i t' rest line hf
    have hrest : rest.length < inp.length := by
      split at hf
      · simp at hf
      · simp only [List.length_cons]
        repeat' split at hf
        all_goals first
          | (simp at hf; done)
          | (simp only [Except.ok.injEq, Prod.mk.injEq] at hf
             have := takeLineIncl_ok _ _ _ hf.2
             try simp only [List.length_cons] at this
             omega)
          | (simp only [Except.ok.injEq, Prod.mk.injEq] at hf
             obtain ⟨_, rfl, _⟩ := hf; omega)
    split at h
    · split at h
      · simp at h
      · rename_i r' l' h'
        have := takeLineIncl_ok _ _ _ h'
        okinj h
        omega
    · okinj h; exact hrest

theorem parseHunkLine_err (inp : Bytes) : parseHunkLine inp ≠ .error .outOfFuel := by
  intro h
  unfold parseHunkLine at h
  simp only at h
  split at h
  · rename_i e hf
    simp only [Except.error.injEq] at h; subst h
    split at hf
    · simp at hf
    · repeat' split at hf
      all_goals simp at hf
  · rename_i t e hf
    simp only [Except.error.injEq] at h; subst h
    split at hf
    · simp at hf
    · repeat' split at hf
      all_goals first
        | (simp at hf; done)
        | (simp only [Except.ok.injEq, Prod.mk.injEq] at hf
           have := takeLineIncl_err _ _ hf.2; simp at this)
  · split at h
    · split at h
      · rename_i e he
        simp only [Except.error.injEq] at h; subst h
        have := takeLineIncl_err _ _ he; simp at this
      · simp at h
    · simp at h
/-- invariant of `hunkLoop`: context counts fit and the context lines are on both sides; as long as only
context lines were seen both sides are equal and all of them are prefix context -/
def HInv (h : PHunk) (nonctx : Bool) : Prop :=
  h.pre + h.suf ≤ h.rem.length ∧ h.pre + h.suf ≤ h.add.length ∧ h.rem.take h.pre = h.add.take h.pre ∧
  h.rem.drop (h.rem.length - h.suf) = h.add.drop (h.add.length - h.suf) ∧
  (nonctx = false → h.suf = 0 ∧ h.rem = h.add ∧ h.pre = h.rem.length)

theorem HInv_add (h : PHunk) (b : Bool) (line : Bytes) (hi : HInv h b) :
    HInv { h with add := h.add ++ [line], suf := 0 } true := by
  obtain ⟨h1, h2, h3, h4, h5⟩ := hi
  refine ⟨?_, ?_, ?_, ?_, ?_⟩
  · simp only; omega
  · simp only [List.length_append, List.length_cons, List.length_nil]; omega
  · simp only
    rw [List.take_append_of_le_length (by omega)]
    exact h3
  · simp
  · simp

theorem HInv_rem (h : PHunk) (b : Bool) (line : Bytes) (hi : HInv h b) :
    HInv { h with rem := h.rem ++ [line], suf := 0 } true := by
  obtain ⟨h1, h2, h3, h4, h5⟩ := hi
  refine ⟨?_, ?_, ?_, ?_, ?_⟩
  · simp only [List.length_append, List.length_cons, List.length_nil]; omega
  · simp only; omega
  · simp only
    rw [List.take_append_of_le_length (by omega)]
    exact h3
  · simp
  · simp

theorem HInv_ctx (h : PHunk) (b : Bool) (line : Bytes) (hi : HInv h b) :
    HInv (if !b then { h with add := h.add ++ [line], rem := h.rem ++ [line], pre := h.pre + 1 }
          else { h with add := h.add ++ [line], rem := h.rem ++ [line], suf := h.suf + 1 }) b := by
  obtain ⟨h1, h2, h3, h4, h5⟩ := hi
  cases b with
  | false =>
    obtain ⟨h6, h7, h8⟩ := h5 rfl
    simp only [Bool.not_false, if_true]
    refine ⟨?_, ?_, ?_, ?_, ?_⟩
    · simp only [List.length_append, List.length_cons, List.length_nil]; omega
    · simp only [List.length_append, List.length_cons, List.length_nil]; omega
    · simp only [h7]
    · simp only [h7]
    · intro _
      refine ⟨h6, by simp only [h7], ?_⟩
      simp only [List.length_append, List.length_cons, List.length_nil]; omega
  | true =>
    simp only [Bool.not_true, Bool.false_eq_true, if_false]
    refine ⟨?_, ?_, ?_, ?_, ?_⟩
    · simp only [List.length_append, List.length_cons, List.length_nil]; omega
    · simp only [List.length_append, List.length_cons, List.length_nil]; omega
    · simp only
      rw [List.take_append_of_le_length (by omega), List.take_append_of_le_length (by omega)]
      exact h3
    · simp only [List.length_append, List.length_cons, List.length_nil]
      rw [List.drop_append_of_le_length (by omega), List.drop_append_of_le_length (by omega)]
      have e1 : h.rem.length + 1 - (h.suf + 1) = h.rem.length - h.suf := by omega
      have e2 : h.add.length + 1 - (h.suf + 1) = h.add.length - h.suf := by omega
      rw [e1, e2, h4]
    · intro hb; cases hb

theorem HInv_WF (h : PHunk) (b : Bool) (hi : HInv h b) : h.WF :=
  ⟨hi.1, hi.2.1, hi.2.2.1, hi.2.2.2.1⟩


theorem hunkLoop_fuel : ∀ (fuel : Nat) (inp : Bytes) (ac rc : Nat) (h : PHunk) (nonctx : Bool),
    inp.length < fuel → hunkLoop fuel inp ac rc h nonctx ≠ .error .outOfFuel := by
  intro fuel
  induction fuel with
  | zero => intro inp ac rc h nonctx hf; omega
  | succ n ih =>
    intro inp ac rc h nonctx hf
    unfold hunkLoop
    split
    · simp
    · split
      · rename_i e he
        intro hc
        simp only [Except.error.injEq] at hc; subst hc
        exact parseHunkLine_err _ he
      · rename_i inp' t line hl
        have := parseHunkLine_ok _ _ _ _ hl
        split
        · split
          · simp
          · exact ih _ _ _ _ _ (by omega)
        · split
          · simp
          · exact ih _ _ _ _ _ (by omega)
        · split
          · simp
          · exact ih _ _ _ _ _ (by omega)

theorem hunkLoop_ok : ∀ (fuel : Nat) (inp : Bytes) (ac rc : Nat) (h : PHunk) (nonctx : Bool) (r : Bytes) (h' : PHunk),
    hunkLoop fuel inp ac rc h nonctx = .ok (r, h') →
    r.length ≤ inp.length ∧ h'.add.length + r.length ≤ h.add.length + inp.length ∧
    h'.rem.length + r.length ≤ h.rem.length + inp.length ∧
    h'.remLine = h.remLine ∧ h'.addLine = h.addLine ∧ (HInv h nonctx → ∃ b, HInv h' b) := by
  intro fuel
  induction fuel with
  | zero => intro inp ac rc h nonctx r h' hr; simp [hunkLoop] at hr
  | succ n ih =>
    intro inp ac rc h nonctx r h' hr
    unfold hunkLoop at hr
    split at hr
    · simp only [Except.ok.injEq, Prod.mk.injEq] at hr
      obtain ⟨rfl, rfl⟩ := hr
      exact ⟨by omega, by omega, by omega, rfl, rfl, fun hi => ⟨_, hi⟩⟩
    · split at hr
      · simp at hr
      · rename_i inp' t line hl
        have hp := parseHunkLine_ok _ _ _ _ hl
        split at hr
        · split at hr
          · simp at hr
          · obtain ⟨i1, i2, i3, i4, i5, i6⟩ := ih _ _ _ _ _ _ _ hr
            simp only [List.length_append, List.length_cons, List.length_nil] at i2 i3
            refine ⟨by omega, by omega, by omega, i4, i5, fun hi => i6 (HInv_add _ _ _ hi)⟩
        · split at hr
          · simp at hr
          · obtain ⟨i1, i2, i3, i4, i5, i6⟩ := ih _ _ _ _ _ _ _ hr
            simp only [List.length_append, List.length_cons, List.length_nil] at i2 i3
            refine ⟨by omega, by omega, by omega, i4, i5, fun hi => i6 (HInv_rem _ _ _ hi)⟩
        · split at hr
          · simp at hr
          · obtain ⟨i1, i2, i3, i4, i5, i6⟩ := ih _ _ _ _ _ _ _ hr
            have hi' := HInv_ctx h nonctx line
            cases nonctx
            all_goals
              simp only [Bool.not_false, Bool.not_true, Bool.false_eq_true, if_true, if_false,
                List.length_append, List.length_cons, List.length_nil] at i2 i3 i4 i5 i6 hi'
              refine ⟨by omega, by omega, by omega, i4, i5, fun hi => i6 (hi' hi)⟩


/-- what later stages need of a parsed hunk -/
def HunkGood (hk : PHunk) : Prop :=
  hk.WF ∧ 0 ≤ hk.remLine ∧ 0 ≤ hk.addLine ∧ hk.remLine < 2^63 ∧ hk.addLine < 2^63

theorem startLine_bounds (line count : Nat) (h : line ≤ 2^63 - 1) :
    0 ≤ startLine line count ∧ startLine line count < 2^63 := by
  unfold startLine
  split <;> omega

theorem parseHunk_ok (inp r : Bytes) (hk : PHunk) (h : parseHunk inp = .ok (r, hk)) :
    r.length < inp.length ∧ hk.add.length ≤ inp.length - r.length ∧ hk.rem.length ≤ inp.length - r.length ∧
    HunkGood hk := by
  unfold parseHunk at h
  split at h
  · simp at h
  · simp at h
  · rename_i r1 hd hh
    obtain ⟨g1, g2, g3⟩ := parseHunkHeader_ok _ _ _ hh
    obtain ⟨i1, i2, i3, i4, i5, i6⟩ := hunkLoop_ok _ _ _ _ _ _ _ _ h
    simp only [List.length_nil] at i2 i3
    obtain ⟨b, hb⟩ := i6 (by refine ⟨?_, ?_, ?_, ?_, ?_⟩ <;> simp)
    have s1 := startLine_bounds hd.remLine hd.remCount g2
    have s2 := startLine_bounds hd.addLine hd.addCount g3
    refine ⟨by omega, by omega, by omega, HInv_WF _ _ hb, ?_, ?_, ?_, ?_⟩
    · rw [i4]; exact s1.1
    · rw [i5]; exact s2.1
    · rw [i4]; exact s1.2
    · rw [i5]; exact s2.2

theorem parseHunk_fuel (inp : Bytes) : parseHunk inp ≠ .error .outOfFuel := by
  unfold parseHunk
  split
  · simp
  · simp
  · exact hunkLoop_fuel _ _ _ _ _ _ (by omega)

theorem hunksLoop_fuel : ∀ (fuel : Nat) (inp : Bytes) (acc : List PHunk),
    inp.length < fuel → hunksLoop fuel inp acc ≠ .error .outOfFuel := by
  intro fuel
  induction fuel with
  | zero => intro inp acc hf; omega
  | succ n ih =>
    intro inp acc hf
    unfold hunksLoop
    split
    · rename_i r h hp
      have := (parseHunk_ok _ _ _ hp).1
      exact ih _ _ (by omega)
    · simp
    · rename_i e hne he
      intro hc
      simp only [Except.error.injEq] at hc; subst hc
      exact parseHunk_fuel _ he

theorem hunksLoop_ok : ∀ (fuel : Nat) (inp : Bytes) (acc : List PHunk) (r : Bytes) (hs : List PHunk),
    hunksLoop fuel inp acc = .ok (r, hs) →
    r.length ≤ inp.length ∧ ((∀ h ∈ acc, HunkGood h) → ∀ h ∈ hs, HunkGood h) := by
  intro fuel
  induction fuel with
  | zero => intro inp acc r hs h; simp [hunksLoop] at h
  | succ n ih =>
    intro inp acc r hs h
    unfold hunksLoop at h
    split at h
    · rename_i r1 h1 hp
      obtain ⟨p1, _, _, p4⟩ := parseHunk_ok _ _ _ hp
      obtain ⟨i1, i2⟩ := ih _ _ _ _ h
      refine ⟨by omega, fun hacc => i2 ?_⟩
      intro x hx
      rcases List.mem_append.mp hx with hx | hx
      · exact hacc x hx
      · simp only [List.mem_singleton] at hx; subst hx; exact p4
    · simp only [Except.ok.injEq, Prod.mk.injEq] at h
      obtain ⟨rfl, rfl⟩ := h
      exact ⟨by omega, fun hacc => hacc⟩
    · simp at h

/-- what later stages need of a parsed file patch -/
def FPGood (fp : PFilePatch) : Prop :=
  (fp.old.isSome ∨ fp.new.isSome) ∧
  (fp.kind ≠ .modify → fp.hunks.length = 1) ∧
  (fp.rename = true → fp.old.isSome ∧ fp.new.isSome) ∧
  ∀ hk ∈ fp.hunks, HunkGood hk

theorem recognizeKind_len (hs : List PHunk) (h : recognizeKind hs ≠ .modify) : hs.length = 1 := by
  unfold recognizeKind at h
  split at h
  · rfl
  · exact absurd rfl h

theorem buildFilePatch_some (m : Meta) (hs : List PHunk) (fp : PFilePatch)
    (h : buildFilePatch m hs = some fp) (hhs : ∀ hk ∈ hs, HunkGood hk) : FPGood fp := by
  unfold buildFilePatch at h
  simp only at h
  split at h
  · simp at h
  · split at h
    · simp at h
    · rename_i c1 c2
      simp only [Option.some.injEq] at h
      subst h
      refine ⟨?_, ?_, ?_, ?_⟩
      · simp only
        cases h1 : (realName m.old).isSome <;> cases h2 : (realName m.new).isSome <;>
          cases h3 : (m.renFrom && m.renTo) <;> simp_all
      · simp only; exact recognizeKind_len hs
      · simp only
        cases h1 : (realName m.old).isSome <;> cases h2 : (realName m.new).isSome <;>
          cases h3 : (m.renFrom && m.renTo) <;> simp_all
      · exact hhs

theorem stripFP_good (n : Nat) (fp : PFilePatch) (h : FPGood fp) : FPGood (stripFP n fp) := by
  obtain ⟨h1, h2, h3, h4⟩ := h
  refine ⟨?_, h2, ?_, h4⟩
  · simp only [stripFP, Option.isSome_map]; exact h1
  · simp only [stripFP, Option.isSome_map]; exact h3


/-- a result of `filePatchLoop` is fine: fuel not exhausted; on success input was consumed and the file
patch is well formed -/
def FPLGood (total : Nat) (res : Except EB (Bytes × Nat × PFilePatch)) : Prop :=
  res ≠ .error .outOfFuel ∧ ∀ r hl fp, res = .ok (r, hl, fp) → r.length < total ∧ FPGood fp

theorem FPLGood_error (total : Nat) (e : EB) (h : e ≠ .outOfFuel) : FPLGood total (.error e) :=
  ⟨by intro hc; simp only [Except.error.injEq] at hc; exact h hc, by intro r hl fp hc; cases hc⟩

theorem FPLGood_ok (total : Nat) (r : Bytes) (hl : Nat) (fp : PFilePatch) (h1 : r.length < total)
    (h2 : FPGood fp) : FPLGood total (.ok (r, hl, fp)) := by
  refine ⟨by simp, ?_⟩
  intro r' hl' fp' hc
  simp only [Except.ok.injEq, Prod.mk.injEq] at hc
  obtain ⟨rfl, rfl, rfl⟩ := hc
  exact ⟨h1, h2⟩

theorem filePatchLoop_spec (total : Nat) : ∀ (fuel : Nat) (inp : Bytes) (wh : Bool) (header : Nat)
    (git ext : Bool) (m : Meta),
    inp.length ≤ total → inp.length < fuel →
    ((ext = true ∨ haveFilename m = true) → inp.length < total) →
    FPLGood total (filePatchLoop total fuel inp wh header git ext m) := by
  intro fuel
  induction fuel with
  | zero => intro inp wh header git ext m _ hf; omega
  | succ n ih =>
    intro inp wh header git ext m hle hf hinv
    unfold filePatchLoop
    extract_lets hnm
    by_cases hcnd : (!haveFilename m || hnm) = true
    · rw [if_pos hcnd]
      split
      · rename_i e he
        have := parsePatchLine_err _ _ _ he
        subst this
        exact FPLGood_error _ _ (by simp)
      · rename_i inp' pl hp
        obtain ⟨hle', hlt⟩ := parsePatchLine_ok _ _ _ _ hp
        cases pl with
        | garbage =>
          have hlt := hlt (by intro hc; cases hc)
          exact ih _ _ _ _ _ _ (by omega) (by omega) (fun _ => by omega)
        | endOfPatch =>
          simp only
          split
          · rename_i hext
            split
            · rename_i fp hb
              exact FPLGood_ok _ _ _ _ (hinv (Or.inl hext)) (buildFilePatch_some _ _ _ hb (by simp))
            · exact FPLGood_error _ _ (by simp)
          · exact FPLGood_error _ _ (by simp)
        | mline ml =>
          have hlt := hlt (by intro hc; cases hc)
          cases ml with
          | gitDiff o n =>
            simp only
            split
            · rename_i fp hd
              split at hd
              · rename_i hext
                exact FPLGood_ok _ _ _ _ (hinv (Or.inl hext)) (buildFilePatch_some _ _ _ hd (by simp))
              · simp at hd
            · exact ih _ _ _ _ _ _ (by omega) (by omega) (fun _ => by omega)
          | minus f => exact ih _ _ _ _ _ _ (by omega) (by omega) (fun _ => by omega)
          | plus f => exact ih _ _ _ _ _ _ (by omega) (by omega) (fun _ => by omega)
        | git gl =>
          have hlt := hlt (by intro hc; cases hc)
          cases gl
          case binary => exact FPLGood_error _ _ (by simp)
          all_goals exact ih _ _ _ _ _ _ (by omega) (by omega) (fun _ => by omega)
    · rw [if_neg hcnd]
      have hfn : haveFilename m = true := by
        cases hh : haveFilename m
        · simp [hh] at hcnd
        · rfl
      have hlt := hinv (Or.inr hfn)
      split
      · rename_i e he
        refine FPLGood_error _ _ ?_
        intro hc; subst hc
        exact hunksLoop_fuel _ _ _ (by omega) he
      · rename_i inp' hs hh
        obtain ⟨h1, h2⟩ := hunksLoop_ok _ _ _ _ _ hh
        split
        · exact FPLGood_error _ _ (by simp)
        · rename_i fp hb
          exact FPLGood_ok _ _ _ _ (by omega) (buildFilePatch_some _ _ _ hb (h2 (by simp)))

theorem parseFilePatch_spec (bytes : Bytes) (wh : Bool) : FPLGood bytes.length (parseFilePatch bytes wh) := by
  unfold parseFilePatch
  exact filePatchLoop_spec _ _ _ _ _ _ _ _ (by omega) (by omega) (by simp [haveFilename])

theorem patchLoop_spec (strip : Nat) : ∀ (fuel : Nat) (inp : Bytes) (wants : Bool) (header : Bytes)
    (acc : List PFilePatch), inp.length < fuel → (∀ fp ∈ acc, FPGood fp) →
    patchLoop strip fuel inp wants header acc ≠ .error .outOfFuel ∧
    ∀ p, patchLoop strip fuel inp wants header acc = .ok p → ∀ fp ∈ p.fps, FPGood fp := by
  intro fuel
  induction fuel with
  | zero => intro inp wants header acc hf; omega
  | succ n ih =>
    intro inp wants header acc hf hacc
    unfold patchLoop
    have hspec := parseFilePatch_spec inp wants
    split
    · refine ⟨by simp, ?_⟩
      intro p hp
      simp only [Except.ok.injEq] at hp
      subst hp
      exact hacc
    · rename_i e hne he
      refine ⟨?_, by intro p hp; cases hp⟩
      intro hc
      simp only [Except.error.injEq] at hc; subst hc
      rw [he] at hspec
      exact hspec.1 rfl
    · rename_i inp' hlen fp hp
      rw [hp] at hspec
      obtain ⟨g1, g2⟩ := hspec.2 _ _ _ rfl
      refine ih _ _ _ _ (by omega) ?_
      intro x hx
      rcases List.mem_append.mp hx with hx | hx
      · exact hacc x hx
      · simp only [List.mem_singleton] at hx; subst hx; exact stripFP_good _ _ g2

theorem patchLoop_noMatch (strip : Nat) : ∀ (fuel : Nat) (inp : Bytes) (wants : Bool) (header : Bytes)
    (acc : List PFilePatch), patchLoop strip fuel inp wants header acc ≠ .error .noMatch := by
  intro fuel
  induction fuel with
  | zero => intro inp wants header acc; simp [patchLoop]
  | succ n ih =>
    intro inp wants header acc
    unfold patchLoop
    split
    · simp
    · rename_i e hne he
      intro hc
      simp only [Except.error.injEq] at hc
      exact hne hc
    · exact ih _ _ _ _


end RQ.Parse
