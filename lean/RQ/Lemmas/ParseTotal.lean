import RQ.Model.Parse
import RQ.Spec.Apply
/-! Helper lemmas for C11: every loop of the parser consumes input, fuel is never exhausted; invariants
of parsed hunks. -/
namespace RQ.Parse
open RQ

/-! ### generic facts about `Except` binds -/

theorem bind_ok {α β : Type} {x : R α} {f : α → R β} {v : β} (h : (x >>= f) = .ok v) :
    ∃ a, x = .ok a ∧ f a = .ok v := by
  cases x with
  | error e => cases h
  | ok a => exact ⟨a, rfl, h⟩

/-! ### basic sub-parsers: progress -/

theorem stripPrefix_len : ∀ (p inp r : Bytes), stripPrefix p inp = some r → r.length + p.length = inp.length
  | [], inp, r, h => by simp [stripPrefix] at h; simp [h]
  | _ :: _, [], r, h => by simp [stripPrefix] at h
  | p :: ps, b :: bs, r, h => by
    simp only [stripPrefix] at h
    split at h
    · have := stripPrefix_len ps bs r h; simp only [List.length_cons]; omega
    · simp at h

theorem takeLineIncl_ok : ∀ (inp r l : Bytes), takeLineIncl inp = .ok (r, l) → r.length < inp.length
  | [], r, l, h => by simp [takeLineIncl] at h
  | b :: bs, r, l, h => by
    simp only [takeLineIncl] at h
    split at h
    · simp only [Except.ok.injEq, Prod.mk.injEq] at h
      simp [← h.1]
    · split at h
      · simp at h
      · rename_i rest line heq
        simp only [Except.ok.injEq, Prod.mk.injEq] at h
        have := takeLineIncl_ok bs rest line heq
        simp only [List.length_cons, ← h.1]; omega

theorem takeLineIncl_err : ∀ (inp : Bytes) (e : EB), takeLineIncl inp = .error e → e = .unexpectedEndOfFile
  | [], e, h => by simp [takeLineIncl] at h; exact h.symm
  | b :: bs, e, h => by
    simp only [takeLineIncl] at h
    split at h
    · simp at h
    · split at h
      · rename_i e' heq
        simp only [Except.error.injEq] at h
        exact h ▸ takeLineIncl_err bs e' heq
      · simp at h

theorem takeLineSkip_ok : ∀ (inp r l : Bytes), takeLineSkip inp = .ok (r, l) → r.length < inp.length
  | [], r, l, h => by simp [takeLineSkip] at h
  | b :: bs, r, l, h => by
    simp only [takeLineSkip] at h
    split at h
    · simp only [Except.ok.injEq, Prod.mk.injEq] at h
      simp [← h.1]
    · split at h
      · simp at h
      · rename_i rest line heq
        simp only [Except.ok.injEq, Prod.mk.injEq] at h
        have := takeLineSkip_ok bs rest line heq
        simp only [List.length_cons, ← h.1]; omega

theorem takeLineSkip_err : ∀ (inp : Bytes) (e : EB), takeLineSkip inp = .error e → e = .unexpectedEndOfFile
  | [], e, h => by simp [takeLineSkip] at h; exact h.symm
  | b :: bs, e, h => by
    simp only [takeLineSkip] at h
    split at h
    · simp at h
    · split at h
      · rename_i e' heq
        simp only [Except.error.injEq] at h
        exact h ▸ takeLineSkip_err bs e' heq
      · simp at h

theorem splitAtCond_len (pred : UInt8 → Bool) : ∀ (inp : Bytes),
    (splitAtCond pred inp).1.length + (splitAtCond pred inp).2.length = inp.length
  | [] => by simp [splitAtCond]
  | b :: bs => by
    simp only [splitAtCond]
    split
    · simp
    · have := splitAtCond_len pred bs
      simp only [List.length_cons]; omega

theorem splitAtCond_snd_le (pred : UInt8 → Bool) (inp : Bytes) :
    (splitAtCond pred inp).2.length ≤ inp.length := by
  have := splitAtCond_len pred inp; omega

theorem newline_ok (inp r l : Bytes) (h : newline inp = .ok (r, l)) : r.length < inp.length := by
  unfold newline at h
  split at h
  · simp at h
  · split at h
    · simp only [Except.ok.injEq, Prod.mk.injEq] at h; simp [← h.1]
    · simp at h

end RQ.Parse
