import RQ.Lemmas.RoundTripName
/-! C12: the line parsers `parseMetadataLine` / `parseGitMetadataLine` / `parsePatchLine` as a dispatch
on a fixed prefix followed by a body parser. -/
namespace RQ.Write
open RQ RQ.Parse

def gitDiffBody (r : Bytes) : R (Bytes × MetaLine) := do
  let (r, o) ← parseFilename r
  let (r, n) ← parseFilename r
  let (r, _) ← takeLineIncl r
  pure (r, .gitDiff o n)

def nameBody (k : Filename → MetaLine) (r : Bytes) : R (Bytes × MetaLine) := do
  let (r, f) ← parseFilename r
  let (r, _) ← takeLineIncl r
  pure (r, k f)

def skipBody (g : GitLine) (r : Bytes) : R (Bytes × GitLine) := do
  let (r, _) ← takeLineSkip r
  pure (r, g)

def modeBody (k : Nat → GitLine) (r : Bytes) : R (Bytes × GitLine) := do
  let (r, m) ← parseMode r
  let (r, _) ← newline r
  pure (r, k m)

def indexBody (r : Bytes) : R (Bytes × GitLine) := do
  let (r, o) ← parseGitHash r
  match stripPrefix (sDotDot) r with
  | none => .error .noMatch
  | some r =>
    let (r, n) ← parseGitHash r
    let (r, m) := match parseMode r with
      | .ok (r', m) => (r', some m)
      | .error _ => (r, none)
    let (r, _) ← newline r
    pure (r, .index o n m)

theorem meta_gitDiff (x : Bytes) : parseMetadataLine (sDiffGit ++ x) = gitDiffBody x := rfl
theorem meta_minus (x : Bytes) : parseMetadataLine (sMinus ++ x) = nameBody .minus x := rfl
theorem meta_plus (x : Bytes) : parseMetadataLine (sPlus ++ x) = nameBody .plus x := rfl

theorem git_index (x : Bytes) : parseGitMetadataLine (sIndex ++ x) = indexBody x := rfl
theorem git_renameFrom (x : Bytes) : parseGitMetadataLine (sRenameFrom ++ x) = skipBody .renameFrom x := rfl
theorem git_renameTo (x : Bytes) : parseGitMetadataLine (sRenameTo ++ x) = skipBody .renameTo x := rfl
theorem git_copyFrom (x : Bytes) : parseGitMetadataLine (sCopyFrom ++ x) = skipBody .copyFrom x := rfl
theorem git_copyTo (x : Bytes) : parseGitMetadataLine (sCopyTo ++ x) = skipBody .copyTo x := rfl
theorem git_binary (x : Bytes) : parseGitMetadataLine (sGitBinary ++ x) = skipBody .binary x := rfl
theorem git_oldMode (x : Bytes) : parseGitMetadataLine (sOldMode ++ x) = modeBody .oldMode x := rfl
theorem git_newMode (x : Bytes) : parseGitMetadataLine (sNewMode ++ x) = modeBody .newMode x := rfl
theorem git_newFileMode (x : Bytes) : parseGitMetadataLine (sNewFileMode ++ x) = modeBody .newFileMode x := rfl
theorem git_deletedFileMode (x : Bytes) : parseGitMetadataLine (sDeletedFileMode ++ x) = modeBody .deletedFileMode x := rfl

theorem stripPrefix_inv : ∀ (p inp r : Bytes), stripPrefix p inp = some r → inp = p ++ r := by
  intro p
  induction p with
  | nil => intro inp r h; cases inp <;> simp [stripPrefix] at h <;> simp [h]
  | cons a p ih =>
    intro inp r h
    cases inp with
    | nil => simp [stripPrefix] at h
    | cons b bs =>
      simp only [stripPrefix] at h
      split at h
      · rename_i hab
        have := ih bs r h
        simp at hab
        rw [this, hab]; rfl
      · cases h

/-- the prefixes of `parseMetadataLine` with their bodies -/
def metaTable : List (Bytes × (Bytes → R (Bytes × MetaLine))) :=
  [(sDiffGit, gitDiffBody), (sMinus, nameBody .minus), (sPlus, nameBody .plus)]

theorem meta_inv (inp : Bytes) (res : Bytes × MetaLine) (h : parseMetadataLine inp = .ok res) :
    ∃ pb ∈ metaTable, ∃ x, inp = pb.1 ++ x ∧ pb.2 x = .ok res := by
  unfold parseMetadataLine at h
  split at h
  · cases h
  · repeat' split at h
    all_goals try (cases h; done)
    all_goals
      rename_i heq
      have e := stripPrefix_inv _ _ _ heq
    · exact ⟨(sDiffGit, gitDiffBody), by simp [metaTable], _, e, h⟩
    · exact ⟨(sMinus, nameBody .minus), by simp [metaTable], _, e, h⟩
    · exact ⟨(sPlus, nameBody .plus), by simp [metaTable], _, e, h⟩

theorem meta_table_unfold : ∀ pb ∈ metaTable, ∀ x, parseMetadataLine (pb.1 ++ x) = pb.2 x := by
  intro pb hpb x
  simp only [metaTable, List.mem_cons, List.mem_nil_iff, or_false] at hpb
  rcases hpb with rfl | rfl | rfl <;> rfl

/-- the prefixes of `parseGitMetadataLine` with their bodies -/
def gitTable : List (Bytes × (Bytes → R (Bytes × GitLine))) :=
  [(sIndex, indexBody), (sRenameFrom, skipBody .renameFrom), (sRenameTo, skipBody .renameTo),
   (sCopyFrom, skipBody .copyFrom), (sCopyTo, skipBody .copyTo), (sGitBinary, skipBody .binary),
   (sOldMode, modeBody .oldMode), (sNewMode, modeBody .newMode), (sNewFileMode, modeBody .newFileMode),
   (sDeletedFileMode, modeBody .deletedFileMode)]

theorem git_inv (inp : Bytes) (res : Bytes × GitLine) (h : parseGitMetadataLine inp = .ok res) :
    ∃ pb ∈ gitTable, ∃ x, inp = pb.1 ++ x ∧ pb.2 x = .ok res := by
  unfold parseGitMetadataLine at h
  split at h
  · cases h
  · repeat' split at h
    all_goals try (cases h; done)
    all_goals
      rename_i heq
      have e := stripPrefix_inv _ _ _ heq
    · exact ⟨(sIndex, indexBody), by simp [gitTable], _, e, h⟩
    · exact ⟨(sRenameFrom, skipBody .renameFrom), by simp [gitTable], _, e, h⟩
    · exact ⟨(sRenameTo, skipBody .renameTo), by simp [gitTable], _, e, h⟩
    · exact ⟨(sCopyFrom, skipBody .copyFrom), by simp [gitTable], _, e, h⟩
    · exact ⟨(sCopyTo, skipBody .copyTo), by simp [gitTable], _, e, h⟩
    · exact ⟨(sGitBinary, skipBody .binary), by simp [gitTable], _, e, h⟩
    · exact ⟨(sOldMode, modeBody .oldMode), by simp [gitTable], _, e, h⟩
    · exact ⟨(sNewMode, modeBody .newMode), by simp [gitTable], _, e, h⟩
    · exact ⟨(sNewFileMode, modeBody .newFileMode), by simp [gitTable], _, e, h⟩
    · exact ⟨(sDeletedFileMode, modeBody .deletedFileMode), by simp [gitTable], _, e, h⟩

theorem git_table_unfold : ∀ pb ∈ gitTable, ∀ x, parseGitMetadataLine (pb.1 ++ x) = pb.2 x := by
  intro pb hpb x
  simp only [gitTable, List.mem_cons, List.mem_nil_iff, or_false] at hpb
  rcases hpb with rfl | rfl | rfl | rfl | rfl | rfl | rfl | rfl | rfl | rfl <;> rfl

/-! ### `parsePatchLine` -/

theorem parsePatchLine_mline (git : Bool) (inp r : Bytes) (m : MetaLine) (h : parseMetadataLine inp = .ok (r, m)) :
    parsePatchLine git inp = .ok (r, .mline m) := by
  unfold parsePatchLine; rw [h]

theorem parsePatchLine_git (inp r : Bytes) (gl : GitLine) (e : EB) (h1 : parseMetadataLine inp = .error e)
    (h2 : parseGitMetadataLine inp = .ok (r, gl)) : parsePatchLine true inp = .ok (r, .git gl) := by
  unfold parsePatchLine; rw [h1]; simp [h2]

theorem parsePatchLine_garbage (git : Bool) (inp r l : Bytes) (e : EB) (h1 : parseMetadataLine inp = .error e)
    (h2 : git = true → ∃ e', parseGitMetadataLine inp = .error e') (h3 : takeLineIncl inp = .ok (r, l)) :
    parsePatchLine git inp = .ok (r, .garbage) := by
  unfold parsePatchLine; rw [h1]
  cases git with
  | false => simp [h3]
  | true =>
    obtain ⟨e', he'⟩ := h2 rfl
    simp [he', h3]

theorem parsePatchLine_inv (git : Bool) (inp inp' : Bytes) (pl : PatchLine)
    (h : parsePatchLine git inp = .ok (inp', pl)) :
    (∃ m, pl = .mline m ∧ parseMetadataLine inp = .ok (inp', m)) ∨
    (∃ gl, pl = .git gl ∧ git = true ∧ (∃ e, parseMetadataLine inp = .error e) ∧
      parseGitMetadataLine inp = .ok (inp', gl)) ∨
    (pl = .garbage ∧ (∃ e, parseMetadataLine inp = .error e) ∧
      (git = true → ∃ e, parseGitMetadataLine inp = .error e) ∧ ∃ l, takeLineIncl inp = .ok (inp', l)) ∨
    (pl = .endOfPatch ∧ inp = [] ∧ inp' = []) := by
  unfold parsePatchLine at h
  cases hm : parseMetadataLine inp with
  | ok v =>
    obtain ⟨r, m⟩ := v
    rw [hm] at h
    simp only [Except.ok.injEq, Prod.mk.injEq] at h
    left; exact ⟨m, h.2.symm, by rw [h.1]⟩
  | error e =>
    rw [hm] at h
    simp only [] at h
    right
    cases git with
    | true =>
      cases hg : parseGitMetadataLine inp with
      | ok v =>
        obtain ⟨r, gl⟩ := v
        simp only [hg, if_true] at h
        simp only [Except.ok.injEq, Prod.mk.injEq] at h
        left; exact ⟨gl, h.2.symm, rfl, ⟨e, rfl⟩, by rw [h.1]⟩
      | error e2 =>
        simp only [hg, if_true] at h
        right
        cases ht : takeLineIncl inp with
        | ok v =>
          obtain ⟨r, l⟩ := v
          simp only [ht, Except.ok.injEq, Prod.mk.injEq] at h
          left; exact ⟨h.2.symm, ⟨e, rfl⟩, fun _ => ⟨e2, rfl⟩, l, by rw [h.1]⟩
        | error e3 =>
          simp only [ht] at h
          right
          cases inp with
          | nil => simp at h; exact ⟨h.2.symm, rfl, h.1⟩
          | cons b bs => simp at h
    | false =>
      simp only [Bool.false_eq_true, if_false] at h
      right
      cases ht : takeLineIncl inp with
      | ok v =>
        obtain ⟨r, l⟩ := v
        simp only [ht, Except.ok.injEq, Prod.mk.injEq] at h
        left; exact ⟨h.2.symm, ⟨e, rfl⟩, (fun hh => by cases hh), ⟨l, by rw [h.1]⟩⟩
      | error e3 =>
        simp only [ht] at h
        right
        cases inp with
        | nil => simp at h; exact ⟨h.2.symm, rfl, h.1⟩
        | cons b bs => simp at h

end RQ.Write
