import RQ.Model.Push
/-! `applyOne` in two steps: the pre-load of the new file of a renaming patch (`preLoad`), then the rest
(`applyCore`, which is `apply_one_file_patch` as it was before the pre-load was added).  The lemmas about
`applyOne` are proved for `applyCore` and carried over the pre-load. -/
namespace RQ.Push
open RQ RQ.Parse RQ.Write

/-- the first step of `applyOne`: a renaming patch loads its new file -/
def preLoad (m : Mem) (fs : FS) (fp : PFilePatch) : Except Fail Mem :=
  if fp.rename then
    match fp.new with
    | none => .error .panic
    | some newName => (match getOrLoad m fs newName with | .ok (m, _) => .ok m | .error e => .error e)
  else .ok m

/-- `applyOne` without the pre-load -/
def applyCore (st : St) (fs : FS) (cfg : Cfg) (index : Nat) (entry : Series.Entry) (fp : PFilePatch) :
    Except Fail (St × Bool) :=
  if !namesSafe fp then .error .err else
  match choose st.mem fs fp.old fp.new with
  | none => .error .panic
  | some target =>
    match getOrLoad st.mem fs target with
    | .error e => .error e
    | .ok (mem, file) =>
      let dir : Dir := if entry.reverse then .rev else .fwd
      if fp.rename then
        match fp.new with
        | none => .error .panic
        | some newName =>
          let oldWasDeleted := file.deleted
          let (emptied, tmp) := moveOut file
          let mem := mem.put target emptied
          match getOrLoad mem fs newName with
          | .error e => .error e
          | .ok (mem, newFile) =>
            let before := (oldWasDeleted, newFile.deleted, newFile.perms)
            match moveIn newFile tmp with
            | none =>
              match mem.get target with
              | none => .error .panic
              | some tf =>
                match moveIn tf tmp with
                | some tf' => .ok ({ st with mem := mem.put target { tf' with deleted := oldWasDeleted } }, false)
                | none => .ok ({ st with mem := mem.put target { tf with deleted := oldWasDeleted } }, false)
            | some moved =>
              match fp.apply dir cfg.fuzz moved with
              | none => .error .panic
              | some (f', rep) =>
                .ok ({ applied := { index, fp, target, final := newName, report := rep, patchName := entry.name,
                                    beforeRename := some before } :: st.applied,
                       mem := mem.put newName f' }, rep.ok)
      else
        match fp.apply dir cfg.fuzz file with
        | none => .error .panic
        | some (f', rep) =>
          .ok ({ applied := { index, fp, target, final := target, report := rep, patchName := entry.name,
                              beforeRename := none } :: st.applied,
                 mem := mem.put target f' }, rep.ok)

theorem applyOne_eq (st : St) (fs : FS) (cfg : Cfg) (index : Nat) (entry : Series.Entry) (fp : PFilePatch) :
    applyOne st fs cfg index entry fp =
      if !namesSafe fp then .error .err else
      match preLoad st.mem fs fp with
      | .error e => .error e
      | .ok mem0 => applyCore { st with mem := mem0 } fs cfg index entry fp := by
  unfold applyOne applyCore
  split
  · rfl
  · rfl

/-- a successful `applyOne`: the pre-load succeeded and the rest ran from its memory -/
theorem applyOne_ok_split {st st' : St} {fs : FS} {cfg : Cfg} {index : Nat} {entry : Series.Entry}
    {fp : PFilePatch} {b : Bool} (h : applyOne st fs cfg index entry fp = .ok (st', b)) :
    ∃ mem0, preLoad st.mem fs fp = .ok mem0 ∧
      applyCore { st with mem := mem0 } fs cfg index entry fp = .ok (st', b) := by
  rw [applyOne_eq] at h
  split at h
  · cases h
  · split at h
    · cases h
    · rename_i mem0 hp
      exact ⟨mem0, hp, h⟩

/-- a failing `applyOne`: an unsafe name, a failing pre-load, or the rest failed -/
theorem applyOne_err_split {st : St} {fs : FS} {cfg : Cfg} {index : Nat} {entry : Series.Entry}
    {fp : PFilePatch} {e : Fail} (h : applyOne st fs cfg index entry fp = .error e) :
    (namesSafe fp = false ∧ e = .err) ∨
    (namesSafe fp = true ∧ preLoad st.mem fs fp = .error e) ∨
    (∃ mem0, preLoad st.mem fs fp = .ok mem0 ∧
      applyCore { st with mem := mem0 } fs cfg index entry fp = .error e) := by
  rw [applyOne_eq] at h
  split at h
  · rename_i hns
    cases h
    exact .inl ⟨by simpa using hns, rfl⟩
  · rename_i hns
    split at h
    · rename_i e' hp
      cases h
      exact .inr (.inl ⟨by simpa using hns, hp⟩)
    · rename_i mem0 hp
      exact .inr (.inr ⟨mem0, hp, h⟩)

/-- the pre-load does nothing or is a `getOrLoad` of the new name -/
theorem preLoad_ok {m mem0 : Mem} {fs : FS} {fp : PFilePatch} (h : preLoad m fs fp = .ok mem0) :
    mem0 = m ∨ ∃ newName f, fp.rename = true ∧ fp.new = some newName ∧ getOrLoad m fs newName = .ok (mem0, f) := by
  unfold preLoad at h
  split at h
  · rename_i hren
    split at h
    · cases h
    · rename_i newName hnew
      split at h
      · rename_i m1 f hl
        cases h
        exact .inr ⟨newName, f, hren, hnew, hl⟩
      · cases h
  · cases h
    exact .inl rfl

theorem preLoad_err {m : Mem} {fs : FS} {fp : PFilePatch} {e : Fail} (h : preLoad m fs fp = .error e) :
    fp.rename = true ∧ ((fp.new = none ∧ e = .panic) ∨ ∃ newName, fp.new = some newName ∧ getOrLoad m fs newName = .error e) := by
  unfold preLoad at h
  split at h
  · rename_i hren
    refine ⟨hren, ?_⟩
    split at h
    · rename_i hnew
      cases h
      exact .inl ⟨hnew, rfl⟩
    · rename_i newName hnew
      split at h
      · cases h
      · rename_i e' hl
        cases h
        exact .inr ⟨newName, hnew, hl⟩
  · cases h

end RQ.Push
