import RQ.Lemmas.Phase2
/-! What the first loop of `apply_modify` (`phase1`) guarantees about its reports. -/
set_option linter.unusedSectionVars false
set_option linter.unusedVariables false
namespace RQ
variable {α : Type} [DecidableEq α]

theorem matchesAt_true {needle hay : List α} {p : Int} (h : matchesAt needle hay p = true) :
    0 ≤ p ∧ needle.length + p.toNat ≤ hay.length ∧ (hay.drop p.toNat).take needle.length = needle := by
  unfold matchesAt at h
  split at h
  · simp at h
  · split at h
    · simp at h
    · refine ⟨by omega, by omega, by simpa using h⟩

theorem findPlace_matches {v : View α} {content : List α} {lo t : Int}
    (h : findPlace v content lo = some t) : matchesAt v.rem content t = true := by
  unfold findPlace at h
  simp only at h
  split at h
  · cases h; assumption
  · split at h
    · simp at h
    · have := List.find?_some h
      exact this

/-- shape of a successful `tryApply` -/
theorem tryApply_applied {v : View α} {content : List α} {deleted : Bool} {lo lf line rb off diff : Int} {fz : Nat}
    (h : tryApply v content deleted lo lf = .applied line rb off diff fz) :
    deleted = false ∧ findPlace v content lo = some line ∧ ¬ (line + v.pre ≤ lf) ∧ rb = line ∧
    off = line - v.remLine ∧ diff = (v.add.length : Int) - v.rem.length ∧ fz = v.fuzz := by
  unfold tryApply at h
  cases hd : deleted with
  | true => simp [hd] at h
  | false =>
    simp only [hd, Bool.false_eq_true, if_false] at h
    split at h
    · simp at h
    · split at h
      · simp at h
      · rename_i t ht
        split at h
        · simp at h
        · rename_i hfr
          simp only [Rep.applied.injEq] at h
          obtain ⟨rfl, rfl, rfl, rfl, rfl⟩ := h
          exact ⟨rfl, ht, hfr, rfl, rfl, rfl, rfl⟩

theorem view_fuzz (h : Hunk α) (d : Dir) (f : Nat) : (view h d f).fuzz = f := by
  cases d <;> rfl

/-- the fuzz loop ends with an application: it is the report of `tryApply` at some level in range -/
theorem levelLoop_some {h : Hunk α} {d : Dir} {content : List α} {deleted : Bool} {lo lf : Int} :
    ∀ {k f : Nat} {last r : Rep} {lo' lf' : Int},
    levelLoop h d content deleted lo lf k f last = (r, some (lo', lf')) →
    ∃ line rb off diff fz, r = .applied line rb off diff fz ∧ f ≤ fz ∧ fz < f + k ∧
      tryApply (view h d fz) content deleted lo lf = r ∧ lo' = off ∧
      lf' = line + (view h d fz).rem.length - (view h d fz).suf ∧
      ∀ g, f ≤ g → g < fz → (tryApply (view h d g) content deleted lo lf).isApplied = false := by
  intro k
  induction k with
  | zero => intro f last r lo' lf' hh; simp [levelLoop] at hh
  | succ k ih =>
    intro f last r lo' lf' hh
    simp only [levelLoop] at hh
    split at hh
    · rename_i line rb off diff fz heq
      simp only [Prod.mk.injEq, Option.some.injEq] at hh
      obtain ⟨rfl, rfl, rfl⟩ := hh
      have hfz : fz = f := by
        have := (tryApply_applied heq).2.2.2.2.2.2
        rw [view_fuzz] at this; exact this
      subst hfz
      exact ⟨line, rb, off, diff, fz, rfl, Nat.le_refl _, by omega, heq, rfl, rfl, by intro g h1 h2; omega⟩
    · rename_i hne
      obtain ⟨line, rb, off, diff, fz, h1, h2, h3, h4, h5, h6, h7⟩ := ih hh
      refine ⟨line, rb, off, diff, fz, h1, by omega, by omega, h4, h5, h6, ?_⟩
      intro g hg1 hg2
      by_cases hgf : g = f
      · subst hgf
        cases hr : tryApply (view h d g) content deleted lo lf with
        | applied a b c e f' => exact absurd hr (hne a b c e f')
        | failed _ => rfl
        | skipped => rfl
      · exact h7 g (by omega) hg2

/-- the fuzz loop ends without an application: the report is not `applied` (given `last` is not) -/
theorem levelLoop_none {h : Hunk α} {d : Dir} {content : List α} {deleted : Bool} {lo lf : Int} :
    ∀ {k f : Nat} {last r : Rep},
    levelLoop h d content deleted lo lf k f last = (r, none) → last.isApplied = false →
    r.isApplied = false ∧
    ∀ g, f ≤ g → g < f + k → (tryApply (view h d g) content deleted lo lf).isApplied = false := by
  intro k
  induction k with
  | zero => intro f last r hh hl; simp [levelLoop] at hh; subst hh; exact ⟨hl, by intro g h1 h2; omega⟩
  | succ k ih =>
    intro f last r hh hl
    simp only [levelLoop] at hh
    split at hh
    · simp at hh
    · rename_i hne
      have hna : (tryApply (view h d f) content deleted lo lf).isApplied = false := by
        cases hr : tryApply (view h d f) content deleted lo lf with
        | applied a b c e f' => exact absurd hr (hne a b c e f')
        | failed _ => rfl
        | skipped => rfl
      obtain ⟨h1, h2⟩ := ih hh hna
      refine ⟨h1, ?_⟩
      intro g hg1 hg2
      by_cases hgf : g = f
      · subst hgf; exact hna
      · exact h2 g (by omega) (by omega)

theorem phase1_length (d : Dir) (F : Nat) (content : List α) (deleted : Bool) :
    ∀ (hs : List (Hunk α)) (lo lf : Int), (phase1 d F content deleted hs lo lf).length = hs.length := by
  intro hs
  induction hs with
  | nil => intro _ _; rfl
  | cons h hs ih =>
    intro lo lf
    simp only [phase1]
    split <;> simp [ih]

theorem phase1_fits (d : Dir) (F : Nat) (content : List α) (deleted : Bool) :
    ∀ (hs : List (Hunk α)) (lo lf : Int), (∀ h ∈ hs, h.WFlen) →
      AllFit d hs (phase1 d F content deleted hs lo lf) := by
  intro hs
  induction hs with
  | nil => intro _ _ _; simp [phase1, AllFit]
  | cons h hs ih =>
    intro lo lf hw
    simp only [phase1]
    split
    · rename_i r lo' lf' heq
      obtain ⟨line, rb, off, diff, fz, rfl, _, _, htry, _, _, _⟩ := levelLoop_some heq
      obtain ⟨_, hfp, _, _, _, hdiff, _⟩ := tryApply_applied htry
      have hm := matchesAt_true (findPlace_matches hfp)
      refine ⟨⟨by omega, hdiff, view_wf h d fz (hw h (by simp))⟩, ih _ _ (fun x hx => hw x (by simp [hx]))⟩
    · rename_i r heq
      have := (levelLoop_none heq rfl).1
      refine ⟨?_, ih _ _ (fun x hx => hw x (by simp [hx]))⟩
      cases r <;> simp_all [RepFits, Rep.isApplied]

theorem phase1_ordered (d : Dir) (F : Nat) (content : List α) (deleted : Bool) :
    ∀ (hs : List (Hunk α)) (lo lf : Int) (base : Nat), (∀ h ∈ hs, h.WFlen) →
      (base : Int) ≤ lf + 1 → base ≤ content.length →
      Ordered base (content.length - base) (coreEdits d hs (phase1 d F content deleted hs lo lf)) := by
  intro hs
  induction hs with
  | nil => intro _ _ _ _ _ _; simp [phase1, coreEdits, Ordered]
  | cons h hs ih =>
    intro lo lf base hw hb hbl
    simp only [phase1]
    split
    · rename_i r lo' lf' heq
      obtain ⟨line, rb, off, diff, fz, rfl, _, _, htry, _, hlf, _⟩ := levelLoop_some heq
      obtain ⟨_, hfp, hfr, _, _, _, _⟩ := tryApply_applied htry
      have hm := matchesAt_true (findPlace_matches hfp)
      have hv := view_wf h d fz (hw h (by simp))
      obtain ⟨hv1, hv2⟩ := hv
      simp only [coreEdits, Ordered]
      refine ⟨by omega, by omega, ?_⟩
      have := ih lo' lf' ((line + (view h d fz).pre).toNat + ((view h d fz).rem.length - (view h d fz).pre - (view h d fz).suf))
        (fun x hx => hw x (by simp [hx])) (by omega) (by omega)
      have e : base + (content.length - base) - ((line + ↑(view h d fz).pre).toNat + ((view h d fz).rem.length - (view h d fz).pre - (view h d fz).suf))
          = content.length - ((line + ↑(view h d fz).pre).toNat + ((view h d fz).rem.length - (view h d fz).pre - (view h d fz).suf)) := by omega
      rw [e]; exact this
    · rename_i r heq
      have hna := (levelLoop_none heq rfl).1
      have := ih lo lf base (fun x hx => hw x (by simp [hx])) hb hbl
      cases r with
      | applied => simp [Rep.isApplied] at hna
      | failed _ => simpa [coreEdits] using this
      | skipped => simpa [coreEdits] using this

end RQ
