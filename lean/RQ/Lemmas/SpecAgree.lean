import RQ.Lemmas.SpecAgreeFS
import RQ.Lemmas.SpecAgreeApply
import RQ.Lemmas.DiskTree
/-!
# The executable specification and the abstract specification describe the same files

`Spec.applyRangeTree` (the oracle: every file patch applied to the tree itself, `RQ/Spec/Push.lean`) against
`Abs.applyRange` (the overlay `ATree` over the unchanged initial tree, `RQ/Spec/Abs.lean`) — the last hop of
driver model → abstract tree → disk → oracle.

* `Inv ks t fs0 fs`: the tree `fs` *represents* the overlay `t` over `fs0`, where `ks` are the disk paths of all
  names the patches mention: paths outside `ks` hold the regular files they held in `fs0`, directories of `fs0` that
  are not on the way to a name are still there, and every name whose path is in `ks` is on disk exactly as
  `Abs.look` sees it (`Good`: nothing on the way, `LookAt`, deleted files carry neither content nor permissions,
  lines survive the round trip through bytes).
* `store_inv`: `storeTree` re-establishes `Inv` for `Abs.put` (uses `storeTree_spec`).
* `applyFP_sim`: one file patch, all branches (plain, rename onto itself, refused rename, rename), both the
  successful and the refusing outcome.
* `fps_sim`, `range_sim`: a patch, the range.
* `spec_agree`: the statement for `pushSpec`'s `applyRangeTree` started on the initial tree.
* `finishSpec_fileAt`, `pushSpec_agree`: reject files, backups and `.pc/applied-patches` touch no other path, so the
  statement carries over to the tree `pushSpec` returns.
* `Example` (non-vacuity), `Needed` (both hypotheses below are necessary: two evaluated counterexamples).

Two hypotheses are needed.
(1) `PrefixFree`: no path of a name is a strict prefix of the path of another name (then "is a directory" and "is a
file" cannot get mixed up between the two descriptions: `fs.exists_` is true for directories, reading a directory
fails, `storeTree` prunes empty directories).  Nothing has to be assumed about how names relate to the *other*
paths of the initial tree: a name that is a directory there, or has a regular file on its way, is refused by both
descriptions alike (`loadTree_err_agree`), and such directories are never pruned.
(2) every overlay reached holds files whose lines survive `bytesOf`/`linesOf` (`Terminated`: no empty line, a
newline only at the end of a line, and every line but the last has one) — the known finding
`unterminated-line-mid-file`: the oracle re-reads a file from its bytes before every file patch, the abstract
specification (like the driver's cache) keeps the lines as the hunks left them.
-/
namespace RQ.Agree
open RQ RQ.Push RQ.Spec RQ.Abs RQ.Flush RQ.Parse RQ.Write
open RQ.Disk (viewOf)

/-! ## lines that survive the round trip through bytes -/

/-- the lines are what `linesOf` makes of their bytes -/
def Normal (c : List Bytes) : Prop := linesOf (bytesOf c) = c

/-- not empty, and no newline except possibly as the last byte -/
def lineOK (l : Bytes) : Bool := !l.isEmpty && !(l.dropLast.contains 10)

/-- every line is `lineOK`, and every line but the last ends with a newline -/
def Terminated : List Bytes → Bool
  | [] => true
  | [l] => lineOK l
  | l :: l2 :: ls => lineOK l && (l.getLast? == some 10) && Terminated (l2 :: ls)

theorem split_no10 (l : Bytes) : ∀ (rest cur : Bytes), (∀ x ∈ l, x ≠ 10) →
    splitLinesKeep (l ++ rest) cur = splitLinesKeep rest (cur ++ l) := by
  induction l with
  | nil => intro rest cur _; simp
  | cons b bs ih =>
    intro rest cur h
    have hb : b ≠ 10 := h b (by simp)
    rw [List.cons_append, splitLinesKeep]
    simp only [hb, if_false]
    rw [ih rest (cur ++ [b]) (fun x hx => h x (by simp [hx]))]
    simp

theorem split_line (body rest cur : Bytes) (h : ∀ x ∈ body, x ≠ 10) :
    splitLinesKeep (body ++ 10 :: rest) cur = (cur ++ body ++ [10]) :: splitLinesKeep rest [] := by
  rw [split_no10 body _ cur h, splitLinesKeep]
  simp

theorem lineOK_split {l : Bytes} (h : lineOK l = true) :
    l = l.dropLast ++ [l.getLast (by intro e; subst e; simp [lineOK] at h)] ∧ ∀ x ∈ l.dropLast, x ≠ 10 := by
  have hne : l ≠ [] := by intro e; subst e; simp [lineOK] at h
  refine ⟨(List.dropLast_concat_getLast hne).symm, ?_⟩
  intro x hx e
  subst e
  simp [lineOK, hx] at h

theorem split_single {l : Bytes} (h : lineOK l = true) : splitLinesKeep l [] = [l] := by
  obtain ⟨hl, hb⟩ := lineOK_split h
  have hne : l ≠ [] := by intro e; subst e; simp [lineOK] at h
  generalize l.getLast _ = x at hl
  by_cases hx : x = 10
  · subst hx
    rw [hl, split_line _ [] [] hb]
    simp [splitLinesKeep]
  · have hall : ∀ y ∈ l, y ≠ 10 := by
      intro y hy
      rw [hl] at hy
      simp only [List.mem_append, List.mem_singleton] at hy
      rcases hy with hy | hy
      · exact hb y hy
      · subst hy; exact hx
    have := split_no10 l [] [] hall
    simp only [List.append_nil, List.nil_append] at this
    rw [this]
    cases l with
    | nil => exact absurd rfl hne
    | cons b bs => simp [splitLinesKeep]

theorem split_first {l : Bytes} (h : lineOK l = true) (hlast : l.getLast? = some 10) (rest : Bytes) :
    splitLinesKeep (l ++ rest) [] = l :: splitLinesKeep rest [] := by
  obtain ⟨hl, hb⟩ := lineOK_split h
  have hne : l ≠ [] := by intro e; subst e; simp [lineOK] at h
  have hx : l.getLast hne = 10 := by
    rw [List.getLast?_eq_some_getLast hne] at hlast
    exact Option.some.inj hlast
  rw [hx] at hl
  have : l ++ rest = l.dropLast ++ 10 :: rest := by
    conv => lhs; rw [hl]
    simp
  rw [this, split_line _ rest [] hb]
  simp only [List.nil_append]
  rw [← hl]

/-- **`Terminated` lines survive the round trip** -/
theorem normal_of_terminated : ∀ {c : List Bytes}, Terminated c = true → Normal c
  | [], _ => by simp [Normal, linesOf, bytesOf, splitLinesKeep]
  | [l], h => by
    unfold Normal linesOf bytesOf
    simp only [List.flatten_cons, List.flatten_nil, List.append_nil]
    exact split_single h
  | l :: l2 :: ls, h => by
    simp only [Terminated, Bool.and_eq_true, beq_iff_eq] at h
    obtain ⟨⟨h1, h2⟩, h3⟩ := h
    have ih := normal_of_terminated h3
    unfold Normal linesOf bytesOf at ih ⊢
    rw [List.flatten_cons, split_first h1 h2, ih]

theorem normal_linesOf (bs : Bytes) : Normal (linesOf bs) := by
  unfold Normal
  rw [C01_lines_roundtrip]

theorem normal_nil : Normal [] := by simp [Normal, linesOf, bytesOf, splitLinesKeep]

/-! ## names and paths -/

theorem key_ne_nil {name : Bytes} {k : Key} (hc : Comp.cur ∉ components name) (hk : safeKey name = some k) :
    k ≠ [] := by
  intro e
  subst e
  have h1 := safeKey_components_of_no_cur hk hc
  simp only [List.map_nil] at h1
  have := Abs.components_eq_nil h1
  subst this
  simp [safeKey] at hk

/-- among names without `.` components: same components iff same path -/
theorem comps_eq_iff {n n' : Bytes} {k k' : Key} (hc : Comp.cur ∉ components n) (hc' : Comp.cur ∉ components n')
    (hk : safeKey n = some k) (hk' : safeKey n' = some k') : components n' = components n ↔ k' = k := by
  constructor
  · intro h
    have := Abs.safeKey_congr h
    rw [hk, hk'] at this
    exact Option.some.inj this
  · intro h
    subst h
    rw [safeKey_components_of_no_cur hk hc, safeKey_components_of_no_cur hk' hc']

theorem modeOf_mod (p : Option Nat) : modeOf p % 4096 = modeOf p := by
  unfold modeOf
  split <;> omega

/-! ## the representation invariant -/

/-- a deleted file carries neither content nor permissions -/
def Canon (a : AFile) : Prop := a.deleted = true → a.content = [] ∧ a.perms = none

/-- the path `k` holds the abstract file `a` -/
def LookAt (fs : FS) (k : Key) (a : AFile) : Prop :=
  if a.deleted then fs.lookup k = none
  else ∃ m i, fs.lookup k = some (.file (bytesOf a.content) m i) ∧ m % 4096 = modeOf a.perms

/-- two representations of one file on disk -/
def DiskEq (a b : AFile) : Prop :=
  a.deleted = b.deleted ∧ (a.deleted = false → a.content = b.content ∧ modeOf a.perms = modeOf b.perms)

structure Good (fs : FS) (k : Key) (a : AFile) : Prop where
  path : fs.fileOnPath k = false
  at_ : LookAt fs k a
  canon : Canon a
  normal : a.deleted = false → Normal a.content

/-- no path in `ks` is a strict prefix of another -/
def PF (ks : List Key) : Prop := ∀ k ∈ ks, ∀ k' ∈ ks, ¬ SPre k k'

/-- **`fs` represents the overlay `t` over `fs0`** (`ks`: the paths of the names patches may touch) -/
structure Inv (ks : List Key) (t : ATree) (fs0 fs : FS) : Prop where
  files : ∀ q, q ∉ ks → (IsFile (fs.lookup q) ∨ IsFile (fs0.lookup q)) → fs.lookup q = fs0.lookup q
  dirs0 : ∀ q, fs0.lookup q = some .dir → (∀ k ∈ ks, ¬ SPre q k) → fs.lookup q = some .dir
  others : ∀ name k, safeKey name = some k → k ∉ ks → look t fs0 name = look [] fs0 name
  names : ∀ name k a, Comp.cur ∉ components name → safeKey name = some k → k ∈ ks →
    look t fs0 name = .ok a → Good fs k a

theorem lookAt_congr {a b : FS} {k : Key} (h : b.lookup k = a.lookup k) {x : AFile} (hx : LookAt a k x) :
    LookAt b k x := by
  unfold LookAt at hx ⊢
  rw [h]; exact hx

theorem look_nil (fs : FS) (n : Bytes) :
    look [] fs n = match loadTree fs n with | .ok f => .ok (absOf f) | .error e => .error e := rfl

/-- a file as `loadTree` reads it is on disk the way `Good` says -/
theorem good_of_loadTree {fs : FS} {name : Bytes} {k : Key} {f : FileSt Bytes} (hk : safeKey name = some k)
    (h : loadTree fs name = .ok f) : Good fs k (absOf f) := by
  unfold loadTree at h
  rw [hk] at h
  simp only at h
  cases hr : fs.readFile k with
  | ok r =>
    obtain ⟨c, mode⟩ := r
    rw [hr] at h
    cases h
    unfold FS.readFile at hr
    split at hr
    · cases hr
    · rename_i hfp
      split at hr
      · rename_i c0 m0 i0 hl
        cases hr
        refine ⟨by simpa using hfp, ?_, (fun hd => by cases hd), fun _ => normal_linesOf _⟩
        unfold LookAt
        simp only [absOf, Bool.false_eq_true, if_false, C01_lines_roundtrip]
        refine ⟨m0, i0, hl, ?_⟩
        unfold modeOf
        simp only
        omega
      · cases hr
      · split at hr <;> cases hr
  | error e =>
    rw [hr] at h
    cases e with
    | other => cases h
    | notFound =>
      cases h
      have hl := FS.readFile_notFound hr
      unfold FS.readFile at hr
      split at hr
      · cases hr
      · rename_i hfp
        refine ⟨by simpa using hfp, ?_, fun _ => ⟨rfl, rfl⟩, (fun hd => by cases hd)⟩
        unfold LookAt
        simp only [absOf, nonExistent, if_true]
        exact hl

theorem look_ok_nil {fs : FS} {name : Bytes} {a : AFile} (h : look [] fs name = .ok a) :
    ∃ f, loadTree fs name = .ok f ∧ a = absOf f := by
  rw [look_nil] at h
  cases hl : loadTree fs name with
  | ok f => rw [hl] at h; cases h; exact ⟨f, rfl, rfl⟩
  | error e => rw [hl] at h; cases h

/-- at the start the tree represents the empty overlay over itself -/
theorem inv_init (ks : List Key) (fs : FS) : Inv ks [] fs fs where
  files := fun _ _ _ => rfl
  dirs0 := fun _ h _ => h
  others := fun _ _ _ _ => rfl
  names := by
    intro name k a _ hk _ hl
    obtain ⟨f, hf, rfl⟩ := look_ok_nil hl
    exact good_of_loadTree hk hf

theorem Inv.congr {ks : List Key} {t t' : ATree} {fs0 fs : FS} (h : Inv ks t fs0 fs) (hs : SameTree fs0 t' t) :
    Inv ks t' fs0 fs where
  files := h.files
  dirs0 := h.dirs0
  others := fun name k hk hn => (hs name).trans (h.others name k hk hn)
  names := fun name k a hc hk hm hl => h.names name k a hc hk hm ((hs name).symm.trans hl)

/-- regular files on the way to a name are the ones of the initial tree -/
theorem Inv.fileOnPath {ks : List Key} {t : ATree} {fs0 fs : FS} (h : Inv ks t fs0 fs) (hpf : PF ks) {k : Key}
    (hk : k ∈ ks) : fs.fileOnPath k = fs0.fileOnPath k := by
  apply fileOnPath_congr
  intro q hs
  have hq : q ∉ ks := fun hq => hpf q hq k hk hs
  constructor
  · intro hf
    rw [← h.files q hq (.inl hf)]; exact hf
  · intro hf
    rw [h.files q hq (.inr hf)]; exact hf

/-- what the tree side reads for a name that is `Good` -/
theorem loadTree_of_good {fs : FS} {name : Bytes} {k : Key} {a : AFile} (hk : safeKey name = some k)
    (hk0 : k ≠ []) (g : Good fs k a) : ∃ f, loadTree fs name = .ok f ∧ PEq (concr a) f := by
  unfold loadTree FS.readFile
  simp only [hk, g.path, Bool.false_eq_true, if_false]
  have hat := g.at_
  unfold LookAt at hat
  cases hd : a.deleted with
  | true =>
    simp only [hd, if_true] at hat
    have hkb : (k == []) = false := by simpa using hk0
    simp only [hat, hkb, Bool.false_eq_true, if_false]
    obtain ⟨hc, hp⟩ := g.canon hd
    exact ⟨_, rfl, by simp [PEq, concr, nonExistent, hc, hd, hp]⟩
  | false =>
    simp only [hd, Bool.false_eq_true, if_false] at hat
    obtain ⟨m, i, hl, hm⟩ := hat
    simp only [hl]
    refine ⟨_, rfl, ?_⟩
    refine ⟨?_, hd, ?_⟩
    · exact (g.normal hd).symm
    · simp only [concr]
      rw [← hm]
      unfold modeOf
      simp only
      omega

/-- where the abstract side cannot read a name (something is in the way in the initial tree), the tree side
cannot either, and both answer "does it exist" alike -/
theorem loadTree_err_agree {ks : List Key} {t : ATree} {fs0 fs : FS} (h : Inv ks t fs0 fs) (hpf : PF ks)
    {name : Bytes} {k : Key} (hk : safeKey name = some k) (hk0 : k ≠ []) (hm : k ∈ ks) {u : Unit}
    (he : loadTree fs0 name = .error u) :
    loadTree fs name = .error () ∧ existsName fs name = existsName fs0 name := by
  have hfp := h.fileOnPath hpf hm
  unfold loadTree at he ⊢
  unfold existsName FS.exists_
  rw [hk] at he ⊢
  simp only at he ⊢
  unfold FS.readFile at he ⊢
  rw [hfp]
  cases hf0 : fs0.fileOnPath k with
  | true => simp
  | false =>
    rw [hf0] at he
    simp only [Bool.false_eq_true, if_false] at he ⊢
    cases hl : fs0.lookup k with
    | none =>
      rw [hl] at he
      have hkb : (k == []) = false := by simpa using hk0
      simp [hkb] at he
    | some n =>
      cases n with
      | file c m i => rw [hl] at he; cases he
      | dir =>
        have hd := h.dirs0 k hl (fun k' hk' => hpf k hm k' hk')
        simp [hd]

/-! ## `storeTree` keeps the representation -/

theorem lookAt_of_stored {fs : FS} {k : Key} {g : FileSt Bytes} {a : AFile} (hst : Stored fs k g)
    (he : DiskEq a (absOf g)) : LookAt fs k a := by
  unfold Stored at hst
  unfold LookAt
  obtain ⟨hd, hrest⟩ := he
  simp only [absOf] at hd hrest
  cases hdel : a.deleted with
  | true =>
    rw [hdel] at hd
    simp only [← hd, if_true] at hst ⊢
    exact hst
  | false =>
    rw [hdel] at hd
    simp only [← hd, Bool.false_eq_true, if_false] at hst ⊢
    obtain ⟨i, hi⟩ := hst
    obtain ⟨hc, hm⟩ := hrest hdel
    exact ⟨_, i, by rw [hc]; exact hi, by rw [modeOf_mod, hm]⟩

/-- **one `storeTree`**: if `fs` represents `t` and the name (path in `ks`, readable) gets the file `g` on the tree
side and `a` — the same file as far as the disk can tell — on the abstract side, `storeTree` succeeds and the new
tree represents `put t name a` -/
theorem store_inv {ks : List Key} {t : ATree} {fs0 fs : FS} {name : Bytes} {k : Key} {a0 : AFile}
    (hpf : PF ks) (hinv : Inv ks t fs0 fs) (hc : Comp.cur ∉ components name) (hk : safeKey name = some k)
    (hmem : k ∈ ks) (hl : look t fs0 name = .ok a0) (g : FileSt Bytes) (a : AFile) (he : DiskEq a (absOf g))
    (hcan : Canon a) (hnorm : a.deleted = false → Normal a.content) :
    ∃ fs', storeTree fs name g = .ok fs' ∧ Inv ks (put t name a) fs0 fs' := by
  have g0 := hinv.names name k a0 hc hk hmem hl
  have hk0 := key_ne_nil hc hk
  have hnd : fs.lookup k ≠ some .dir := by
    have hat := g0.at_
    unfold LookAt at hat
    intro hdir
    split at hat
    · rw [hdir] at hat; cases hat
    · obtain ⟨m, i, h1, _⟩ := hat
      rw [hdir] at h1; cases h1
  obtain ⟨fs', e, hst, hn⟩ := storeTree_spec g hk hk0 g0.path hnd
  refine ⟨fs', e, ?_⟩
  constructor
  · intro q hq hf
    have hqk : q ≠ k := fun e => hq (e ▸ hmem)
    rcases hf with hf | hf
    · have e1 := hn.isFile_eq hqk (.inl hf)
      rw [e1] at hf ⊢
      exact hinv.files q hq (.inl hf)
    · have e0 := hinv.files q hq (.inr hf)
      have hf' : IsFile (fs.lookup q) := by rw [e0]; exact hf
      rw [hn.isFile_eq hqk (.inr hf'), e0]
  · intro q hq hns
    have hd := hinv.dirs0 q hq hns
    have hqk : q ≠ k := fun e => hnd (e ▸ hd)
    rw [hn.frame hqk (hns k hmem)]
    exact hd
  · intro name' k' hk' hn'
    rw [look_put]
    split
    · rename_i hcomp
      have hcomp' : components name' = components name := by simpa using hcomp
      have := Abs.safeKey_congr hcomp'
      rw [hk, hk'] at this
      cases this
      exact absurd hmem hn'
    · exact hinv.others name' k' hk' hn'
  · intro name' k' a' hc' hk' hm' hl'
    rw [look_put] at hl'
    by_cases hcomp : components name' = components name
    · have hkk : k' = k := (comps_eq_iff hc hc' hk hk').mp hcomp
      subst hkk
      simp only [hcomp, beq_self_eq_true, if_true] at hl'
      cases hl'
      exact ⟨by rw [hn.fileOnPath_eq (spre_irrefl k')]; exact g0.path, lookAt_of_stored hst he, hcan, hnorm⟩
    · have hcb : (components name' == components name) = false := by simpa using hcomp
      simp only [hcb, Bool.false_eq_true, if_false] at hl'
      have g' := hinv.names name' k' a' hc' hk' hm' hl'
      have hkk : k' ≠ k := fun e => hcomp ((comps_eq_iff hc hc' hk hk').mpr e)
      have hlk : fs'.lookup k' = fs.lookup k' := hn.frame hkk (hpf k' hm' k hmem)
      exact ⟨by rw [hn.fileOnPath_eq (hpf k hmem k' hm')]; exact g'.path, lookAt_congr hlk g'.at_,
        g'.canon, g'.normal⟩

/-! ## which file to patch -/

theorem look_err {t : ATree} {fs : FS} {n : Bytes} {u : Unit} (h : look t fs n = .error u) :
    loadTree fs n = .error u := by
  unfold look at h
  split at h
  · cases h
  · cases hl : loadTree fs n with
    | ok f => rw [hl] at h; cases h
    | error e => rfl

/-- the tree side and the abstract side agree on whether a name exists -/
theorem exists_agree {ks : List Key} {t : ATree} {fs0 fs : FS} (hinv : Inv ks t fs0 fs) (hpf : PF ks)
    {o : Bytes} {k : Key} (hc : Comp.cur ∉ components o) (hk : safeKey o = some k) (hm : k ∈ ks) :
    existsName fs o = oldThere t fs0 o := by
  rw [oldThere_look]
  have hk0 := key_ne_nil hc hk
  cases hl : look t fs0 o with
  | ok x =>
    obtain ⟨f, hf, hpe⟩ := loadTree_of_good hk hk0 (hinv.names o k x hc hk hm hl)
    simp only
    rw [loadTree_existsName hf, ← hpe.2.1]
    rfl
  | error u =>
    exact (loadTree_err_agree hinv hpf hk hk0 hm (look_err hl)).2

/-- both names of the file patch are stripped names whose paths are in `ks` -/
def NamesIn (ks : List Key) (fp : PFilePatch) : Prop :=
  ∀ n, fp.old = some n ∨ fp.new = some n → Comp.cur ∉ components n ∧ ∀ k, safeKey n = some k → k ∈ ks

theorem chooseTree_some (fs : FS) (o n : Bytes) :
    chooseTree fs (some o) (some n) =
      if components o == components n then some o else if existsName fs o then some o else some n := rfl

theorem choose_agree {ks : List Key} {t : ATree} {fs0 fs : FS} (hinv : Inv ks t fs0 fs) (hpf : PF ks)
    {fp : PFilePatch} (hin : NamesIn ks fp) (hns : namesSafe fp = true) :
    chooseTree fs fp.old fp.new = chooseA t fs0 fp.old fp.new := by
  cases ho : fp.old with
  | none => cases fp.new <;> rfl
  | some o =>
    cases hn : fp.new with
    | none => rfl
    | some n =>
      rw [chooseTree_some, chooseA_some]
      obtain ⟨hc, hks⟩ := hin o (.inl ho)
      have hsafe : (safeKey o).isSome = true := by
        unfold namesSafe at hns
        rw [ho] at hns
        simp only [Bool.and_eq_true] at hns
        exact hns.1
      cases hk : safeKey o with
      | none => rw [hk] at hsafe; cases hsafe
      | some k => rw [exists_agree hinv hpf hc hk (hks k hk)]

theorem chooseA_mem {t : ATree} {fs : FS} {old new : Option Bytes} {x : Bytes}
    (h : chooseA t fs old new = some x) : old = some x ∨ new = some x := by
  cases old with
  | none =>
    cases new with
    | none => cases h
    | some n => exact .inr h
  | some o =>
    cases new with
    | none => exact .inl h
    | some n =>
      rw [chooseA_some] at h
      (repeat' split at h) <;> first | exact .inl h | exact .inr h

theorem safe_of_namesSafe {fp : PFilePatch} (hns : namesSafe fp = true) {n : Bytes}
    (h : fp.old = some n ∨ fp.new = some n) : ∃ k, safeKey n = some k := by
  unfold namesSafe at hns
  simp only [Bool.and_eq_true] at hns
  rcases h with h | h
  · rw [h] at hns
    exact Option.isSome_iff_exists.mp hns.1
  · rw [h] at hns
    exact Option.isSome_iff_exists.mp hns.2

/-! ## `applyFPTree`, branch by branch -/

/-- the direction a series entry is applied in -/
abbrev dirOf (entry : Series.Entry) : Dir := if entry.reverse then .rev else .fwd

/-- the result of a file patch that went through -/
def mkRes (fs' : FS) (target : Bytes) (fp : PFilePatch) (rep : Report) (tch : List (Bytes × FileSt Bytes)) : FPResult :=
  { fs := fs', ok := rep.ok, rej := if rep.ok then none else some (makeRejName target, writeRej fp rep), touched := tch }

section
variable {fs : FS} {cfg : Cfg} {entry : Series.Entry} {fp : PFilePatch}

theorem T_badNames (hns : namesSafe fp = false) : applyFPTree fs cfg entry fp = .error () := by
  unfold applyFPTree; simp [hns]

theorem T_nochoice (hns : namesSafe fp = true) (hch : chooseTree fs fp.old fp.new = none) :
    applyFPTree fs cfg entry fp = .error () := by
  unfold applyFPTree; simp [hns, hch]

theorem T_load_err {target : Bytes} (hns : namesSafe fp = true)
    (hch : chooseTree fs fp.old fp.new = some target) (hl : loadTree fs target = .error ()) :
    applyFPTree fs cfg entry fp = .error () := by
  unfold applyFPTree; simp [hns, hch, hl]

theorem T_plain_none {target : Bytes} {file : FileSt Bytes} (hns : namesSafe fp = true)
    (hch : chooseTree fs fp.old fp.new = some target) (hl : loadTree fs target = .ok file)
    (hren : fp.rename = false) (happ : fp.apply (dirOf entry) cfg.fuzz file = none) :
    applyFPTree fs cfg entry fp = .error () := by
  unfold applyFPTree; simp [hns, hch, hl, hren, happ]

theorem T_plain {target : Bytes} {file f' : FileSt Bytes} {rep : Report} {fs' : FS} (hns : namesSafe fp = true)
    (hch : chooseTree fs fp.old fp.new = some target) (hl : loadTree fs target = .ok file)
    (hren : fp.rename = false) (happ : fp.apply (dirOf entry) cfg.fuzz file = some (f', rep))
    (hst : storeTree fs target f' = .ok fs') :
    ∃ tch, applyFPTree fs cfg entry fp = .ok (mkRes fs' target fp rep tch) := by
  unfold applyFPTree
  cases hok : rep.ok
  · exact ⟨[], by simp [hns, hch, hl, hren, happ, hst, hok, mkRes]⟩
  · exact ⟨[(target, file)], by simp [hns, hch, hl, hren, happ, hst, hok, mkRes]⟩

theorem T_ren_nonew {target : Bytes} {file : FileSt Bytes} (hns : namesSafe fp = true)
    (hch : chooseTree fs fp.old fp.new = some target) (hl : loadTree fs target = .ok file)
    (hren : fp.rename = true) (hnew : fp.new = none) :
    applyFPTree fs cfg entry fp = .error () := by
  rw [hnew] at hch
  unfold applyFPTree; simp [hns, hch, hl, hren, hnew]

theorem T_ren_load_err {target newName : Bytes} {file : FileSt Bytes} (hns : namesSafe fp = true)
    (hch : chooseTree fs fp.old fp.new = some target) (hl : loadTree fs target = .ok file)
    (hren : fp.rename = true) (hnew : fp.new = some newName) (hl2 : loadTree fs newName = .error ()) :
    applyFPTree fs cfg entry fp = .error () := by
  rw [hnew] at hch
  unfold applyFPTree; simp [hns, hch, hl, hren, hnew, hl2]

theorem T_ren_self_none {target newName : Bytes} {file newFile : FileSt Bytes} (hns : namesSafe fp = true)
    (hch : chooseTree fs fp.old fp.new = some target) (hl : loadTree fs target = .ok file)
    (hren : fp.rename = true) (hnew : fp.new = some newName) (hl2 : loadTree fs newName = .ok newFile)
    (hself : (components newName == components target) = true)
    (happ : fp.apply (dirOf entry) cfg.fuzz { file with deleted := false } = none) :
    applyFPTree fs cfg entry fp = .error () := by
  rw [hnew] at hch
  unfold applyFPTree
  simp only [hns, hnew, hch, hl, hren, hl2]
  simp [hself, happ]

theorem T_ren_self {target newName : Bytes} {file newFile f' : FileSt Bytes} {rep : Report} {fs' : FS}
    (hns : namesSafe fp = true)
    (hch : chooseTree fs fp.old fp.new = some target) (hl : loadTree fs target = .ok file)
    (hren : fp.rename = true) (hnew : fp.new = some newName) (hl2 : loadTree fs newName = .ok newFile)
    (hself : (components newName == components target) = true)
    (happ : fp.apply (dirOf entry) cfg.fuzz { file with deleted := false } = some (f', rep))
    (hst : storeTree fs target f' = .ok fs') :
    ∃ tch, applyFPTree fs cfg entry fp = .ok (mkRes fs' target fp rep tch) := by
  rw [hnew] at hch
  unfold applyFPTree
  simp only [hns, hnew, hch, hl, hren, hl2]
  cases hok : rep.ok
  · exact ⟨[], by simp [hself, happ, hst, hok, mkRes]⟩
  · exact ⟨[(target, file)], by simp [hself, happ, hst, hok, mkRes]⟩

theorem T_ren_refused {target newName : Bytes} {file newFile : FileSt Bytes} (hns : namesSafe fp = true)
    (hch : chooseTree fs fp.old fp.new = some target) (hl : loadTree fs target = .ok file)
    (hren : fp.rename = true) (hnew : fp.new = some newName) (hl2 : loadTree fs newName = .ok newFile)
    (hself : (components newName == components target) = false)
    (href : (!newFile.content.isEmpty && !newFile.deleted) = true) :
    applyFPTree fs cfg entry fp = .ok { fs := fs, ok := false, rej := none, touched := [] } := by
  rw [hnew] at hch
  unfold applyFPTree
  simp only [hns, hnew, hch, hl, hren, hl2]
  simp [hself, href]

theorem T_ren_none {target newName : Bytes} {file newFile : FileSt Bytes} (hns : namesSafe fp = true)
    (hch : chooseTree fs fp.old fp.new = some target) (hl : loadTree fs target = .ok file)
    (hren : fp.rename = true) (hnew : fp.new = some newName) (hl2 : loadTree fs newName = .ok newFile)
    (hself : (components newName == components target) = false)
    (href : (!newFile.content.isEmpty && !newFile.deleted) = false)
    (happ : fp.apply (dirOf entry) cfg.fuzz
      { newFile with content := file.content, deleted := false, perms := file.perms } = none) :
    applyFPTree fs cfg entry fp = .error () := by
  rw [hnew] at hch
  unfold applyFPTree
  simp only [hns, hnew, hch, hl, hren, hl2]
  simp [hself, href, happ]

theorem T_ren_ok {target newName : Bytes} {file newFile f' : FileSt Bytes} {rep : Report} {fs1 fs2 : FS}
    (hns : namesSafe fp = true)
    (hch : chooseTree fs fp.old fp.new = some target) (hl : loadTree fs target = .ok file)
    (hren : fp.rename = true) (hnew : fp.new = some newName) (hl2 : loadTree fs newName = .ok newFile)
    (hself : (components newName == components target) = false)
    (href : (!newFile.content.isEmpty && !newFile.deleted) = false)
    (happ : fp.apply (dirOf entry) cfg.fuzz
      { newFile with content := file.content, deleted := false, perms := file.perms } = some (f', rep))
    (hst1 : storeTree fs target { file with content := [], deleted := true } = .ok fs1)
    (hst2 : storeTree fs1 newName f' = .ok fs2) :
    ∃ tch, applyFPTree fs cfg entry fp = .ok (mkRes fs2 target fp rep tch) := by
  rw [hnew] at hch
  unfold applyFPTree
  simp only [hns, hnew, hch, hl, hren, hl2]
  cases hok : rep.ok
  · exact ⟨[], by simp [hself, href, happ, hst1, hst2, hok, mkRes]⟩
  · exact ⟨[(target, file), (newName, newFile)], by simp [hself, href, happ, hst1, hst2, hok, mkRes]⟩

end

/-! ## one file patch -/

/-- every file of the tree has lines that survive the round trip through bytes -/
def LookNormal (fs0 : FS) (t : ATree) : Prop :=
  ∀ n a, look t fs0 n = .ok a → a.deleted = false → Normal a.content

theorem diskEq_of_peq {f g : FileSt Bytes} (h : PEq f g) : DiskEq (absOf f) (absOf g) :=
  ⟨h.2.1, fun _ => ⟨h.1, h.2.2⟩⟩

/-- libpatch keeps "a deleted file carries neither content nor permissions" -/
theorem canon_apply {fp : PFilePatch} {d : Dir} {F : Nat} {a : AFile} {f' : FileSt Bytes} {rep : Report}
    (ha : Canon a) (h : fp.apply d F (concr a) = some (f', rep)) : Canon (absOf f') := by
  intro hd
  exact ⟨apply_DE (f := concr a) (fun x => (ha x).1) h hd, apply_PD (f := concr a) (fun x => (ha x).2) h hd⟩

/-- the outcome of a file patch on the abstract side (`x`) and on the tree (`y`) correspond -/
def SimFP (ks : List Key) (fs0 : FS) (x : Except Fail FPOut) (y : Except Unit FPResult) : Prop :=
  match x with
  | .error _ => y = .error ()
  | .ok r => LookNormal fs0 r.tree →
      ∃ r', y = .ok r' ∧ r'.ok = r.ok ∧ r'.rej = r.rej ∧ Inv ks r.tree fs0 r'.fs

theorem simFP_done {ks : List Key} {fs0 fs' : FS} {t' : ATree} {target : Bytes} {fp : PFilePatch}
    {rep rep' : Report} {tch : List (Bytes × FileSt Bytes)} {y : Except Unit FPResult}
    (hy : y = .ok (mkRes fs' target fp rep' tch)) (hreps : rep.reps = rep'.reps) (hinv : Inv ks t' fs0 fs') :
    ∃ r', y = .ok r' ∧ r'.ok = rep.ok ∧
      r'.rej = (if rep.ok then none else some (makeRejName target, writeRej fp rep)) ∧ Inv ks t' fs0 r'.fs := by
  refine ⟨_, hy, ?_, ?_, hinv⟩
  · exact (ok_of_reps hreps).symm
  · simp only [mkRes]
    rw [ok_of_reps hreps, writeRej_of_reps fp hreps]

/-- **one file patch**: `applyFPTree` on a tree that represents `t` does what `applyFP` does on `t` — refuses when it
refuses, and otherwise reports the same outcome and the same reject file and leaves a tree that represents the new
overlay -/
theorem applyFP_sim {ks : List Key} {t : ATree} {fs0 fs : FS} {cfg : Cfg} {entry : Series.Entry}
    {fp : PFilePatch} (hpf : PF ks) (hinv : Inv ks t fs0 fs) (hin : NamesIn ks fp) :
    SimFP ks fs0 (applyFP t fs0 cfg entry fp) (applyFPTree fs cfg entry fp) := by
  cases hns : namesSafe fp with
  | false => rw [applyFP_unsafe hns]; exact T_badNames hns
  | true =>
    have hchA := choose_agree hinv hpf hin hns
    cases hch : chooseA t fs0 fp.old fp.new with
    | none => rw [applyFP_nochoice hns hch]; exact T_nochoice hns (hchA.trans hch)
    | some target =>
      have hchT := hchA.trans hch
      have htmem := chooseA_mem hch
      obtain ⟨hct, hkst⟩ := hin target htmem
      obtain ⟨kt, hkt⟩ := safe_of_namesSafe hns htmem
      have hmt := hkst kt hkt
      have hkt0 := key_ne_nil hct hkt
      cases hl : look t fs0 target with
      | error u =>
        rw [applyFP_look_err hns hch hl]
        exact T_load_err hns hchT (loadTree_err_agree hinv hpf hkt hkt0 hmt (look_err hl)).1
      | ok file =>
        have gt := hinv.names target kt file hct hkt hmt hl
        obtain ⟨g, hg, hpe⟩ := loadTree_of_good hkt hkt0 gt
        cases hren : fp.rename with
        | false =>
          have hres := apply_peq fp (dirOf entry) cfg.fuzz hpe
          cases happ : fp.apply (dirOf entry) cfg.fuzz (concr file) with
          | none =>
            rw [applyFP_plain_none hns hch hl hren happ]
            rw [happ] at hres
            cases happT : fp.apply (dirOf entry) cfg.fuzz g with
            | none => exact T_plain_none hns hchT hg hren happT
            | some p => rw [happT] at hres; exact hres.elim
          | some p =>
            obtain ⟨f', rep⟩ := p
            rw [applyFP_plain hns hch hl hren happ]
            rw [happ] at hres
            cases happT : fp.apply (dirOf entry) cfg.fuzz g with
            | none => rw [happT] at hres; exact hres.elim
            | some p' =>
              obtain ⟨g', rep'⟩ := p'
              rw [happT] at hres
              obtain ⟨hpe', hreps, _, _⟩ := hres
              intro hN
              have hnorm : (absOf f').deleted = false → Normal (absOf f').content :=
                hN target (absOf f') (by rw [look_put]; simp)
              obtain ⟨fs', hst, hinv'⟩ := store_inv hpf hinv hct hkt hmt hl g' (absOf f')
                (diskEq_of_peq hpe') (canon_apply gt.canon happ) hnorm
              obtain ⟨tch, hT⟩ := T_plain hns hchT hg hren happT hst
              exact simFP_done hT hreps hinv'
        | true =>
          cases hnew : fp.new with
          | none =>
            rw [applyFP_ren_nonew hns hch hl hren hnew]
            exact T_ren_nonew hns hchT hg hren hnew
          | some newName =>
            obtain ⟨hcn, hksn⟩ := hin newName (.inr hnew)
            obtain ⟨kn, hkn⟩ := safe_of_namesSafe hns (.inr hnew)
            have hmn := hksn kn hkn
            have hkn0 := key_ne_nil hcn hkn
            by_cases hself : components newName = components target
            · -- renaming a file onto itself
              have hselfb : (components newName == components target) = true := by simpa using hself
              have hl2 : look (put t target { content := [], deleted := true, perms := none }) fs0 newName
                  = .ok { content := [], deleted := true, perms := none } := by
                rw [look_put]; simp [hself]
              have hg2 : loadTree fs newName = .ok g := by rw [loadTree_congr fs hself]; exact hg
              have hpe2 : PEq (concr { content := file.content, deleted := false, perms := file.perms })
                  { g with deleted := false } := ⟨hpe.1, rfl, hpe.2.2⟩
              have hres := apply_peq fp (dirOf entry) cfg.fuzz hpe2
              cases happ : fp.apply (dirOf entry) cfg.fuzz
                  (concr { content := file.content, deleted := false, perms := file.perms }) with
              | none =>
                rw [applyFP_ren_none hns hch hl hren hnew hl2 rfl happ]
                rw [happ] at hres
                cases happT : fp.apply (dirOf entry) cfg.fuzz { g with deleted := false } with
                | none => exact T_ren_self_none hns hchT hg hren hnew hg2 hselfb happT
                | some p => rw [happT] at hres; exact hres.elim
              | some p =>
                obtain ⟨f', rep⟩ := p
                rw [applyFP_ren_ok hns hch hl hren hnew hl2 rfl happ]
                rw [happ] at hres
                cases happT : fp.apply (dirOf entry) cfg.fuzz { g with deleted := false } with
                | none => rw [happT] at hres; exact hres.elim
                | some p' =>
                  obtain ⟨g', rep'⟩ := p'
                  rw [happT] at hres
                  obtain ⟨hpe', hreps, _, _⟩ := hres
                  intro hN
                  have hnorm : (absOf f').deleted = false → Normal (absOf f').content :=
                    hN newName (absOf f') (by rw [look_put]; simp)
                  have hcan' : Canon (absOf f') :=
                    canon_apply (a := { content := file.content, deleted := false, perms := file.perms })
                      (fun hd => by cases hd) happ
                  obtain ⟨fs', hst, hinv'⟩ := store_inv hpf hinv hct hkt hmt hl g' (absOf f')
                    (diskEq_of_peq hpe') hcan' hnorm
                  obtain ⟨tch, hT⟩ := T_ren_self hns hchT hg hren hnew hg2 hselfb happT hst
                  refine simFP_done hT hreps (hinv'.congr ?_)
                  intro n
                  rw [look_put, look_put, look_put]
                  by_cases hn : components n = components target
                  · simp [hn, hself]
                  · simp [hn, hself]
            · -- a real rename
              have hselfb : (components newName == components target) = false := by simpa using hself
              have hl2eq : look (put t target { content := [], deleted := true, perms := none }) fs0 newName
                  = look t fs0 newName := by
                rw [look_put]; simp [hselfb]
              cases hl2' : look t fs0 newName with
              | error u =>
                rw [applyFP_ren_look_err hns hch hl hren hnew (hl2eq.trans hl2')]
                exact T_ren_load_err hns hchT hg hren hnew
                  (loadTree_err_agree hinv hpf hkn hkn0 hmn (look_err hl2')).1
              | ok nf =>
                have hl2 := hl2eq.trans hl2'
                have gn := hinv.names newName kn nf hcn hkn hmn hl2'
                obtain ⟨ng, hng, hpen⟩ := loadTree_of_good hkn hkn0 gn
                have hrefeq : (!ng.content.isEmpty && !ng.deleted) = (!nf.content.isEmpty && !nf.deleted) := by
                  rw [← hpen.1, ← hpen.2.1]; rfl
                cases href : (!nf.content.isEmpty && !nf.deleted) with
                | true =>
                  rw [applyFP_ren_refused hns hch hl hren hnew hl2 href]
                  intro _
                  exact ⟨_, T_ren_refused hns hchT hg hren hnew hng hselfb (hrefeq.trans href), rfl, rfl, hinv⟩
                | false =>
                  have hpe2 : PEq (concr { content := file.content, deleted := false, perms := file.perms })
                      { ng with content := g.content, deleted := false, perms := g.perms } :=
                    ⟨hpe.1, rfl, hpe.2.2⟩
                  have hres := apply_peq fp (dirOf entry) cfg.fuzz hpe2
                  cases happ : fp.apply (dirOf entry) cfg.fuzz
                      (concr { content := file.content, deleted := false, perms := file.perms }) with
                  | none =>
                    rw [applyFP_ren_none hns hch hl hren hnew hl2 href happ]
                    rw [happ] at hres
                    cases happT : fp.apply (dirOf entry) cfg.fuzz
                        { ng with content := g.content, deleted := false, perms := g.perms } with
                    | none => exact T_ren_none hns hchT hg hren hnew hng hselfb (hrefeq.trans href) happT
                    | some p => rw [happT] at hres; exact hres.elim
                  | some p =>
                    obtain ⟨f', rep⟩ := p
                    rw [applyFP_ren_ok hns hch hl hren hnew hl2 href happ]
                    rw [happ] at hres
                    cases happT : fp.apply (dirOf entry) cfg.fuzz
                        { ng with content := g.content, deleted := false, perms := g.perms } with
                    | none => rw [happT] at hres; exact hres.elim
                    | some p' =>
                      obtain ⟨g', rep'⟩ := p'
                      rw [happT] at hres
                      obtain ⟨hpe', hreps, _, _⟩ := hres
                      intro hN
                      have hnorm : (absOf f').deleted = false → Normal (absOf f').content :=
                        hN newName (absOf f') (by rw [look_put]; simp)
                      have hcan' : Canon (absOf f') :=
                        canon_apply (a := { content := file.content, deleted := false, perms := file.perms })
                          (fun hd => by cases hd) happ
                      obtain ⟨fs1, hst1, hinv1⟩ := store_inv hpf hinv hct hkt hmt hl
                        { g with content := [], deleted := true } { content := [], deleted := true, perms := none }
                        ⟨rfl, fun hd => by cases hd⟩ (fun _ => ⟨rfl, rfl⟩) (fun hd => by cases hd)
                      obtain ⟨fs2, hst2, hinv2⟩ := store_inv hpf hinv1 hcn hkn hmn hl2 g' (absOf f')
                        (diskEq_of_peq hpe') hcan' hnorm
                      obtain ⟨tch, hT⟩ := T_ren_ok hns hchT hg hren hnew hng hselfb (hrefeq.trans href) happT
                        hst1 hst2
                      exact simFP_done hT hreps hinv2

/-! ## a patch -/

/-- the overlays after each file patch of a patch (as far as the patch gets) -/
def reachedFPs (fs0 : FS) (cfg : Cfg) (entry : Series.Entry) : List PFilePatch → ATree → List ATree
  | [], _ => []
  | fp :: fps, t =>
    match applyFP t fs0 cfg entry fp with
    | .error _ => []
    | .ok r => r.tree :: reachedFPs fs0 cfg entry fps r.tree

/-- **all file patches of a patch**: `applyPatchTree` against `applyFPs` (reject files: appended there, consed
here) -/
theorem fps_sim {ks : List Key} {fs0 : FS} {cfg : Cfg} {entry : Series.Entry} (hpf : PF ks) :
    ∀ (fps : List PFilePatch) (t : ATree) (ok : Bool) (rejs : List (Bytes × Bytes)) (acc : PatchResult),
      (∀ fp ∈ fps, NamesIn ks fp) → Inv ks t fs0 acc.fs → acc.ok = ok → acc.rejs = rejs.reverse →
      (∀ t' ∈ reachedFPs fs0 cfg entry fps t, LookNormal fs0 t') →
      match applyFPs fs0 cfg entry fps t ok rejs with
      | .error _ => applyPatchTree cfg entry fps acc = .error ()
      | .ok (t', ok', rejs') =>
          ∃ pr, applyPatchTree cfg entry fps acc = .ok pr ∧ pr.ok = ok' ∧ pr.rejs = rejs'.reverse ∧
            Inv ks t' fs0 pr.fs := by
  intro fps
  induction fps with
  | nil =>
    intro t ok rejs acc _ hinv hok hrejs _
    simp only [applyFPs, applyPatchTree]
    exact ⟨acc, rfl, hok, hrejs, hinv⟩
  | cons fp fps ih =>
    intro t ok rejs acc hin hinv hok hrejs hterm
    have hsim := applyFP_sim (cfg := cfg) (entry := entry) hpf hinv (hin fp (by simp))
    rw [applyFPs_cons]
    cases hA : applyFP t fs0 cfg entry fp with
    | error e =>
      rw [hA] at hsim
      simp only [SimFP] at hsim
      simp only [applyPatchTree, hsim]
    | ok r =>
      rw [hA] at hsim
      obtain ⟨r', hT, hok', hrej', hinv'⟩ := hsim (hterm r.tree (by simp [reachedFPs, hA]))
      simp only [applyPatchTree, hT]
      apply ih
      · exact fun fp' hfp' => hin fp' (by simp [hfp'])
      · exact hinv'
      · simp only [hok, hok']
      · simp only [hrejs, hrej']
        cases r.rej <;> simp
      · intro t' ht'
        exact hterm t' (by simp [reachedFPs, hA, ht'])

/-! ## the range -/

/-- the parsed patch file of a series entry (read from the initial tree) -/
def patchOf (fs : FS) (cfg : Cfg) (entry : Series.Entry) : Option Patch :=
  match patchKey cfg entry.name with
  | none => none
  | some pk =>
    match fs.readFile pk with
    | .error _ => none
    | .ok (bytes, _) =>
      match parsePatch bytes entry.strip false with
      | .error _ => none
      | .ok patch => some patch

theorem patchOf_parse {fs : FS} {cfg : Cfg} {entry : Series.Entry} {patch : Patch}
    (h : patchOf fs cfg entry = some patch) : ∃ bytes, parsePatch bytes entry.strip false = .ok patch := by
  unfold patchOf at h
  split at h
  · cases h
  · split at h
    · cases h
    · rename_i bytes _ _
      split at h
      · cases h
      · rename_i hp
        cases h
        exact ⟨bytes, hp⟩

theorem applyRange_cons (fs : FS) (cfg : Cfg) (entry : Series.Entry) (rest : List Series.Entry) (k : Nat)
    (t : ATree) :
    applyRange fs cfg (entry :: rest) k t = match patchOf fs cfg entry with
      | none => .error .err
      | some patch =>
        match applyFPs fs cfg entry patch.fps t true [] with
        | .error e => .error e
        | .ok (t', ok, rejs) =>
          if ok then applyRange fs cfg rest (k + 1) t' else .ok (t, k, if cfg.dryRun then [] else rejs) := by
  rw [applyRange]
  unfold patchOf
  cases patchKey cfg entry.name with
  | none => rfl
  | some pk =>
    simp only
    cases fs.readFile pk with
    | error e => rfl
    | ok r =>
      obtain ⟨bytes, m⟩ := r
      simp only
      cases parsePatch bytes entry.strip false with
      | error e => rfl
      | ok patch => rfl

theorem applyRangeTree_cons (cfg : Cfg) (fs : FS) (entry : Series.Entry) (rest : List Series.Entry)
    (p : Progress) :
    applyRangeTree cfg fs (entry :: rest) p = match patchOf fs cfg entry with
      | none => .error ()
      | some patch =>
        match applyPatchTree cfg entry patch.fps { fs := p.fs, ok := true, rejs := [], touched := [] } with
        | .error e => .error e
        | .ok r =>
          if r.ok then applyRangeTree cfg fs rest
            { p with fs := r.fs, k := p.k + 1, backups := p.backups ++ [(entry.name, r.touched)] }
          else .ok { p with rejs := r.rejs, failed := true } := by
  rw [applyRangeTree]
  unfold patchOf
  cases patchKey cfg entry.name with
  | none => rfl
  | some pk =>
    simp only
    cases fs.readFile pk with
    | error e => rfl
    | ok r =>
      obtain ⟨bytes, m⟩ := r
      simp only
      cases parsePatch bytes entry.strip false with
      | error e => rfl
      | ok patch => rfl

/-- all overlays the abstract run goes through: after every file patch of every patch it gets to -/
def reached (fs0 : FS) (cfg : Cfg) : List Series.Entry → ATree → List ATree
  | [], _ => []
  | entry :: rest, t =>
    match patchOf fs0 cfg entry with
    | none => []
    | some patch =>
      reachedFPs fs0 cfg entry patch.fps t ++
        (match applyFPs fs0 cfg entry patch.fps t true [] with
         | .ok (t', true, _) => reached fs0 cfg rest t'
         | _ => [])

/-- **the range**: `applyRangeTree` against `applyRange` -/
theorem range_sim {ks : List Key} {fs0 : FS} {cfg : Cfg} (hdry : cfg.dryRun = false) (hpf : PF ks) :
    ∀ (range : List Series.Entry) (k : Nat) (t : ATree) (p : Progress),
      (∀ entry ∈ range, ∀ patch, patchOf fs0 cfg entry = some patch → ∀ fp ∈ patch.fps, NamesIn ks fp) →
      Inv ks t fs0 p.fs → p.k = k → p.rejs = [] → p.failed = false →
      (∀ t' ∈ reached fs0 cfg range t, LookNormal fs0 t') →
      match applyRange fs0 cfg range k t with
      | .error _ => applyRangeTree cfg fs0 range p = .error ()
      | .ok (t', k', rejs) =>
          ∃ p', applyRangeTree cfg fs0 range p = .ok p' ∧ p'.k = k' ∧ p'.rejs = rejs.reverse ∧
            p'.failed = decide (k' ≠ k + range.length) ∧ Inv ks t' fs0 p'.fs := by
  intro range
  induction range with
  | nil =>
    intro k t p _ hinv hk hrejs hfailed _
    simp only [applyRange, applyRangeTree]
    exact ⟨p, rfl, hk, by simp [hrejs], by simp [hfailed], hinv⟩
  | cons entry rest ih =>
    intro k t p hin hinv hk hrejs hfailed hterm
    rw [applyRange_cons, applyRangeTree_cons]
    cases hpo : patchOf fs0 cfg entry with
    | none => rfl
    | some patch =>
      simp only
      have hfps := fps_sim (cfg := cfg) (entry := entry) hpf patch.fps t true []
        { fs := p.fs, ok := true, rejs := [], touched := [] }
        (hin entry (by simp) patch hpo) hinv rfl rfl
        (fun t' ht' => hterm t' (by simp [reached, hpo, ht']))
      cases hA : applyFPs fs0 cfg entry patch.fps t true [] with
      | error e =>
        rw [hA] at hfps
        simp only at hfps
        simp only [hfps]
      | ok res =>
        obtain ⟨t', ok', rejs'⟩ := res
        rw [hA] at hfps
        obtain ⟨pr, hT, hok, hrj, hinv'⟩ := hfps
        simp only [hT, hok]
        cases ok' with
        | true =>
          simp only [if_true]
          have := ih (k + 1) t' { p with fs := pr.fs, k := p.k + 1, backups := p.backups ++ [(entry.name, pr.touched)] }
            (fun e he => hin e (by simp [he])) hinv' (by simp [hk]) hrejs hfailed
            (fun t'' ht'' => hterm t'' (by simp [reached, hpo, hA, ht'']))
          cases hR : applyRange fs0 cfg rest (k + 1) t' with
          | error e =>
            rw [hR] at this
            exact this
          | ok res2 =>
            obtain ⟨t2, k2, rejs2⟩ := res2
            rw [hR] at this
            obtain ⟨p', h1, h2, h3, h4, h5⟩ := this
            refine ⟨p', h1, h2, h3, ?_, h5⟩
            rw [h4]
            simp only [List.length_cons]
            have : k + 1 + rest.length = k + (rest.length + 1) := by omega
            rw [this]
        | false =>
          simp only [Bool.false_eq_true, if_false, hdry]
          refine ⟨_, rfl, hk, hrj, ?_, hinv⟩
          simp only [List.length_cons]
          symm
          rw [decide_eq_true_eq]
          omega

/-! ## the names of the range -/

/-- the disk paths of all names the (parsable) patch files of the range mention -/
def rangeKeys (fs : FS) (cfg : Cfg) (range : List Series.Entry) : List Key :=
  range.flatMap (fun entry =>
    match patchOf fs cfg entry with
    | none => []
    | some patch => patch.fps.flatMap (fun fp => (fp.old.toList ++ fp.new.toList).filterMap safeKey))

/-- **the names are prefix-free**: no path of a name the range's patches mention is a strict prefix of the path of
another such name (decidable: a finite check over the initial tree's patch files) -/
def PrefixFree (fs : FS) (cfg : Cfg) (range : List Series.Entry) : Prop :=
  ∀ k ∈ rangeKeys fs cfg range, ∀ k' ∈ rangeKeys fs cfg range, ¬ SPre k k'

instance (fs : FS) (cfg : Cfg) (range : List Series.Entry) : Decidable (PrefixFree fs cfg range) := by
  unfold PrefixFree; infer_instance

theorem namesIn_rangeKeys {fs : FS} {cfg : Cfg} {range : List Series.Entry} {entry : Series.Entry}
    (he : entry ∈ range) {patch : Patch} (hp : patchOf fs cfg entry = some patch) {fp : PFilePatch}
    (hfp : fp ∈ patch.fps) : NamesIn (rangeKeys fs cfg range) fp := by
  intro n hn
  obtain ⟨bytes, hparse⟩ := patchOf_parse hp
  refine ⟨Disk.parsePatch_noCur hparse fp hfp n hn, ?_⟩
  intro k hk
  unfold rangeKeys
  rw [List.mem_flatMap]
  refine ⟨entry, he, ?_⟩
  rw [hp]
  simp only
  rw [List.mem_flatMap]
  refine ⟨fp, hfp, ?_⟩
  rw [List.mem_filterMap]
  refine ⟨n, ?_, hk⟩
  rw [List.mem_append]
  rcases hn with hn | hn
  · left; rw [hn]; simp
  · right; rw [hn]; simp

/-! ## the main theorem -/

theorem fileAt_of_lookAt {fs : FS} {k : Key} {a : AFile} (h : LookAt fs k a) : fileAt fs k = viewOf a := by
  unfold LookAt at h
  unfold viewOf
  split at h
  · rename_i hd
    simp only [hd, if_true]
    exact fileAt_of_lookup_none h
  · rename_i hd
    have hd' : a.deleted = false := by simpa using hd
    simp only [hd', Bool.false_eq_true, if_false]
    obtain ⟨m, i, hl, hm⟩ := h
    rw [fileAt_of_lookup_file hl, hm]

/-- what a tree that represents `t` holds at the path of any stripped name -/
theorem Inv.fileAt_eq {ks : List Key} {t : ATree} {fs0 fs : FS} (h : Inv ks t fs0 fs) {name : Bytes} {key : Key}
    {a : AFile} (hc : Comp.cur ∉ components name) (hk : safeKey name = some key)
    (hl : look t fs0 name = .ok a) : fileAt fs key = viewOf a := by
  by_cases hm : key ∈ ks
  · exact fileAt_of_lookAt (h.names name key a hc hk hm hl).at_
  · rw [h.others name key hk hm] at hl
    obtain ⟨f, hf, rfl⟩ := look_ok_nil hl
    rw [← fileAt_of_lookAt (good_of_loadTree hk hf).at_]
    by_cases hfile : IsFile (fs.lookup key) ∨ IsFile (fs0.lookup key)
    · exact fileAt_congr (h.files key hm hfile)
    · have h1 : ¬ IsFile (fs.lookup key) := fun x => hfile (.inl x)
      have h2 : ¬ IsFile (fs0.lookup key) := fun x => hfile (.inr x)
      rw [fileAt_eq_none_iff.mpr (dirOrNone_of_not_isFile h1), fileAt_eq_none_iff.mpr (dirOrNone_of_not_isFile h2)]

/-- every file in the overlay (that exists) has `Terminated` lines -/
def TreeTerminated (t : ATree) : Prop := ∀ e ∈ t, e.2.deleted = false → Terminated e.2.content = true

instance (t : ATree) : Decidable (TreeTerminated t) := by
  unfold TreeTerminated; infer_instance

theorem lookNormal_of_terminated {fs0 : FS} {t : ATree} (h : TreeTerminated t) : LookNormal fs0 t := by
  intro n a hl hd
  unfold look at hl
  split at hl
  · rename_i e hfind
    cases hl
    exact normal_of_terminated (h e (List.mem_of_find?_eq_some hfind) hd)
  · cases hlt : loadTree fs0 n with
    | error u => rw [hlt] at hl; cases hl
    | ok f =>
      rw [hlt] at hl
      cases hl
      have := (good_of_loadTree (fs := fs0) (name := n) (k := (safeKey n).getD []) ?_ hlt).normal hd
      · exact this
      · unfold loadTree at hlt
        cases hk : safeKey n with
        | none => rw [hk] at hlt; cases hlt
        | some k => rfl

/-- **The oracle and the abstract specification agree.**  For a real (non-dry) run over prefix-free names, where
every overlay reached holds only `Terminated` files: if `Abs.applyRange` ends with the overlay `t`, `k` applied
patches and reject files `rejs`, then `Spec.applyRangeTree` — the patch-by-patch application on the tree itself that
`pushSpec` runs — ends with a tree `p.fs`, the same `k`, `failed` exactly when not all patches applied, the same
reject files (oldest first instead of newest first), and under every stripped name the tree holds exactly the file
the overlay has under that name (`Abs.look`); and if `Abs.applyRange` refuses, so does `applyRangeTree`. -/
theorem spec_agree (fs : FS) (cfg : Cfg) (range : List Series.Entry) (hdry : cfg.dryRun = false)
    (hpf : PrefixFree fs cfg range) (hterm : ∀ t' ∈ reached fs cfg range [], TreeTerminated t') :
    match Abs.applyRange fs cfg range 0 [] with
    | .ok (t, k, rejs) =>
        ∃ p, Spec.applyRangeTree cfg fs range { fs, k := 0, rejs := [], failed := false, backups := [] } = .ok p ∧
          p.k = k ∧ p.failed = decide (k ≠ range.length) ∧ p.rejs = rejs.reverse ∧
          ∀ name key a, Comp.cur ∉ components name → safeKey name = some key →
            Abs.look t fs name = .ok a → fileAt p.fs key = viewOf a
    | .error _ =>
        Spec.applyRangeTree cfg fs range { fs, k := 0, rejs := [], failed := false, backups := [] } = .error () := by
  have h := range_sim (ks := rangeKeys fs cfg range) (fs0 := fs) hdry hpf range 0 []
    { fs, k := 0, rejs := [], failed := false, backups := [] }
    (fun entry he patch hp fp hfp => namesIn_rangeKeys he hp hfp) (inv_init _ fs) rfl rfl rfl
    (fun t' ht' => lookNormal_of_terminated (hterm t' ht'))
  cases hA : Abs.applyRange fs cfg range 0 [] with
  | error e => rw [hA] at h; exact h
  | ok res =>
    obtain ⟨t, k, rejs⟩ := res
    rw [hA] at h
    obtain ⟨p, h1, h2, h3, h4, h5⟩ := h
    refine ⟨p, h1, h2, ?_, h3, fun name key a hc hk hl => h5.fileAt_eq hc hk hl⟩
    rw [h4]
    simp

/-! ## the rest of `pushSpec`: reject files, backups and `.pc/applied-patches` touch no other file -/

theorem putFile_fileAt {fs fs' : FS} {k : Key} {content : Bytes} {perms : Option Nat}
    (h : putFile fs k content perms = .ok fs') {q : Key} (hq : q ≠ k) : fileAt fs' q = fileAt fs q := by
  unfold putFile at h
  cases perms <;> cases hr : fs.removeFile k <;> rw [hr] at h <;> simp only at h <;>
    (split at h
     · cases h
     · rename_i f1 h1
       split at h
       · cases h
       · rename_i f2 h2
         cases h
         rw [appendBytes_fileAt_ne _ _ _ _ hq]
         first
          | rw [setMode_fileAt_ne _ _ _ _ hq, createFile_fileAt_ne h2 hq, createDirAll_fileAt h1]
          | rw [createFile_fileAt_ne h2 hq, createDirAll_fileAt h1]
         try exact removeFile_fileAt_ne hr hq)

theorem putRejects_fileAt (rejs : List (Bytes × Bytes)) : ∀ (fs fs' : FS), putRejects fs rejs = .ok fs' →
    ∀ q, ¬ isRejKey rejs q → fileAt fs' q = fileAt fs q := by
  induction rejs with
  | nil =>
    intro fs fs' h q _
    unfold putRejects at h
    cases h; rfl
  | cons r rest ih =>
    obtain ⟨name, content⟩ := r
    intro fs fs' h q hq
    have hq1 : safeKey name ≠ some q := fun e => hq ⟨(name, content), by simp, e⟩
    have hq2 : ¬ isRejKey rest q := fun ⟨r, hr, e⟩ => hq ⟨r, by simp [hr], e⟩
    unfold putRejects at h
    split at h
    · cases h
    · rename_i k hk
      split at h
      · exact ih _ _ h q hq2
      · split at h
        · exact ih _ _ h q hq2
        · split at h
          · cases h
          · rename_i f1 h1
            rw [ih _ _ h q hq2]
            exact putFile_fileAt h1 (fun e => hq1 (e ▸ hk))

theorem backupFold_fileAt (patchName : Bytes) (files : List (Bytes × FileSt Bytes)) :
    ∀ (acc : Except Unit FS) (fs' : FS),
      files.foldl (fun (acc : Except Unit FS) (nf : Bytes × FileSt Bytes) =>
        match acc with
        | .error e => .error e
        | .ok f =>
          match pcKey patchName nf.1 with
          | none => .error ()
          | some k => putFile f k (bytesOf nf.2.content) nf.2.perms) acc = .ok fs' →
      ∃ f, acc = .ok f ∧ ∀ q, ¬ isPcKey q → fileAt fs' q = fileAt f q := by
  induction files with
  | nil => intro acc fs' h; exact ⟨fs', h, fun _ _ => rfl⟩
  | cons nf rest ih =>
    intro acc fs' h
    rw [List.foldl_cons] at h
    obtain ⟨f1, h1, hs1⟩ := ih _ _ h
    cases acc with
    | error e => simp at h1
    | ok f =>
      refine ⟨f, rfl, ?_⟩
      simp only at h1
      split at h1
      · cases h1
      · rename_i k hk
        intro q hq
        rw [hs1 q hq]
        exact putFile_fileAt h1 (fun e => hq (e ▸ pcKey_isPcKey hk))

theorem putBackups_fileAt (bs : List (Bytes × List (Bytes × FileSt Bytes))) : ∀ (fs fs' : FS),
    putBackups fs bs = .ok fs' → ∀ q, ¬ isPcKey q → fileAt fs' q = fileAt fs q := by
  induction bs with
  | nil =>
    intro fs fs' h q _
    unfold putBackups at h
    cases h; rfl
  | cons b rest ih =>
    obtain ⟨patchName, files⟩ := b
    intro fs fs' h q hq
    unfold putBackups at h
    simp only at h
    split at h
    · cases h
    · rename_i f1 h1
      obtain ⟨f, hf, hs⟩ := backupFold_fileAt patchName files _ _ h1
      cases hf
      rw [ih _ _ h q hq, hs q hq]

theorem isPcKey_appliedKey : isPcKey appliedKey := rfl

/-- **the last phase of `pushSpec` touches no other file**: whatever `finishSpec` does (even when it runs into an
output failure), every path that is neither a reject file nor below `.pc` holds what the tree held after the patches
were applied -/
theorem finishSpec_fileAt (cfg : Cfg) (fs : FS) (range : List Series.Entry) (p : Progress) (q : Key)
    (hdry : cfg.dryRun = false) (hr : ¬ isRejKey p.rejs q) (hp : ¬ isPcKey q) :
    fileAt (finishSpec cfg fs range p).fs q = fileAt p.fs q := by
  have hr' : ¬ isRejKey p.rejs.reverse q := fun ⟨r, hm, e⟩ => hr ⟨r, List.mem_reverse.mp hm, e⟩
  unfold finishSpec
  simp only [hdry, Bool.false_eq_true, if_false]
  split
  · rfl
  · rename_i fs1 h1
    have e1 := putRejects_fileAt _ _ _ h1 q hr'
    split
    · exact e1
    · rename_i fs2 h2
      have e2 : fileAt fs2 q = fileAt fs1 q := by
        split at h2
        · exact putBackups_fileAt _ _ _ h2 q hp
        · cases h2; rfl
      split
      · rw [e2, e1]
      · rename_i fs3 h3
        have e3 := createDirAll_fileAt h3 q
        split
        · rw [e3, e2, e1]
        · rename_i fs4 h4
          rw [appendFile_fileAt_ne h4 (fun e => hp (by rw [e]; exact isPcKey_appliedKey)), e3, e2, e1]

/-- **`pushSpec` against the abstract specification.**  When `plan` decides to apply `range` (real run, prefix-free
names, `Terminated` overlays): if `Abs.applyRange` ends with overlay `t`, `k` patches and reject files `rejs`, then
after `pushSpec` every stripped name whose path is neither a reject file nor below `.pc` holds exactly the file `t`
has under it, and — unless the last phase ran into an output failure — the exit status is 0 exactly when all patches
applied; if `Abs.applyRange` refuses, `pushSpec` exits with 1 and leaves the tree alone. -/
theorem pushSpec_agree (cfg : Cfg) (fs : FS) (range : List Series.Entry) (hplan : plan cfg fs = .apply range)
    (hdry : cfg.dryRun = false) (hpf : PrefixFree fs cfg range)
    (hterm : ∀ t' ∈ reached fs cfg range [], TreeTerminated t') :
    match Abs.applyRange fs cfg range 0 [] with
    | .ok (t, k, rejs) =>
        ((pushSpec cfg fs).ioError = false → (pushSpec cfg fs).exit = if k = range.length then 0 else 1) ∧
        ∀ name key a, Comp.cur ∉ components name → safeKey name = some key →
          ¬ isRejKey rejs key → ¬ isPcKey key →
          Abs.look t fs name = .ok a → fileAt (pushSpec cfg fs).fs key = viewOf a
    | .error _ => (pushSpec cfg fs).exit = 1 ∧ (pushSpec cfg fs).fs = fs := by
  have h := spec_agree fs cfg range hdry hpf hterm
  unfold pushSpec
  rw [hplan]
  simp only
  cases hA : Abs.applyRange fs cfg range 0 [] with
  | error e =>
    rw [hA] at h
    simp [h]
  | ok res =>
    obtain ⟨t, k, rejs⟩ := res
    rw [hA] at h
    obtain ⟨p, h1, h2, h3, h4, h5⟩ := h
    simp only [h1]
    constructor
    · intro hio
      unfold finishSpec at hio ⊢
      simp only [hdry, Bool.false_eq_true, if_false] at hio ⊢
      split
      · rename_i hx; rw [hx] at hio; cases hio
      · rename_i fs1 hx
        rw [hx] at hio
        simp only at hio ⊢
        split
        · rename_i hy; rw [hy] at hio; cases hio
        · rename_i fs2 hy
          rw [hy] at hio
          simp only at hio ⊢
          split
          · rename_i hz; rw [hz] at hio; cases hio
          · rename_i fs3 hz
            rw [hz] at hio
            simp only at hio ⊢
            split
            · rename_i hw; rw [hw] at hio; cases hio
            · simp [h2]
    · intro name key a hc hk hnr hnp hl
      rw [finishSpec_fileAt cfg fs range p key hdry ?_ hnp, h5 name key a hc hk hl]
      rw [h4]
      exact fun ⟨r, hm, e⟩ => hnr ⟨r, List.mem_reverse.mp hm, e⟩

#print axioms storeTree_fileAt
#print axioms normal_of_terminated
#print axioms apply_peq
#print axioms store_inv
#print axioms applyFP_sim
#print axioms range_sim
#print axioms spec_agree
#print axioms finishSpec_fileAt
#print axioms pushSpec_agree

/-! ## Non-vacuity: the tiny push of `RQ.Disk.Example`

Working directory: `a` = `x\n` and `patches/p` turning `x` into `y`.  The hypotheses of `spec_agree` hold (checked by
evaluation), `Abs.applyRange` ends with `k = 1`, so the theorem yields the oracle's run: `k = 1`, not failed, and
`a` = `y\n` with mode 644 in the oracle's tree. -/
namespace Example
open RQ.Disk.Example

theorem pf0 : PrefixFree fs0 cfg0 range0 := by decide

theorem term0 : ∀ t' ∈ reached fs0 cfg0 range0 [], TreeTerminated t' := by decide

example : ∃ p, Spec.applyRangeTree cfg0 fs0 range0 { fs := fs0, k := 0, rejs := [], failed := false, backups := [] }
      = .ok p ∧ p.k = 1 ∧ p.failed = false ∧ p.rejs = [] ∧ fileAt p.fs [[97]] = some ([121, 10], 0o644) := by
  have h := spec_agree fs0 cfg0 range0 rfl pf0 term0
  have hs := spec0
  cases hA : Abs.applyRange fs0 cfg0 range0 0 [] with
  | error e => rw [show w0.fs = fs0 from rfl, hA] at hs; cases hs
  | ok res =>
    obtain ⟨t, k, rejs⟩ := res
    rw [show w0.fs = fs0 from rfl, hA] at hs
    rw [hA] at h
    simp only [Bool.and_eq_true, beq_iff_eq] at hs
    obtain ⟨⟨hk, hrejs⟩, hlook⟩ := hs
    subst hk hrejs
    obtain ⟨p, h1, h2, h3, h4, h5⟩ := h
    refine ⟨p, h1, h2, by rw [h3]; rfl, by rw [h4]; rfl, ?_⟩
    cases hl : Abs.look t fs0 [97] with
    | error e => rw [hl] at hlook; cases hlook
    | ok a =>
      rw [hl] at hlook
      simp only [beq_iff_eq] at hlook
      rw [h5 [97] [[97]] a (by decide) (by decide) hl, hlook]

end Example

/-! ## Both hypotheses are needed

Evaluated on the level of one patch (`Abs.applyFPs` against `Spec.applyPatchTree`, hand-made file patches).

* **Names that are not prefix-free.**  The tree holds the file `a`; the patch deletes `a` and then creates `a/b`.
  The abstract specification — like the driver, which has not written anything yet — still finds the file `a` of
  the initial tree on the way to `a/b` and refuses; the oracle has removed `a` already and creates `a/b`.
* **An unterminated line in the middle of a file** (known finding `unterminated-line-mid-file`).  The first file
  patch replaces `x\n` by the two lines `y` (without newline) and `z\n`; the second replaces the line `y`.  On the
  overlay the line `y` is still a line of its own and the second file patch applies; the oracle re-reads the file
  from its bytes `yz\n`, finds no line `y`, and the hunk fails. -/
namespace Needed

def e0 : Series.Entry := { name := [112], strip := 0, reverse := false }
def cfgA : Cfg := {}
def fsA : FS := { nodes := [([[97]], .file [120, 10] 0o644 1)], nextIno := 2 }

def hDel : PHunk := { rem := [[120, 10]], add := [], remLine := 0, addLine := 0, pre := 0, suf := 0 }
def hNew : PHunk := { rem := [], add := [[121, 10]], remLine := 0, addLine := 0, pre := 0, suf := 0 }
/-- delete `a` -/
def fpDel : PFilePatch := { kind := .delete, old := some [97], new := none, hunks := [hDel] }
/-- create `a/b` -/
def fpNew : PFilePatch := { kind := .create, old := none, new := some [97, 47, 98], hunks := [hNew] }

theorem needs_prefixFree :
    (match Abs.applyFPs fsA cfgA e0 [fpDel, fpNew] [] true [] with | .ok _ => true | .error _ => false) = false ∧
    (match Spec.applyPatchTree cfgA e0 [fpDel, fpNew] { fs := fsA, ok := true, rejs := [], touched := [] } with
      | .ok r => r.ok && fileAt r.fs [[97], [98]] == some ([121, 10], 0o644)
      | .error _ => false) = true := by decide

def hM1 : PHunk := { rem := [[120, 10]], add := [[121], [122, 10]], remLine := 0, addLine := 0, pre := 0, suf := 0 }
def hM2 : PHunk := { rem := [[121]], add := [[119, 10]], remLine := 0, addLine := 0, pre := 0, suf := 0 }
/-- `a`: replace `x\n` by `y` (no newline), `z\n` -/
def fpM1 : PFilePatch := { kind := .modify, old := some [97], new := some [97], hunks := [hM1] }
/-- `a`: replace the line `y` by `w\n` -/
def fpM2 : PFilePatch := { kind := .modify, old := some [97], new := some [97], hunks := [hM2] }

theorem needs_terminated :
    (match Abs.applyFPs fsA cfgA e0 [fpM1, fpM2] [] true [] with
      | .ok (t, ok, _) => ok && (match Abs.look t fsA [97] with
          | .ok a => a.content == [[119, 10], [122, 10]]
          | .error _ => false)
      | .error _ => false) = true ∧
    (match Spec.applyPatchTree cfgA e0 [fpM1, fpM2] { fs := fsA, ok := true, rejs := [], touched := [] } with
      | .ok r => r.ok
      | .error _ => true) = false := by decide

end Needed

end RQ.Agree
