import RQ.Lemmas.RoundTripInv
import RQ.Lemmas.RoundTripLoop
/-! C12: the line parsers only look at the first line of their input ("locality"): a successful parse
consumed a newline-free prefix (plus the newline), and succeeds in the same way on any input that agrees
with the original one up to the first newline. -/
namespace RQ.Write
open RQ RQ.Parse

/-! ### list facts about the first newline -/

theorem first_nl_unique : ∀ (l1 l2 a b : Bytes), NLfree l1 → NLfree l2 → l1 ++ 10 :: a = l2 ++ 10 :: b →
    l1 = l2 ∧ a = b := by
  intro l1
  induction l1 with
  | nil =>
    intro l2 a b _ h2 e
    cases l2 with
    | nil => simp at e; exact ⟨rfl, e⟩
    | cons c l2 =>
      simp at e
      exact absurd e.1.symm (NLfree_head h2)
  | cons c l1 ih =>
    intro l2 a b h1 h2 e
    cases l2 with
    | nil =>
      simp at e
      exact absurd e.1 (NLfree_head h1)
    | cons d l2 =>
      simp only [List.cons_append, List.cons.injEq] at e
      obtain ⟨h, t⟩ := ih l2 a b (NLfree_tail h1) (NLfree_tail h2) e.2
      exact ⟨by rw [e.1, h], t⟩

/-- a newline-free prefix of something whose first newline is after `A` is a prefix of `A` -/
theorem nlfree_prefix : ∀ (C A B D : Bytes), NLfree A → NLfree C → A ++ 10 :: B = C ++ D →
    ∃ t, A = C ++ t ∧ D = t ++ 10 :: B := by
  intro C
  induction C with
  | nil => intro A B D _ _ e; exact ⟨A, rfl, by simpa using e.symm⟩
  | cons c C ih =>
    intro A B D hA hC e
    cases A with
    | nil =>
      simp at e
      exact absurd e.1.symm (NLfree_head hC)
    | cons a A =>
      simp only [List.cons_append, List.cons.injEq] at e
      obtain ⟨t, h1, h2⟩ := ih A B D (NLfree_tail hA) (NLfree_tail hC) e.2
      exact ⟨t, by rw [e.1, h1]; rfl, h2⟩

theorem split_first_nl : ∀ (x : Bytes), NLfree x ∨ ∃ l more, NLfree l ∧ x = l ++ 10 :: more := by
  intro x
  induction x with
  | nil => left; exact NLfree_nil
  | cons b x ih =>
    by_cases hb : b = 10
    · right; exact ⟨[], x, NLfree_nil, by rw [hb]; rfl⟩
    · rcases ih with h | ⟨l, more, h1, h2⟩
      · left; exact NLfree_cons hb h
      · right; exact ⟨b :: l, more, NLfree_cons hb h1, by rw [h2]; rfl⟩

theorem Stops_transfer (pred : UInt8 → Bool) (s more more' : Bytes) (h : Stops pred (s ++ 10 :: more))
    : Stops pred (s ++ 10 :: more') := by
  cases s with
  | nil => intro b r' e; simp at e; exact h b more (by simp [e.1])
  | cons c s => intro b r' e; simp at e; exact h b (s ++ 10 :: more) (by simp [e.1])

theorem NLfree_of_pred (pred : UInt8 → Bool) (h10 : pred 10 = false) (a : Bytes) (h : ∀ x ∈ a, pred x = true) :
    NLfree a := by
  intro x hx e
  subst e
  have := h 10 hx
  rw [h10] at this; cases this

theorem NLfree_of_npred (pred : UInt8 → Bool) (h10 : pred 10 = true) (a : Bytes) (h : ∀ x ∈ a, pred x = false) :
    NLfree a := by
  intro x hx e
  subst e
  have := h 10 hx
  rw [h10] at this; cases this

/-! ### forward lemmas from shapes -/

theorem parseMode_fwd (sp ds r : Bytes) (h1 : ∀ c ∈ sp, isSpace c = true) (h2 : ∀ c ∈ ds, isOct c = true)
    (h3 : ds.length = 6) (h4 : Stops (fun c => !isOct c) r) : parseMode (sp ++ (ds ++ r)) = .ok (r, octVal ds) := by
  unfold parseMode
  have hne : ∃ b t, ds = b :: t := by
    cases ds with
    | nil => simp at h3
    | cons b t => exact ⟨b, t, rfl⟩
  obtain ⟨b, t, e⟩ := hne
  have hb : isOct b = true := h2 b (by simp [e])
  have hns : isSpace b = false :=
    forall_uint8 (fun b => isOct b = true → isSpace b = false) (by decide +kernel) b hb
  rw [splitAtCond_append (fun c => !isSpace c) sp (ds ++ r) (by intro x hx; simp [h1 x hx])
    (by rw [e]; exact Stops_cons _ _ _ (by simp [hns]))]
  simp only []
  rw [splitAtCond_append (fun c => !isOct c) ds r (by intro x hx; simp [h2 x hx]) h4]
  have : ds.isEmpty = false := by rw [e]; rfl
  simp [this, h3]

theorem parseGitHash_fwd (hsh r : Bytes) (h : HexNE hsh) (hr : Stops (fun c => !isHex c) r) :
    parseGitHash (hsh ++ r) = .ok (r, hsh) := by
  unfold parseGitHash
  rw [splitAtCond_append (fun c => !isHex c) hsh r (by intro x hx; simp [h.2 x hx]) hr]
  have : hsh.isEmpty = false := by
    cases hsh with
    | nil => exact absurd rfl h.1
    | cons a b => rfl
  simp [this]

theorem newline_fwd (r : Bytes) : newline (10 :: r) = .ok (r, [10]) := by
  simp [newline, NL]

theorem modeBody_fwd (k : Nat → GitLine) (sp ds r : Bytes) (h1 : ∀ c ∈ sp, isSpace c = true)
    (h2 : ∀ c ∈ ds, isOct c = true) (h3 : ds.length = 6) :
    modeBody k (sp ++ (ds ++ 10 :: r)) = .ok (r, k (octVal ds)) := by
  unfold modeBody
  rw [parseMode_fwd sp ds (10 :: r) h1 h2 h3 (Stops_cons _ _ _ (by decide))]
  simp only [bind, Except.bind]
  rw [newline_fwd]
  rfl

theorem skipBody_fwd (g : GitLine) (l r : Bytes) (h : NLfree l) : skipBody g (l ++ 10 :: r) = .ok (r, g) := by
  unfold skipBody
  rw [takeLineSkip_body l r h]
  rfl

theorem parseMode_nl (r : Bytes) : ∃ e, parseMode (10 :: r) = .error e := by
  refine ⟨.noMatch, ?_⟩
  unfold parseMode
  rw [splitAtCond_stop (fun c => !isSpace c) (10 :: r) (Stops_cons _ _ _ (by decide))]
  simp only []
  rw [splitAtCond_stop (fun c => !isOct c) (10 :: r) (Stops_cons _ _ _ (by decide))]
  rfl

theorem indexBody_fwd1 (o n r : Bytes) (ho : HexNE o) (hn : HexNE n) :
    indexBody (o ++ (sDotDot ++ (n ++ 10 :: r))) = .ok (r, .index o n none) := by
  unfold indexBody
  rw [parseGitHash_fwd o _ ho (Stops_append_of _ sDotDot _ 46 [46] rfl (by decide))]
  simp only [bind, Except.bind]
  rw [stripPrefix_append]
  simp only []
  rw [parseGitHash_fwd n _ hn (Stops_cons _ _ _ (by decide))]
  simp only []
  obtain ⟨e, he⟩ := parseMode_nl r
  rw [he]
  simp only []
  rw [newline_fwd]
  rfl

theorem indexBody_fwd2 (o n sp ds r : Bytes) (ho : HexNE o) (hn : HexNE n) (h1 : ∀ c ∈ sp, isSpace c = true)
    (h2 : ∀ c ∈ ds, isOct c = true) (h3 : ds.length = 6) (hst : Stops (fun c => !isHex c) (sp ++ (ds ++ 10 :: r))) :
    indexBody (o ++ (sDotDot ++ (n ++ (sp ++ (ds ++ 10 :: r))))) = .ok (r, .index o n (some (octVal ds))) := by
  unfold indexBody
  rw [parseGitHash_fwd o _ ho (Stops_append_of _ sDotDot _ 46 [46] rfl (by decide))]
  simp only [bind, Except.bind]
  rw [stripPrefix_append]
  simp only []
  rw [parseGitHash_fwd n _ hn hst]
  simp only []
  rw [parseMode_fwd sp ds (10 :: r) h1 h2 h3 (Stops_cons _ _ _ (by decide))]
  simp only []
  rw [newline_fwd]
  rfl

/-! ### quoted names -/

theorem cStringLoop_oct (d1 d2 d3 : UInt8) (f : Nat) (t acc : Bytes) (v : UInt8)
    (h : parseOct3 (d1 :: d2 :: d3 :: t) = some v) (t' : Bytes) :
    cStringLoop (f+1) (92 :: d1 :: d2 :: d3 :: t') acc = cStringLoop f t' (acc ++ [v]) := by
  unfold parseOct3 at h
  simp only [] at h
  split at h
  · rename_i hc
    simp only [Bool.and_eq_true, decide_eq_true_eq] at hc
    obtain ⟨⟨⟨ha, hb⟩, h2⟩, h3⟩ := hc
    simp only [Option.some.injEq] at h
    have hd1 : d1 = 48 ∨ d1 = 49 ∨ d1 = 50 ∨ d1 = 51 := by
      have := forall_uint8 (fun d => d ≥ 48 → d ≤ 51 → (d = 48 ∨ d = 49 ∨ d = 50 ∨ d = 51)) (by decide +kernel) d1 ha hb
      exact this
    rcases hd1 with rfl | rfl | rfl | rfl <;>
    · simp [cStringLoop, parseOct3, h2, h3, ← h]
  · cases h

theorem parseOct3_inv (r : Bytes) (v : UInt8) (h : parseOct3 r = some v) :
    ∃ d1 d2 d3 t, r = d1 :: d2 :: d3 :: t ∧ d1 ≠ 10 ∧ d2 ≠ 10 ∧ d3 ≠ 10 := by
  unfold parseOct3 at h
  split at h
  · rename_i a b c t
    split at h
    · rename_i hc
      simp only [Bool.and_eq_true, decide_eq_true_eq] at hc
      obtain ⟨⟨⟨ha, _⟩, h2⟩, h3⟩ := hc
      refine ⟨a, b, c, t, rfl, ?_, ?_, ?_⟩
      · intro e; subst e; revert ha; decide
      · intro e; subst e; revert h2; decide
      · intro e; subst e; revert h3; decide
    · cases h
  · cases h

theorem cStringLoop_succ_cons (f : Nat) (c : UInt8) (r acc : Bytes) : cStringLoop (f+1) (c :: r) acc =
    if c == 92 then
      match r with
      | 97 :: r' => cStringLoop f r' (acc ++ [7])
      | 98 :: r' => cStringLoop f r' (acc ++ [8])
      | 102 :: r' => cStringLoop f r' (acc ++ [12])
      | 110 :: r' => cStringLoop f r' (acc ++ [10])
      | 114 :: r' => cStringLoop f r' (acc ++ [13])
      | 116 :: r' => cStringLoop f r' (acc ++ [9])
      | 118 :: r' => cStringLoop f r' (acc ++ [11])
      | 92 :: r' => cStringLoop f r' (acc ++ [92])
      | 34 :: r' => cStringLoop f r' (acc ++ [34])
      | _ =>
        match parseOct3 r with
        | some v => cStringLoop f (r.drop 3) (acc ++ [v])
        | none => .error .badSequence
    else if c == 34 then .ok (r, acc)
    else if c == NL then .error .unexpectedEndOfLine
    else cStringLoop f r (acc ++ [c]) := by
  rfl

theorem cStringLoop_strong : ∀ (f : Nat) (inp acc rest v : Bytes), cStringLoop f inp acc = .ok (rest, v) →
    ∃ a, inp = a ++ rest ∧ NLfree a ∧
      ∀ f' rest', a.length ≤ f' → cStringLoop f' (a ++ rest') acc = .ok (rest', v) := by
  intro f
  induction f with
  | zero => intro inp acc rest v h; simp [cStringLoop] at h
  | succ f ih =>
    intro inp acc rest v h
    cases inp with
    | nil => simp [cStringLoop] at h
    | cons c r =>
      rw [cStringLoop_succ_cons] at h
      split at h
      · rename_i hc
        have hc' : c = 92 := by simpa using hc
        subst hc'
        split at h
        case h_10 =>
          split at h
          · rename_i v' hv
            obtain ⟨d1, d2, d3, t, rfl, n1, n2, n3⟩ := parseOct3_inv _ _ hv
            simp only [List.drop_succ_cons, List.drop_zero] at h
            obtain ⟨a', e1, e2, e3⟩ := ih _ _ _ _ h
            refine ⟨92 :: d1 :: d2 :: d3 :: a', by rw [e1]; rfl,
              NLfree_cons (by decide) (NLfree_cons n1 (NLfree_cons n2 (NLfree_cons n3 e2))), ?_⟩
            intro F rest' hF
            obtain ⟨f', rfl⟩ : ∃ f', F = f' + 1 := ⟨F - 1, by simp at hF; omega⟩
            have := cStringLoop_oct d1 d2 d3 f' t acc v' hv (a' ++ rest')
            simp only [List.cons_append]
            rw [this]
            exact e3 f' rest' (by simp at hF; omega)
          · cases h
        all_goals
          obtain ⟨a', e1, e2, e3⟩ := ih _ _ _ _ h
          refine ⟨92 :: _ :: a', by rw [e1]; rfl, NLfree_cons (by decide) (NLfree_cons (by decide) e2), ?_⟩
          intro F rest' hF
          obtain ⟨f', rfl⟩ : ∃ f', F = f' + 1 := ⟨F - 1, by simp at hF; omega⟩
          exact e3 f' rest' (by simp at hF; omega)
      · rename_i hc92
        split at h
        · rename_i hc
          have hc' : c = 34 := by simpa using hc
          subst hc'
          simp only [Except.ok.injEq, Prod.mk.injEq] at h
          obtain ⟨rfl, rfl⟩ := h
          refine ⟨[34], rfl, NLfree_cons (by decide) NLfree_nil, ?_⟩
          intro F rest' hF
          obtain ⟨f', rfl⟩ : ∃ f', F = f' + 1 := ⟨F - 1, by simp at hF; omega⟩
          rfl
        · rename_i hc34
          split at h
          · cases h
          · rename_i hc10
            obtain ⟨a', e1, e2, e3⟩ := ih _ _ _ _ h
            have n10 : c ≠ 10 := by simpa [NL] using hc10
            refine ⟨c :: a', by rw [e1]; rfl, NLfree_cons n10 e2, ?_⟩
            intro F rest' hF
            obtain ⟨f', rfl⟩ : ∃ f', F = f' + 1 := ⟨F - 1, by simp at hF; omega⟩
            simp only [List.cons_append]
            rw [cStringLoop_succ_cons]
            simp only [hc92, hc34, hc10, Bool.false_eq_true, if_false]
            exact e3 f' rest' (by simp at hF; omega)

theorem parseCString_inv (y rest v : Bytes) (h : parseCString y = .ok (rest, v)) :
    ∃ a, y = 34 :: (a ++ rest) ∧ NLfree a ∧ ∀ rest', parseCString (34 :: (a ++ rest')) = .ok (rest', v) := by
  unfold parseCString at h
  split at h
  · rename_i y'
    obtain ⟨a, e1, e2, e3⟩ := cStringLoop_strong _ _ _ _ _ h
    refine ⟨a, by rw [e1], e2, ?_⟩
    intro rest'
    unfold parseCString
    simp only []
    exact e3 _ rest' (by simp; omega)
  · cases h

/-- `parseFilename` consumes a newline-free prefix and behaves the same on every input that agrees with the
original up to the next newline -/
theorem parseFilename_strong (x r : Bytes) (f : Filename) (h : parseFilename x = .ok (r, f)) :
    ∃ a, x = a ++ r ∧ NLfree a ∧ ∀ s more more', NLfree s → r = s ++ 10 :: more →
      parseFilename (a ++ (s ++ 10 :: more')) = .ok (s ++ 10 :: more', f) := by
  unfold parseFilename at h
  cases e1 : splitAtCond (fun c => !isSpace c) x with
  | mk sp y =>
    rw [e1] at h
    simp only [] at h
    obtain ⟨s1, s2, s3⟩ := splitAtCond_inv _ _ _ _ e1
    have hsp : ∀ c ∈ sp, isSpace c = true := by intro c hc; simpa using s1 c hc
    have nsp : NLfree sp := NLfree_of_pred isSpace (by decide) sp hsp
    cases hc : parseCString y with
    | ok val =>
      obtain ⟨rest, v⟩ := val
      rw [hc] at h
      simp only [] at h
      obtain ⟨a, e2, e3, e4⟩ := parseCString_inv _ _ _ hc
      have hr : r = rest := by split at h <;> (simp only [Except.ok.injEq, Prod.mk.injEq] at h; exact h.1.symm)
      subst hr
      refine ⟨sp ++ 34 :: a, by rw [s2, e2]; simp, NLfree_append nsp (NLfree_cons (by decide) e3), ?_⟩
      intro s more more' _ hrs
      unfold parseFilename
      have : sp ++ 34 :: a ++ (s ++ 10 :: more') = sp ++ (34 :: (a ++ (s ++ 10 :: more'))) := by simp
      rw [this, splitAtCond_append (fun c => !isSpace c) sp _ s1 (Stops_cons _ _ _ (by decide))]
      simp only []
      rw [e4]
      simp only []
      split at h <;> rename_i hv <;> simp only [Except.ok.injEq, Prod.mk.injEq] at h <;> simp only [hv, if_true, if_false, Bool.false_eq_true] <;> rw [h.2]
    | error err =>
      rw [hc] at h
      simp only [] at h
      cases hd : parseFilenameDirect y with
      | error e' => rw [hd] at h; cases h
      | ok val =>
        obtain ⟨rest, name⟩ := val
        rw [hd] at h
        simp only [] at h
        have hr : r = rest := by split at h <;> (simp only [Except.ok.injEq, Prod.mk.injEq] at h; exact h.1.symm)
        subst hr
        unfold parseFilenameDirect at hd
        cases e2 : splitAtCond isWhitespace y with
        | mk nm rst =>
          rw [e2] at hd
          simp only [] at hd
          split at hd
          · cases hd
          · rename_i hne
            simp only [Except.ok.injEq, Prod.mk.injEq] at hd
            obtain ⟨rfl, rfl⟩ := hd
            obtain ⟨d1, d2, d3⟩ := splitAtCond_inv _ _ _ _ e2
            have nnm : NLfree nm := NLfree_of_npred isWhitespace (by decide) nm d1
            obtain ⟨b, t, hbt⟩ : ∃ b t, nm = b :: t := by
              cases nm with
              | nil => simp at hne
              | cons b t => exact ⟨b, t, rfl⟩
            have hbns : (fun c => !isSpace c) b = true := s3 b (t ++ rst) (by rw [d2, hbt]; rfl)
            refine ⟨sp ++ nm, by rw [s2, d2]; simp, NLfree_append nsp nnm, ?_⟩
            intro s more more' hs hrs
            unfold parseFilename
            have : sp ++ nm ++ (s ++ 10 :: more') = sp ++ (nm ++ (s ++ 10 :: more')) := by simp
            rw [this, splitAtCond_append (fun c => !isSpace c) sp _ s1 (by rw [hbt]; exact Stops_cons _ _ _ hbns)]
            simp only []
            -- the quoted-string parser fails here as well
            have hcs : ∃ e', parseCString (nm ++ (s ++ 10 :: more')) = .error e' := by
              cases hc' : parseCString (nm ++ (s ++ 10 :: more')) with
              | error e' => exact ⟨e', rfl⟩
              | ok val' =>
                exfalso
                obtain ⟨rest2, v2⟩ := val'
                obtain ⟨a2, f1, f2, f3⟩ := parseCString_inv _ _ _ hc'
                have f1' : (nm ++ s) ++ 10 :: more' = (34 :: a2) ++ rest2 := by simpa using f1
                obtain ⟨t2, g1, g2⟩ := nlfree_prefix (34 :: a2) (nm ++ s) more' rest2 (NLfree_append nnm hs)
                  (NLfree_cons (by decide) f2) f1'
                have : y = 34 :: (a2 ++ (t2 ++ 10 :: more)) := by
                  rw [d2, hrs]
                  have : nm ++ (s ++ 10 :: more) = (nm ++ s) ++ 10 :: more := by simp
                  rw [this, g1]; simp
                rw [this, f3] at hc
                cases hc
            obtain ⟨e', he'⟩ := hcs
            rw [he']
            simp only []
            unfold parseFilenameDirect
            rw [splitAtCond_append isWhitespace nm _ d1 (Stops_transfer _ s more more' (hrs ▸ d3))]
            simp only [hne, Bool.false_eq_true, if_false]
            split at h <;> rename_i hv <;> simp only [Except.ok.injEq, Prod.mk.injEq] at h <;>
              simp only [hv, if_true, if_false, Bool.false_eq_true] <;> rw [h.2]

/-! ### whole-line parsers -/

/-- a successful parse consumed exactly the first line, and any input with the same first line is parsed
the same way -/
def StrongB {V : Type} (P : Bytes → R (Bytes × V)) : Prop :=
  ∀ x r v, P x = .ok (r, v) → ∃ l, NLfree l ∧ x = l ++ 10 :: r ∧ ∀ more', P (l ++ 10 :: more') = .ok (more', v)

theorem strongB_nameBody (k : Filename → MetaLine) : StrongB (nameBody k) := by
  intro x r v h
  unfold nameBody at h
  obtain ⟨⟨r1, f⟩, h1, h2⟩ := bind_ok h
  obtain ⟨⟨r2, ln⟩, h3, h4⟩ := bind_ok h2
  simp only [pure, Except.pure, Except.ok.injEq, Prod.mk.injEq] at h4
  obtain ⟨rfl, rfl⟩ := h4
  obtain ⟨a, e1, e2, e3⟩ := parseFilename_strong _ _ _ h1
  obtain ⟨body, b1, _, b3⟩ := takeLineIncl_inv _ _ _ h3
  refine ⟨a ++ body, NLfree_append e2 b1, by rw [e1, b3]; simp, ?_⟩
  intro more'
  unfold nameBody
  have : a ++ body ++ 10 :: more' = a ++ (body ++ 10 :: more') := by simp
  rw [this, e3 body r2 more' b1 b3]
  simp only [bind, Except.bind]
  rw [takeLineIncl_body body more' b1]
  rfl

theorem strongB_gitDiffBody : StrongB gitDiffBody := by
  intro x r v h
  unfold gitDiffBody at h
  obtain ⟨⟨r1, o⟩, h1, h2⟩ := bind_ok h
  obtain ⟨⟨r2, n⟩, h3, h4⟩ := bind_ok h2
  obtain ⟨⟨r3, ln⟩, h5, h6⟩ := bind_ok h4
  simp only [pure, Except.pure, Except.ok.injEq, Prod.mk.injEq] at h6
  obtain ⟨rfl, rfl⟩ := h6
  obtain ⟨a1, e1, e2, e3⟩ := parseFilename_strong _ _ _ h1
  obtain ⟨a2, f1, f2, f3⟩ := parseFilename_strong _ _ _ h3
  obtain ⟨body, b1, _, b3⟩ := takeLineIncl_inv _ _ _ h5
  refine ⟨a1 ++ (a2 ++ body), NLfree_append e2 (NLfree_append f2 b1), by rw [e1, f1, b3]; simp, ?_⟩
  intro more'
  unfold gitDiffBody
  have t1 : a1 ++ (a2 ++ body) ++ 10 :: more' = a1 ++ ((a2 ++ body) ++ 10 :: more') := by simp
  rw [t1, e3 (a2 ++ body) r3 more' (NLfree_append f2 b1) (by rw [f1, b3]; simp)]
  simp only [bind, Except.bind]
  have t2 : a2 ++ body ++ 10 :: more' = a2 ++ (body ++ 10 :: more') := by simp
  rw [t2, f3 body r3 more' b1 b3]
  simp only []
  rw [takeLineIncl_body body more' b1]
  rfl

theorem strongB_skipBody (g : GitLine) : StrongB (skipBody g) := by
  intro x r v h
  obtain ⟨rfl, l, h1, h2⟩ := skipBody_inv _ _ _ _ h
  exact ⟨l, h1, h2, fun more' => skipBody_fwd _ l more' h1⟩

theorem NLfree_spaces (sp : Bytes) (h : ∀ c ∈ sp, isSpace c = true) : NLfree sp :=
  NLfree_of_pred isSpace (by decide) sp h
theorem NLfree_octs (ds : Bytes) (h : ∀ c ∈ ds, isOct c = true) : NLfree ds :=
  NLfree_of_pred isOct (by decide) ds h
theorem NLfree_hex (ds : Bytes) (h : HexNE ds) : NLfree ds :=
  NLfree_of_pred isHex (by decide) ds h.2

theorem strongB_modeBody (k : Nat → GitLine) : StrongB (modeBody k) := by
  intro x r v h
  obtain ⟨sp, ds, e, a1, a2, a3, rfl⟩ := modeBody_inv _ _ _ _ h
  refine ⟨sp ++ ds, NLfree_append (NLfree_spaces sp a1) (NLfree_octs ds a2), by rw [e]; simp, ?_⟩
  intro more'
  have : sp ++ ds ++ 10 :: more' = sp ++ (ds ++ 10 :: more') := by simp
  rw [this]
  exact modeBody_fwd k sp ds more' a1 a2 a3

theorem NLfree_sDotDot : NLfree sDotDot := by unfold NLfree; decide

theorem strongB_indexBody : StrongB indexBody := by
  intro x r v h
  obtain ⟨o, n, ho, hn, ⟨e, rfl⟩ | ⟨sp, ds, e, a1, a2, a3, hst, rfl⟩⟩ := indexBody_inv _ _ _ h
  · refine ⟨o ++ (sDotDot ++ n), NLfree_append (NLfree_hex o ho) (NLfree_append NLfree_sDotDot (NLfree_hex n hn)),
      by rw [e]; simp, ?_⟩
    intro more'
    have : o ++ (sDotDot ++ n) ++ 10 :: more' = o ++ (sDotDot ++ (n ++ 10 :: more')) := by simp
    rw [this]
    exact indexBody_fwd1 o n more' ho hn
  · refine ⟨o ++ (sDotDot ++ (n ++ (sp ++ ds))),
      NLfree_append (NLfree_hex o ho) (NLfree_append NLfree_sDotDot (NLfree_append (NLfree_hex n hn)
        (NLfree_append (NLfree_spaces sp a1) (NLfree_octs ds a2)))), by rw [e]; simp, ?_⟩
    intro more'
    have : o ++ (sDotDot ++ (n ++ (sp ++ ds))) ++ 10 :: more' = o ++ (sDotDot ++ (n ++ (sp ++ (ds ++ 10 :: more')))) := by
      simp
    rw [this]
    refine indexBody_fwd2 o n sp ds more' ho hn a1 a2 a3 ?_
    have h1 : sp ++ (ds ++ 10 :: r) = (sp ++ ds) ++ 10 :: r := by simp
    have h2 : sp ++ (ds ++ 10 :: more') = (sp ++ ds) ++ 10 :: more' := by simp
    rw [h2]; rw [h1] at hst
    exact Stops_transfer _ _ _ _ hst

theorem strongB_prefix {V : Type} (P B : Bytes → R (Bytes × V)) (p : Bytes) (hp : NLfree p) (hB : StrongB B)
    (hu : ∀ x, P (p ++ x) = B x) (x r : Bytes) (v : V) (hx : B x = .ok (r, v)) :
    ∃ l, NLfree l ∧ p ++ x = l ++ 10 :: r ∧ ∀ more', P (l ++ 10 :: more') = .ok (more', v) := by
  obtain ⟨l, h1, h2, h3⟩ := hB x r v hx
  refine ⟨p ++ l, NLfree_append hp h1, by rw [h2]; simp, ?_⟩
  intro more'
  have : p ++ l ++ 10 :: more' = p ++ (l ++ 10 :: more') := by simp
  rw [this, hu, h3]

theorem strongB_meta : StrongB parseMetadataLine := by
  intro inp r v h
  obtain ⟨pb, hpb, x, rfl, hb⟩ := meta_inv inp (r, v) h
  have hu := meta_table_unfold pb hpb
  simp only [metaTable, List.mem_cons, List.mem_nil_iff, or_false] at hpb
  rcases hpb with rfl | rfl | rfl
  · exact strongB_prefix parseMetadataLine _ _ (by unfold NLfree; decide) strongB_gitDiffBody hu x r v hb
  · exact strongB_prefix parseMetadataLine _ _ (by unfold NLfree; decide) (strongB_nameBody _) hu x r v hb
  · exact strongB_prefix parseMetadataLine _ _ (by unfold NLfree; decide) (strongB_nameBody _) hu x r v hb

theorem strongB_git : StrongB parseGitMetadataLine := by
  intro inp r v h
  obtain ⟨pb, hpb, x, rfl, hb⟩ := git_inv inp (r, v) h
  have hu := git_table_unfold pb hpb
  simp only [gitTable, List.mem_cons, List.mem_nil_iff, or_false] at hpb
  rcases hpb with rfl | rfl | rfl | rfl | rfl | rfl | rfl | rfl | rfl | rfl
  · exact strongB_prefix parseGitMetadataLine _ _ (by unfold NLfree; decide) strongB_indexBody hu x r v hb
  · exact strongB_prefix parseGitMetadataLine _ _ (by unfold NLfree; decide) (strongB_skipBody _) hu x r v hb
  · exact strongB_prefix parseGitMetadataLine _ _ (by unfold NLfree; decide) (strongB_skipBody _) hu x r v hb
  · exact strongB_prefix parseGitMetadataLine _ _ (by unfold NLfree; decide) (strongB_skipBody _) hu x r v hb
  · exact strongB_prefix parseGitMetadataLine _ _ (by unfold NLfree; decide) (strongB_skipBody _) hu x r v hb
  · exact strongB_prefix parseGitMetadataLine _ _ (by unfold NLfree; decide) (strongB_skipBody _) hu x r v hb
  · exact strongB_prefix parseGitMetadataLine _ _ (by unfold NLfree; decide) (strongB_modeBody _) hu x r v hb
  · exact strongB_prefix parseGitMetadataLine _ _ (by unfold NLfree; decide) (strongB_modeBody _) hu x r v hb
  · exact strongB_prefix parseGitMetadataLine _ _ (by unfold NLfree; decide) (strongB_modeBody _) hu x r v hb
  · exact strongB_prefix parseGitMetadataLine _ _ (by unfold NLfree; decide) (strongB_modeBody _) hu x r v hb

/-- failure is local as well (by symmetry of `StrongB`) -/
theorem strongB_error {V : Type} (P : Bytes → R (Bytes × V)) (hP : StrongB P) (l more more' : Bytes) (hl : NLfree l)
    (e : EB) (h : P (l ++ 10 :: more) = .error e) : ∃ e', P (l ++ 10 :: more') = .error e' := by
  cases h' : P (l ++ 10 :: more') with
  | error e' => exact ⟨e', rfl⟩
  | ok val =>
    exfalso
    obtain ⟨r, v⟩ := val
    obtain ⟨l2, a1, a2, a3⟩ := hP _ _ _ h'
    obtain ⟨rfl, _⟩ := first_nl_unique l l2 more' r hl a1 a2
    rw [a3 more] at h
    cases h

/-- **locality of `parsePatchLine`** -/
theorem parsePatchLine_local (git : Bool) (inp inp' : Bytes) (pl : PatchLine)
    (h : parsePatchLine git inp = .ok (inp', pl)) (hne : pl ≠ .endOfPatch) :
    ∃ l, NLfree l ∧ inp = l ++ 10 :: inp' ∧ ∀ more', parsePatchLine git (l ++ 10 :: more') = .ok (more', pl) := by
  rcases parsePatchLine_inv git inp inp' pl h with ⟨m, rfl, hm⟩ | ⟨gl, rfl, rfl, ⟨e, hme⟩, hg⟩ |
      ⟨rfl, ⟨e, hme⟩, hge, ln, ht⟩ | ⟨rfl, _⟩
  · obtain ⟨l, a1, a2, a3⟩ := strongB_meta _ _ _ hm
    exact ⟨l, a1, a2, fun more' => parsePatchLine_mline git _ _ _ (a3 more')⟩
  · obtain ⟨l, a1, a2, a3⟩ := strongB_git _ _ _ hg
    refine ⟨l, a1, a2, ?_⟩
    intro more'
    rw [a2] at hme
    obtain ⟨e', he'⟩ := strongB_error _ strongB_meta l inp' more' a1 e hme
    exact parsePatchLine_git _ _ _ e' he' (a3 more')
  · obtain ⟨body, b1, _, b3⟩ := takeLineIncl_inv _ _ _ ht
    refine ⟨body, b1, b3, ?_⟩
    intro more'
    rw [b3] at hme
    obtain ⟨e', he'⟩ := strongB_error _ strongB_meta body inp' more' b1 e hme
    refine parsePatchLine_garbage git _ _ _ e' he' ?_ (takeLineIncl_body body more' b1)
    intro hg
    obtain ⟨e2, he2⟩ := hge hg
    rw [b3] at he2
    exact strongB_error _ strongB_git body inp' more' b1 e2 he2
  · exact absurd rfl hne

/-! ### the hunk-header test of `filePatchLoop` is local -/

theorem takeLineSkip_err : ∀ (x : Bytes) (e : EB), takeLineSkip x = .error e → e = .unexpectedEndOfFile := by
  intro x
  induction x with
  | nil => intro e h; simp [takeLineSkip] at h; exact h.symm
  | cons b bs ih =>
    intro e h
    unfold takeLineSkip at h
    split at h
    · cases h
    · split at h
      · rename_i e' he
        cases h
        exact ih _ he
      · cases h

theorem takeLineIncl_err : ∀ (x : Bytes) (e : EB), takeLineIncl x = .error e → e = .unexpectedEndOfFile := by
  intro x
  induction x with
  | nil => intro e h; simp [takeLineIncl] at h; exact h.symm
  | cons b bs ih =>
    intro e h
    unfold takeLineIncl at h
    split at h
    · cases h
    · split at h
      · rename_i e' he
        cases h
        exact ih _ he
      · cases h

theorem parseHunkHeader_not_noMatch (inp r : Bytes) (h : stripPrefix sHunkStart inp = some r) :
    parseHunkHeader inp ≠ .error .noMatch := by
  unfold parseHunkHeader
  rw [h]
  simp only []
  repeat' split
  all_goals try (intro hh; cases hh; done)
  · rename_i e he
    intro hh
    have := takeLineSkip_err _ _ he
    subst this; cases hh
  · rename_i e he
    intro hh
    have := takeLineIncl_err _ _ he
    subst this; cases hh

theorem hdrNoMatch_iff (inp : Bytes) : hdrNoMatch inp = true ↔ stripPrefix sHunkStart inp = none := by
  cases h : stripPrefix sHunkStart inp with
  | none => unfold hdrNoMatch parseHunkHeader; rw [h]; simp
  | some r =>
    have := parseHunkHeader_not_noMatch inp r h
    unfold hdrNoMatch
    constructor
    · intro hh
      exfalso
      split at hh
      · rename_i he; exact this he
      · cases hh
    · intro hh; cases hh

theorem stripPrefix_local (p : Bytes) (hp : NLfree p) : ∀ (l x y : Bytes),
    (stripPrefix p (l ++ 10 :: x)).isSome = (stripPrefix p (l ++ 10 :: y)).isSome := by
  induction p with
  | nil => intro l x y; cases l <;> simp [stripPrefix]
  | cons a p ih =>
    intro l x y
    cases l with
    | nil =>
      have : (a == 10) = false := by simpa using NLfree_head hp
      simp [stripPrefix, this]
    | cons b l =>
      simp only [List.cons_append, stripPrefix]
      split
      · exact ih (NLfree_tail hp) l x y
      · rfl

theorem hdrNoMatch_local (l x y : Bytes) : hdrNoMatch (l ++ 10 :: x) = hdrNoMatch (l ++ 10 :: y) := by
  have h1 := hdrNoMatch_iff (l ++ 10 :: x)
  have h2 := hdrNoMatch_iff (l ++ 10 :: y)
  have h3 := stripPrefix_local sHunkStart (by unfold NLfree; decide) l x y
  cases a : hdrNoMatch (l ++ 10 :: x) <;> cases b : hdrNoMatch (l ++ 10 :: y) <;> simp_all

theorem lineCond_local (m : Meta) (l x y : Bytes) : lineCond m (l ++ 10 :: x) = lineCond m (l ++ 10 :: y) := by
  unfold lineCond
  rw [hdrNoMatch_local l x y]

end RQ.Write
