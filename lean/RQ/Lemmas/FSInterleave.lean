import RQ.Lemmas.Inodes
import RQ.Model.Cmd
/-!
# Schedule independence of the save phase of the parallel driver

`parallel::save_files_worker`: every worker thread saves the files it owns, per file a sequence of
file-system operations (`save_modified_file`, `save_backup_file`).  The workers' file keys are disjoint
(C07) and the threads interleave arbitrarily at operation granularity.  A worker is a deterministic
program that chooses its next operation from the *result classes* (ok / notFound / failed) of its earlier
operations.  Main theorem (`schedule_independence`): under the ownership hypothesis `Hyp`, under EVERY
schedule every worker sees exactly the results of its solo run, and once all workers are finished the file
system is the same (up to inode numbers, `FSEquiv`) as when the workers run one after another.
-/
namespace RQ.ParSave
open RQ RQ.Push

/-! ## Definitions -/

/- `Res` (the class of the result of an operation: ok / notFound / failed) is defined in `RQ/Model/Cmd.lean`. -/

/-- one operation on the file system: result class and new file system (unchanged on an error) -/
def exec (fs : FS) (o : Op) : Res × FS :=
  match Op.run fs o with
  | .ok fs' => (.ok, fs')
  | .error .notFound => (.notFound, fs)
  | .error .other => (.failed, fs)

/-- a deterministic worker: next operation from the results so far; `none` = finished -/
abbrev Prog := List Res → Option Op

structure PState where
  fs : FS
  hist : Nat → List Res

/-- worker `i` performs its next operation (no-op if it is finished) -/
def step (progs : Nat → Prog) (s : PState) (i : Nat) : PState :=
  match progs i (s.hist i) with
  | none => s
  | some o =>
    { fs := (exec s.fs o).2,
      hist := fun j => if j = i then s.hist i ++ [(exec s.fs o).1] else s.hist j }

def run (progs : Nat → Prog) (sched : List Nat) (s : PState) : PState := sched.foldl (step progs) s

def init (fs0 : FS) : PState := ⟨fs0, fun _ => []⟩

/-- all workers are finished -/
def Done (progs : Nat → Prog) (s : PState) : Prop := ∀ i, progs i (s.hist i) = none

/-- the worker alone, after `m` scheduling slots: file system and result history -/
def soloAt (p : Prog) (fs : FS) : Nat → FS × List Res
  | 0 => (fs, [])
  | m + 1 =>
    match p (soloAt p fs m).2 with
    | none => soloAt p fs m
    | some o => ((exec (soloAt p fs m).1 o).2, (soloAt p fs m).2 ++ [(exec (soloAt p fs m).1 o).1])

/-- the operation the lone worker issues in slot `m` -/
def soloOp (p : Prog) (fs : FS) (m : Nat) : Option Op := p (soloAt p fs m).2

/-- the operation of slot `m` with its result -/
def soloStepAt (p : Prog) (fs : FS) (m : Nat) : Option (Op × Res) :=
  (soloOp p fs m).map (fun o => (o, (exec (soloAt p fs m).1 o).1))

/-- operations with results of the first `fuel` slots -/
def soloSteps (p : Prog) (fs : FS) (fuel : Nat) : List (Op × Res) :=
  (List.range fuel).filterMap (soloStepAt p fs)

/-- worker alone: final file system, its results, the operations it issued -/
def solo (p : Prog) (fs : FS) (fuel : Nat) : FS × List Res × List Op :=
  ((soloAt p fs fuel).1, (soloAt p fs fuel).2, (soloSteps p fs fuel).map (·.1))

/-- the file key of an operation -/
def fileKey : Op → Option Key
  | .removeFile k => some k
  | .createFile k => some k
  | .setMode k _ => some k
  | .write k _ => some k
  | _ => none

/-- the directory path of a `createDirAll` -/
def dirPath : Op → Option Key
  | .createDirAll d => some d
  | _ => none

/-- (H1) for one step: one of the five kinds of operations, result `ok`; `removeFile` may answer `notFound` -/
def okStep : Op × Res → Bool
  | (.removeFile _, .ok) => true
  | (.removeFile _, .notFound) => true
  | (.createDirAll _, .ok) => true
  | (.createFile _, .ok) => true
  | (.setMode _ _, .ok) => true
  | (.write _ _, .ok) => true
  | _ => false

/-- forget the inode number (it legitimately depends on the schedule: `createFile` allocates `nextIno`) -/
def noIno : Node → Node
  | .file c m _ => .file c m 0
  | .dir => .dir

def FSEquiv (a b : FS) : Prop := ∀ k, (a.lookup k).map noIno = (b.lookup k).map noIno

/-- `F_i`: the file keys of worker `i`'s solo run -/
def F (progs : Nat → Prog) (fs0 : FS) (fuel : Nat → Nat) (i : Nat) : List Key :=
  (solo (progs i) fs0 (fuel i)).2.2.filterMap fileKey

/-- `D_i`: the directory paths of worker `i`'s `createDirAll`s -/
def D (progs : Nat → Prog) (fs0 : FS) (fuel : Nat → Nat) (i : Nat) : List Key :=
  (solo (progs i) fs0 (fuel i)).2.2.filterMap dirPath

/-- The hypotheses of the theorem for the workers `i < n` and the initial file system `fs0`.
Nothing has to be assumed about `fs0` itself, and there is no (H3): what a worker needs (e.g. that the
parent directory exists when it issues `createFile`) follows from the result `ok` in its solo run. -/
structure Hyp (progs : Nat → Prog) (fs0 : FS) (n : Nat) (fuel : Nat → Nat) : Prop where
  /-- there are only the workers `i < n` -/
  idle : ∀ i, n ≤ i → progs i [] = none
  /-- (H1a) the solo run finishes within its fuel -/
  fin : ∀ i, i < n → progs i (solo (progs i) fs0 (fuel i)).2.1 = none
  /-- (H1b) it issues only the five kinds of operations and every result is `ok`/`notFound` as allowed -/
  oks : ∀ i, i < n → ∀ x ∈ soloSteps (progs i) fs0 (fuel i), okStep x = true
  /-- (H2) no file key of a worker is a prefix of (or equal to) a file key or a directory path of another one -/
  disj : ∀ i, i < n → ∀ j, j < n → i ≠ j → ∀ k ∈ F progs fs0 fuel i,
    (∀ k' ∈ F progs fs0 fuel j, ¬ k <+: k') ∧ (∀ d ∈ D progs fs0 fuel j, ¬ k <+: d)

/-- the schedule "worker 0 completely, then worker 1, ..." -/
def seqSched (fuel : Nat → Nat) : Nat → List Nat
  | 0 => []
  | n + 1 => seqSched fuel n ++ List.replicate (fuel n) n

/-! ## The abstract file system: effect of one operation -/

def isFile : Option Node → Bool
  | some (.file ..) => true
  | _ => false

theorem noIno_cases {a b : Option Node} (h : a.map noIno = b.map noIno) :
    (a = none ∧ b = none) ∨ (a = some .dir ∧ b = some .dir) ∨
    ∃ c m i i', a = some (.file c m i) ∧ b = some (.file c m i') := by
  cases a with
  | none => cases b with
    | none => exact .inl ⟨rfl, rfl⟩
    | some y => simp at h
  | some x => cases b with
    | none => simp at h
    | some y =>
      simp only [Option.map_some, Option.some.injEq] at h
      cases x with
      | dir => cases y with
        | dir => exact .inr (.inl ⟨rfl, rfl⟩)
        | file c m i => simp [noIno] at h
      | file c m i => cases y with
        | dir => simp [noIno] at h
        | file c' m' i' =>
          simp only [noIno, Node.file.injEq] at h
          obtain ⟨rfl, rfl, _⟩ := h
          exact .inr (.inr ⟨c, m, i, i', rfl, rfl⟩)

theorem isFile_of_noIno {a b : Option Node} (h : a.map noIno = b.map noIno) : isFile a = isFile b := by
  rcases noIno_cases h with ⟨rfl, rfl⟩ | ⟨rfl, rfl⟩ | ⟨c, m, i, i', rfl, rfl⟩ <;> rfl

theorem dir_of_noIno {a b : Option Node} (h : a.map noIno = b.map noIno) (hb : b = some .dir) :
    a = some .dir := by
  rcases noIno_cases h with ⟨rfl, rfl⟩ | ⟨rfl, rfl⟩ | ⟨c, m, i, i', rfl, rfl⟩
  · cases hb
  · rfl
  · cases hb

/-- what a worker with solo file system `S` has to know about the global file system `G` on the way to `t` -/
structure View (G S : FS) (t : Key) : Prop where
  file : ∀ p, p <+: t → isFile (G.lookup p) = true → isFile (S.lookup p) = true
  dir : ∀ p, p <+: t → S.lookup p = some .dir → G.lookup p = some .dir

theorem fileOnPath_false {G S : FS} {k : Key}
    (h : ∀ p, p <+: k → isFile (G.lookup p) = true → isFile (S.lookup p) = true)
    (hs : S.fileOnPath k = false) : G.fileOnPath k = false := by
  rw [Bool.eq_false_iff] at *
  intro hg
  apply hs
  unfold FS.fileOnPath at *
  rw [List.any_eq_true] at *
  obtain ⟨t, ht, hm⟩ := hg
  refine ⟨t, ht, ?_⟩
  have hp := h (k.take t) (List.take_prefix t k)
  cases hG : G.lookup (k.take t) with
  | none => rw [hG] at hm; simp at hm
  | some x =>
    cases x with
    | dir => rw [hG] at hm; simp at hm
    | file c m i =>
      rw [hG] at hm hp
      have := hp rfl
      cases hS : S.lookup (k.take t) with
      | none => rw [hS] at this; cases this
      | some y =>
        cases y with
        | dir => rw [hS] at this; cases this
        | file c' m' i' => simpa using hm

theorem isDir_of {G S : FS} {p : Key} (h : S.lookup p = some .dir → G.lookup p = some .dir)
    (hs : S.isDir p = true) : G.isDir p = true := by
  unfold FS.isDir at *
  simp only [Bool.or_eq_true, beq_iff_eq] at *
  cases hs with
  | inl h1 => exact .inl h1
  | inr h1 => exact .inr (h h1)

theorem exec_cases (fs : FS) (o : Op) :
    (∃ fs', Op.run fs o = .ok fs' ∧ exec fs o = (.ok, fs')) ∨
    (Op.run fs o = .error .notFound ∧ exec fs o = (.notFound, fs)) ∨
    (Op.run fs o = .error .other ∧ exec fs o = (.failed, fs)) := by
  unfold exec
  cases h : Op.run fs o with
  | ok fs' => exact .inl ⟨fs', rfl, rfl⟩
  | error e =>
    cases e with
    | notFound => exact .inr (.inl ⟨rfl, rfl⟩)
    | other => exact .inr (.inr ⟨rfl, rfl⟩)

theorem run_frame {fs fs' : FS} {o : Op} {k k' : Key} (h : Op.run fs o = .ok fs')
    (hk : fileKey o = some k) (hne : k' ≠ k) : fs'.lookup k' = fs.lookup k' := by
  cases o with
  | removeFile k0 =>
    cases hk
    rw [FS.removeFile_ok h]
    exact FS.lookup_erase_ne _ _ _ hne
  | createFile k0 =>
    cases hk
    unfold Op.run FS.createFile at h
    simp only at h
    split at h
    · cases h
    · split at h
      · cases h
      · split at h
        · cases h
        · split at h
          · cases h
          · cases h; exact FS.lookup_set_ne _ _ _ _ hne
          · cases h; exact FS.lookup_set_ne _ _ _ _ hne
  | setMode k0 m =>
    cases hk
    unfold Op.run FS.setMode at h
    simp only at h
    cases h
    split
    · exact FS.lookup_set_ne _ _ _ _ hne
    · rfl
  | write k0 b =>
    cases hk
    unfold Op.run FS.appendBytes at h
    simp only at h
    cases h
    split
    · exact FS.lookup_set_ne _ _ _ _ hne
    · rfl
  | createDirAll d => cases hk
  | removeDir d => cases hk
  | appendOpen d => cases hk

/-- an operation with file key `k` touches only `k` -/
theorem exec_frame {fs : FS} {o : Op} {k k' : Key} (hk : fileKey o = some k) (hne : k' ≠ k) :
    (exec fs o).2.lookup k' = fs.lookup k' := by
  rcases exec_cases fs o with ⟨fs', h, e⟩ | ⟨_, e⟩ | ⟨_, e⟩
  · rw [e]; exact run_frame h hk hne
  · rw [e]
  · rw [e]

/-! ### simulation of one operation with a file key -/

theorem sim_removeFile {G S : FS} {k : Key} (hv : View G S k)
    (he : (G.lookup k).map noIno = (S.lookup k).map noIno)
    (hok : okStep (.removeFile k, (exec S (.removeFile k)).1) = true) :
    (exec G (.removeFile k)).1 = (exec S (.removeFile k)).1 ∧
    ((exec G (.removeFile k)).2.lookup k).map noIno = ((exec S (.removeFile k)).2.lookup k).map noIno := by
  have hfS : S.fileOnPath k = false := by
    cases hf : S.fileOnPath k with
    | false => rfl
    | true => simp [exec, Op.run, FS.removeFile, hf, okStep] at hok
  have hfG := fileOnPath_false hv.file hfS
  rcases noIno_cases he with ⟨hg, hs⟩ | ⟨hg, hs⟩ | ⟨c, m, i, i', hg, hs⟩
  · cases hk : (k == []) <;> simp only [exec, Op.run, FS.removeFile, hfS, hfG, hg, hs, hk] <;> simp [hg, hs]
  · simp [exec, Op.run, FS.removeFile, hfS, hs, okStep] at hok
  · simp [exec, Op.run, FS.removeFile, hfS, hfG, hg, hs, FS.lookup_erase_self]

theorem sim_createFile {G S : FS} {k : Key} (hv : View G S k)
    (he : (G.lookup k).map noIno = (S.lookup k).map noIno)
    (hok : okStep (.createFile k, (exec S (.createFile k)).1) = true) :
    (exec G (.createFile k)).1 = (exec S (.createFile k)).1 ∧
    ((exec G (.createFile k)).2.lookup k).map noIno = ((exec S (.createFile k)).2.lookup k).map noIno := by
  have hk : (k == []) = false := by
    cases hf : (k == []) with
    | false => rfl
    | true => simp [exec, Op.run, FS.createFile, hf, okStep] at hok
  have hfS : S.fileOnPath k = false := by
    cases hf : S.fileOnPath k with
    | false => rfl
    | true => simp [exec, Op.run, FS.createFile, hk, hf, okStep] at hok
  have hfG := fileOnPath_false hv.file hfS
  have hdS : S.isDir k.dropLast = true := by
    cases hf : S.isDir k.dropLast with
    | true => rfl
    | false => simp [exec, Op.run, FS.createFile, hk, hfS, hf, okStep] at hok
  have hdG : G.isDir k.dropLast = true := isDir_of (hv.dir _ (List.dropLast_prefix k)) hdS
  rcases noIno_cases he with ⟨hg, hs⟩ | ⟨hg, hs⟩ | ⟨c, m, i, i', hg, hs⟩
  · have e1 : ∀ fs : FS, fs.lookup k = none → fs.isDir k.dropLast = true → fs.fileOnPath k = false →
        exec fs (.createFile k) = (.ok, { (fs.set k (.file [] 0o644 fs.nextIno)) with nextIno := fs.nextIno + 1 }) := by
      intro fs h1 h2 h3
      simp [exec, Op.run, FS.createFile, hk, h1, h2, h3]
    rw [e1 G hg hdG hfG, e1 S hs hdS hfS]
    refine ⟨rfl, ?_⟩
    show ((G.set k _).lookup k).map noIno = ((S.set k _).lookup k).map noIno
    rw [FS.lookup_set_self, FS.lookup_set_self]
    rfl
  · simp [exec, Op.run, FS.createFile, hk, hfS, hdS, hs, okStep] at hok
  · simp [exec, Op.run, FS.createFile, hk, hfS, hfG, hdS, hdG, hg, hs, FS.lookup_set_self, noIno]

theorem sim_setMode {G S : FS} {k : Key} {md : Nat}
    (he : (G.lookup k).map noIno = (S.lookup k).map noIno) :
    (exec G (.setMode k md)).1 = (exec S (.setMode k md)).1 ∧
    ((exec G (.setMode k md)).2.lookup k).map noIno = ((exec S (.setMode k md)).2.lookup k).map noIno := by
  rcases noIno_cases he with ⟨hg, hs⟩ | ⟨hg, hs⟩ | ⟨c, m, i, i', hg, hs⟩
  · simp [exec, Op.run, FS.setMode, hg, hs]
  · simp [exec, Op.run, FS.setMode, hg, hs]
  · simp [exec, Op.run, FS.setMode, hg, hs, FS.lookup_set_self, noIno]

theorem sim_write {G S : FS} {k : Key} {b : Bytes}
    (he : (G.lookup k).map noIno = (S.lookup k).map noIno) :
    (exec G (.write k b)).1 = (exec S (.write k b)).1 ∧
    ((exec G (.write k b)).2.lookup k).map noIno = ((exec S (.write k b)).2.lookup k).map noIno := by
  rcases noIno_cases he with ⟨hg, hs⟩ | ⟨hg, hs⟩ | ⟨c, m, i, i', hg, hs⟩
  · simp [exec, Op.run, FS.appendBytes, hg, hs]
  · simp [exec, Op.run, FS.appendBytes, hg, hs]
  · simp [exec, Op.run, FS.appendBytes, hg, hs, FS.lookup_set_self, noIno]

/-- an operation with file key `k`: same result class, and the files at `k` stay the same -/
theorem exec_sim_key {G S : FS} {o : Op} {k : Key} (hk : fileKey o = some k) (hv : View G S k)
    (he : (G.lookup k).map noIno = (S.lookup k).map noIno)
    (hok : okStep (o, (exec S o).1) = true) :
    (exec G o).1 = (exec S o).1 ∧
    ((exec G o).2.lookup k).map noIno = ((exec S o).2.lookup k).map noIno := by
  cases o with
  | removeFile k0 => cases hk; exact sim_removeFile hv he hok
  | createFile k0 => cases hk; exact sim_createFile hv he hok
  | setMode k0 m => cases hk; exact sim_setMode he
  | write k0 b => cases hk; exact sim_write he
  | createDirAll d => cases hk
  | removeDir d => cases hk
  | appendOpen d => cases hk

/-! ### `createDirAll` -/

/-- one round of the loop of `createDirAll` -/
def cdStep (k : Key) (acc : Except IOErr FS) (i : Nat) : Except IOErr FS :=
  match acc with
  | .error e => .error e
  | .ok f =>
    let p := k.take i
    if p == [] then .ok f
    else match f.lookup p with
      | some .dir => .ok f
      | some (.file ..) => .error .other
      | none => .ok (f.set p .dir)

theorem createDirAll_eq (fs : FS) (k : Key) :
    fs.createDirAll k = (List.range (k.length + 1)).foldl (cdStep k) (.ok fs) := rfl

theorem cd_fold_error (k : Key) (l : List Nat) (e : IOErr) : l.foldl (cdStep k) (.error e) = .error e := by
  induction l with
  | nil => rfl
  | cons i t ih => exact ih

/-- no regular file on the prefixes `k.take i`, `i ∈ l` -/
def NoFile (k : Key) (f : FS) (l : List Nat) : Prop :=
  ∀ i ∈ l, k.take i ≠ [] → isFile (f.lookup (k.take i)) = false

/-- the effect of the loop: lookups stay, or `none` becomes a directory on one of the prefixes; and all
prefixes are directories afterwards -/
def DirFill (k : Key) (l : List Nat) (f f' : FS) : Prop :=
  (∀ q, f'.lookup q = f.lookup q ∨
    (f.lookup q = none ∧ f'.lookup q = some .dir ∧ q ≠ [] ∧ ∃ i ∈ l, q = k.take i)) ∧
  (∀ i ∈ l, k.take i ≠ [] → f'.lookup (k.take i) = some .dir)

theorem cdStep_cases (k : Key) (f : FS) (i : Nat) :
    (k.take i = [] ∧ cdStep k (.ok f) i = .ok f) ∨
    (k.take i ≠ [] ∧ f.lookup (k.take i) = some .dir ∧ cdStep k (.ok f) i = .ok f) ∨
    (k.take i ≠ [] ∧ isFile (f.lookup (k.take i)) = true ∧ cdStep k (.ok f) i = .error .other) ∨
    (k.take i ≠ [] ∧ f.lookup (k.take i) = none ∧ cdStep k (.ok f) i = .ok (f.set (k.take i) .dir)) := by
  by_cases hp : k.take i = []
  · exact .inl ⟨hp, by simp [cdStep, hp]⟩
  · cases hl : f.lookup (k.take i) with
    | none => exact .inr (.inr (.inr ⟨hp, rfl, by simp [cdStep, hp, hl]⟩))
    | some x =>
      cases x with
      | dir => exact .inr (.inl ⟨hp, rfl, by simp [cdStep, hp, hl]⟩)
      | file c m ino => exact .inr (.inr (.inl ⟨hp, rfl, by simp [cdStep, hp, hl]⟩))

theorem cd_fold_ok (k : Key) (l : List Nat) : ∀ f : FS, NoFile k f l →
    ∃ f', l.foldl (cdStep k) (.ok f) = .ok f' ∧ DirFill k l f f' := by
  induction l with
  | nil =>
    intro f _
    exact ⟨f, rfl, fun q => .inl rfl, fun i hi => by cases hi⟩
  | cons i t ih =>
    intro f hnf
    have hnf_t : NoFile k f t := fun j hj => hnf j (List.mem_cons_of_mem _ hj)
    rw [List.foldl_cons]
    rcases cdStep_cases k f i with ⟨hp, e⟩ | ⟨hp, hl, e⟩ | ⟨hp, hl, e⟩ | ⟨hp, hl, e⟩
    · rw [e]
      obtain ⟨f', hf', h1, h2⟩ := ih f hnf_t
      refine ⟨f', hf', ?_, ?_⟩
      · intro q
        rcases h1 q with h | ⟨a, b, c, j, hj, d⟩
        · exact .inl h
        · exact .inr ⟨a, b, c, j, List.mem_cons_of_mem _ hj, d⟩
      · intro j hj hne
        rcases List.mem_cons.mp hj with rfl | hj
        · exact absurd hp hne
        · exact h2 j hj hne
    · rw [e]
      obtain ⟨f', hf', h1, h2⟩ := ih f hnf_t
      refine ⟨f', hf', ?_, ?_⟩
      · intro q
        rcases h1 q with h | ⟨a, b, c, j, hj, d⟩
        · exact .inl h
        · exact .inr ⟨a, b, c, j, List.mem_cons_of_mem _ hj, d⟩
      · intro j hj hne
        rcases List.mem_cons.mp hj with rfl | hj
        · rcases h1 (k.take j) with h | ⟨a, _⟩
          · rw [h]; exact hl
          · rw [hl] at a; cases a
        · exact h2 j hj hne
    · have := hnf i (List.mem_cons_self ..) hp
      rw [hl] at this; cases this
    · rw [e]
      have hnf' : NoFile k (f.set (k.take i) .dir) t := by
        intro j hj hne
        by_cases hji : k.take j = k.take i
        · rw [hji, FS.lookup_set_self]; rfl
        · rw [FS.lookup_set_ne _ _ _ _ hji]; exact hnf_t j hj hne
      obtain ⟨f', hf', h1, h2⟩ := ih _ hnf'
      have hself : f'.lookup (k.take i) = some .dir := by
        rcases h1 (k.take i) with h | ⟨a, _⟩
        · rw [h, FS.lookup_set_self]
        · rw [FS.lookup_set_self] at a; cases a
      refine ⟨f', hf', ?_, ?_⟩
      · intro q
        by_cases hq : q = k.take i
        · subst hq
          exact .inr ⟨hl, hself, hp, i, List.mem_cons_self .., rfl⟩
        · rcases h1 q with h | ⟨a, b, c, j, hj, d⟩
          · rw [FS.lookup_set_ne _ _ _ _ hq] at h
            exact .inl h
          · rw [FS.lookup_set_ne _ _ _ _ hq] at a
            exact .inr ⟨a, b, c, j, List.mem_cons_of_mem _ hj, d⟩
      · intro j hj hne
        rcases List.mem_cons.mp hj with rfl | hj
        · exact hself
        · exact h2 j hj hne

theorem cd_fold_nofile (k : Key) (l : List Nat) : ∀ (f f' : FS),
    l.foldl (cdStep k) (.ok f) = .ok f' → NoFile k f l := by
  induction l with
  | nil => intro f f' _ i hi; cases hi
  | cons i t ih =>
    intro f f' h
    rw [List.foldl_cons] at h
    rcases cdStep_cases k f i with ⟨hp, e⟩ | ⟨hp, hl, e⟩ | ⟨hp, hl, e⟩ | ⟨hp, hl, e⟩
    · rw [e] at h
      intro j hj hne
      rcases List.mem_cons.mp hj with rfl | hj
      · exact absurd hp hne
      · exact ih f f' h j hj hne
    · rw [e] at h
      intro j hj hne
      rcases List.mem_cons.mp hj with rfl | hj
      · rw [hl]; rfl
      · exact ih f f' h j hj hne
    · rw [e, cd_fold_error] at h; cases h
    · rw [e] at h
      intro j hj hne
      rcases List.mem_cons.mp hj with rfl | hj
      · rw [hl]; rfl
      · have := ih _ f' h j hj hne
        by_cases hji : k.take j = k.take i
        · rw [hji, hl]; rfl
        · rwa [FS.lookup_set_ne _ _ _ _ hji] at this

theorem prefix_iff_take {q d : Key} : q <+: d ↔ ∃ i ∈ List.range (d.length + 1), q = d.take i := by
  constructor
  · intro h
    refine ⟨q.length, ?_, List.prefix_iff_eq_take.mp h⟩
    have := h.length_le
    simp only [List.mem_range]; omega
  · rintro ⟨i, _, rfl⟩
    exact List.take_prefix i d

/-- the effect of `createDirAll d`: lookups stay, or `none` becomes a directory on a prefix of `d`; all
non-empty prefixes of `d` are directories afterwards -/
def DirEffect (d : Key) (f f' : FS) : Prop :=
  (∀ q, f'.lookup q = f.lookup q ∨ (f.lookup q = none ∧ f'.lookup q = some .dir ∧ q ≠ [] ∧ q <+: d)) ∧
  (∀ q, q ≠ [] → q <+: d → f'.lookup q = some .dir)

theorem exec_sim_dir {G S : FS} {d : Key}
    (hv : ∀ p, p <+: d → isFile (G.lookup p) = true → isFile (S.lookup p) = true)
    (hok : okStep (.createDirAll d, (exec S (.createDirAll d)).1) = true) :
    (exec G (.createDirAll d)).1 = (exec S (.createDirAll d)).1 ∧
    DirEffect d G (exec G (.createDirAll d)).2 ∧ DirEffect d S (exec S (.createDirAll d)).2 := by
  have key : ∀ f : FS, NoFile d f (List.range (d.length + 1)) →
      ∃ f', exec f (.createDirAll d) = (.ok, f') ∧ DirEffect d f f' := by
    intro f hnf
    obtain ⟨f', hf', h1, h2⟩ := cd_fold_ok d _ f hnf
    refine ⟨f', ?_, ?_, ?_⟩
    · unfold exec Op.run
      simp only [createDirAll_eq, hf']
    · intro q
      rcases h1 q with h | ⟨a, b, c, i, hi, e⟩
      · exact .inl h
      · exact .inr ⟨a, b, c, prefix_iff_take.mpr ⟨i, hi, e⟩⟩
    · intro q hq hp
      obtain ⟨i, hi, rfl⟩ := prefix_iff_take.mp hp
      exact h2 i hi hq
  have hS : NoFile d S (List.range (d.length + 1)) := by
    rcases exec_cases S (.createDirAll d) with ⟨fs', h, _⟩ | ⟨_, e⟩ | ⟨_, e⟩
    · exact cd_fold_nofile d _ S fs' h
    · rw [e] at hok; cases hok
    · rw [e] at hok; cases hok
  have hG : NoFile d G (List.range (d.length + 1)) := by
    intro i hi hne
    have := hS i hi hne
    cases hf : isFile (G.lookup (d.take i)) with
    | false => rfl
    | true => rw [hv _ (List.take_prefix i d) hf] at this; cases this
  obtain ⟨G', eG, hG'⟩ := key G hG
  obtain ⟨S', eS, hS'⟩ := key S hS
  rw [eG, eS]
  exact ⟨rfl, hG', hS'⟩

/-! ## Solo runs -/

theorem soloAt_succ_none {p : Prog} {fs : FS} {m : Nat} (h : soloOp p fs m = none) :
    soloAt p fs (m + 1) = soloAt p fs m := by
  unfold soloOp at h
  rw [soloAt, h]

theorem soloAt_succ_some {p : Prog} {fs : FS} {m : Nat} {o : Op} (h : soloOp p fs m = some o) :
    soloAt p fs (m + 1) =
      ((exec (soloAt p fs m).1 o).2, (soloAt p fs m).2 ++ [(exec (soloAt p fs m).1 o).1]) := by
  unfold soloOp at h
  rw [soloAt, h]

/-- a finished worker stays where it is -/
theorem soloAt_stable {p : Prog} {fs : FS} {m : Nat} (h : soloOp p fs m = none) :
    ∀ m', m ≤ m' → soloAt p fs m' = soloAt p fs m := by
  intro m' hm
  induction hm with
  | refl => rfl
  | step hm ih =>
    rename_i m'
    have : soloOp p fs m' = none := by unfold soloOp at *; rw [ih]; exact h
    rw [soloAt_succ_none this, ih]

theorem soloAt_fin_unique {p : Prog} {fs : FS} {m1 m2 : Nat} (h1 : soloOp p fs m1 = none)
    (h2 : soloOp p fs m2 = none) : soloAt p fs m1 = soloAt p fs m2 := by
  by_cases hm : m1 ≤ m2
  · exact (soloAt_stable h1 m2 hm).symm
  · exact soloAt_stable h2 m1 (by omega)

theorem soloOp_lt {p : Prog} {fs : FS} {fuel m : Nat} {o : Op} (hfin : soloOp p fs fuel = none)
    (h : soloOp p fs m = some o) : m < fuel := by
  by_cases hm : m < fuel
  · exact hm
  · have := soloAt_stable hfin m (by omega)
    unfold soloOp at h hfin
    rw [this, hfin] at h
    cases h

theorem step_mem {p : Prog} {fs : FS} {fuel m : Nat} {o : Op} (hfin : soloOp p fs fuel = none)
    (h : soloOp p fs m = some o) : (o, (exec (soloAt p fs m).1 o).1) ∈ soloSteps p fs fuel := by
  unfold soloSteps
  rw [List.mem_filterMap]
  refine ⟨m, List.mem_range.mpr (soloOp_lt hfin h), ?_⟩
  unfold soloStepAt
  rw [h]
  rfl

theorem soloAt_hist_mono {p : Prog} {fs : FS} {m m' : Nat} (hm : m ≤ m') :
    (soloAt p fs m).2 <+: (soloAt p fs m').2 := by
  induction hm with
  | refl => exact List.prefix_refl _
  | step hm ih =>
    rename_i m'
    cases ho : soloOp p fs m' with
    | none => rw [soloAt_succ_none ho]; exact ih
    | some o => rw [soloAt_succ_some ho]; exact ih.trans (List.prefix_append _ _)

/-- the result history is the list of the results of the operations -/
theorem solo_results (p : Prog) (fs : FS) (fuel : Nat) :
    (solo p fs fuel).2.1 = (soloSteps p fs fuel).map (·.2) := by
  show (soloAt p fs fuel).2 = _
  induction fuel with
  | zero => rfl
  | succ m ih =>
    unfold soloSteps at *
    rw [List.range_succ, List.filterMap_append, List.map_append, ← ih]
    cases ho : soloOp p fs m with
    | none => rw [soloAt_succ_none ho]; simp [soloStepAt, ho]
    | some o => rw [soloAt_succ_some ho]; simp [soloStepAt, ho]

/-! ## The invariant -/

section Main
variable {progs : Nat → Prog} {fs0 : FS} {n : Nat} {fuel : Nat → Nat}

/-- worker `i`'s solo file system after `c` slots -/
def SFS (progs : Nat → Prog) (fs0 : FS) (i c : Nat) : FS := (soloAt (progs i) fs0 c).1

/-- worker `i` advances by one slot -/
def bump (c : Nat → Nat) (i : Nat) : Nat → Nat := fun j => if j = i then c i + 1 else c j

theorem bump_self (c : Nat → Nat) (i : Nat) : bump c i i = c i + 1 := by simp [bump]
theorem bump_ne (c : Nat → Nat) {i j : Nat} (h : j ≠ i) : bump c i j = c j := by simp [bump, h]

/-- The global file system `G` when worker `i` is at slot `c i` of its solo run:
* `own`: a key owned by worker `i` looks (up to the inode number) as in `i`'s solo run;
* `free`: a key nobody owns is a directory that some worker's solo run has made (or found) at this point,
  or it is as in `fs0`, and so it is in every worker's solo run. -/
structure Inv (progs : Nat → Prog) (fs0 : FS) (n : Nat) (fuel : Nat → Nat) (G : FS) (c : Nat → Nat) : Prop where
  own : ∀ i, i < n → ∀ k ∈ F progs fs0 fuel i,
    (G.lookup k).map noIno = ((SFS progs fs0 i (c i)).lookup k).map noIno
  free : ∀ k, (∀ i, i < n → k ∉ F progs fs0 fuel i) →
    (G.lookup k = some .dir ∧ ∃ j, j < n ∧ (SFS progs fs0 j (c j)).lookup k = some .dir) ∨
    (G.lookup k = fs0.lookup k ∧ ∀ j, j < n → (SFS progs fs0 j (c j)).lookup k = fs0.lookup k)

theorem Inv.congr {G : FS} {c c' : Nat → Nat} (hI : Inv progs fs0 n fuel G c)
    (hc : ∀ j, j < n → SFS progs fs0 j (c' j) = SFS progs fs0 j (c j)) : Inv progs fs0 n fuel G c' := by
  constructor
  · intro i hi k hk
    rw [hc i hi]; exact hI.own i hi k hk
  · intro k hk
    rcases hI.free k hk with ⟨g, j, hj, sj⟩ | ⟨g, all⟩
    · exact .inl ⟨g, j, hj, by rw [hc j hj]; exact sj⟩
    · exact .inr ⟨g, fun j hj => by rw [hc j hj]; exact all j hj⟩

theorem inv_init : Inv progs fs0 n fuel fs0 (fun _ => 0) :=
  ⟨fun _ _ _ _ => rfl, fun _ _ => .inr ⟨rfl, fun _ _ => rfl⟩⟩

theorem Hyp.soloFin (h : Hyp progs fs0 n fuel) {i : Nat} (hi : i < n) :
    soloOp (progs i) fs0 (fuel i) = none := h.fin i hi

theorem Hyp.okStep (h : Hyp progs fs0 n fuel) {i m : Nat} {o : Op} (hi : i < n)
    (ho : soloOp (progs i) fs0 m = some o) : okStep (o, (exec (SFS progs fs0 i m) o).1) = true :=
  h.oks i hi _ (step_mem (h.soloFin hi) ho)

theorem Hyp.memF (h : Hyp progs fs0 n fuel) {i m : Nat} {o : Op} {k : Key} (hi : i < n)
    (ho : soloOp (progs i) fs0 m = some o) (hk : fileKey o = some k) : k ∈ F progs fs0 fuel i := by
  unfold F solo
  rw [List.mem_filterMap]
  exact ⟨o, List.mem_map.mpr ⟨_, step_mem (h.soloFin hi) ho, rfl⟩, hk⟩

theorem Hyp.memD (h : Hyp progs fs0 n fuel) {i m : Nat} {o : Op} {d : Key} (hi : i < n)
    (ho : soloOp (progs i) fs0 m = some o) (hk : dirPath o = some d) : d ∈ D progs fs0 fuel i := by
  unfold D solo
  rw [List.mem_filterMap]
  exact ⟨o, List.mem_map.mpr ⟨_, step_mem (h.soloFin hi) ho, rfl⟩, hk⟩

theorem op_kind {o : Op} {r : Res} (h : okStep (o, r) = true) :
    (∃ k, fileKey o = some k) ∨ (∃ d, o = .createDirAll d) := by
  cases o with
  | removeFile k => exact .inl ⟨k, rfl⟩
  | createFile k => exact .inl ⟨k, rfl⟩
  | setMode k m => exact .inl ⟨k, rfl⟩
  | write k b => exact .inl ⟨k, rfl⟩
  | createDirAll d => exact .inr ⟨d, rfl⟩
  | removeDir d => cases r <;> cases h
  | appendOpen d => cases r <;> cases h

/-- what worker `i` sees on the way to one of its file keys or directory paths -/
theorem view_of_inv (h : Hyp progs fs0 n fuel) {G : FS} {c : Nat → Nat} (hI : Inv progs fs0 n fuel G c)
    {i : Nat} (hi : i < n) {t : Key} (ht : t ∈ F progs fs0 fuel i ∨ t ∈ D progs fs0 fuel i) :
    View G (SFS progs fs0 i (c i)) t := by
  have key : ∀ p, p <+: t →
      ((G.lookup p).map noIno = ((SFS progs fs0 i (c i)).lookup p).map noIno) ∨
      G.lookup p = some .dir ∨ G.lookup p = (SFS progs fs0 i (c i)).lookup p := by
    intro p hp
    by_cases hpi : p ∈ F progs fs0 fuel i
    · exact .inl (hI.own i hi p hpi)
    · by_cases hown : ∃ j, j < n ∧ p ∈ F progs fs0 fuel j
      · obtain ⟨j, hj, hpj⟩ := hown
        have hji : j ≠ i := fun e => hpi (e ▸ hpj)
        have := h.disj j hj i hi hji p hpj
        rcases ht with ht | ht
        · exact absurd hp (this.1 t ht)
        · exact absurd hp (this.2 t ht)
      · rcases hI.free p (fun j hj hpj => hown ⟨j, hj, hpj⟩) with ⟨g, _⟩ | ⟨g, all⟩
        · exact .inr (.inl g)
        · exact .inr (.inr (by rw [g, all i hi]))
  constructor
  · intro p hp hf
    rcases key p hp with e | e | e
    · rw [← isFile_of_noIno e]; exact hf
    · rw [e] at hf; cases hf
    · rw [← e]; exact hf
  · intro p hp hd
    rcases key p hp with e | e | e
    · exact dir_of_noIno e hd
    · exact e
    · rw [e]; exact hd

/-- re-establishing the invariant after a step of worker `i` -/
theorem inv_update (h : Hyp progs fs0 n fuel) {G G' : FS} {c : Nat → Nat}
    (hI : Inv progs fs0 n fuel G c) {i : Nat} (hi : i < n)
    (P1 : ∀ k ∈ F progs fs0 fuel i,
      (G'.lookup k).map noIno = ((SFS progs fs0 i (c i + 1)).lookup k).map noIno)
    (P2 : ∀ k, k ∉ F progs fs0 fuel i →
      (G'.lookup k = G.lookup k ∧
        (SFS progs fs0 i (c i + 1)).lookup k = (SFS progs fs0 i (c i)).lookup k) ∨
      (G'.lookup k = some .dir ∧ (SFS progs fs0 i (c i + 1)).lookup k = some .dir ∧
        ∃ d ∈ D progs fs0 fuel i, k <+: d)) :
    Inv progs fs0 n fuel G' (bump c i) := by
  constructor
  · intro j hj k hk
    by_cases hji : j = i
    · subst hji
      rw [bump_self]; exact P1 k hk
    · rw [bump_ne c hji]
      have hkni : k ∉ F progs fs0 fuel i :=
        fun hki => (h.disj i hi j hj (Ne.symm hji) k hki).1 k hk (List.prefix_refl k)
      rcases P2 k hkni with ⟨a, _⟩ | ⟨_, _, d, hd, hp⟩
      · rw [a]; exact hI.own j hj k hk
      · exact absurd hp ((h.disj j hj i hi hji k hk).2 d hd)
  · intro k hk
    rcases P2 k (hk i hi) with ⟨a, b⟩ | ⟨a, b, _⟩
    · rcases hI.free k hk with ⟨g, j, hj, sj⟩ | ⟨g, all⟩
      · refine .inl ⟨a ▸ g, j, hj, ?_⟩
        by_cases hji : j = i
        · subst hji; rw [bump_self, b]; exact sj
        · rw [bump_ne c hji]; exact sj
      · refine .inr ⟨a ▸ g, fun j hj => ?_⟩
        by_cases hji : j = i
        · subst hji; rw [bump_self, b]; exact all j hj
        · rw [bump_ne c hji]; exact all j hj
    · exact .inl ⟨a, i, hi, by rw [bump_self]; exact b⟩

/-- one operation of worker `i` in the global file system: same result class as in its solo run, and
the invariant holds again -/
theorem inv_step (h : Hyp progs fs0 n fuel) {G : FS} {c : Nat → Nat} (hI : Inv progs fs0 n fuel G c)
    {i : Nat} (hi : i < n) {o : Op} (ho : soloOp (progs i) fs0 (c i) = some o) :
    (exec G o).1 = (exec (SFS progs fs0 i (c i)) o).1 ∧ Inv progs fs0 n fuel (exec G o).2 (bump c i) := by
  have hS' : SFS progs fs0 i (c i + 1) = (exec (SFS progs fs0 i (c i)) o).2 := by
    unfold SFS; rw [soloAt_succ_some ho]
  have hok := h.okStep hi ho
  rcases op_kind hok with ⟨k, hk⟩ | ⟨d, rfl⟩
  · have hkF := h.memF hi ho hk
    have hv := view_of_inv h hI hi (.inl hkF)
    obtain ⟨r, e⟩ := exec_sim_key hk hv (hI.own i hi k hkF) hok
    refine ⟨r, inv_update h hI hi ?_ ?_⟩
    · intro k' hk'
      rw [hS']
      by_cases hne : k' = k
      · subst hne; exact e
      · rw [exec_frame hk hne, exec_frame hk hne]; exact hI.own i hi k' hk'
    · intro k' hk'
      have hne : k' ≠ k := fun e => hk' (e ▸ hkF)
      rw [hS']
      exact .inl ⟨exec_frame hk hne, exec_frame hk hne⟩
  · have hdD := h.memD hi ho (d := d) rfl
    have hv := view_of_inv h hI hi (.inr hdD)
    obtain ⟨r, eG, eS⟩ := exec_sim_dir hv.file hok
    refine ⟨r, inv_update h hI hi ?_ ?_⟩
    · intro k hk
      rw [hS']
      by_cases hpre : k ≠ [] ∧ k <+: d
      · rw [eG.2 k hpre.1 hpre.2, eS.2 k hpre.1 hpre.2]
      · rcases eG.1 k with a | ⟨_, _, x, y⟩
        · rcases eS.1 k with b | ⟨_, _, x, y⟩
          · rw [a, b]; exact hI.own i hi k hk
          · exact absurd ⟨x, y⟩ hpre
        · exact absurd ⟨x, y⟩ hpre
    · intro k _
      rw [hS']
      by_cases hpre : k ≠ [] ∧ k <+: d
      · exact .inr ⟨eG.2 k hpre.1 hpre.2, eS.2 k hpre.1 hpre.2, d, hdD, hpre.2⟩
      · rcases eG.1 k with a | ⟨_, _, x, y⟩
        · rcases eS.1 k with b | ⟨_, _, x, y⟩
          · exact .inl ⟨a, b⟩
          · exact absurd ⟨x, y⟩ hpre
        · exact absurd ⟨x, y⟩ hpre

/-! ## Runs -/

/-- the state of the parallel run when worker `i` has had `c i` slots -/
def Good (progs : Nat → Prog) (fs0 : FS) (n : Nat) (fuel : Nat → Nat) (s : PState) (c : Nat → Nat) : Prop :=
  Inv progs fs0 n fuel s.fs c ∧ ∀ i, s.hist i = (soloAt (progs i) fs0 (c i)).2

theorem Hyp.idleAt (h : Hyp progs fs0 n fuel) {i : Nat} (hi : n ≤ i) (m : Nat) :
    soloAt (progs i) fs0 m = (fs0, []) :=
  soloAt_stable (m := 0) (h.idle i hi) m (Nat.zero_le _)

theorem good_init : Good progs fs0 n fuel (init fs0) (fun _ => 0) := ⟨inv_init, fun _ => rfl⟩

theorem good_step (h : Hyp progs fs0 n fuel) {s : PState} {c : Nat → Nat}
    (hg : Good progs fs0 n fuel s c) (i : Nat) : Good progs fs0 n fuel (step progs s i) (bump c i) := by
  obtain ⟨hI, hh⟩ := hg
  cases hp : progs i (s.hist i) with
  | none =>
    have ho : soloOp (progs i) fs0 (c i) = none := by unfold soloOp; rw [← hh i]; exact hp
    have hsame : ∀ j, soloAt (progs j) fs0 (bump c i j) = soloAt (progs j) fs0 (c j) := by
      intro j
      by_cases hji : j = i
      · subst hji; rw [bump_self, soloAt_succ_none ho]
      · rw [bump_ne c hji]
    have hst : step progs s i = s := by unfold step; rw [hp]
    rw [hst]
    refine ⟨hI.congr (fun j _ => ?_), fun j => ?_⟩
    · unfold SFS; rw [hsame j]
    · rw [hsame j]; exact hh j
  | some o =>
    have ho : soloOp (progs i) fs0 (c i) = some o := by unfold soloOp; rw [← hh i]; exact hp
    have hst : step progs s i =
        ⟨(exec s.fs o).2, fun j => if j = i then s.hist i ++ [(exec s.fs o).1] else s.hist j⟩ := by
      unfold step; rw [hp]
    rw [hst]
    by_cases hi : i < n
    · obtain ⟨r, hI'⟩ := inv_step h hI hi ho
      refine ⟨hI', fun j => ?_⟩
      by_cases hji : j = i
      · subst hji
        simp only [if_true]
        rw [bump_self, soloAt_succ_some ho, r, hh j]
        rfl
      · simp only [if_neg hji]
        rw [bump_ne c hji]; exact hh j
    · have := h.idleAt (Nat.le_of_not_lt hi) (c i)
      unfold soloOp at ho
      rw [this, h.idle i (Nat.le_of_not_lt hi)] at ho
      cases ho

theorem good_run (h : Hyp progs fs0 n fuel) (sched : List Nat) : ∀ (s : PState) (c : Nat → Nat),
    Good progs fs0 n fuel s c → Good progs fs0 n fuel (run progs sched s) (fun i => c i + sched.count i) := by
  induction sched with
  | nil =>
    intro s c hg
    have : (fun i => c i + ([] : List Nat).count i) = c := by funext i; simp
    rw [this]; exact hg
  | cons a t ih =>
    intro s c hg
    have := ih _ _ (good_step h hg a)
    have e : (fun i => bump c a i + t.count i) = (fun i => c i + (a :: t).count i) := by
      funext i
      by_cases hia : i = a
      · subst hia; rw [bump_self, List.count_cons_self]; omega
      · rw [bump_ne c hia, List.count_cons_of_ne (Ne.symm hia)]
    rw [e] at this
    exact this

theorem good_run_init (h : Hyp progs fs0 n fuel) (sched : List Nat) :
    Good progs fs0 n fuel (run progs sched (init fs0)) (fun i => sched.count i) := by
  have := good_run h sched _ _ (good_init (progs := progs) (fs0 := fs0) (n := n) (fuel := fuel))
  simpa using this

/-- under every schedule, a worker's result history is that of its solo run after as many slots -/
theorem run_hist (h : Hyp progs fs0 n fuel) (sched : List Nat) (i : Nat) :
    (run progs sched (init fs0)).hist i = (soloAt (progs i) fs0 (sched.count i)).2 :=
  (good_run_init h sched).2 i

/-- ... so the operation it issues next is the next operation of its solo run -/
theorem run_next_op (h : Hyp progs fs0 n fuel) (sched : List Nat) (i : Nat) :
    progs i ((run progs sched (init fs0)).hist i) = soloOp (progs i) fs0 (sched.count i) := by
  rw [run_hist h]; rfl

theorem hist_prefix (h : Hyp progs fs0 n fuel) (sched : List Nat) (i : Nat) :
    (run progs sched (init fs0)).hist i <+: (solo (progs i) fs0 (fuel i)).2.1 := by
  rw [run_hist h]
  show _ <+: (soloAt (progs i) fs0 (fuel i)).2
  by_cases hi : i < n
  · by_cases hc : sched.count i ≤ fuel i
    · exact soloAt_hist_mono hc
    · rw [soloAt_stable (h.soloFin hi) _ (by omega)]
      exact List.prefix_refl _
  · rw [h.idleAt (Nat.le_of_not_lt hi)]
    exact List.nil_prefix

/-- two states in which all workers are finished have the same files -/
theorem done_equiv {s1 s2 : PState} {c1 c2 : Nat → Nat}
    (g1 : Good progs fs0 n fuel s1 c1) (g2 : Good progs fs0 n fuel s2 c2)
    (d1 : Done progs s1) (d2 : Done progs s2) : FSEquiv s1.fs s2.fs := by
  have hS : ∀ i, SFS progs fs0 i (c1 i) = SFS progs fs0 i (c2 i) := by
    intro i
    have e1 : soloOp (progs i) fs0 (c1 i) = none := by unfold soloOp; rw [← g1.2 i]; exact d1 i
    have e2 : soloOp (progs i) fs0 (c2 i) = none := by unfold soloOp; rw [← g2.2 i]; exact d2 i
    unfold SFS; rw [soloAt_fin_unique e1 e2]
  intro k
  by_cases hown : ∃ i, i < n ∧ k ∈ F progs fs0 fuel i
  · obtain ⟨i, hi, hk⟩ := hown
    rw [g1.1.own i hi k hk, g2.1.own i hi k hk, hS i]
  · have hfree : ∀ i, i < n → k ∉ F progs fs0 fuel i := fun i hi hk => hown ⟨i, hi, hk⟩
    rcases g1.1.free k hfree with ⟨a, j, hj, sj⟩ | ⟨a, all⟩
    · rcases g2.1.free k hfree with ⟨b, _⟩ | ⟨b, all'⟩
      · rw [a, b]
      · rw [a, b, ← all' j hj, ← hS j, sj]
    · rcases g2.1.free k hfree with ⟨b, j, hj, sj⟩ | ⟨b, _⟩
      · rw [a, b, ← all j hj, hS j, sj]
      · rw [a, b]

theorem seq_count (fuel : Nat → Nat) (n i : Nat) :
    (seqSched fuel n).count i = if i < n then fuel i else 0 := by
  induction n with
  | zero => simp [seqSched]
  | succ m ih =>
    rw [seqSched, List.count_append, ih, List.count_replicate]
    by_cases h1 : i < m
    · have : ¬ (m == i) = true := by simp; omega
      simp [h1, this]; omega
    · by_cases h2 : i = m
      · subst h2; simp
      · have : ¬ (m == i) = true := by simp; omega
        have h3 : ¬ i < m + 1 := by omega
        simp [h1, this, h3]

/-- the sequential schedule is complete -/
theorem seq_done (h : Hyp progs fs0 n fuel) : Done progs (run progs (seqSched fuel n) (init fs0)) := by
  intro i
  rw [run_next_op h, seq_count]
  by_cases hi : i < n
  · rw [if_pos hi]; exact h.soloFin hi
  · rw [if_neg hi]; exact h.idle i (Nat.le_of_not_lt hi)

/-! ## Main theorem -/

/-- **Schedule independence.**  Under every schedule every worker's result history is a prefix of its solo
result history — so it issues exactly the operations of its solo run, in order (`run_next_op`) —, and when
all workers are finished every worker has its complete solo history and the file system is, up to inode
numbers, the one obtained by running the workers one after another. -/
theorem schedule_independence (h : Hyp progs fs0 n fuel) (sched : List Nat) :
    (∀ i, (run progs sched (init fs0)).hist i <+: (solo (progs i) fs0 (fuel i)).2.1) ∧
    (Done progs (run progs sched (init fs0)) →
      (∀ i, i < n → (run progs sched (init fs0)).hist i = (solo (progs i) fs0 (fuel i)).2.1) ∧
      FSEquiv (run progs sched (init fs0)).fs (run progs (seqSched fuel n) (init fs0)).fs) := by
  refine ⟨hist_prefix h sched, fun hd => ⟨fun i hi => ?_, ?_⟩⟩
  · rw [run_hist h]
    show _ = (soloAt (progs i) fs0 (fuel i)).2
    have e1 : soloOp (progs i) fs0 (sched.count i) = none := by rw [← run_next_op h]; exact hd i
    rw [soloAt_fin_unique e1 (h.soloFin hi)]
  · exact done_equiv (good_run_init h sched) (good_run_init h _) hd (seq_done h)

/-- any two complete schedules give the same files -/
theorem complete_schedules_equiv (h : Hyp progs fs0 n fuel) (sched1 sched2 : List Nat)
    (d1 : Done progs (run progs sched1 (init fs0))) (d2 : Done progs (run progs sched2 (init fs0))) :
    FSEquiv (run progs sched1 (init fs0)).fs (run progs sched2 (init fs0)).fs :=
  done_equiv (good_run_init h sched1) (good_run_init h sched2) d1 d2

end Main

/-! ## The sequential run is the composition of the solo runs -/

theorem run_append (progs : Nat → Prog) (l1 l2 : List Nat) (s : PState) :
    run progs (l1 ++ l2) s = run progs l2 (run progs l1 s) := by
  unfold run; rw [List.foldl_append]

/-- scheduling only worker `i`, which has not started yet, is its solo run from the current file system -/
theorem run_replicate (progs : Nat → Prog) (i : Nat) (s : PState) (hs : s.hist i = []) (m : Nat) :
    run progs (List.replicate m i) s =
      ⟨(soloAt (progs i) s.fs m).1, fun j => if j = i then (soloAt (progs i) s.fs m).2 else s.hist j⟩ := by
  induction m with
  | zero =>
    show s = _
    cases s with
    | mk fs hist =>
      simp only [soloAt, PState.mk.injEq, true_and]
      funext j
      by_cases hj : j = i
      · subst hj; simp only [if_true]; exact hs
      · simp only [if_neg hj]
  | succ m ih =>
    rw [List.replicate_succ', run_append, ih]
    show step progs _ i = _
    unfold step
    simp only [if_true]
    cases ho : soloOp (progs i) s.fs m with
    | none =>
      rw [soloAt_succ_none ho]
      unfold soloOp at ho
      rw [ho]
    | some o =>
      rw [soloAt_succ_some ho]
      unfold soloOp at ho
      rw [ho]
      simp only [PState.mk.injEq, true_and]
      funext j
      by_cases hj : j = i
      · simp only [hj, if_true]
      · simp only [if_neg hj]

/-- worker 0 alone from `fs0`, then worker 1 alone from the resulting file system, ... -/
def seqFS (progs : Nat → Prog) (fs0 : FS) (fuel : Nat → Nat) : Nat → FS
  | 0 => fs0
  | n + 1 => (solo (progs n) (seqFS progs fs0 fuel n) (fuel n)).1

theorem run_seq (progs : Nat → Prog) (fs0 : FS) (fuel : Nat → Nat) (n : Nat) :
    (run progs (seqSched fuel n) (init fs0)).fs = seqFS progs fs0 fuel n ∧
    ∀ j, n ≤ j → (run progs (seqSched fuel n) (init fs0)).hist j = [] := by
  induction n with
  | zero => exact ⟨rfl, fun _ _ => rfl⟩
  | succ m ih =>
    rw [seqSched, run_append, run_replicate progs m _ (ih.2 m (Nat.le_refl _))]
    refine ⟨?_, fun j hj => ?_⟩
    · show (soloAt _ _ _).1 = _
      rw [ih.1]; rfl
    · have : j ≠ m := by omega
      simp only [if_neg this]
      exact ih.2 j (by omega)

/-- the main theorem with the sequential composition of the solo runs spelled out -/
theorem schedule_independence_seq {progs : Nat → Prog} {fs0 : FS} {n : Nat} {fuel : Nat → Nat}
    (h : Hyp progs fs0 n fuel) (sched : List Nat) (hd : Done progs (run progs sched (init fs0))) :
    FSEquiv (run progs sched (init fs0)).fs (seqFS progs fs0 fuel n) := by
  rw [← (run_seq progs fs0 fuel n).1]
  exact ((schedule_independence h sched).2 hd).2

/-! ## Examples -/

/-- a worker that issues a fixed list of operations and gives up after a failure -/
def script (ops : List Op) : Prog := fun h => if h.contains .failed then none else ops[h.length]?

namespace Ex
def a : Bytes := [97]
def b : Bytes := [98]
def x : Bytes := [120]
def y : Bytes := [121]

/-- directory `a` with the file `a/x` -/
def fs0 : FS := ⟨[([a], .dir), ([a, x], .file [104, 105] 0o600 7)], 8⟩

/-- worker 0 replaces the file `a/x`, worker 1 creates `a/b/y` -/
def progs : Nat → Prog
  | 0 => script [.removeFile [a, x], .createFile [a, x], .write [a, x] [72, 73]]
  | 1 => script [.createDirAll [a, b], .createFile [a, b, y], .setMode [a, b, y] 0o755, .write [a, b, y] [89]]
  | _ => fun _ => none

example : Hyp progs fs0 2 (fun _ => 5) :=
  ⟨fun i hi => match i, hi with | _ + 2, _ => rfl, by decide, by decide, by
    intro i hi j hj hij
    have : (i = 0 ∧ j = 1) ∨ (i = 1 ∧ j = 0) := by omega
    rcases this with ⟨rfl, rfl⟩ | ⟨rfl, rfl⟩ <;> decide⟩

/-- an interleaved and the sequential schedule: both complete, same files, different inode numbers -/
example : (run progs [1, 0, 1, 0, 1, 0, 1] (init fs0)).fs.nodes =
    [([a], .dir), ([a, b], .dir), ([a, b, y], .file [89] 0o755 8), ([a, x], .file [72, 73] 0o644 9)] ∧
    (run progs (seqSched (fun _ => 5) 2) (init fs0)).fs.nodes =
    [([a], .dir), ([a, x], .file [72, 73] 0o644 8), ([a, b], .dir), ([a, b, y], .file [89] 0o755 9)] := by
  decide

/-! (H2) is needed: worker 0 removes the file `a` (and, in the second variant, writes it anew), worker 1
does `createDirAll a`.  From the empty file system both solo runs are fine (H1 holds: `removeFile`
answers `notFound`), but `a` is a file key of worker 0 and a directory path of worker 1. -/

def fsE : FS := ⟨[], 0⟩

def bad : Nat → Prog
  | 0 => script [.removeFile [a]]
  | 1 => script [.createDirAll [a]]
  | _ => fun _ => none

def bad2 : Nat → Prog
  | 0 => script [.removeFile [a], .createFile [a]]
  | 1 => script [.createDirAll [a]]
  | _ => fun _ => none

/-- (H1) holds for `bad` and `bad2` -/
example : (∀ i, i < 2 → bad i (solo (bad i) fsE 3).2.1 = none) ∧
    (∀ i, i < 2 → ∀ x ∈ soloSteps (bad i) fsE 3, okStep x = true) ∧
    (∀ i, i < 2 → bad2 i (solo (bad2 i) fsE 3).2.1 = none) ∧
    (∀ i, i < 2 → ∀ x ∈ soloSteps (bad2 i) fsE 3, okStep x = true) := by decide

/-- (H2) does not -/
example : ¬ (∀ i, i < 2 → ∀ j, j < 2 → i ≠ j → ∀ k ∈ F bad fsE (fun _ => 3) i,
    (∀ k' ∈ F bad fsE (fun _ => 3) j, ¬ k <+: k') ∧ (∀ d ∈ D bad fsE (fun _ => 3) j, ¬ k <+: d)) :=
  fun h => absurd (h 0 (by decide) 1 (by decide) (by decide)) (by decide)

example : ¬ (∀ i, i < 2 → ∀ j, j < 2 → i ≠ j → ∀ k ∈ F bad2 fsE (fun _ => 3) i,
    (∀ k' ∈ F bad2 fsE (fun _ => 3) j, ¬ k <+: k') ∧ (∀ d ∈ D bad2 fsE (fun _ => 3) j, ¬ k <+: d)) :=
  fun h => absurd (h 0 (by decide) 1 (by decide) (by decide)) (by decide)

/-- `bad`: under the schedule `[1, 0]` worker 0's `removeFile` fails, which it never does alone -/
example : (solo (bad 0) fsE 3).2.1 = [.notFound] ∧
    (run bad [0, 1] (init fsE)).hist 0 = [.notFound] ∧ (run bad [1, 0] (init fsE)).hist 0 = [.failed] := by
  decide

/-- `bad2`: two complete schedules, and `a` ends up as a regular file or as a directory -/
example : (∀ i, i < 2 → bad2 i ((run bad2 [0, 0, 1] (init fsE)).hist i) = none) ∧
    (∀ i, i < 2 → bad2 i ((run bad2 [1, 0, 0] (init fsE)).hist i) = none) ∧
    (run bad2 [0, 0, 1] (init fsE)).fs.lookup [a] = some (.file [] 0o644 0) ∧
    (run bad2 [1, 0, 0] (init fsE)).fs.lookup [a] = some .dir := by
  decide

/-- `bad` from a file system in which the file `a` exists (there worker 1's solo run fails, so (H1) is
violated as well): `a` ends up as a directory or is gone -/
example : (run bad [0, 1] (init ⟨[([a], .file [] 0o644 0)], 1⟩)).fs.lookup [a] = some .dir ∧
    (run bad [1, 0] (init ⟨[([a], .file [] 0o644 0)], 1⟩)).fs.lookup [a] = none := by
  decide

end Ex

end RQ.ParSave

#print axioms RQ.ParSave.schedule_independence
#print axioms RQ.ParSave.complete_schedules_equiv
#print axioms RQ.ParSave.schedule_independence_seq
#print axioms RQ.ParSave.run_next_op
#print axioms RQ.ParSave.solo_results
