import RQ.Driver.PushEngine
import RQ.Lemmas.TightDec
import RQ.Lemmas.Compose3
import RQ.Lemmas.BackupDisk
/-!
# The driver's Bool `hypsHold` against the hypotheses of the refinement theorems

The compiled driver (`RQ/Driver/PushEngine.lean`) evaluates `PushEngine.hypsHold fs cfg range` for every generated
workspace and reports it (`HYP=1`).  Here it is tied to the real hypotheses of `Refine2.C05_push_is_pushSpec_all` /
`Par.C06_par_is_pushSpec`:

* `hypsHold_sound`: `hypsHold = true` gives `Tight`, `Compose.Clean`, `Agree.PrefixFree`, the terminated-lines
  hypothesis `∀ t' ∈ Agree.reached fs cfg range [], Agree.TreeTerminated t'` and `PatchPathsDistinct`.
* How: `termBroken` (two nested `for` loops with early `return`s in `Id.run do`) is first shown equal to a plain
  recursion (`forIn_loop`, `termBrokenWith_eq` — for any check of a file's lines: `termBrokenWith`), the recursion is
  then walked along `Agree.reached` (`inner_spec`, `outer_spec`); the driver's own `rangeKeys` is `Agree.rangeKeys`
  (`rangeKeys_eq`), `ownB` is `Compose.Own` (`ownB_iff`), `termOK` is `Agree.Terminated` (`termOK_eq`).
* `Counter`: why the `lineOK` part of `termOK` is needed.  An earlier `termOK` (`Counter.termOKWeak`) only asked that
  every line but the last ends with a newline; a patch that adds an *empty* last line (`+` followed by
  `\ No newline at end of file`) passes that check, yet the overlay is not `TreeTerminated` — and the conclusion of the
  refinement theorem is false there (the specification's exit status is 1, the driver model's 0).
-/
namespace RQ.HypsSound
open RQ RQ.Push RQ.Spec RQ.Abs RQ.Agree RQ.Compose RQ.Tight RQ.BackupDisk RQ.Parse RQ.Flush

/-! ## a `for` loop with early exit in `Id` is a plain recursion -/

/-- a `for` loop over a list whose body is pure -/
def loop {α β : Type} (f : α → β → ForInStep β) : List α → β → β
  | [], b => b
  | a :: as, b =>
    match f a b with
    | .done b' => b'
    | .yield b' => loop f as b'

theorem forIn_loop {α β : Type} (body : α → β → Id (ForInStep β)) (f : α → β → ForInStep β)
    (h : ∀ a s, body a s = pure (f a s)) : ∀ (l : List α) (b : β), forIn l b body = pure (loop f l b)
  | [], b => rfl
  | a :: as, b => by
    rw [List.forIn_cons, h a b, loop]
    cases f a b with
    | done b' => rfl
    | yield b' => exact forIn_loop body f h as b'

/-! ## `termBroken`, for any check of a file's lines -/

/-- `PushEngine.termBroken` with the check of a file's lines as a parameter -/
def termBrokenWith (badFile : List Bytes → Bool) (fs : FS) (cfg : Cfg) (range : List Series.Entry) : Bool := Id.run do
  let mut t : Abs.ATree := []
  for entry in range do
    match patchKey cfg entry.name with
    | none => return false
    | some pk =>
      match fs.readFile pk with
      | .error _ => return false
      | .ok (bytes, _) =>
        match Parse.parsePatch bytes entry.strip false with
        | .error _ => return false
        | .ok patch =>
          let mut t' := t
          let mut ok := true
          for fp in patch.fps do
            match Abs.applyFP t' fs cfg entry fp with
            | .error _ => return false
            | .ok r =>
              t' := r.tree
              ok := ok && r.ok
              if t'.any (fun e => badFile e.2.content) then return true
          if ok then t := t' else return false
  return false

theorem termBroken_eq_with (fs : FS) (cfg : Cfg) (range : List Series.Entry) :
    PushEngine.termBroken fs cfg range = termBrokenWith (fun c => !PushEngine.termOK c) fs cfg range := rfl

/-- one round of the inner loop -/
def innerStep (bad : ATree → Bool) (fs : FS) (cfg : Cfg) (entry : Series.Entry) (fp : PFilePatch)
    (s : Option Bool × ATree × Bool) : ForInStep (Option Bool × ATree × Bool) :=
  match Abs.applyFP s.2.1 fs cfg entry fp with
  | .error _ => .done (some false, s.2.1, s.2.2)
  | .ok r => if bad r.tree then .done (some true, r.tree, s.2.2 && r.ok) else .yield (none, r.tree, s.2.2 && r.ok)

/-- one round of the outer loop -/
def outerStep (bad : ATree → Bool) (fs : FS) (cfg : Cfg) (entry : Series.Entry) (s : Option Bool × ATree) :
    ForInStep (Option Bool × ATree) :=
  match patchOf fs cfg entry with
  | none => .done (some false, s.2)
  | some patch =>
    let r := loop (innerStep bad fs cfg entry) patch.fps (none, s.2, true)
    match r.1 with
    | some b => .done (some b, s.2)
    | none => if r.2.2 then .yield (none, r.2.1) else .done (some false, s.2)

/-- the result of the outer loop -/
def resultOf (s : Option Bool × ATree) : Bool :=
  match s.1 with
  | some r => r
  | none => false

theorem termBrokenWith_eq (badFile : List Bytes → Bool) (fs : FS) (cfg : Cfg) (range : List Series.Entry) :
    termBrokenWith badFile fs cfg range =
      resultOf (loop (outerStep (fun t' => t'.any (fun e => badFile e.2.content)) fs cfg) range (none, [])) := by
  unfold termBrokenWith
  dsimp only
  rw [forIn_loop _ (outerStep (fun t' => t'.any (fun e => badFile e.2.content)) fs cfg) ?_ range]
  · generalize loop _ range _ = s
    obtain ⟨r, t⟩ := s
    cases r <;> rfl
  · intro entry s
    unfold outerStep patchOf
    cases patchKey cfg entry.name with
    | none => rfl
    | some pk =>
      dsimp only
      cases fs.readFile pk with
      | error e => rfl
      | ok x =>
        obtain ⟨bytes, m⟩ := x
        dsimp only
        cases parsePatch bytes entry.strip false with
        | error e => rfl
        | ok patch =>
          dsimp only
          rw [forIn_loop _ (innerStep (fun t' => t'.any (fun e => badFile e.2.content)) fs cfg entry) ?_ patch.fps]
          · generalize loop _ patch.fps _ = r
            obtain ⟨b, t', ok⟩ := r
            cases b with
            | some b => rfl
            | none => cases ok <;> rfl
          · intro fp s'
            unfold innerStep
            cases applyFP s'.2.1 fs cfg entry fp with
            | error e => rfl
            | ok r =>
              dsimp only
              split <;> rfl

/-! ## what the replay says about the overlays reached -/

theorem inner_spec (bad : ATree → Bool) (fs : FS) (cfg : Cfg) (entry : Series.Entry) :
    ∀ (fps : List PFilePatch) (t' : ATree) (ok : Bool) (rejs : List (Bytes × Bytes)),
      (loop (innerStep bad fs cfg entry) fps (none, t', ok)).1 ≠ some true →
      (∀ x ∈ reachedFPs fs cfg entry fps t', bad x = false) ∧
      ((loop (innerStep bad fs cfg entry) fps (none, t', ok)).1 = none →
        ∃ rejs', applyFPs fs cfg entry fps t' ok rejs =
          .ok ((loop (innerStep bad fs cfg entry) fps (none, t', ok)).2.1,
               (loop (innerStep bad fs cfg entry) fps (none, t', ok)).2.2, rejs')) ∧
      ((loop (innerStep bad fs cfg entry) fps (none, t', ok)).1 = some false →
        ∃ e, applyFPs fs cfg entry fps t' ok rejs = .error e) := by
  intro fps
  induction fps with
  | nil =>
    intro t' ok rejs _
    refine ⟨fun x hx => by simp [reachedFPs] at hx, fun _ => ⟨rejs, rfl⟩, fun h => ?_⟩
    simp [loop] at h
  | cons fp fps ih =>
    intro t' ok rejs
    cases hA : applyFP t' fs cfg entry fp with
    | error e =>
      simp only [loop, innerStep, hA, reachedFPs, applyFPs]
      intro _
      exact ⟨fun x hx => by simp at hx, fun h => by simp at h, fun _ => ⟨e, rfl⟩⟩
    | ok r =>
      cases hb : bad r.tree with
      | true =>
        simp only [loop, innerStep, hA, hb, if_true]
        intro h
        exact absurd rfl h
      | false =>
        simp only [loop, innerStep, hA, hb, reachedFPs, applyFPs, Bool.false_eq_true, if_false]
        intro h
        obtain ⟨h1, h2, h3⟩ := ih r.tree (ok && r.ok) (match r.rej with | some x => x :: rejs | none => rejs) h
        refine ⟨?_, h2, h3⟩
        intro x hx
        rcases List.mem_cons.mp hx with hx | hx
        · rw [hx]; exact hb
        · exact h1 x hx

theorem outer_spec (bad : ATree → Bool) (fs : FS) (cfg : Cfg) :
    ∀ (range : List Series.Entry) (t : ATree),
      (loop (outerStep bad fs cfg) range (none, t)).1 ≠ some true → ∀ x ∈ reached fs cfg range t, bad x = false := by
  intro range
  induction range with
  | nil =>
    intro t _ x hx
    simp [reached] at hx
  | cons entry rest ih =>
    intro t
    cases hp : patchOf fs cfg entry with
    | none =>
      intro _ x hx
      simp [reached, hp] at hx
    | some patch =>
      have hi := inner_spec bad fs cfg entry patch.fps t true []
      simp only [loop, outerStep, hp, reached]
      generalize loop (innerStep bad fs cfg entry) patch.fps (none, t, true) = r at hi ⊢
      obtain ⟨b, t', ok⟩ := r
      cases b with
      | some b =>
        simp only
        intro h
        have hb : b = false := by
          cases b
          · rfl
          · exact absurd rfl h
        subst hb
        obtain ⟨h1, _, h3⟩ := hi (by simp)
        obtain ⟨e, he⟩ := h3 rfl
        intro x hx
        rw [he] at hx
        simp only [List.append_nil] at hx
        exact h1 x hx
      | none =>
        obtain ⟨h1, h2, _⟩ := hi (by simp)
        obtain ⟨rejs', he⟩ := h2 rfl
        simp only at he
        cases ok with
        | true =>
          simp only [if_true]
          intro h x hx
          rw [he] at hx
          rcases List.mem_append.mp hx with hx | hx
          · exact h1 x hx
          · exact ih t' h x hx
        | false =>
          simp only [Bool.false_eq_true, if_false]
          intro _ x hx
          rw [he] at hx
          simp only [List.append_nil] at hx
          exact h1 x hx

/-- **the replay is sound**: if `termBrokenWith badFile` says no, no file of any overlay reached is `badFile` -/
theorem termBrokenWith_sound {badFile : List Bytes → Bool} {fs : FS} {cfg : Cfg} {range : List Series.Entry}
    (h : termBrokenWith badFile fs cfg range = false) :
    ∀ t' ∈ reached fs cfg range [], ∀ e ∈ t', badFile e.2.content = false := by
  rw [termBrokenWith_eq] at h
  intro t' ht' e he
  have := outer_spec (fun t' => t'.any (fun e => badFile e.2.content)) fs cfg range [] (by
    intro hs
    simp only [resultOf, hs] at h
    cases h) t' ht'
  simp only [List.any_eq_false] at this
  simpa using this e he

/-! ## the static parts of the mirror -/

/-- the driver's own `rangeKeys` is the one of the theorems -/
theorem rangeKeys_eq (fs : FS) (cfg : Cfg) (range : List Series.Entry) :
    PushEngine.rangeKeys fs cfg range = Agree.rangeKeys fs cfg range := by
  unfold PushEngine.rangeKeys Agree.rangeKeys patchOf
  congr 1
  funext entry
  cases patchKey cfg entry.name with
  | none => rfl
  | some pk =>
    dsimp only
    cases fs.readFile pk with
    | error e => rfl
    | ok x =>
      obtain ⟨bytes, m⟩ := x
      dsimp only
      cases parsePatch bytes entry.strip false with
      | error e => rfl
      | ok patch =>
        dsimp only
        congr 1
        funext fp
        cases fp.old <;> cases fp.new <;> rfl

theorem ownB_iff (cfg : Cfg) (k : Key) : PushEngine.ownB cfg k = true ↔ Own cfg k := by
  unfold PushEngine.ownB Own isPcKey
  simp only [Bool.or_eq_true, beq_iff_eq, or_assoc]
  cases safeKey cfg.patchesDir with
  | none => simp [optAny]
  | some d => simp [optAny, List.isPrefixOf_iff_prefix]

theorem nodup_of_all_count {α : Type} [BEq α] [LawfulBEq α] (l : List α)
    (h : l.all (fun p => (l.filter (· == p)).length == 1) = true) : l.Nodup := by
  rw [List.nodup_iff_count]
  intro a
  by_cases ha : a ∈ l
  · have := List.all_eq_true.mp h a ha
    rw [List.count_eq_length_filter]
    simp only [beq_iff_eq] at this
    omega
  · rw [List.count_eq_zero_of_not_mem ha]
    omega

theorem lineOK_eq (l : Bytes) : PushEngine.lineOK l = Agree.lineOK l := rfl

/-- the driver's `termOK` is `Agree.Terminated` -/
theorem termOK_eq : ∀ (c : List Bytes), PushEngine.termOK c = Terminated c
  | [] => rfl
  | [l] => rfl
  | l :: l2 :: ls => by
    rw [PushEngine.termOK, Terminated, termOK_eq (l2 :: ls), lineOK_eq]
    intro x
    cases x

/-- the third check per entry: the patch file is read and parsed -/
theorem patchOf_of_check {fs : FS} {cfg : Cfg} {e : Series.Entry}
    (h : (match patchKey cfg e.name with
        | some pk => (match fs.readFile pk with
          | .ok (b, _) => (match parsePatch b e.strip false with | .ok _ => true | .error _ => false)
          | .error _ => false)
        | none => false) = true) : ∃ patch, patchOf fs cfg e = some patch := by
  unfold patchOf
  revert h
  cases patchKey cfg e.name with
  | none => intro h; cases h
  | some pk =>
    dsimp only
    cases fs.readFile pk with
    | error x => intro h; cases h
    | ok x =>
      obtain ⟨b, m⟩ := x
      dsimp only
      cases parsePatch b e.strip false with
      | error x => intro h; cases h
      | ok patch => exact fun _ => ⟨patch, rfl⟩

/-! ## the theorem -/

/-- **`hypsHold` is sound**: the Bool the driver computes gives the five static hypotheses of the refinement theorems -/
theorem hypsHold_sound (fs : FS) (cfg : Cfg) (range : List Series.Entry)
    (h : PushEngine.hypsHold fs cfg range = true) :
    Tight fs ∧ Compose.Clean cfg fs range ∧ Agree.PrefixFree fs cfg range ∧
    (∀ t' ∈ Agree.reached fs cfg range [], Agree.TreeTerminated t') ∧ PatchPathsDistinct range := by
  unfold PushEngine.hypsHold at h
  simp only [Bool.and_eq_true, rangeKeys_eq] at h
  obtain ⟨⟨⟨⟨⟨hT, hC⟩, hO⟩, hP⟩, hB⟩, hD⟩ := h
  have hO' : ∀ k ∈ Agree.rangeKeys fs cfg range, ¬ Own cfg k := by
    intro k hk hown
    have := List.all_eq_true.mp hO k hk
    rw [(ownB_iff cfg k).mpr hown] at this
    cases this
  refine ⟨tightB_sound hT, ?_, ?_, ?_, ?_⟩
  · intro e he
    have hc := List.all_eq_true.mp hC e he
    simp only [Bool.and_eq_true] at hc
    obtain ⟨⟨h1, h2⟩, h3⟩ := hc
    obtain ⟨patch, hp⟩ := patchOf_of_check h3
    refine ⟨?_, ?_, patch, hp, ?_⟩
    · intro pk hpk hpc
      rw [hpk] at h1
      unfold isPcKey at hpc
      simp [hpc] at h1
    · intro p hp'
      rw [hp'] at h2
      simpa [appliedName] using h2
    · intro fp hfp n hn k hk
      exact hO' k ((namesIn_rangeKeys he hp hfp n hn).2 k hk)
  · intro k hk k' hk' hs
    have := List.all_eq_true.mp (List.all_eq_true.mp hP k hk) k' hk'
    unfold SPre at hs
    simp [hs.1, hs.2] at this
  · have hb : termBrokenWith (fun c => !PushEngine.termOK c) fs cfg range = false := by
      rw [← termBroken_eq_with]
      simpa using hB
    intro t' ht' e he _
    rw [← termOK_eq]
    simpa using termBrokenWith_sound hb t' ht' e he
  · exact nodup_of_all_count _ hD

/-! ## why `termOK` needs its `lineOK` part

An earlier `termOK` (`termOKWeak`) only asked that every line but the last ends with a newline.  The file `f` holds `a\n`;
`series` lists `p0`, `p1`; `push -a`.  `p0` adds an empty line behind `a\n` (a `+` line whose newline the marker
`\ No newline at end of file` takes away): the overlay holds the lines `a\n`, `` — `termOKWeak` accepts them (only the
last line lacks its newline), `Terminated` does not (`lineOK` fails for the empty line: re-reading the bytes `a\n` gives
one line).  `p1` removes that empty second line and adds `b\n`: it applies to the lines in memory (driver model: exit
status 0, `f` = `a\nb\n`) and fails on the re-read file (specification: exit status 1, `f.rej`).  Every other conjunct of
`hypsHold` holds, and so do the other hypotheses of `C05_push_is_pushSpec_all`. -/
namespace Counter

/-- the earlier, weaker `PushEngine.termOK`: no `lineOK` -/
def termOKWeak : List Bytes → Bool
  | [] => true
  | [_] => true
  | l :: rest => l.getLast? == some 10 && termOKWeak rest

/-- `PushEngine.hypsHold` with `termBroken` replaced by the replay with the weaker check -/
def hypsHoldWeak (fs : FS) (cfg : Cfg) (range : List Series.Entry) : Bool :=
  let keys := PushEngine.rangeKeys fs cfg range
  Tight.tightB fs &&
  range.all (fun e =>
    (match patchKey cfg e.name with | some pk => pk.head? != some [46, 112, 99] | none => true) &&
    (match safeKey e.name with | some p => p != [] && p.head? != some [97, 112, 112, 108, 105, 101, 100, 45, 112, 97, 116, 99, 104, 101, 115] | none => true) &&
    (match patchKey cfg e.name with
     | some pk => (match fs.readFile pk with
        | .ok (b, _) => (match Parse.parsePatch b e.strip false with | .ok _ => true | .error _ => false)
        | .error _ => false)
     | none => false)) &&
  keys.all (fun k => !PushEngine.ownB cfg k) &&
  keys.all (fun k => keys.all (fun k' => !(k.length < k'.length && k'.take k.length == k))) &&
  !termBrokenWith (fun c => !termOKWeak c) fs cfg range &&
  (let ps := range.map (fun e => safeKey e.name); ps.all (fun p => (ps.filter (· == p)).length == 1))

/-- `--- a/f\n+++ b/f\n@@ -1 +1,2 @@\n a\n+\n\ No\n` -/
def patch0 : Bytes :=
  [45, 45, 45, 32, 97, 47, 102, 10, 43, 43, 43, 32, 98, 47, 102, 10,
   64, 64, 32, 45, 49, 32, 43, 49, 44, 50, 32, 64, 64, 10,
   32, 97, 10, 43, 10, 92, 32, 78, 111, 10]
/-- `--- a/f\n+++ b/f\n@@ -2 +2 @@\n-\n\ No\n+b\n` -/
def patch1 : Bytes :=
  [45, 45, 45, 32, 97, 47, 102, 10, 43, 43, 43, 32, 98, 47, 102, 10,
   64, 64, 32, 45, 50, 32, 43, 50, 32, 64, 64, 10,
   45, 10, 92, 32, 78, 111, 10, 43, 98, 10]
def e0 : Series.Entry := { name := [112, 48], strip := Extracted.defaultPatchStrip, reverse := false }
def e1 : Series.Entry := { name := [112, 49], strip := Extracted.defaultPatchStrip, reverse := false }
/-- `push -a` -/
def cfgA : Cfg := { goal := .all }
def fs0 : FS :=
  { nodes := [([[102]], .file [97, 10] 0o644 1),
      ([[115, 101, 114, 105, 101, 115]], .file [112, 48, 10, 112, 49, 10] 0o644 2),
      ([[112, 97, 116, 99, 104, 101, 115]], .dir),
      ([[112, 97, 116, 99, 104, 101, 115], [112, 48]], .file patch0 0o644 3),
      ([[112, 97, 116, 99, 104, 101, 115], [112, 49]], .file patch1 0o644 4)], nextIno := 5 }
def w0 : World := { fs := fs0 }

def isApply (p : Plan) (r : List Series.Entry) : Bool :=
  match p with
  | .apply x => x == r
  | _ => false

theorem plan_of_isApply {p : Plan} {r : List Series.Entry} (h : isApply p r = true) : p = .apply r := by
  unfold isApply at h
  split at h
  · rw [eq_of_beq h]
  · cases h

theorem plan0 : plan cfgA w0.fs = .apply [e0, e1] := plan_of_isApply (by decide)
/-- the weaker mirror says yes … -/
theorem weak0 : hypsHoldWeak w0.fs cfgA [e0, e1] = true := by decide
/-- … the mirror as it is now says no -/
theorem hyps0 : PushEngine.hypsHold w0.fs cfgA [e0, e1] = false := by decide
/-- the overlays reached: after `p0` the file `f` with the lines `a\n` and the empty line, after `p1` with `a\n`, `b\n` -/
theorem reached0 :
    (Agree.reached w0.fs cfgA [e0, e1] []).map (fun t => t.map (fun e => (e.1, e.2.content, e.2.deleted))) =
      [[([Comp.normal [102]], [[97, 10], []], false)], [([Comp.normal [102]], [[97, 10], [98, 10]], false)]] := by
  decide
theorem notTerminated0 : ¬ ∀ t' ∈ Agree.reached w0.fs cfgA [e0, e1] [], Agree.TreeTerminated t' := by decide
theorem notRefused0 : ¬ Refused cfgA w0.fs [e0, e1] := by
  intro h
  unfold Refused at h
  have : (match applyRangeTree cfgA w0.fs [e0, e1] (start w0.fs) with | .ok _ => true | .error _ => false) = true := by
    decide
  rw [h] at this
  cases this
theorem io0 : (Spec.pushSpec cfgA w0.fs).ioError = false := by decide
theorem specExit0 : (Spec.pushSpec cfgA w0.fs).exit = 1 := by decide
theorem pushExit0 : (Push.push cfgA w0).1.exit = 0 := by decide

/-- **the weaker mirror is not sound**: it holds, the terminated-lines hypothesis does not, and with the mirror in place
of the hypotheses the conclusion of `C05_push_is_pushSpec_all` fails -/
theorem hypsHoldWeak_not_sound :
    ∃ (cfg : Cfg) (w : World) (range : List Series.Entry),
      hypsHoldWeak w.fs cfg range = true ∧ plan cfg w.fs = .apply range ∧ w.faultAt = none ∧
      cfg.dryRun = false ∧ ¬ Refused cfg w.fs range ∧ (Spec.pushSpec cfg w.fs).ioError = false ∧
      (¬ ∀ t' ∈ Agree.reached w.fs cfg range [], Agree.TreeTerminated t') ∧
      (Push.push cfg w).1.exit ≠ (Spec.pushSpec cfg w.fs).exit :=
  ⟨cfgA, w0, [e0, e1], weak0, plan0, rfl, rfl, notRefused0, io0, notTerminated0, by rw [specExit0, pushExit0]; decide⟩

end Counter

#print axioms hypsHold_sound
#print axioms termBrokenWith_sound
#print axioms termBrokenWith_eq
#print axioms Counter.hypsHoldWeak_not_sound

end RQ.HypsSound
