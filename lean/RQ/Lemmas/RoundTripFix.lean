import RQ.Spec.Write
/-! C12: the writer only depends on what `SamePatch` compares. -/
namespace RQ.Write
open RQ RQ.Parse

theorem writeHunk_same (a b : PHunk) (h : sameHunk a b) : writeHunk b = writeHunk a := by
  cases a; cases b
  simp only [sameHunk] at h
  obtain ⟨rfl, rfl, rfl, rfl, rfl⟩ := h
  simp [writeHunk, writeHunkHeader]

theorem writeHunks_same : ∀ (as bs : List PHunk), sameHunks as bs → bs.map writeHunk = as.map writeHunk
  | [], [], _ => rfl
  | a :: as, b :: bs, h => by
    simp only [sameHunks] at h
    simp [writeHunk_same a b h.1, writeHunks_same as bs h.2]
  | [], _ :: _, h => by simp [sameHunks] at h
  | _ :: _, [], h => by simp [sameHunks] at h

theorem writeFilePatch_same (a b : PFilePatch) (h : sameFP a b) : writeFilePatch b = writeFilePatch a := by
  cases a; cases b
  simp only [sameFP] at h
  obtain ⟨rfl, rfl, rfl, rfl, rfl, rfl, rfl, rfl, hh⟩ := h
  simp [writeFilePatch, writeFileHeader, writeHunks_same _ _ hh]

theorem writeFilePatches_same : ∀ (as bs : List PFilePatch), sameFPs as bs → bs.map writeFilePatch = as.map writeFilePatch
  | [], [], _ => rfl
  | a :: as, b :: bs, h => by
    simp only [sameFPs] at h
    simp [writeFilePatch_same a b h.1, writeFilePatches_same as bs h.2]
  | [], _ :: _, h => by simp [sameFPs] at h
  | _ :: _, [], h => by simp [sameFPs] at h

theorem writePatch_same (p p' : Patch) (h : SamePatch p p') : writePatch p' = writePatch p := by
  obtain ⟨h1, h2⟩ := h
  simp [writePatch, h1, writeFilePatches_same _ _ h2]

end RQ.Write
