import RQ.Model.Cmd
import RQ.Lemmas.FSInterleave
/-!
# The save phase of the parallel driver under every thread schedule

The generic theorem of `RQ/Lemmas/FSInterleave.lean` (workers that own prefix-free sets of file keys see,
under every schedule, the results of their solo runs) is instantiated with the save code of
`parallel::save_files_worker`, written as resumable commands in `RQ/Model/Cmd.lean`.
1. Faithfulness (`interp_saveModifiedFileC`, `interp_saveAllC`, `interp_saveBackupC`,
   `interp_rollbackAndSaveBackupsC`, `interp_workerSaveC`): interpreting the commands with `World.op` gives
   exactly the model functions of `RQ/Model/Push.lean`.
2. Bare semantics of a command on a file system (`Cmd.steps`, `Cmd.finalFS`, `Cmd.result`) and the links
   `interp_eq` (to `interp`) and `soloAt_full`, `soloSteps_full`, `solo_interp` (to the lone worker
   `progOf c` of the scheduling model).
3. Footprints (`Cmd.Fp`, `saveAllC_fp`, `rollbackAndSaveBackupsC_fp`, `workerSaveC_fp`, and spelled out
   `saveAllC_footprint`, `rollbackAndSaveBackupsC_footprint`): which file keys a command can touch on any
   path, and that it gives up at the first result it does not expect.
4. `cmd_hyp`: from footprints, solo success and the checkable `KeysDisjoint` to the hypotheses `Hyp`;
   `seqInterp_ok`: the sequential composition succeeds and ends in `seqFS`;
   `cmd_schedule_independence`: parallel = sequential for commands.  `RQ/Props/C06.lean` states it for the
   save phase with the model functions (`C06_save_phase`).
-/
namespace RQ.Push
open RQ RQ.Parse RQ.Write RQ.ParSave

/-! ## Faithfulness: interpreting the commands gives the model functions -/

theorem interp_bind {α β : Type} (c : Cmd α) (f : α → Cmd β) : ∀ w : World,
    interp w (c.bind f) = match interp w c with
      | .error e => .error e
      | .ok (w', a) => interp w' (f a) := by
  induction c with
  | ret a => intro w; rfl
  | fail e => intro w; rfl
  | op o k ih =>
    intro w
    simp only [Cmd.bind, interp]
    cases w.op o with
    | ok w' => exact ih _ w'
    | notFound w' => exact ih _ w'
    | failed w' => exact ih _ w'

theorem interp_writeNewC (w : World) (k : Key) (perms : Option Nat) (content : Bytes) :
    interp w (writeNewC k perms content) =
      (match writeNew w k perms content with | .ok w' => .ok (w', ()) | .error e => .error e) := by
  unfold writeNewC writeNew
  rw [interp_bind]
  cases perms with
  | none =>
    simp only [interp]
    cases w.op (.write k content) <;> rfl
  | some p =>
    simp only [interp]
    cases w.op (.setMode k p) with
    | ok w1 =>
      simp only
      cases w1.op (.write k content) <;> rfl
    | notFound w1 => rfl
    | failed w1 => rfl

theorem interp_saveModifiedFileC (w : World) (name : Bytes) (f : FileSt Bytes) :
    interp w (saveModifiedFileC name f) = saveModifiedFile w name f := by
  unfold saveModifiedFileC saveModifiedFile
  obtain ⟨content, existed, deleted, perms⟩ := f
  cases safeKey name with
  | none => rfl
  | some k =>
    simp only
    rw [interp_bind]
    have tail : ∀ w : World,
        interp w ((if deleted then Cmd.ret (if existed then some k.dropLast else none)
          else
            let c2 : Cmd Unit :=
              if !existed then
                .op (.createDirAll k.dropLast) fun
                  | .ok => .ret ()
                  | .notFound | .failed => .fail .err
              else .ret ()
            c2.bind fun _ =>
              .op (.createFile k) fun
                | .ok => (writeNewC k perms (bytesOf content)).bind fun _ => .ret none
                | .notFound | .failed => .fail .err) : Cmd (Option Key)) =
        (if deleted then .ok (w, if existed then some k.dropLast else none)
          else
            let w2 : WR World :=
              if !existed then
                match w.op (.createDirAll k.dropLast) with
                | .ok w => .ok w
                | .notFound w | .failed w => .error (.err, w)
              else .ok w
            match w2 with
            | .error e => .error e
            | .ok w =>
              match w.op (.createFile k) with
              | .ok w =>
                match writeNew w k perms (bytesOf content) with
                | .ok w => .ok (w, none)
                | .error e => .error e
              | .notFound w | .failed w => .error (.err, w)) := by
      intro w
      have tail2 : ∀ w : World,
          interp w ((Cmd.op (.createFile k) fun
              | .ok => (writeNewC k perms (bytesOf content)).bind fun _ => .ret none
              | .notFound | .failed => .fail .err) : Cmd (Option Key)) =
          (match w.op (.createFile k) with
            | .ok w =>
              match writeNew w k perms (bytesOf content) with
              | .ok w => .ok (w, none)
              | .error e => .error e
            | .notFound w | .failed w => .error (.err, w)) := by
        intro w
        simp only [interp]
        cases w.op (.createFile k) with
        | ok w1 =>
          simp only
          rw [interp_bind, interp_writeNewC]
          cases writeNew w1 k perms (bytesOf content) <;> rfl
        | notFound w1 => rfl
        | failed w1 => rfl
      cases deleted with
      | true => rfl
      | false =>
        simp only [Bool.false_eq_true, if_false]
        rw [interp_bind]
        cases existed with
        | true => exact tail2 w
        | false =>
          simp only [Bool.not_false, if_true, interp]
          cases w.op (.createDirAll k.dropLast) with
          | ok w1 => exact tail2 w1
          | notFound w1 => rfl
          | failed w1 => rfl
    cases existed with
    | false => exact tail w
    | true =>
      simp only [if_true, interp]
      cases w.op (.removeFile k) with
      | ok w1 => exact tail w1
      | notFound w1 => exact tail w1
      | failed w1 => rfl

theorem interp_saveAllC (mem : Mem) : ∀ (w : World) (dirs : List Key),
    interp w (saveAllC mem dirs) = saveAll w mem dirs := by
  induction mem with
  | nil => intro w dirs; rfl
  | cons x rest ih =>
    intro w dirs
    obtain ⟨cs, name, f⟩ := x
    unfold saveAllC saveAll
    rw [interp_bind, interp_saveModifiedFileC]
    cases saveModifiedFile w name f with
    | error e => rfl
    | ok r => exact ih _ _

theorem interp_saveBackupC (w : World) (patchName name : Bytes) (f : FileSt Bytes) :
    interp w (saveBackupC patchName name f) =
      (match saveBackup w patchName name f with | .ok w' => .ok (w', ()) | .error e => .error e) := by
  unfold saveBackupC saveBackup
  cases pcKey patchName name with
  | none => rfl
  | some k =>
    simp only [interp]
    cases w.op (.createDirAll k.dropLast) with
    | notFound w1 => rfl
    | failed w1 => rfl
    | ok w1 =>
      simp only
      have tail : ∀ w : World,
          interp w (Cmd.op (.createFile k) fun
              | .ok => writeNewC k f.perms (bytesOf f.content)
              | .notFound | .failed => .fail .err) =
          (match (match w.op (.createFile k) with
              | .ok w => writeNew w k f.perms (bytesOf f.content)
              | .notFound w | .failed w => .error (.err, w)) with
            | .ok w' => .ok (w', ()) | .error e => .error e) := by
        intro w
        simp only [interp]
        cases w.op (.createFile k) with
        | ok w2 => exact interp_writeNewC _ _ _ _
        | notFound w2 => rfl
        | failed w2 => rfl
      cases w1.op (.removeFile k) with
      | ok w2 => exact tail w2
      | notFound w2 => exact tail w2
      | failed w2 => rfl

theorem interp_rollbackAndSaveBackupsC (ss : List Status) : ∀ (w : World) (mem : Mem) (downTo : Nat),
    interp w (rollbackAndSaveBackupsC mem ss downTo) = rollbackAndSaveBackups w mem ss downTo := by
  induction ss with
  | nil => intro w mem d; rfl
  | cons s rest ih =>
    intro w mem d
    unfold rollbackAndSaveBackupsC rollbackAndSaveBackups
    split
    · rfl
    · cases rollbackOne mem s with
      | error e => rfl
      | ok r =>
        obtain ⟨mem1, file⟩ := r
        simp only
        rw [interp_bind, interp_saveBackupC]
        cases saveBackup w s.patchName s.target file with
        | error e => rfl
        | ok w1 =>
          simp only
          split
          · cases s.fp.new with
            | none => rfl
            | some newName =>
              simp only
              cases mem1.get newName with
              | none => rfl
              | some nf =>
                simp only
                rw [interp_bind, interp_saveBackupC]
                cases saveBackup w1 s.patchName newName nf with
                | error e => rfl
                | ok w2 => exact ih _ _ _
          · exact ih _ _ _

theorem interp_workerSaveC (cfg : Cfg) (final rangeLen : Nat) (w : World) (mem : Mem) (applied : List Status) :
    interp w (workerSaveC cfg final rangeLen mem applied) = workerSave cfg final rangeLen w mem applied := by
  unfold workerSaveC workerSave
  split
  · rfl
  · rw [interp_bind, interp_saveAllC]
    cases saveAll w mem [] with
    | error e => rfl
    | ok r =>
      obtain ⟨w1, dirs⟩ := r
      simp only
      split
      · rw [interp_bind, interp_rollbackAndSaveBackupsC]
        cases rollbackAndSaveBackups w1 mem applied (downTo cfg final) with
        | error e => rfl
        | ok r2 => rfl
      · rfl

/-! ## A command on a bare file system: its operations with their results, the final file system, the result -/

namespace Cmd
variable {α : Type}

/-- the operations the command issues from `fs`, with the classes of their results -/
def steps (fs : FS) : Cmd α → List (Op × Res)
  | .ret _ => []
  | .fail _ => []
  | .op o k => (o, (exec fs o).1) :: (k (exec fs o).1).steps (exec fs o).2

/-- the file system the command leaves -/
def finalFS (fs : FS) : Cmd α → FS
  | .ret _ => fs
  | .fail _ => fs
  | .op o k => (k (exec fs o).1).finalFS (exec fs o).2

/-- how the command ends -/
def result (fs : FS) : Cmd α → Except Fail α
  | .ret a => .ok a
  | .fail e => .error e
  | .op o k => (k (exec fs o).1).result (exec fs o).2

/-- how the command ends when its operations have the results `h` (`none`: it does not end there) -/
def resultAt : Cmd α → List Res → Option (Except Fail α)
  | .ret a, [] => some (.ok a)
  | .fail e, [] => some (.error e)
  | .op _ k, r :: rs => resultAt (k r) rs
  | _, _ => none

/-- the operations the command issues when they have the results `h` -/
def opsAlong : Cmd α → List Res → List Op
  | .op o k, r :: rs => o :: opsAlong (k r) rs
  | _, _ => []

/-- the world in which the command ends -/
def endWorld (w : World) (c : Cmd α) : World :=
  { fs := c.finalFS w.fs, trace := w.trace ++ (c.steps w.fs).map (·.1), faultAt := w.faultAt }

theorem resultAt_steps (c : Cmd α) : ∀ fs : FS, c.resultAt ((c.steps fs).map (·.2)) = some (c.result fs) := by
  induction c with
  | ret a => intro fs; rfl
  | fail e => intro fs; rfl
  | op o k ih => intro fs; exact ih _ _

theorem opsAlong_steps (c : Cmd α) : ∀ fs : FS, c.opsAlong ((c.steps fs).map (·.2)) = (c.steps fs).map (·.1) := by
  induction c with
  | ret a => intro fs; rfl
  | fail e => intro fs; rfl
  | op o k ih =>
    intro fs
    simp only [steps, List.map_cons, opsAlong, List.cons.injEq, true_and]
    exact ih _ _

/-- the next operation after the first `m` ones -/
theorem progOf_take (c : Cmd α) : ∀ (fs : FS) (m : Nat),
    progOf c (((c.steps fs).take m).map (·.2)) = ((c.steps fs).map (·.1))[m]? := by
  induction c with
  | ret a => intro fs m; rfl
  | fail e => intro fs m; rfl
  | op o k ih =>
    intro fs m
    cases m with
    | zero => rfl
    | succ m =>
      simp only [steps, List.take_succ_cons, List.map_cons, progOf, List.getElem?_cons_succ]
      exact ih _ _ _

end Cmd

/-- without fault injection, `World.op` is `exec` on the file system -/
theorem op_exec (w : World) (o : Op) (hf : w.faultAt = none) :
    w.op o = match (exec w.fs o).1 with
      | .ok => .ok { w with trace := w.trace ++ [o], fs := (exec w.fs o).2 }
      | .notFound => .notFound { w with trace := w.trace ++ [o], fs := (exec w.fs o).2 }
      | .failed => .failed { w with trace := w.trace ++ [o], fs := (exec w.fs o).2 } := by
  rw [op_eq w o hf]
  unfold exec
  cases h : Op.run w.fs o with
  | ok fs' => rfl
  | error e => cases e <;> rfl

/-- **`interp` and the bare semantics**: without fault injection the interpretation of a command ends in
`endWorld` — final file system `finalFS`, trace extended by the operations of `steps` — with `result`. -/
theorem interp_eq {α : Type} (c : Cmd α) : ∀ w : World, w.faultAt = none →
    interp w c = match c.result w.fs with
      | .ok a => .ok (c.endWorld w, a)
      | .error e => .error (e, c.endWorld w) := by
  induction c with
  | ret a =>
    intro w _
    simp [interp, Cmd.result, Cmd.endWorld, Cmd.steps, Cmd.finalFS]
  | fail e =>
    intro w _
    simp [interp, Cmd.result, Cmd.endWorld, Cmd.steps, Cmd.finalFS]
  | op o k ih =>
    intro w hf
    have hw : ∀ w' : World, w'.faultAt = none → w'.fs = (exec w.fs o).2 → w'.trace = w.trace ++ [o] →
        interp w' (k (exec w.fs o).1) = match (Cmd.op o k).result w.fs with
          | .ok a => .ok ((Cmd.op o k).endWorld w, a)
          | .error e => .error (e, (Cmd.op o k).endWorld w) := by
      intro w' hf' hfs htr
      rw [ih _ w' hf']
      have e1 : (k (exec w.fs o).1).endWorld w' = (Cmd.op o k).endWorld w := by
        simp only [Cmd.endWorld, Cmd.finalFS, Cmd.steps, hfs, htr, hf', hf, List.map_cons,
          List.append_assoc, List.singleton_append]
      rw [e1, hfs]
      rfl
    simp only [interp]
    rw [op_exec w o hf]
    cases hr : (exec w.fs o).1 with
    | ok => simp only; rw [← hr]; exact hw _ hf rfl rfl
    | notFound => simp only; rw [← hr]; exact hw _ hf rfl rfl
    | failed => simp only; rw [← hr]; exact hw _ hf rfl rfl

/-! ## The command as a worker of the scheduling model -/

/-- the solo run of a worker, seen from its first operation -/
theorem soloAt_head (p : Prog) (fs : FS) (o : Op) (hp : p [] = some o) (m : Nat) :
    soloAt p fs (m + 1) =
      ((soloAt (fun h => p ((exec fs o).1 :: h)) (exec fs o).2 m).1,
       (exec fs o).1 :: (soloAt (fun h => p ((exec fs o).1 :: h)) (exec fs o).2 m).2) := by
  induction m with
  | zero => simp only [soloAt, hp, List.nil_append]
  | succ m ih =>
    rw [soloAt, ih]
    simp only
    rw [soloAt]
    cases p ((exec fs o).1 :: (soloAt (fun h => p ((exec fs o).1 :: h)) (exec fs o).2 m).2) with
    | none => rfl
    | some o' => simp only [List.cons_append]

theorem soloAt_none (p : Prog) (fs : FS) (hp : p [] = none) (m : Nat) : soloAt p fs m = (fs, []) :=
  soloAt_stable (m := 0) hp m (Nat.zero_le _)

theorem soloStepAt_head (p : Prog) (fs : FS) (o : Op) (hp : p [] = some o) (m : Nat) :
    soloStepAt p fs (m + 1) = soloStepAt (fun h => p ((exec fs o).1 :: h)) (exec fs o).2 m := by
  unfold soloStepAt soloOp
  rw [soloAt_head p fs o hp m]

theorem soloSteps_head (p : Prog) (fs : FS) (o : Op) (hp : p [] = some o) (m : Nat) :
    soloSteps p fs (m + 1) =
      (o, (exec fs o).1) :: soloSteps (fun h => p ((exec fs o).1 :: h)) (exec fs o).2 m := by
  unfold soloSteps
  rw [List.range_succ_eq_map, List.filterMap_cons, List.filterMap_map]
  have h0 : soloStepAt p fs 0 = some (o, (exec fs o).1) := by
    simp only [soloStepAt, soloOp, soloAt, hp, Option.map_some]
  rw [h0]
  have h1 : (soloStepAt p fs ∘ Nat.succ) = soloStepAt (fun h => p ((exec fs o).1 :: h)) (exec fs o).2 := by
    funext i; exact soloStepAt_head p fs o hp i
  rw [h1]

theorem soloSteps_none (p : Prog) (fs : FS) (hp : p [] = none) (m : Nat) : soloSteps p fs m = [] := by
  unfold soloSteps
  rw [List.filterMap_eq_nil_iff]
  intro i _
  simp only [soloStepAt, soloOp, soloAt_none p fs hp, hp, Option.map_none]

theorem progOf_cons {α : Type} (o : Op) (k : Res → Cmd α) (r : Res) :
    (fun h => progOf (Cmd.op o k) (r :: h)) = progOf (k r) := rfl

/-- the result history of the command as a worker, after `m` slots -/
theorem soloAt_hist {α : Type} (c : Cmd α) : ∀ (fs : FS) (m : Nat),
    (soloAt (progOf c) fs m).2 = ((c.steps fs).take m).map (·.2) := by
  induction c with
  | ret a => intro fs m; rw [soloAt_none _ _ rfl]; simp [Cmd.steps]
  | fail e => intro fs m; rw [soloAt_none _ _ rfl]; simp [Cmd.steps]
  | op o k ih =>
    intro fs m
    cases m with
    | zero => rfl
    | succ m =>
      rw [soloAt_head _ fs o rfl, progOf_cons]
      simp only [Cmd.steps, List.take_succ_cons, List.map_cons, List.cons.injEq, true_and]
      exact ih _ _ _

/-- with enough fuel the solo run of the command as a worker is the run of the command -/
theorem soloAt_full {α : Type} (c : Cmd α) : ∀ (fs : FS) (m : Nat), (c.steps fs).length ≤ m →
    soloAt (progOf c) fs m = (c.finalFS fs, (c.steps fs).map (·.2)) := by
  induction c with
  | ret a => intro fs m _; rw [soloAt_none _ _ rfl]; rfl
  | fail e => intro fs m _; rw [soloAt_none _ _ rfl]; rfl
  | op o k ih =>
    intro fs m hm
    cases m with
    | zero => simp [Cmd.steps] at hm
    | succ m =>
      rw [soloAt_head _ fs o rfl, progOf_cons, ih _ _ m (by simpa [Cmd.steps] using hm)]
      rfl

theorem soloSteps_full {α : Type} (c : Cmd α) : ∀ (fs : FS) (m : Nat), (c.steps fs).length ≤ m →
    soloSteps (progOf c) fs m = c.steps fs := by
  induction c with
  | ret a => intro fs m _; rw [soloSteps_none _ _ rfl]; rfl
  | fail e => intro fs m _; rw [soloSteps_none _ _ rfl]; rfl
  | op o k ih =>
    intro fs m hm
    cases m with
    | zero => simp [Cmd.steps] at hm
    | succ m =>
      rw [soloSteps_head _ fs o rfl, progOf_cons, ih _ _ m (by simpa [Cmd.steps] using hm)]
      rfl

/-- the command as a worker is finished exactly when it has had as many slots as it has operations -/
theorem progOf_done_iff {α : Type} (c : Cmd α) (fs : FS) (m : Nat) :
    progOf c (soloAt (progOf c) fs m).2 = none ↔ (c.steps fs).length ≤ m := by
  rw [soloAt_hist, Cmd.progOf_take]
  simp

/-- **`solo` and `interp`**: with enough fuel, the lone worker `progOf c` from `fs` ends in the file system
in which `interp` ends from the world `⟨fs, [], none⟩`, and it issued the operations of that world's trace
— whether the command succeeds or fails. -/
theorem solo_interp {α : Type} (c : Cmd α) (fs : FS) (fuel : Nat) (hfuel : (c.steps fs).length ≤ fuel) :
    (solo (progOf c) fs fuel).1 = (c.endWorld ⟨fs, [], none⟩).fs ∧
    (solo (progOf c) fs fuel).2.2 = (c.endWorld ⟨fs, [], none⟩).trace ∧
    interp ⟨fs, [], none⟩ c = (match c.result fs with
      | .ok a => .ok (c.endWorld ⟨fs, [], none⟩, a)
      | .error e => .error (e, c.endWorld ⟨fs, [], none⟩)) := by
  refine ⟨?_, ?_, interp_eq c _ rfl⟩
  · show (soloAt _ _ _).1 = _
    rw [soloAt_full c fs fuel hfuel]; rfl
  · show (soloSteps _ _ _).map _ = _
    rw [soloSteps_full c fs fuel hfuel]; simp [Cmd.endWorld]

/-! ## Footprints -/

namespace Cmd
variable {α β : Type}

/-- On every path through the command, every operation satisfies `P`, and the command gives up at once
(`fail`) when an operation has a result that `okStep` does not allow (anything but `ok`, or `notFound` for
a `removeFile`). -/
inductive Fp (P : Op → Prop) : Cmd α → Prop
  | ret (a : α) : Fp P (.ret a)
  | fail (e : Fail) : Fp P (.fail e)
  | op (o : Op) (k : Res → Cmd α) : P o → (∀ r, okStep (o, r) = false → ∃ e, k r = .fail e) →
      (∀ r, Fp P (k r)) → Fp P (.op o k)

theorem Fp.mono {P Q : Op → Prop} {c : Cmd α} (h : ∀ o, P o → Q o) (hc : c.Fp P) : c.Fp Q := by
  induction hc with
  | ret a => exact .ret a
  | fail e => exact .fail e
  | op o k hP hbad _ ih => exact .op o k (h o hP) hbad ih

theorem Fp.bind {P : Op → Prop} {c : Cmd α} {f : α → Cmd β} (hc : c.Fp P) (hf : ∀ a, (f a).Fp P) :
    (c.bind f).Fp P := by
  induction hc with
  | ret a => exact hf a
  | fail e => exact .fail e
  | op o k hP hbad _ ih =>
    refine .op o _ hP (fun r hr => ?_) ih
    obtain ⟨e, he⟩ := hbad r hr
    exact ⟨e, by simp only [he, Cmd.bind]⟩

/-- every operation the command issues satisfies `P` -/
theorem Fp.steps {P : Op → Prop} {c : Cmd α} (hc : c.Fp P) : ∀ fs : FS, ∀ x ∈ c.steps fs, P x.1 := by
  induction hc with
  | ret a => intro fs x hx; cases hx
  | fail e => intro fs x hx; cases hx
  | op o k hP _ _ ih =>
    intro fs x hx
    rcases List.mem_cons.mp hx with rfl | hx
    · exact hP
    · exact ih _ _ x hx

/-- if the command succeeds, every operation had an allowed result -/
theorem Fp.steps_ok {P : Op → Prop} {c : Cmd α} (hc : c.Fp P) : ∀ (fs : FS) (a : α), c.result fs = .ok a →
    ∀ x ∈ c.steps fs, okStep x = true := by
  induction hc with
  | ret a => intro fs _ _ x hx; cases hx
  | fail e => intro fs _ _ x hx; cases hx
  | op o k _ hbad _ ih =>
    intro fs a hr x hx
    rcases List.mem_cons.mp hx with rfl | hx
    · cases hok : okStep (o, (exec fs o).1) with
      | true => rfl
      | false =>
        obtain ⟨e, he⟩ := hbad _ hok
        simp only [result, he] at hr
        cases hr
    · exact ih _ _ a hr x hx

end Cmd

/-- the footprint of an operation lies in `keys`: its file key is one of them, and a `createDirAll` makes
the parent directory of one of them -/
def OpIn (keys : List Key) (o : Op) : Prop :=
  (∀ k, fileKey o = some k → k ∈ keys) ∧ (∀ d, dirPath o = some d → ∃ k ∈ keys, d = k.dropLast)

theorem OpIn.mono {keys keys' : List Key} {o : Op} (h : ∀ k ∈ keys, k ∈ keys') (ho : OpIn keys o) :
    OpIn keys' o :=
  ⟨fun k hk => h k (ho.1 k hk), fun d hd => by obtain ⟨k, hk, e⟩ := ho.2 d hd; exact ⟨k, h k hk, e⟩⟩

theorem opIn_removeFile (k : Key) : OpIn [k] (.removeFile k) :=
  ⟨fun k' h => by cases h; exact List.mem_singleton.mpr rfl, fun d h => by cases h⟩
theorem opIn_createFile (k : Key) : OpIn [k] (.createFile k) :=
  ⟨fun k' h => by cases h; exact List.mem_singleton.mpr rfl, fun d h => by cases h⟩
theorem opIn_setMode (k : Key) (m : Nat) : OpIn [k] (.setMode k m) :=
  ⟨fun k' h => by cases h; exact List.mem_singleton.mpr rfl, fun d h => by cases h⟩
theorem opIn_write (k : Key) (b : Bytes) : OpIn [k] (.write k b) :=
  ⟨fun k' h => by cases h; exact List.mem_singleton.mpr rfl, fun d h => by cases h⟩
theorem opIn_createDirAll (k : Key) : OpIn [k] (.createDirAll k.dropLast) :=
  ⟨fun k' h => (by cases h), fun d h => by cases h; exact ⟨k, List.mem_singleton.mpr rfl, rfl⟩⟩

theorem writeNewC_fp (k : Key) (perms : Option Nat) (content : Bytes) :
    (writeNewC k perms content).Fp (OpIn [k]) := by
  unfold writeNewC
  have hw : (Cmd.op (.write k content) fun | .ok => .ret () | .notFound | .failed => .fail .err :
      Cmd Unit).Fp (OpIn [k]) := by
    refine .op _ _ (opIn_write k content) (fun r hr => ?_) (fun r => ?_)
    · cases r
      · cases hr
      · exact ⟨_, rfl⟩
      · exact ⟨_, rfl⟩
    · cases r
      · exact .ret _
      · exact .fail _
      · exact .fail _
  refine Cmd.Fp.bind ?_ (fun _ => hw)
  cases perms with
  | none => exact .ret _
  | some p =>
    refine .op _ _ (opIn_setMode k p) (fun r hr => ?_) (fun r => ?_)
    · cases r
      · cases hr
      · exact ⟨_, rfl⟩
      · exact ⟨_, rfl⟩
    · cases r
      · exact .ret _
      · exact .fail _
      · exact .fail _

/-- `save_modified_file` touches only the file of that name, and makes only its parent directory -/
theorem saveModifiedFileC_fp (name : Bytes) (f : FileSt Bytes) :
    (saveModifiedFileC name f).Fp (OpIn (safeKey name).toList) := by
  unfold saveModifiedFileC
  cases safeKey name with
  | none => exact .fail _
  | some k =>
    show Cmd.Fp (OpIn [k]) _
    simp only
    refine Cmd.Fp.bind ?_ (fun _ => ?_)
    · split
      · refine .op _ _ (opIn_removeFile k) (fun r hr => ?_) (fun r => ?_)
        · cases r
          · cases hr
          · cases hr
          · exact ⟨_, rfl⟩
        · cases r
          · exact .ret _
          · exact .ret _
          · exact .fail _
      · exact .ret _
    · split
      · exact .ret _
      · refine Cmd.Fp.bind ?_ (fun _ => ?_)
        · split
          · refine .op _ _ (opIn_createDirAll k) (fun r hr => ?_) (fun r => ?_)
            · cases r
              · cases hr
              · exact ⟨_, rfl⟩
              · exact ⟨_, rfl⟩
            · cases r
              · exact .ret _
              · exact .fail _
              · exact .fail _
          · exact .ret _
        · refine .op _ _ (opIn_createFile k) (fun r hr => ?_) (fun r => ?_)
          · cases r
            · cases hr
            · exact ⟨_, rfl⟩
            · exact ⟨_, rfl⟩
          · cases r
            · exact Cmd.Fp.bind (writeNewC_fp _ _ _) (fun _ => .ret _)
            · exact .fail _
            · exact .fail _

/-- the file keys of the names in a cache -/
def memKeys (mem : Mem) : List Key := mem.filterMap (fun e => safeKey e.2.1)

theorem mem_memKeys {mem : Mem} {k : Key} : k ∈ memKeys mem ↔ ∃ e ∈ mem, safeKey e.2.1 = some k := by
  unfold memKeys; rw [List.mem_filterMap]

/-- **Footprint of `ModifiedFiles::save`**: every operation has its file key among the keys of the names
in the cache, and every `createDirAll` makes the parent directory of such a key. -/
theorem saveAllC_fp (mem : Mem) : ∀ dirs : List Key, (saveAllC mem dirs).Fp (OpIn (memKeys mem)) := by
  induction mem with
  | nil => intro dirs; exact .ret _
  | cons x rest ih =>
    intro dirs
    obtain ⟨cs, name, f⟩ := x
    unfold saveAllC
    refine Cmd.Fp.bind ((saveModifiedFileC_fp name f).mono (fun o => OpIn.mono ?_))
      (fun d => (ih _).mono (fun o => OpIn.mono ?_))
    · intro k hk
      rw [Option.mem_toList] at hk
      exact mem_memKeys.mpr ⟨_, List.mem_cons_self .., hk⟩
    · intro k hk
      obtain ⟨e, he, hk⟩ := mem_memKeys.mp hk
      exact mem_memKeys.mpr ⟨e, List.mem_cons_of_mem _ he, hk⟩

/-- `save_backup_file` touches only the backup file `.pc/<patch>/<name>` and makes only its parent directory -/
theorem saveBackupC_fp (patchName name : Bytes) (f : FileSt Bytes) :
    (saveBackupC patchName name f).Fp (OpIn (pcKey patchName name).toList) := by
  unfold saveBackupC
  cases pcKey patchName name with
  | none => exact .fail _
  | some k =>
    show Cmd.Fp (OpIn [k]) _
    simp only
    have h3 : (Cmd.op (.createFile k) fun
        | .ok => writeNewC k f.perms (bytesOf f.content)
        | .notFound | .failed => .fail .err : Cmd Unit).Fp (OpIn [k]) := by
      refine .op _ _ (opIn_createFile k) (fun r hr => ?_) (fun r => ?_)
      · cases r
        · cases hr
        · exact ⟨_, rfl⟩
        · exact ⟨_, rfl⟩
      · cases r
        · exact writeNewC_fp _ _ _
        · exact .fail _
        · exact .fail _
    refine .op _ _ (opIn_createDirAll k) (fun r hr => ?_) (fun r => ?_)
    · cases r
      · cases hr
      · exact ⟨_, rfl⟩
      · exact ⟨_, rfl⟩
    · cases r
      · refine .op _ _ (opIn_removeFile k) (fun r hr => ?_) (fun r => ?_)
        · cases r
          · cases hr
          · cases hr
          · exact ⟨_, rfl⟩
        · cases r
          · exact h3
          · exact h3
          · exact .fail _
      · exact .fail _
      · exact .fail _

/-- the keys of the backup files `rollback_and_save_backup_files` writes for the applied file patches
`ss` (newest first) down to the patch index `downTo` -/
def backupKeys : List Status → Nat → List Key
  | [], _ => []
  | s :: rest, downTo =>
    if s.index < downTo then []
    else
      (pcKey s.patchName s.target).toList ++
      (if s.fp.rename then (match s.fp.new with | some n => (pcKey s.patchName n).toList | none => []) else []) ++
      backupKeys rest downTo

/-- **Footprint of `rollback_and_save_backup_files`** -/
theorem rollbackAndSaveBackupsC_fp (ss : List Status) : ∀ (mem : Mem) (downTo : Nat),
    (rollbackAndSaveBackupsC mem ss downTo).Fp (OpIn (backupKeys ss downTo)) := by
  induction ss with
  | nil => intro mem d; exact .ret _
  | cons s rest ih =>
    intro mem d
    unfold rollbackAndSaveBackupsC backupKeys
    split
    · exact .ret _
    · cases rollbackOne mem s with
      | error e => exact .fail _
      | ok r =>
        obtain ⟨mem1, file⟩ := r
        simp only
        refine Cmd.Fp.bind ((saveBackupC_fp _ _ _).mono (fun o => OpIn.mono ?_)) (fun _ => ?_)
        · intro k hk
          exact List.mem_append_left _ (List.mem_append_left _ hk)
        · split
          · rename_i hren
            cases s.fp.new with
            | none => exact .fail _
            | some newName =>
              simp only
              cases mem1.get newName with
              | none => exact .fail _
              | some nf =>
                simp only
                refine Cmd.Fp.bind ((saveBackupC_fp _ _ _).mono (fun o => OpIn.mono ?_))
                  (fun _ => (ih _ _).mono (fun o => OpIn.mono ?_))
                · intro k hk
                  exact List.mem_append_left _ (List.mem_append_right _ (by simpa [hren] using hk))
                · intro k hk
                  exact List.mem_append_right _ hk
          · exact (ih _ _).mono (fun o => OpIn.mono (fun k hk => List.mem_append_right _ hk))

/-- every backup key is `.pc/<patch>/<name>` for one of the applied file patches -/
theorem mem_backupKeys {ss : List Status} {downTo : Nat} {k : Key} (h : k ∈ backupKeys ss downTo) :
    ∃ s ∈ ss, downTo ≤ s.index ∧ ∃ name, pcKey s.patchName name = some k := by
  induction ss with
  | nil => cases h
  | cons s rest ih =>
    unfold backupKeys at h
    split at h
    · cases h
    · rename_i hlt
      rcases List.mem_append.mp h with h | h
      · rcases List.mem_append.mp h with h | h
        · exact ⟨s, List.mem_cons_self .., by omega, s.target, Option.mem_toList.mp h⟩
        · split at h
          · cases hn : s.fp.new with
            | none => rw [hn] at h; cases h
            | some n =>
              rw [hn] at h
              exact ⟨s, List.mem_cons_self .., by omega, n, Option.mem_toList.mp h⟩
          · cases h
      · obtain ⟨s', hs', r⟩ := ih h
        exact ⟨s', List.mem_cons_of_mem _ hs', r⟩

/-- a backup key lies under `.pc` -/
theorem pcKey_head {patchName name : Bytes} {k : Key} (h : pcKey patchName name = some k) :
    k.head? = some [46, 112, 99] := by
  unfold pcKey at h
  split at h
  · cases h; rfl
  · cases h

/-- the file keys a worker may touch in the save phase -/
def workerKeys (cfg : Cfg) (final rangeLen : Nat) (mem : Mem) (applied : List Status) : List Key :=
  if cfg.dryRun then []
  else memKeys mem ++ (if wantBackups cfg final rangeLen then backupKeys applied (downTo cfg final) else [])

/-- **Footprint of a worker's save phase** -/
theorem workerSaveC_fp (cfg : Cfg) (final rangeLen : Nat) (mem : Mem) (applied : List Status) :
    (workerSaveC cfg final rangeLen mem applied).Fp (OpIn (workerKeys cfg final rangeLen mem applied)) := by
  unfold workerSaveC workerKeys
  split
  · exact .ret _
  · refine Cmd.Fp.bind ((saveAllC_fp _ _).mono (fun o => OpIn.mono (fun k hk => List.mem_append_left _ hk)))
      (fun dirs => ?_)
    split
    · exact Cmd.Fp.bind ((rollbackAndSaveBackupsC_fp _ _ _).mono
        (fun o => OpIn.mono (fun k hk => List.mem_append_right _ hk))) (fun _ => .ret _)
    · exact .ret _

/-- the footprint of `ModifiedFiles::save`, spelled out for the operations of a run from any file system:
the file key of every operation is the key of a name in the cache, and every `createDirAll` makes the
parent directory (`dropLast`) of such a key -/
theorem saveAllC_footprint (mem : Mem) (dirs : List Key) (fs : FS) : ∀ x ∈ (saveAllC mem dirs).steps fs,
    (∀ k, fileKey x.1 = some k → ∃ e ∈ mem, safeKey e.2.1 = some k) ∧
    (∀ d, dirPath x.1 = some d → ∃ e ∈ mem, ∃ k, safeKey e.2.1 = some k ∧ d = k.dropLast) := by
  intro x hx
  have h := (saveAllC_fp mem dirs).steps fs x hx
  refine ⟨fun k hk => mem_memKeys.mp (h.1 k hk), fun d hd => ?_⟩
  obtain ⟨k, hk, e⟩ := h.2 d hd
  obtain ⟨en, hen, hs⟩ := mem_memKeys.mp hk
  exact ⟨en, hen, k, hs, e⟩

/-- the footprint of the backup commands, spelled out: the file key of every operation is
`.pc/<patch>/<name>` (`pcKey`, first component `.pc`) for one of the applied file patches, and every
`createDirAll` makes the parent directory of such a key -/
theorem rollbackAndSaveBackupsC_footprint (mem : Mem) (ss : List Status) (downTo : Nat) (fs : FS) :
    ∀ x ∈ (rollbackAndSaveBackupsC mem ss downTo).steps fs,
    (∀ k, fileKey x.1 = some k → k.head? = some [46, 112, 99] ∧
      ∃ s ∈ ss, downTo ≤ s.index ∧ ∃ name, pcKey s.patchName name = some k) ∧
    (∀ d, dirPath x.1 = some d → ∃ k, d = k.dropLast ∧ k.head? = some [46, 112, 99] ∧
      ∃ s ∈ ss, downTo ≤ s.index ∧ ∃ name, pcKey s.patchName name = some k) := by
  intro x hx
  have h := (rollbackAndSaveBackupsC_fp ss mem downTo).steps fs x hx
  refine ⟨fun k hk => ?_, fun d hd => ?_⟩
  · obtain ⟨s, hs, hle, name, hn⟩ := mem_backupKeys (h.1 k hk)
    exact ⟨pcKey_head hn, s, hs, hle, name, hn⟩
  · obtain ⟨k, hk, e⟩ := h.2 d hd
    obtain ⟨s, hs, hle, name, hn⟩ := mem_backupKeys hk
    exact ⟨k, e, pcKey_head hn, s, hs, hle, name, hn⟩

/-! ## Commands as workers: the hypotheses of the schedule-independence theorem -/

/-- the directly checkable ownership condition: no file key of worker `a` is a prefix of (or equal to) a
file key of worker `b`.  (Then it is not a prefix of the parent directory of such a key either.) -/
def KeysApart (a b : List Key) : Prop := ∀ k ∈ a, ∀ k' ∈ b, ¬ k <+: k'

instance (a b : List Key) : Decidable (KeysApart a b) :=
  inferInstanceAs (Decidable (∀ k ∈ a, ∀ k' ∈ b, ¬ k <+: k'))

/-- `KeysApart` between any two different workers -/
def KeysDisjoint (keys : Nat → List Key) (n : Nat) : Prop :=
  ∀ i, i < n → ∀ j, j < n → i ≠ j → KeysApart (keys i) (keys j)

instance (keys : Nat → List Key) (n : Nat) : Decidable (KeysDisjoint keys n) :=
  inferInstanceAs (Decidable (∀ i, i < n → ∀ j, j < n → i ≠ j → KeysApart (keys i) (keys j)))

section General
variable {α : Type}

/-- the commands `cs 0 .. cs (n-1)` as the workers of the scheduling model -/
def cmdProgs (cs : Nat → Cmd α) (n : Nat) : Nat → Prog :=
  fun i => if i < n then progOf (cs i) else fun _ => none

/-- the number of operations of each command alone from `fs0` -/
def cmdFuel (cs : Nat → Cmd α) (fs0 : FS) : Nat → Nat := fun i => ((cs i).steps fs0).length

/-- the commands one after another -/
def seqInterp (cs : Nat → Cmd α) : Nat → World → WR World
  | 0, w => .ok w
  | n + 1, w =>
    match seqInterp cs n w with
    | .error e => .error e
    | .ok w =>
      match interp w (cs n) with
      | .error e => .error e
      | .ok (w, _) => .ok w

variable (cs : Nat → Cmd α) (keys : Nat → List Key) (n : Nat) (fs0 : FS)

theorem cmdProgs_lt {i : Nat} (hi : i < n) : cmdProgs cs n i = progOf (cs i) := by
  unfold cmdProgs; rw [if_pos hi]

theorem cmd_soloSteps {i : Nat} (hi : i < n) :
    soloSteps (cmdProgs cs n i) fs0 (cmdFuel cs fs0 i) = (cs i).steps fs0 := by
  rw [cmdProgs_lt cs n hi]; exact soloSteps_full _ _ _ (Nat.le_refl _)

theorem cmd_soloAt {i : Nat} (hi : i < n) :
    soloAt (cmdProgs cs n i) fs0 (cmdFuel cs fs0 i) = ((cs i).finalFS fs0, ((cs i).steps fs0).map (·.2)) := by
  rw [cmdProgs_lt cs n hi]; exact soloAt_full _ _ _ (Nat.le_refl _)

theorem cmd_F {i : Nat} (hi : i < n) (hfp : (cs i).Fp (OpIn (keys i))) {k : Key}
    (hk : k ∈ F (cmdProgs cs n) fs0 (cmdFuel cs fs0) i) : k ∈ keys i := by
  unfold F solo at hk
  rw [cmd_soloSteps cs n fs0 hi, List.mem_filterMap] at hk
  obtain ⟨o, ho, hk⟩ := hk
  obtain ⟨x, hx, rfl⟩ := List.mem_map.mp ho
  exact (hfp.steps fs0 x hx).1 k hk

theorem cmd_D {i : Nat} (hi : i < n) (hfp : (cs i).Fp (OpIn (keys i))) {d : Key}
    (hd : d ∈ D (cmdProgs cs n) fs0 (cmdFuel cs fs0) i) : ∃ k ∈ keys i, d = k.dropLast := by
  unfold D solo at hd
  rw [cmd_soloSteps cs n fs0 hi, List.mem_filterMap] at hd
  obtain ⟨o, ho, hd⟩ := hd
  obtain ⟨x, hx, rfl⟩ := List.mem_map.mp ho
  exact (hfp.steps fs0 x hx).2 d hd

/-- **The hypotheses of `schedule_independence` for commands**: footprints in `keys`, every command
succeeds alone from `fs0`, and the keys of different workers are prefix-free. -/
theorem cmd_hyp (hfp : ∀ i, i < n → (cs i).Fp (OpIn (keys i)))
    (hok : ∀ i, i < n → ∃ a, (cs i).result fs0 = .ok a) (hdisj : KeysDisjoint keys n) :
    Hyp (cmdProgs cs n) fs0 n (cmdFuel cs fs0) where
  idle := by
    intro i hi
    unfold cmdProgs
    rw [if_neg (by omega)]
  fin := by
    intro i hi
    show cmdProgs cs n i (soloAt (cmdProgs cs n i) fs0 (cmdFuel cs fs0 i)).2 = none
    rw [cmdProgs_lt cs n hi]
    exact (progOf_done_iff _ _ _).mpr (Nat.le_refl _)
  oks := by
    intro i hi x hx
    rw [cmd_soloSteps cs n fs0 hi] at hx
    obtain ⟨a, ha⟩ := hok i hi
    exact (hfp i hi).steps_ok fs0 a ha x hx
  disj := by
    intro i hi j hj hij k hk
    have hki := cmd_F cs keys n fs0 hi (hfp i hi) hk
    refine ⟨fun k' hk' => hdisj i hi j hj hij k hki k' (cmd_F cs keys n fs0 hj (hfp j hj) hk'), ?_⟩
    intro d hd hp
    obtain ⟨k', hk', rfl⟩ := cmd_D cs keys n fs0 hj (hfp j hj) hd
    exact hdisj i hi j hj hij k hki k' hk' (hp.trans (List.dropLast_prefix k'))

end General

/-! ## The sequential schedule: each worker in turn, from the file system its predecessors left -/

theorem run_seq_hist (progs : Nat → Prog) (fs0 : FS) (fuel : Nat → Nat) (n : Nat) : ∀ i, i < n →
    (run progs (seqSched fuel n) (init fs0)).hist i =
      (soloAt (progs i) (seqFS progs fs0 fuel i) (fuel i)).2 := by
  induction n with
  | zero => intro i hi; omega
  | succ m ih =>
    intro i hi
    rw [seqSched, run_append, run_replicate progs m _ ((run_seq progs fs0 fuel m).2 m (Nat.le_refl _))]
    by_cases him : i = m
    · subst him
      simp only [if_true]
      rw [(run_seq progs fs0 fuel i).1]
    · simp only [if_neg him]
      exact ih i (by omega)

section Seq
variable {α : Type} {cs : Nat → Cmd α} {n : Nat} {fs0 : FS}

/-- In the sequential run worker `i` starts from another file system than `fs0`, but — by the
schedule-independence theorem for the sequential schedule — it sees the results of its run from `fs0`. -/
theorem seq_worker (h : Hyp (cmdProgs cs n) fs0 n (cmdFuel cs fs0)) {i : Nat} (hi : i < n) :
    ((cs i).steps (seqFS (cmdProgs cs n) fs0 (cmdFuel cs fs0) i)).map (·.2) = ((cs i).steps fs0).map (·.2) ∧
    (cs i).finalFS (seqFS (cmdProgs cs n) fs0 (cmdFuel cs fs0) i) =
      seqFS (cmdProgs cs n) fs0 (cmdFuel cs fs0) (i + 1) := by
  have h1 := ((schedule_independence h (seqSched (cmdFuel cs fs0) n)).2 (seq_done h)).1 i hi
  rw [run_seq_hist _ _ _ _ i hi] at h1
  have h2 : (solo (cmdProgs cs n i) fs0 (cmdFuel cs fs0 i)).2.1 = ((cs i).steps fs0).map (·.2) := by
    show (soloAt _ _ _).2 = _
    rw [cmd_soloAt cs n fs0 hi]
  rw [h2, cmdProgs_lt cs n hi] at h1
  have hfin := h.fin i hi
  rw [h2, cmdProgs_lt cs n hi, ← h1] at hfin
  have hlen := (progOf_done_iff _ _ _).mp hfin
  rw [soloAt_hist, List.take_of_length_le hlen] at h1
  refine ⟨h1, ?_⟩
  show _ = (soloAt _ _ _).1
  rw [cmdProgs_lt cs n hi, soloAt_full _ _ _ hlen]

theorem seq_worker_result (h : Hyp (cmdProgs cs n) fs0 n (cmdFuel cs fs0)) {i : Nat} (hi : i < n) :
    (cs i).result (seqFS (cmdProgs cs n) fs0 (cmdFuel cs fs0) i) = (cs i).result fs0 := by
  have h1 := (cs i).resultAt_steps (seqFS (cmdProgs cs n) fs0 (cmdFuel cs fs0) i)
  rw [(seq_worker h hi).1, Cmd.resultAt_steps] at h1
  exact (Option.some.inj h1).symm

theorem seq_worker_ops (h : Hyp (cmdProgs cs n) fs0 n (cmdFuel cs fs0)) {i : Nat} (hi : i < n) :
    ((cs i).steps (seqFS (cmdProgs cs n) fs0 (cmdFuel cs fs0) i)).map (·.1) = ((cs i).steps fs0).map (·.1) := by
  rw [← Cmd.opsAlong_steps, (seq_worker h hi).1, Cmd.opsAlong_steps]

/-- the commands one after another: all succeed, the file system is `seqFS`, and the trace is the
concatenation of the traces of the solo runs from `fs0` -/
theorem seqInterp_ok (h : Hyp (cmdProgs cs n) fs0 n (cmdFuel cs fs0))
    (hok : ∀ i, i < n → ∃ a, (cs i).result fs0 = .ok a) (w0 : World) (hf : w0.faultAt = none)
    (hfs : w0.fs = fs0) : ∀ m, m ≤ n → ∃ w, seqInterp cs m w0 = .ok w ∧
      w.fs = seqFS (cmdProgs cs n) fs0 (cmdFuel cs fs0) m ∧ w.faultAt = none ∧
      w.trace = w0.trace ++ (List.range m).flatMap (fun i => ((cs i).steps fs0).map (·.1)) := by
  intro m
  induction m with
  | zero => intro _; exact ⟨w0, rfl, hfs, hf, by simp⟩
  | succ m ih =>
    intro hm
    obtain ⟨w, e, hwfs, hwf, hwt⟩ := ih (by omega)
    have hi : m < n := by omega
    obtain ⟨a, ha⟩ := hok m hi
    have hr : (cs m).result w.fs = .ok a := by rw [hwfs, seq_worker_result h hi, ha]
    refine ⟨(cs m).endWorld w, ?_, ?_, hwf, ?_⟩
    · simp only [seqInterp, e, interp_eq (cs m) w hwf, hr]
    · show (cs m).finalFS w.fs = _
      rw [hwfs, (seq_worker h hi).2]
    · show w.trace ++ ((cs m).steps w.fs).map (·.1) = _
      rw [hwfs, seq_worker_ops h hi, hwt, List.range_succ, List.flatMap_append, List.append_assoc]
      simp

end Seq

/-! ## Parallel = sequential, for commands -/

theorem Cmd.opsAlong_prefix {α : Type} (c : Cmd α) : ∀ h1 h2 : List Res, h1 <+: h2 →
    c.opsAlong h1 <+: c.opsAlong h2 := by
  induction c with
  | ret a => intro h1 h2 _; cases h1 <;> cases h2 <;> exact List.nil_prefix
  | fail e => intro h1 h2 _; cases h1 <;> cases h2 <;> exact List.nil_prefix
  | op o k ih =>
    intro h1 h2 hp
    cases h1 with
    | nil => exact List.nil_prefix
    | cons r rs =>
      cases h2 with
      | nil => simp at hp
      | cons r' rs' =>
        rw [List.cons_prefix_cons] at hp
        obtain ⟨rfl, hp⟩ := hp
        simp only [Cmd.opsAlong, List.cons_prefix_cons, true_and]
        exact ih _ _ _ hp

/-- **Schedule independence for commands.**  `n` commands with footprints in `keys i`, each succeeding
alone from `fs0`, keys of different workers prefix-free.  Under EVERY schedule: each worker has issued an
initial part of the operations of its solo run; and if all workers are finished, each one has issued
exactly the operations of its solo run and seen their results, running the commands one after another from
`⟨fs0, [], none⟩` succeeds as well, and the two file systems agree up to inode numbers. -/
theorem cmd_schedule_independence {α : Type} (cs : Nat → Cmd α) (keys : Nat → List Key) (n : Nat) (fs0 : FS)
    (hfp : ∀ i, i < n → (cs i).Fp (OpIn (keys i)))
    (hok : ∀ i, i < n → ∃ a, (cs i).result fs0 = .ok a) (hdisj : KeysDisjoint keys n)
    (sched : List Nat) :
    (∀ i, i < n → (cs i).opsAlong ((run (cmdProgs cs n) sched (init fs0)).hist i) <+:
        ((cs i).steps fs0).map (·.1)) ∧
    (Done (cmdProgs cs n) (run (cmdProgs cs n) sched (init fs0)) →
      ∃ w, seqInterp cs n ⟨fs0, [], none⟩ = .ok w ∧
        FSEquiv (run (cmdProgs cs n) sched (init fs0)).fs w.fs ∧
        w.trace = (List.range n).flatMap (fun i => ((cs i).steps fs0).map (·.1)) ∧
        ∀ i, i < n → (run (cmdProgs cs n) sched (init fs0)).hist i = ((cs i).steps fs0).map (·.2) ∧
          (cs i).opsAlong ((run (cmdProgs cs n) sched (init fs0)).hist i) = ((cs i).steps fs0).map (·.1)) := by
  have h := cmd_hyp cs keys n fs0 hfp hok hdisj
  have hsolo : ∀ i, i < n →
      (solo (cmdProgs cs n i) fs0 (cmdFuel cs fs0 i)).2.1 = ((cs i).steps fs0).map (·.2) := by
    intro i hi
    show (soloAt _ _ _).2 = _
    rw [cmd_soloAt cs n fs0 hi]
  obtain ⟨hpre, hfull⟩ := schedule_independence h sched
  refine ⟨fun i hi => ?_, fun hd => ?_⟩
  · have := (cs i).opsAlong_prefix _ _ (hpre i)
    rwa [hsolo i hi, Cmd.opsAlong_steps] at this
  · obtain ⟨hh, _⟩ := hfull hd
    obtain ⟨w, e, hwfs, _, hwt⟩ := seqInterp_ok h hok ⟨fs0, [], none⟩ rfl rfl n (Nat.le_refl _)
    refine ⟨w, e, ?_, by simpa using hwt, fun i hi => ?_⟩
    · rw [hwfs]
      exact schedule_independence_seq h sched hd
    · have e1 := hh i hi
      rw [hsolo i hi] at e1
      exact ⟨e1, by rw [e1, Cmd.opsAlong_steps]⟩

/-! ## The save phase of `parallel::save_files_worker` -/

section SavePhase
variable (cfg : Cfg) (final rangeLen : Nat) (mems : Nat → Mem) (applieds : Nat → List Status)

/-- the save code of worker `i` -/
def saveCmds : Nat → Cmd (List Key) := fun i => workerSaveC cfg final rangeLen (mems i) (applieds i)

/-- the `n` workers of the save phase in the scheduling model -/
def saveProgs (n : Nat) : Nat → Prog := cmdProgs (saveCmds cfg final rangeLen mems applieds) n

/-- the keys worker `i` may touch -/
def saveKeys : Nat → List Key := fun i => workerKeys cfg final rangeLen (mems i) (applieds i)

theorem seqSave_eq : ∀ (m : Nat) (w : World), seqSave cfg final rangeLen mems applieds m w =
    seqInterp (saveCmds cfg final rangeLen mems applieds) m w := by
  intro m
  induction m with
  | zero => intro w; rfl
  | succ m ih =>
    intro w
    simp only [seqSave, seqInterp, ih]
    cases seqInterp (saveCmds cfg final rangeLen mems applieds) m w with
    | error e => rfl
    | ok w1 =>
      simp only [saveCmds, interp_workerSaveC]
      cases workerSave cfg final rangeLen w1 (mems m) (applieds m) <;> rfl

/-- a worker's solo run with the model functions, in terms of the bare semantics of its command -/
theorem workerSave_ok {fs0 : FS} {mem : Mem} {applied : List Status} {r : World × List Key}
    (h : workerSave cfg final rangeLen ⟨fs0, [], none⟩ mem applied = .ok r) :
    (workerSaveC cfg final rangeLen mem applied).result fs0 = .ok r.2 ∧
    r.1.fs = (workerSaveC cfg final rangeLen mem applied).finalFS fs0 ∧
    r.1.trace = ((workerSaveC cfg final rangeLen mem applied).steps fs0).map (·.1) := by
  rw [← interp_workerSaveC, interp_eq _ _ rfl] at h
  cases hr : (workerSaveC cfg final rangeLen mem applied).result fs0 with
  | error e => simp only [hr] at h; cases h
  | ok a =>
    simp only [hr] at h
    cases h
    exact ⟨rfl, rfl, by simp [Cmd.endWorld]⟩

end SavePhase

end RQ.Push

#print axioms RQ.Push.interp_writeNewC
#print axioms RQ.Push.interp_saveModifiedFileC
#print axioms RQ.Push.interp_saveAllC
#print axioms RQ.Push.interp_saveBackupC
#print axioms RQ.Push.interp_rollbackAndSaveBackupsC
#print axioms RQ.Push.interp_workerSaveC
#print axioms RQ.Push.solo_interp
#print axioms RQ.Push.saveAllC_fp
#print axioms RQ.Push.saveAllC_footprint
#print axioms RQ.Push.rollbackAndSaveBackupsC_footprint
#print axioms RQ.Push.rollbackAndSaveBackupsC_fp
#print axioms RQ.Push.workerSaveC_fp
#print axioms RQ.Push.cmd_hyp
#print axioms RQ.Push.cmd_schedule_independence
