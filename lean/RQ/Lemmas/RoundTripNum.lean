import RQ.Spec.Write
/-! C12 layer 0: numbers (decimal, octal) written by the writer are read back by the parser. -/
namespace RQ.Write
open RQ RQ.Parse

/-- a property of all bytes can be checked on the 256 values -/
theorem forall_uint8 (P : UInt8 → Prop) (h : ∀ n : Fin 256, P (UInt8.ofNat n.val)) : ∀ b, P b := by
  intro b
  have := h ⟨b.toNat, UInt8.toNat_lt b⟩
  simpa using this

/-- the next byte (if any) satisfies `pred` -/
def Stops (pred : UInt8 → Bool) (r : Bytes) : Prop := ∀ b r', r = b :: r' → pred b = true

theorem Stops_nil (pred : UInt8 → Bool) : Stops pred [] := by intro b r' h; cases h

theorem Stops_cons (pred : UInt8 → Bool) (b : UInt8) (r : Bytes) (h : pred b = true) : Stops pred (b :: r) := by
  intro b' r' e; cases e; exact h

theorem splitAtCond_append (pred : UInt8 → Bool) (a r : Bytes) (ha : ∀ x ∈ a, pred x = false)
    (hr : Stops pred r) : splitAtCond pred (a ++ r) = (a, r) := by
  induction a with
  | nil =>
    cases r with
    | nil => simp [splitAtCond]
    | cons b r' => simp [splitAtCond, hr b r' rfl]
  | cons x xs ih =>
    have hx : pred x = false := ha x (by simp)
    have := ih (fun y hy => ha y (by simp [hy]))
    simp [splitAtCond, hx, this]

theorem splitAtCond_stop (pred : UInt8 → Bool) (r : Bytes) (hr : Stops pred r) :
    splitAtCond pred r = ([], r) := by
  simpa using splitAtCond_append pred [] r (by simp) hr

theorem decVal_snoc (ds : Bytes) (d : UInt8) : decVal (ds ++ [d]) = decVal ds * 10 + (d.toNat - 48) := by
  simp [decVal, List.foldl_append]

theorem octVal_snoc (ds : Bytes) (d : UInt8) : octVal (ds ++ [d]) = octVal ds * 8 + (d.toNat - 48) := by
  simp [octVal, List.foldl_append]

theorem digit_facts : ∀ k : Fin 10, isDigit (UInt8.ofNat (48 + k.val)) = true ∧ (UInt8.ofNat (48 + k.val)).toNat - 48 = k.val := by
  decide

theorem odigit_facts : ∀ k : Fin 8, isOct (UInt8.ofNat (48 + k.val)) = true ∧ (UInt8.ofNat (48 + k.val)).toNat - 48 = k.val := by
  decide

theorem decDigits_spec : ∀ fuel n, n < fuel →
    decVal (decDigits fuel n) = n ∧ (∀ x ∈ decDigits fuel n, isDigit x = true) ∧ decDigits fuel n ≠ [] := by
  intro fuel
  induction fuel with
  | zero => intro n h; omega
  | succ f ih =>
    intro n h
    unfold decDigits
    by_cases hn : n < 10
    · have := digit_facts ⟨n, hn⟩
      simp only [hn, if_true]
      refine ⟨?_, ?_, by simp⟩
      · simp [decVal]; exact this.2
      · intro x hx; rw [List.mem_singleton] at hx; subst hx; exact this.1
    · simp only [hn, if_false]
      have hlt : n / 10 < f := by omega
      obtain ⟨h1, h2, _⟩ := ih (n / 10) hlt
      have := digit_facts ⟨n % 10, by omega⟩
      refine ⟨?_, ?_, by simp⟩
      · rw [decVal_snoc, h1, this.2]; simp; omega
      · intro x hx
        rcases List.mem_append.mp hx with hx | hx
        · exact h2 x hx
        · rw [List.mem_singleton] at hx; subst hx; exact this.1

theorem natDec_val (n : Nat) : decVal (natDec n) = n := (decDigits_spec (n+1) n (by omega)).1
theorem natDec_digits (n : Nat) : ∀ x ∈ natDec n, isDigit x = true := (decDigits_spec (n+1) n (by omega)).2.1
theorem natDec_ne_nil (n : Nat) : natDec n ≠ [] := (decDigits_spec (n+1) n (by omega)).2.2

theorem parseNumber_natDec (n : Nat) (rest : Bytes) (hn : n < 2^64)
    (hr : Stops (fun c => !isDigit c) rest) : parseNumber (natDec n ++ rest) = .ok (rest, n) := by
  unfold parseNumber
  rw [splitAtCond_append _ _ _ (by intro x hx; simp [natDec_digits n x hx]) hr]
  have h1 : (natDec n).isEmpty = false := by
    cases h : natDec n with
    | nil => exact absurd h (natDec_ne_nil n)
    | cons a b => rfl
  simp only [h1, natDec_val]
  have : ¬ n ≥ 2^64 := by omega
  simp [this]

theorem intDec_nonneg (i : Int) (h : 0 ≤ i) : intDec i = natDec i.toNat := by
  unfold intDec
  have : ¬ i < 0 := by omega
  simp [this]

/-! octal -/

theorem octDigits_spec : ∀ fuel n, n < fuel →
    octVal (octDigits fuel n) = n ∧ (∀ x ∈ octDigits fuel n, isOct x = true) ∧ octDigits fuel n ≠ [] := by
  intro fuel
  induction fuel with
  | zero => intro n h; omega
  | succ f ih =>
    intro n h
    unfold octDigits
    by_cases hn : n < 8
    · have := odigit_facts ⟨n, hn⟩
      simp only [hn, if_true]
      refine ⟨?_, ?_, by simp⟩
      · simp [octVal]; exact this.2
      · intro x hx; rw [List.mem_singleton] at hx; subst hx; exact this.1
    · simp only [hn, if_false]
      have hlt : n / 8 < f := by omega
      obtain ⟨h1, h2, _⟩ := ih (n / 8) hlt
      have := odigit_facts ⟨n % 8, by omega⟩
      refine ⟨?_, ?_, by simp⟩
      · rw [octVal_snoc, h1, this.2]; simp; omega
      · intro x hx
        rcases List.mem_append.mp hx with hx | hx
        · exact h2 x hx
        · rw [List.mem_singleton] at hx; subst hx; exact this.1

theorem octDigits_length : ∀ fuel n k, n < fuel → 1 ≤ k → n < 8 ^ k → (octDigits fuel n).length ≤ k := by
  intro fuel
  induction fuel with
  | zero => intro n k h; omega
  | succ f ih =>
    intro n k h hk hlt
    unfold octDigits
    by_cases hn : n < 8
    · simp [hn]; omega
    · simp only [hn, if_false]
      have hk2 : 2 ≤ k := by
        rcases Nat.lt_or_ge k 2 with h2 | h2
        · have : k = 1 := by omega
          subst this; simp at hlt; omega
        · exact h2
      have : n / 8 < 8 ^ (k - 1) := by
        have e : 8 ^ k = 8 ^ (k - 1) * 8 := by
          rw [← Nat.pow_succ]; congr 1; omega
        rw [e] at hlt
        exact Nat.div_lt_of_lt_mul (by rw [Nat.mul_comm]; exact hlt)
      have := ih (n / 8) (k - 1) (by omega) (by omega) this
      simp; omega

theorem octVal_replicate_zero (k : Nat) (d : Bytes) : octVal (List.replicate k 48 ++ d) = octVal d := by
  induction k with
  | zero => simp
  | succ k ih =>
    simp only [List.replicate_succ, List.cons_append]
    unfold octVal at *
    simp only [List.foldl_cons]
    simpa using ih

theorem oct6_spec (m : Nat) (h : m < 8 ^ 6) :
    (oct6 m).length = 6 ∧ (∀ x ∈ oct6 m, isOct x = true) ∧ octVal (oct6 m) = m := by
  obtain ⟨h1, h2, _⟩ := octDigits_spec (m + 1) m (by omega)
  have hl := octDigits_length (m + 1) m 6 (by omega) (by omega) h
  unfold oct6
  refine ⟨?_, ?_, ?_⟩
  · simp; omega
  · intro x hx
    rcases List.mem_append.mp hx with hx | hx
    · simp at hx; rw [hx.2]; decide
    · exact h2 x hx
  · simp only []; rw [octVal_replicate_zero, h1]

theorem parseMode_oct6 (m : Nat) (rest : Bytes) (h : m < 8 ^ 6) :
    parseMode (oct6 m ++ 10 :: rest) = .ok (10 :: rest, m) := by
  obtain ⟨hl, hd, hv⟩ := oct6_spec m h
  unfold parseMode
  have hne : ∃ b t, oct6 m = b :: t := by
    cases e : oct6 m with
    | nil => rw [e] at hl; simp at hl
    | cons b t => exact ⟨b, t, rfl⟩
  obtain ⟨b, t, e⟩ := hne
  have hb : isOct b = true := hd b (by simp [e])
  have hns : isSpace b = false := by
    exact forall_uint8 (fun b => isOct b = true → isSpace b = false) (by decide +kernel) b hb
  rw [splitAtCond_stop (fun c => !isSpace c) (oct6 m ++ 10 :: rest)
    (by rw [e]; exact Stops_cons _ _ _ (by simp [hns]))]
  simp only []
  rw [splitAtCond_append (fun c => !isOct c) (oct6 m) (10 :: rest)
    (by intro x hx; simp [hd x hx]) (Stops_cons _ _ _ (by decide))]
  have h1 : (oct6 m).isEmpty = false := by rw [e]; rfl
  simp [h1, hl, hv]

end RQ.Write
