import RQ.Lemmas.Refine
import RQ.Spec.Backups
/-! Helper lemmas for C08: the backup calls made while the applied stack is undone, against the abstract
trees after each patch.

`Stack fs cfg range k applied m`: `applied` (newest first) is the stack left by the first `k` patches of
`range`, cut into the `Status` lists of each patch; each list is a `Chain` from the memory before that
patch, and that memory stands for the abstract tree after the patches before it. -/
namespace RQ.Abs
open RQ RQ.Push RQ.Spec RQ.Parse RQ.Write

abbrev Call := Nat × Bytes × Bytes × FileSt Bytes

/-! ### `lastCall` -/

theorem lastCall_append (j : Nat) (name : Bytes) (A B : List Call) :
    lastCall j name (A ++ B) = match lastCall j name B with
      | some g => some g
      | none => lastCall j name A := by
  induction A with
  | nil =>
    simp only [List.nil_append]
    cases lastCall j name B <;> rfl
  | cons c A ih =>
    obtain ⟨i, pn, n, f⟩ := c
    simp only [List.cons_append, lastCall]
    rw [ih]
    cases lastCall j name B with
    | some g => rfl
    | none => rfl

theorem lastCall_none_of_index (j : Nat) (name : Bytes) (A : List Call) (h : ∀ c ∈ A, c.1 ≠ j) :
    lastCall j name A = none := by
  induction A with
  | nil => rfl
  | cons c A ih =>
    obtain ⟨i, pn, n, f⟩ := c
    simp only [lastCall]
    rw [ih (fun c hc => h c (by simp [hc]))]
    have : i ≠ j := h (i, pn, n, f) (by simp)
    simp [this]

/-! ### `backupCalls` -/

theorem backupCalls_below (M : Mem) (A : List Status) (downTo : Nat) (h : ∀ s ∈ A, s.index < downTo) :
    backupCalls M A downTo = .ok ([], M) := by
  cases A with
  | nil => rfl
  | cons s A =>
    rw [backupCalls]
    rw [if_pos (h s (by simp))]

/-- the calls made for one `Status` -/
def callsOf (s : Status) (x y : FileSt Bytes) : List Call :=
  (s.index, s.patchName, s.target, x) ::
    (if s.fp.rename then [(s.index, s.patchName, s.final, y)] else [])

theorem backupCalls_cons {fs : FS} {m1 m M : Mem} {s : Status} {downTo : Nat} (rest : List Status)
    (hstep : StepU fs m1 s m) (hM : Ext fs m M) (hidx : downTo ≤ s.index) :
    ∃ M1 x y, Ext fs m1 M1 ∧ M1.get s.target = some x ∧ M1.get s.final = some y ∧
      (∀ n, components n ≠ components s.target → components n ≠ components s.final → M1.get n = M.get n) ∧
      backupCalls M (s :: rest) downTo = (match backupCalls M1 rest downTo with
        | .error e => .error e
        | .ok (c, mm) => .ok (callsOf s x y ++ c, mm)) := by
  obtain ⟨hren, hplain, hundo⟩ := hstep
  obtain ⟨M1, x, hr, he1, hgt, ⟨y, hgf⟩, hframe⟩ := hundo M hM
  refine ⟨M1, x, y, he1, hgt, hgf, hframe, ?_⟩
  rw [backupCalls, if_neg (by omega), hr]
  simp only
  cases hrn : s.fp.rename with
  | true =>
    rw [hren hrn]
    simp only [hgf, if_true, callsOf, hrn]
    cases backupCalls M1 rest downTo with
    | error e => rfl
    | ok r => rfl
  | false =>
    simp only [Bool.false_eq_true, if_false, callsOf, hrn]
    cases backupCalls M1 rest downTo with
    | error e => rfl
    | ok r => rfl

theorem lastCall_callsOf_none {s : Status} {x y : FileSt Bytes} {name : Bytes}
    (hplain : s.fp.rename = false → s.final = s.target)
    (h : lastCall s.index name (callsOf s x y) = none) :
    components name ≠ components s.target ∧ components name ≠ components s.final := by
  cases hrn : s.fp.rename with
  | true =>
    simp only [callsOf, hrn, if_true, lastCall, true_and] at h
    by_cases h2 : components s.final = components name
    · simp [h2] at h
    · by_cases h1 : components s.target = components name
      · simp [h1, h2] at h
      · exact ⟨fun e => h1 e.symm, fun e => h2 e.symm⟩
  | false =>
    simp only [callsOf, hrn, Bool.false_eq_true, if_false, lastCall, true_and] at h
    by_cases h1 : components s.target = components name
    · simp [h1] at h
    · rw [hplain hrn]
      exact ⟨fun e => h1 e.symm, fun e => h1 e.symm⟩

theorem lastCall_callsOf_some {s : Status} {x y f : FileSt Bytes} {name : Bytes}
    (h : lastCall s.index name (callsOf s x y) = some f) :
    (components name = components s.final ∧ f = y) ∨ (components name = components s.target ∧ f = x) := by
  cases hrn : s.fp.rename with
  | true =>
    simp only [callsOf, hrn, if_true, lastCall, true_and] at h
    by_cases h2 : components s.final = components name
    · simp [h2] at h
      exact Or.inl ⟨h2.symm, h.symm⟩
    · by_cases h1 : components s.target = components name
      · simp [h1, h2] at h
        exact Or.inr ⟨h1.symm, h.symm⟩
      · simp [h1, h2] at h
  | false =>
    simp only [callsOf, hrn, Bool.false_eq_true, if_false, lastCall, true_and] at h
    by_cases h1 : components s.target = components name
    · simp [h1] at h
      exact Or.inr ⟨h1.symm, h.symm⟩
    · simp [h1] at h

/-- undoing the `Status` of one patch (all of index `j`, in the window): the calls made, and what the
last call for a name holds -/
theorem backupCalls_chain {fs : FS} {downTo j : Nat} (hj : downTo ≤ j) (rest : List Status) :
    ∀ (L : List Status) (mj m M : Mem), Chain fs mj L m → (∀ s ∈ L, s.index = j) → Ext fs m M →
      ∃ (callsL : List Call) (M' : Mem), Ext fs mj M' ∧
        backupCalls M (L ++ rest) downTo = (match backupCalls M' rest downTo with
          | .error e => .error e
          | .ok (c, mm) => .ok (callsL ++ c, mm)) ∧
        (∀ c ∈ callsL, c.1 = j) ∧
        (∀ name f, lastCall j name callsL = some f → M'.get name = some f) ∧
        (∀ name, lastCall j name callsL = none → M'.get name = M.get name) ∧
        (∀ s ∈ L, ∃ f, (j, s.patchName, s.target, f) ∈ callsL) := by
  intro L
  induction L with
  | nil =>
    intro mj m M hc _ hM
    refine ⟨[], M, Ext.trans hc hM, ?_, fun c hc => (by cases hc), fun name f h => (by cases h), fun _ _ => rfl,
      fun s hs => (by cases hs)⟩
    simp only [List.nil_append]
    cases backupCalls M rest downTo with
    | error e => rfl
    | ok r => rfl
  | cons s L0 ih =>
    intro mj m M hc hidx hM
    obtain ⟨m1, hc0, hstep⟩ := hc
    have hsj : s.index = j := hidx s (by simp)
    obtain ⟨M1, x, y, he1, hgt, hgf, hframe, hbc⟩ :=
      backupCalls_cons (downTo := downTo) (L0 ++ rest) hstep hM (by rw [hsj]; exact hj)
    obtain ⟨callsL0, M', hext', hbc0, hidx0, hsome0, hnone0, hmem0⟩ :=
      ih mj m1 M1 hc0 (fun s' hs' => hidx s' (by simp [hs'])) he1
    refine ⟨callsOf s x y ++ callsL0, M', hext', ?_, ?_, ?_, ?_, ?_⟩
    · rw [List.cons_append, hbc, hbc0]
      cases backupCalls M' rest downTo with
      | error e => rfl
      | ok r => simp only [List.append_assoc]
    · intro c hc
      rw [List.mem_append] at hc
      cases hc with
      | inr h => exact hidx0 c h
      | inl h =>
        unfold callsOf at h
        simp only [List.mem_cons] at h
        rcases h with rfl | h
        · exact hsj
        · split at h
          · simp only [List.mem_singleton] at h
            subst h; exact hsj
          · cases h
    · intro name f h
      rw [lastCall_append] at h
      cases h0 : lastCall j name callsL0 with
      | some g =>
        rw [h0] at h
        simp only [Option.some.injEq] at h
        subst h
        exact hsome0 name g h0
      | none =>
        rw [h0] at h
        simp only at h
        rw [hnone0 name h0]
        rw [← hsj] at h
        rcases lastCall_callsOf_some h with ⟨hn, rfl⟩ | ⟨hn, rfl⟩
        · rw [get_congr M1 hn]; exact hgf
        · rw [get_congr M1 hn]; exact hgt
    · intro name h
      rw [lastCall_append] at h
      cases h0 : lastCall j name callsL0 with
      | some g => rw [h0] at h; cases h
      | none =>
        rw [h0] at h
        simp only at h
        rw [hnone0 name h0]
        rw [← hsj] at h
        obtain ⟨hn1, hn2⟩ := lastCall_callsOf_none hstep.2.1 h
        exact hframe name hn1 hn2
    · intro s' hs'
      simp only [List.mem_cons] at hs'
      rcases hs' with rfl | hs'
      · refine ⟨x, ?_⟩
        rw [List.mem_append]
        left
        unfold callsOf
        rw [hsj]
        simp
      · obtain ⟨f, hf⟩ := hmem0 s' hs'
        exact ⟨f, by rw [List.mem_append]; exact Or.inr hf⟩

/-! ### the stack left by the first `k` patches -/

def Stack (fs : FS) (cfg : Cfg) (range : List Series.Entry) : Nat → List Status → Mem → Prop
  | 0, applied, _ => applied = []
  | k+1, applied, m => ∃ (L applied' : List Status) (mk : Mem) (t : ATree) (rr : List (Bytes × Bytes)),
      applied = L ++ applied' ∧ (∀ s ∈ L, s.index = k) ∧ Chain fs mk L m ∧
      Stack fs cfg range k applied' mk ∧
      applyRange fs cfg (range.take k) 0 [] = .ok (t, k, rr) ∧ SameTree fs (ofMem mk) t

theorem Stack.ext {fs : FS} {cfg : Cfg} {range : List Series.Entry} {k : Nat} {applied : List Status} {m M : Mem}
    (h : Stack fs cfg range k applied m) (he : Ext fs m M) : Stack fs cfg range k applied M := by
  cases k with
  | zero => exact h
  | succ k =>
    obtain ⟨L, applied', mk, t, rr, h1, h2, h3, h4⟩ := h
    exact ⟨L, applied', mk, t, rr, h1, h2, h3.ext_right he, h4⟩

theorem Stack.index {fs : FS} {cfg : Cfg} {range : List Series.Entry} : ∀ {k : Nat} {applied : List Status} {m : Mem},
    Stack fs cfg range k applied m → ∀ s ∈ applied, s.index < k := by
  intro k
  induction k with
  | zero =>
    intro applied m h s hs
    have : applied = [] := h
    subst this; cases hs
  | succ k ih =>
    intro applied m h s hs
    obtain ⟨L, applied', mk, t, rr, h1, h2, _, h4, _⟩ := h
    subst h1
    rw [List.mem_append] at hs
    cases hs with
    | inl h => rw [h2 s h]; omega
    | inr h => have := ih h4 s h; omega

/-- the calls against the abstract trees -/
theorem stack_calls {fs : FS} {cfg : Cfg} {range : List Series.Entry} {downTo : Nat} :
    ∀ (k : Nat) (applied : List Status) (m M : Mem), Stack fs cfg range k applied m → Ext fs m M →
      ∀ (calls : List Call) (mem' : Mem), backupCalls M applied downTo = .ok (calls, mem') →
      ∀ (j : Nat) (name : Bytes) (f : FileSt Bytes), lastCall j name calls = some f →
        downTo ≤ j ∧ j < k ∧
        ∃ t rr, applyRange fs cfg (range.take j) 0 [] = .ok (t, j, rr) ∧ look t fs name = .ok (absOf f) := by
  intro k
  induction k with
  | zero =>
    intro applied m M hst _ calls mem' hc j name f hlast
    have : applied = [] := hst
    subst this
    rw [backupCalls] at hc
    cases hc
    cases hlast
  | succ k ih =>
    intro applied m M hst hM calls mem' hc j name f hlast
    have hidx := Stack.index hst
    obtain ⟨L, applied', mk, t, rr, h1, h2, h3, h4, h5, h6⟩ := hst
    by_cases hk : k < downTo
    · rw [backupCalls_below M applied downTo (fun s hs => by have := hidx s hs; omega)] at hc
      cases hc
      cases hlast
    · subst h1
      obtain ⟨callsL, M', hext', hbc, hidxL, hsome, _, _⟩ :=
        backupCalls_chain (fs := fs) (downTo := downTo) (j := k) (by omega) applied' L mk m M h3 h2 hM
      rw [hbc] at hc
      cases hrest : backupCalls M' applied' downTo with
      | error e => rw [hrest] at hc; cases hc
      | ok r =>
        obtain ⟨c, mm⟩ := r
        rw [hrest] at hc
        simp only at hc
        cases hc
        rw [lastCall_append] at hlast
        cases h0 : lastCall j name c with
        | some g =>
          rw [h0] at hlast
          simp only [Option.some.injEq] at hlast
          subst hlast
          obtain ⟨a1, a2, a3⟩ := ih applied' mk M' h4 hext' c mem' hrest j name g h0
          exact ⟨a1, by omega, a3⟩
        | none =>
          rw [h0] at hlast
          simp only at hlast
          have hjk : j = k := by
            by_cases hjk : j = k
            · exact hjk
            · rw [lastCall_none_of_index j name callsL (fun c hc => by rw [hidxL c hc]; exact fun e => hjk e.symm)] at hlast
              cases hlast
          subst hjk
          refine ⟨by omega, by omega, t, rr, h5, ?_⟩
          have hg := hsome name f hlast
          have := (Ext.sameTree hext').trans h6 name
          rw [← this, look_ofMem, hg]

/-- the undo for the backups never aborts, and every `Status` in the window gets its call -/
theorem stack_total {fs : FS} {cfg : Cfg} {range : List Series.Entry} {downTo : Nat} :
    ∀ (k : Nat) (applied : List Status) (m M : Mem), Stack fs cfg range k applied m → Ext fs m M →
      ∃ (calls : List Call) (mem' : Mem), backupCalls M applied downTo = .ok (calls, mem') ∧
        ∀ s ∈ applied, downTo ≤ s.index → ∃ f, (s.index, s.patchName, s.target, f) ∈ calls := by
  intro k
  induction k with
  | zero =>
    intro applied m M hst _
    have : applied = [] := hst
    subst this
    exact ⟨[], M, rfl, fun s hs => by cases hs⟩
  | succ k ih =>
    intro applied m M hst hM
    have hidx := Stack.index hst
    obtain ⟨L, applied', mk, t, rr, h1, h2, h3, h4, h5, h6⟩ := hst
    by_cases hk : k < downTo
    · refine ⟨[], M, backupCalls_below M applied downTo (fun s hs => by have := hidx s hs; omega), ?_⟩
      intro s hs hd
      have := hidx s hs
      omega
    · subst h1
      obtain ⟨callsL, M', hext', hbc, _, _, _, hmemL⟩ :=
        backupCalls_chain (fs := fs) (downTo := downTo) (j := k) (by omega) applied' L mk m M h3 h2 hM
      obtain ⟨c, mem', hrest, hmem'⟩ := ih applied' mk M' h4 hext'
      refine ⟨callsL ++ c, mem', ?_, ?_⟩
      · rw [hbc, hrest]
      · intro s hs hd
        rw [List.mem_append] at hs
        cases hs with
        | inl h =>
          obtain ⟨f, hf⟩ := hmemL s h
          rw [h2 s h]
          exact ⟨f, by rw [List.mem_append]; exact Or.inl hf⟩
        | inr h =>
          obtain ⟨f, hf⟩ := hmem' s h hd
          exact ⟨f, by rw [List.mem_append]; exact Or.inr hf⟩

/-! ### the application loop builds a `Stack` -/

theorem applyRange_append_ok (fs : FS) (cfg : Cfg) (more : List Series.Entry) :
    ∀ (done : List Series.Entry) (k0 : Nat) (t0 t : ATree) (rr : List (Bytes × Bytes)),
      applyRange fs cfg done k0 t0 = .ok (t, k0 + done.length, rr) →
      applyRange fs cfg (done ++ more) k0 t0 = applyRange fs cfg more (k0 + done.length) t := by
  intro done
  induction done with
  | nil =>
    intro k0 t0 t rr h
    rw [applyRange] at h
    cases h
    rfl
  | cons e done ih =>
    intro k0 t0 t rr h
    rw [List.cons_append, applyRange]
    rw [applyRange] at h
    cases hpk : patchKey cfg e.name with
    | none => rw [hpk] at h; cases h
    | some pk =>
      rw [hpk] at h
      simp only at h ⊢
      cases hrd : fs.readFile pk with
      | error x => rw [hrd] at h; cases h
      | ok r =>
        obtain ⟨bytes, mode⟩ := r
        rw [hrd] at h
        simp only at h ⊢
        cases hpp : parsePatch bytes e.strip false with
        | error x => rw [hpp] at h; cases h
        | ok patch =>
          rw [hpp] at h
          simp only at h ⊢
          cases hfps : applyFPs fs cfg e patch.fps t0 true [] with
          | error x => rw [hfps] at h; cases h
          | ok r =>
            obtain ⟨t', ok, rejs⟩ := r
            rw [hfps] at h
            simp only at h ⊢
            have harith : k0 + (e :: done).length = (k0 + 1) + done.length := by
              simp only [List.length_cons]; omega
            cases ok with
            | true =>
              simp only [if_true] at h ⊢
              rw [harith] at h ⊢
              exact ih (k0 + 1) t' t rr h
            | false =>
              simp only [Bool.false_eq_true, if_false] at h
              injection h with h
              injection h with _ h
              injection h with h _
              simp only [List.length_cons] at h
              omega

theorem applyLoop_stack {fs : FS} {cfg : Cfg} (range : List Series.Entry) (hd : cfg.dryRun = false) :
    ∀ (rest done : List Series.Entry) (k : Nat) (st st' : St) (t : ATree) (rr : List (Bytes × Bytes))
      (k' : Nat) (rejs : List (Bytes × Bytes)),
      range = done ++ rest → done.length = k → applyRange fs cfg done 0 [] = .ok (t, k, rr) →
      SameTree fs (ofMem st.mem) t → MemDE st.mem → Stack fs cfg range k st.applied st.mem →
      applyLoop fs cfg rest k st = .ok (st', k', rejs) → Stack fs cfg range k' st'.applied st'.mem := by
  intro rest
  induction rest with
  | nil =>
    intro done k st st' t rr k' rejs _ _ _ _ _ hst h
    rw [applyLoop] at h
    cases h
    exact hst
  | cons entry rest ih =>
    intro done k st st' t rr k' rejs hrange hlen hdone hs hde hst h
    rw [applyLoop] at h
    split at h
    · cases h
    · rename_i pk hpk
      split at h
      · cases h
      · rename_i bytes mode hrd
        split at h
        · cases h
        · rename_i patch hpp
          have hw := parsed_wflen hpp
          have hsim := applyFilePatches_sim (fs := fs) (cfg := cfg) (i := k) (entry := entry) patch.fps
            st t false true [] hs hde hw (parsed_rename_new hpp) rfl
          split at h
          · cases h
          · rename_i st1 af happ
            obtain ⟨t', ok', L, hfps, haf, hs1, hde1, happl, hidxL, hchain⟩ := hsim.1 st1 af happ
            have hidx := Stack.index hst
            split at h
            · -- the patch failed: its `Status` are rolled back
              rw [hd] at h
              simp only [Bool.false_eq_true, if_false] at h
              obtain ⟨app1, mem1⟩ := st1
              simp only at happl hs1 hde1 hchain
              subst happl
              rw [rollback_eq k st.applied hidx L _ mem1 [] (by simp only [List.length_append]; omega) hidxL] at h
              obtain ⟨M', hu, hext⟩ := hchain.undoable mem1 (Ext.refl _ _)
              rw [hu] at h
              simp only at h
              cases h
              exact hst.ext hext
            · rename_i hnf
              have hafF : af = false := by simpa using hnf
              subst hafF
              have hok : ok' = true := by
                cases ok' with
                | true => rfl
                | false => simp at haf
              subst hok
              have htake : range.take k = done := by
                rw [hrange, ← hlen]; simp
              have hdone' : applyRange fs cfg (done ++ [entry]) 0 [] = .ok (t', k + 1, []) := by
                have h0 : applyRange fs cfg done 0 [] = .ok (t, 0 + done.length, rr) := by
                  rw [hdone, hlen]; simp
                rw [applyRange_append_ok fs cfg [entry] done 0 [] t rr h0]
                rw [applyRange, hpk]
                simp only
                rw [hrd]
                simp only
                rw [hpp]
                simp only
                rw [hfps]
                simp only [if_true]
                rw [applyRange, hlen]
                simp
              refine ih (done ++ [entry]) (k + 1) st1 st' t' [] k' rejs ?_ ?_ hdone' hs1 hde1 ?_ h
              · rw [hrange]; simp
              · simp [hlen]
              · exact ⟨L, st.applied, st.mem, t, rr, happl, hidxL, hchain, hst, by rw [htake]; exact hdone, hs⟩

end RQ.Abs
