import RQ.Spec.MkDiff
/-! Proofs for `RQ/Spec/MkDiff.lean`: `editScript` is a correct normal-form script, `mkDiff` of a
normal-form script is a `ValidDiff`. -/
set_option linter.unusedSectionVars false
set_option linter.unusedVariables false
namespace RQ
variable {α : Type}

/-! ## the cons operations -/

@[simp] theorem oldOf_consKeep (a : α) (s : List (Seg α)) : oldOf (consKeep a s) = a :: oldOf s := by
  unfold consKeep; split <;> simp [oldOf]
@[simp] theorem newOf_consKeep (a : α) (s : List (Seg α)) : newOf (consKeep a s) = a :: newOf s := by
  unfold consKeep; split <;> simp [newOf]
@[simp] theorem oldOf_consDel (a : α) (s : List (Seg α)) : oldOf (consDel a s) = a :: oldOf s := by
  unfold consDel; split <;> simp [oldOf]
@[simp] theorem newOf_consDel (a : α) (s : List (Seg α)) : newOf (consDel a s) = newOf s := by
  unfold consDel; split <;> simp [newOf]
@[simp] theorem oldOf_consIns (b : α) (s : List (Seg α)) : oldOf (consIns b s) = oldOf s := by
  unfold consIns; split <;> simp [oldOf]
@[simp] theorem newOf_consIns (b : α) (s : List (Seg α)) : newOf (consIns b s) = b :: newOf s := by
  unfold consIns; split <;> simp [newOf]

@[simp] theorem oldOf_tailSeg (A B : List α) : oldOf (tailSeg A B) = A := by
  unfold tailSeg; split <;> simp [oldOf]
@[simp] theorem newOf_tailSeg (A B : List α) : newOf (tailSeg A B) = B := by
  unfold tailSeg; split <;> simp [newOf]

theorem NF_consKeep (a : α) (s : List (Seg α)) (h : NF s) : NF (consKeep a s) := by
  match s, h with
  | [], _ => simp [consKeep, NF]
  | .keep ls :: r, h => exact ⟨by simp, h.2.1, h.2.2⟩
  | .change d i :: r, h => exact ⟨by simp, trivial, h⟩

theorem NF_consDel (a : α) (s : List (Seg α)) (h : NF s) : NF (consDel a s) := by
  match s, h with
  | [], _ => simp [consDel, NF]
  | .keep ls :: r, h => exact ⟨by simp, trivial, h⟩
  | .change d i :: r, h => exact ⟨by simp, h.2.1, h.2.2⟩

theorem NF_consIns (b : α) (s : List (Seg α)) (h : NF s) : NF (consIns b s) := by
  match s, h with
  | [], _ => simp [consIns, NF]
  | .keep ls :: r, h => exact ⟨by simp, trivial, h⟩
  | .change d i :: r, h => exact ⟨by simp, h.2.1, h.2.2⟩

theorem NF_tailSeg (A B : List α) : NF (tailSeg A B) := by
  unfold tailSeg
  split
  · trivial
  · rename_i h
    refine ⟨?_, trivial, trivial⟩
    cases A <;> cases B <;> simp at h ⊢

/-! ## the walk: any table gives a correct normal-form script -/

theorem walk_old [DecidableEq α] (T : Nat → Nat → Nat) (fuel : Nat) :
    ∀ (i j : Nat) (A B : List α), oldOf (walk T fuel i j A B) = A := by
  induction fuel with
  | zero => intro i j A B; simp [walk]
  | succ n ih =>
    intro i j A B
    match A, B with
    | [], B => simp [walk]
    | a :: as, [] => simp [walk]
    | a :: as, b :: bs =>
      simp only [walk]
      split
      · simp [ih]
      · split <;> simp [ih]

theorem walk_new [DecidableEq α] (T : Nat → Nat → Nat) (fuel : Nat) :
    ∀ (i j : Nat) (A B : List α), newOf (walk T fuel i j A B) = B := by
  induction fuel with
  | zero => intro i j A B; simp [walk]
  | succ n ih =>
    intro i j A B
    match A, B with
    | [], B => simp [walk]
    | a :: as, [] => simp [walk]
    | a :: as, b :: bs =>
      simp only [walk]
      split
      · rename_i h; simp [ih, h]
      · split <;> simp [ih]

theorem walk_NF [DecidableEq α] (T : Nat → Nat → Nat) (fuel : Nat) :
    ∀ (i j : Nat) (A B : List α), NF (walk T fuel i j A B) := by
  induction fuel with
  | zero => intro i j A B; simp only [walk]; exact NF_tailSeg A B
  | succ n ih =>
    intro i j A B
    match A, B with
    | [], B => simp only [walk]; exact NF_tailSeg _ _
    | a :: as, [] => simp only [walk]; exact NF_tailSeg _ _
    | a :: as, b :: bs =>
      simp only [walk]
      split
      · exact NF_consKeep _ _ (ih _ _ _ _)
      · split
        · exact NF_consDel _ _ (ih _ _ _ _)
        · exact NF_consIns _ _ (ih _ _ _ _)

theorem editScript_old [DecidableEq α] (A B : List α) : oldOf (editScript A B) = A := walk_old _ _ _ _ _ _
theorem editScript_new [DecidableEq α] (A B : List α) : newOf (editScript A B) = B := walk_new _ _ _ _ _ _
theorem editScript_NF [DecidableEq α] (A B : List α) : NF (editScript A B) := walk_NF _ _ _ _ _ _

/-! ## merging close changes -/

/-- after `mergeSmall c`: a keep between two changes has more than `2*c` lines -/
def Wide (c : Nat) : List (Seg α) → Prop
  | [] => True
  | .keep _ :: r => Wide c r
  | .change _ _ :: r =>
    (match r with | .keep ls :: .change _ _ :: _ => 2 * c < ls.length | _ => True) ∧ Wide c r

@[simp] theorem oldOf_absorb (c : Nat) (d i : List α) (t : List (Seg α)) :
    oldOf (absorb c d i t) = d ++ oldOf t := by
  unfold absorb; split
  · split <;> simp [oldOf]
  · simp [oldOf]
  · simp [oldOf]

@[simp] theorem newOf_absorb (c : Nat) (d i : List α) (t : List (Seg α)) :
    newOf (absorb c d i t) = i ++ newOf t := by
  unfold absorb; split
  · split <;> simp [newOf]
  · simp [newOf]
  · simp [newOf]

theorem mergeSmall_old (c : Nat) (s : List (Seg α)) : oldOf (mergeSmall c s) = oldOf s := by
  induction s with
  | nil => rfl
  | cons x r ih => cases x <;> simp [mergeSmall, oldOf, ih]

theorem mergeSmall_new (c : Nat) (s : List (Seg α)) : newOf (mergeSmall c s) = newOf s := by
  induction s with
  | nil => rfl
  | cons x r ih => cases x <;> simp [mergeSmall, newOf, ih]

theorem NF_absorb (c : Nat) (d i : List α) (t : List (Seg α)) (hdi : d ≠ [] ∨ i ≠ []) (h : NF t) :
    NF (absorb c d i t) := by
  unfold absorb; split
  · rename_i ls d' i' t'
    split
    · refine ⟨?_, h.2.2.2.1, h.2.2.2.2⟩
      rcases hdi with hd | hi
      · left; simp [hd]
      · right; simp [hi]
    · exact ⟨hdi, trivial, h⟩
  · rename_i d' i' t'
    refine ⟨?_, h.2.1, h.2.2⟩
    rcases hdi with hd | hi
    · left; simp [hd]
    · right; simp [hi]
  · rename_i h1 h2
    refine ⟨hdi, ?_, h⟩
    split
    · rename_i d' i' t'; exact h2 d' i' t' rfl
    · trivial

theorem absorb_head (c : Nat) (d i : List α) (t : List (Seg α)) :
    ∃ d' i' t', absorb c d i t = .change d' i' :: t' := by
  unfold absorb; split
  · split <;> exact ⟨_, _, _, rfl⟩
  · exact ⟨_, _, _, rfl⟩
  · exact ⟨_, _, _, rfl⟩

/-- `mergeSmall c s` does not start with a keep unless `s` does -/
theorem mergeSmall_head_keep (c : Nat) (s : List (Seg α)) :
    (match s with | .keep _ :: _ => False | _ => True) →
    (match mergeSmall c s with | .keep _ :: _ => False | _ => True) := by
  intro h
  match s, h with
  | [], _ => simp [mergeSmall]
  | .change d i :: r, _ =>
    simp only [mergeSmall]
    obtain ⟨d', i', t', he⟩ := absorb_head c d i (mergeSmall c r)
    rw [he]; trivial

theorem mergeSmall_NF (c : Nat) (s : List (Seg α)) (h : NF s) : NF (mergeSmall c s) := by
  induction s with
  | nil => trivial
  | cons x r ih =>
    cases x with
    | keep ls => exact ⟨h.1, mergeSmall_head_keep c r h.2.1, ih h.2.2⟩
    | change d i => exact NF_absorb c d i _ h.1 (ih h.2.2)

theorem Wide_absorb (c : Nat) (d i : List α) (t : List (Seg α)) (h : Wide c t) :
    Wide c (absorb c d i t) := by
  unfold absorb; split
  · rename_i ls d' i' t'
    split
    · exact h
    · rename_i hl
      exact ⟨by simpa using hl, h⟩
  · rename_i d' i' t'
    exact h
  · rename_i h1 h2
    refine ⟨?_, h⟩
    split
    · rename_i ls d' i' t'; exact absurd rfl (h1 ls d' i' t')
    · trivial

theorem mergeSmall_Wide (c : Nat) (s : List (Seg α)) : Wide c (mergeSmall c s) := by
  induction s with
  | nil => trivial
  | cons x r ih =>
    cases x with
    | keep ls => exact ih
    | change d i => exact Wide_absorb c d i _ ih

/-! ## one hunk per change -/

theorem take_drop_assoc (n : Nat) (l X : List α) : l.take n ++ (l.drop n ++ X) = l ++ X := by
  rw [← List.append_assoc, List.take_append_drop]

theorem emit_valid (c : Nat) : ∀ (s : List (Seg α)) (gap : Bool) (pa pb : Nat) (lead : List α),
    NF s → Wide c s → (gap = true → lead ≠ [] ∨ headKeep s ≠ []) →
    ValidFrom gap pa pb (lead ++ oldOf s) (lead ++ newOf s) (emit c pa pb lead s) := by
  intro s
  induction s with
  | nil => intro gap pa pb lead _ _ _; simp [oldOf, newOf, emit, ValidFrom]
  | cons x r ih =>
    intro gap pa pb lead hnf hw hg
    cases x with
    | keep ls =>
      simp only [oldOf, newOf, emit]
      rw [← List.append_assoc, ← List.append_assoc]
      refine ih gap pa pb (lead ++ ls) hnf.2.2 hw ?_
      intro _; left; simp [hnf.1]
    | change d i =>
      have hlead : gap = true → lead ≠ [] := by
        intro h; rcases hg h with h | h
        · exact h
        · exact absurd rfl h
      have hGP : pa + (lead.take (lead.length - c)).length + (lead.drop (lead.length - c)).length
          = pa + lead.length := by
        simp only [List.length_take, List.length_drop]; omega
      have hGPb : pb + (lead.take (lead.length - c)).length + (lead.drop (lead.length - c)).length
          = pb + lead.length := by
        simp only [List.length_take, List.length_drop]; omega
      have hG : (lead.take (lead.length - c)).length = lead.length - c := by
        simp only [List.length_take]; omega
      have hP : (lead.drop (lead.length - c)).length ≤ c := by
        simp only [List.length_drop]; omega
      match r, hnf, hw, ih with
      | [], hnf, hw, ih =>
        refine ⟨lead.take (lead.length - c), lead.drop (lead.length - c), d, i, [], [], [],
          ?_, ?_, ?_, ?_, ?_, ?_, ?_, ?_, hnf.1, ?_, ?_, ?_⟩
        · simp [oldOf]
        · simp [newOf]
        · simp [headKeep]
        · simp [headKeep]
        · rfl
        · simp [headKeep]
        · simp only [hG]
        · simp only [hG]
        · intro h; simpa using hlead h
        · intro _; exact ⟨rfl, rfl⟩
        · simp [emit, ValidFrom]
      | .change d' i' :: r', hnf, hw, ih => exact absurd hnf.2.1 (by simp)
      | .keep ls :: r', hnf, hw, ih =>
        refine ⟨lead.take (lead.length - c), lead.drop (lead.length - c), d, i, ls.take c,
          ls.drop c ++ oldOf r', ls.drop c ++ newOf r',
          ?_, ?_, ?_, ?_, ?_, ?_, ?_, ?_, hnf.1, ?_, ?_, ?_⟩
        · simp only [oldOf, List.append_assoc, take_drop_assoc]
        · simp only [newOf, List.append_assoc, take_drop_assoc]
        · simp [headKeep]
        · simp [headKeep]
        · rfl
        · simp [headKeep]
        · simp only [hG]
        · simp only [hG]
        · intro h; simpa using hlead h
        · intro hps
          have hps' : (lead.drop (lead.length - c)).length > (ls.take c).length := hps
          have hls : ls.length < c := by
            simp only [List.length_take] at hps'; omega
          match r', hnf, hw with
          | [], _, _ => simp [oldOf, newOf, List.drop_eq_nil_of_le (Nat.le_of_lt hls)]
          | .keep ls' :: r'', hnf, _ => exact absurd hnf.2.2.2.1 (by simp)
          | .change d' i' :: r'', _, hw =>
            have : 2 * c < ls.length := hw.1
            omega
        · have h := ih true (pa + lead.length + d.length) (pb + lead.length + i.length) []
            hnf.2.2 hw.2 (by intro _; right; simpa [headKeep] using hnf.2.2.1)
          rw [hGP, hGPb]
          simpa [oldOf, newOf, ← List.append_assoc] using h

/-- no hunk carries more than `c` lines of leading or trailing context -/
theorem emit_context_le (c : Nat) : ∀ (s : List (Seg α)) (pa pb : Nat) (lead : List α),
    ∀ h ∈ emit c pa pb lead s, h.pre ≤ c ∧ h.suf ≤ c := by
  intro s
  induction s with
  | nil => intro pa pb lead h hh; simp [emit] at hh
  | cons x r ih =>
    intro pa pb lead h hh
    cases x with
    | keep ls => exact ih _ _ _ h hh
    | change d i =>
      simp only [emit, List.mem_cons] at hh
      rcases hh with rfl | hh
      · simp only [List.length_drop, List.length_take]; omega
      · exact ih _ _ _ h hh

theorem mkDiff_context_le (c : Nat) (s : List (Seg α)) : ∀ h ∈ mkDiff c s, h.pre ≤ c ∧ h.suf ≤ c :=
  emit_context_le c _ _ _ _

theorem mkDiff_valid_script (c : Nat) (s : List (Seg α)) (h : NF s) :
    ValidDiff (oldOf s) (newOf s) (mkDiff c s) := by
  have := emit_valid c (mergeSmall c s) false 0 0 [] (mergeSmall_NF c s h) (mergeSmall_Wide c s)
    (by intro h; cases h)
  simpa [mergeSmall_old, mergeSmall_new, ValidDiff, mkDiff] using this

/-- **the diff function produces unified diffs**: for all files `A`, `B` and every context width `c` -/
theorem mkDiff_valid [DecidableEq α] (c : Nat) (A B : List α) :
    ValidDiff A B (mkDiff c (editScript A B)) := by
  have := mkDiff_valid_script c (editScript A B) (editScript_NF A B)
  rwa [editScript_old, editScript_new] at this

end RQ
