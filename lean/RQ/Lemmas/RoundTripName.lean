import RQ.Lemmas.RoundTripLine
/-! C12 layer 3: `parseFilename` inverts `writeName`. -/
namespace RQ.Write
open RQ RQ.Parse

/-- the escaping of one byte inside a quoted name -/
def escByte (c : UInt8) : Bytes :=
  if c == 34 || c == 92 then [92, c]
  else if isWhitespace c then 92 :: oct3 c.toNat
  else [c]

theorem writeName_quoted (n : Bytes) (h : (!n.isEmpty && n.head? != some 34 && !n.any isWhitespace) = false) :
    writeName n = 34 :: ((n.map escByte).flatten ++ [34]) := by
  unfold writeName
  simp only [h, Bool.false_eq_true, if_false]
  rfl

theorem ws_cases (c : UInt8) (h : isWhitespace c = true) : c = 32 ∨ c = 12 ∨ c = 10 ∨ c = 13 ∨ c = 9 ∨ c = 11 := by
  simp only [isWhitespace, Bool.or_eq_true, beq_iff_eq] at h
  rcases h with ((((h|h)|h)|h)|h)|h <;> simp [h]

theorem cStringLoop_esc (c : UInt8) (f : Nat) (tail acc : Bytes) :
    cStringLoop (f+1) (escByte c ++ tail) acc = cStringLoop f tail (acc ++ [c]) := by
  by_cases h1 : c = 34
  · subst h1; rfl
  by_cases h2 : c = 92
  · subst h2; rfl
  by_cases h3 : isWhitespace c = true
  · rcases ws_cases c h3 with rfl | rfl | rfl | rfl | rfl | rfl <;> rfl
  · have e : escByte c = [c] := by simp [escByte, h1, h2, h3]
    have h4 : c ≠ 10 := by intro e; subst e; exact h3 (by decide)
    rw [e]
    simp only [List.cons_append, List.nil_append]
    simp [cStringLoop, h1, h2, h4, NL]

theorem cStringLoop_written : ∀ (n : Bytes) (f : Nat) (rest acc : Bytes), n.length < f →
    cStringLoop f ((n.map escByte).flatten ++ 34 :: rest) acc = .ok (rest, acc ++ n) := by
  intro n
  induction n with
  | nil =>
    intro f rest acc hf
    obtain ⟨f', rfl⟩ : ∃ f', f = f' + 1 := ⟨f - 1, by omega⟩
    simp [cStringLoop]
  | cons c n ih =>
    intro f rest acc hf
    obtain ⟨f', rfl⟩ : ∃ f', f = f' + 1 := ⟨f - 1, by omega⟩
    simp only [List.map_cons, List.flatten_cons, List.append_assoc]
    rw [cStringLoop_esc, ih f' rest (acc ++ [c]) (by simp at hf; omega)]
    simp

theorem escByte_length (c : UInt8) : 1 ≤ (escByte c).length := by
  unfold escByte; split
  · simp
  · split <;> simp

theorem esc_length (n : Bytes) : n.length ≤ ((n.map escByte).flatten).length := by
  induction n with
  | nil => simp
  | cons c n ih =>
    have := escByte_length c
    simp only [List.map_cons, List.flatten_cons, List.length_append, List.length_cons]
    omega

theorem parseCString_written (n rest : Bytes) :
    parseCString (34 :: ((n.map escByte).flatten ++ 34 :: rest)) = .ok (rest, n) := by
  unfold parseCString
  have := cStringLoop_written n (((n.map escByte).flatten ++ 34 :: rest).length + 1) rest []
    (by have := esc_length n; simp only [List.length_append, List.length_cons]; omega)
  simpa using this

theorem ws_not_space (b : UInt8) (h : isWhitespace b = false) : isSpace b = false := by
  revert h
  exact forall_uint8 (fun b => isWhitespace b = false → isSpace b = false) (by decide +kernel) b

theorem parseFilename_writeName (n rest : Bytes) (hn : n ≠ nullFilename) (hr : Stops isWhitespace rest) :
    parseFilename (writeName n ++ rest) = .ok (rest, .real n) := by
  have hnb : (n == nullFilename) = false := by simpa using hn
  by_cases hq : (!n.isEmpty && n.head? != some 34 && !n.any isWhitespace) = true
  · -- unquoted
    have e : writeName n = n := by unfold writeName; rw [if_pos hq]
    rw [e]
    simp only [Bool.and_eq_true, Bool.not_eq_true', bne_iff_ne, ne_eq] at hq
    obtain ⟨⟨h1, h2⟩, h3⟩ := hq
    cases n with
    | nil => simp at h1
    | cons b t =>
      have hb34 : b ≠ 34 := by simpa using h2
      have hws : ∀ x ∈ b :: t, isWhitespace x = false := by
        intro x hx
        rw [List.any_eq_false] at h3
        simpa using h3 x hx
      have hbs : isSpace b = false := ws_not_space b (hws b (by simp))
      unfold parseFilename
      rw [splitAtCond_stop (fun c => !isSpace c) _ (by simp only [List.cons_append]; exact Stops_cons _ _ _ (by simp [hbs]))]
      have hc : parseCString (b :: t ++ rest) = .error .noMatch := by
        unfold parseCString
        simp only [List.cons_append]
        split
        · rename_i r he; cases he; exact absurd rfl hb34
        · rfl
      simp only [hc]
      unfold parseFilenameDirect
      rw [splitAtCond_append isWhitespace (b :: t) rest hws hr]
      simp [hnb]
  · -- quoted
    have hq' : (!n.isEmpty && n.head? != some 34 && !n.any isWhitespace) = false := by simpa using hq
    rw [writeName_quoted n hq']
    unfold parseFilename
    rw [splitAtCond_stop (fun c => !isSpace c) _ (by simp only [List.cons_append]; exact Stops_cons _ _ _ (by decide))]
    have : (34 :: ((n.map escByte).flatten ++ [34]) ++ rest) = 34 :: ((n.map escByte).flatten ++ 34 :: rest) := by simp
    simp only [this, parseCString_written, hnb]
    rfl

end RQ.Write
