import RQ.Lemmas.RefineStep
import RQ.Lemmas.ApplySplit
/-! Helper lemmas for C05, part 5: `applyOne` simulates `applyFP`. -/
namespace RQ.Abs
open RQ RQ.Push RQ.Spec RQ.Parse RQ.Write

theorem rejsOf_single (s : Status) :
    rejsOf [s] = (if s.report.ok then none else some (makeRejName s.target, writeRej s.fp s.report) : Option _).toList := by
  simp only [rejsOf, List.flatMap_cons, List.flatMap_nil, List.append_nil, rejOf, Report.ok]
  by_cases hf : s.report.failed = true <;> simp [hf]

theorem moveIn_none {self other : FileSt Bytes} (h : moveIn self other = none) :
    (!self.content.isEmpty && !self.deleted) = true := by
  unfold moveIn at h
  split at h
  · assumption
  · cases h

theorem moveIn_some {self other r : FileSt Bytes} (h : moveIn self other = some r) :
    (!self.content.isEmpty && !self.deleted) = false ∧
      r = { self with content := other.content, deleted := false, perms := other.perms } := by
  unfold moveIn at h
  split at h
  · cases h
  · rename_i hc
    cases h
    exact ⟨by simpa using hc, rfl⟩

theorem applyCore_ok_sim {fs : FS} {st st' : St} {t : ATree} {cfg : Cfg} {i : Nat} {entry : Series.Entry}
    {fp : PFilePatch} {b : Bool}
    (hs : SameTree fs (ofMem st.mem) t) (hde : MemDE st.mem) (hw : fp.WFlen)
    (h : applyCore st fs cfg i entry fp = .ok (st', b)) :
    ∃ r, applyFP t fs cfg entry fp = .ok r ∧ b = r.ok ∧ SameTree fs (ofMem st'.mem) r.tree ∧ MemDE st'.mem ∧
      ∃ L, st'.applied = L ++ st.applied ∧ (∀ s ∈ L, s.index = i) ∧ Chain fs st.mem L st'.mem ∧
        rejsOf L = r.rej.toList := by
  unfold applyCore at h
  split at h
  · cases h
  · rename_i hns
    have hns : namesSafe fp = true := by simpa using hns
    split at h
    · cases h
    · rename_i target hch
      have hchA : chooseA t fs fp.old fp.new = some target := by
        rw [← chooseA_sameTree hs, ← choose_eq]; exact hch
      split at h
      · cases h
      · rename_i mem file hload
        obtain ⟨hlook, hs1, hext1, hget1, hde1⟩ := getOrLoad_ok_look hs hload
        obtain ⟨hdemem, hdefile⟩ := hde1 hde
        simp only at h
        split at h
        · rename_i hren
          split at h
          · cases h
          · rename_i newName hnew
            simp only [moveOut] at h
            have hs1' : SameTree fs (ofMem (mem.put target { file with content := [], deleted := true, perms := none }))
                (put t target { content := [], deleted := true, perms := none }) := by
              rw [ofMem_put]; exact hs1.put _ _
            have hdemem1 : MemDE (mem.put target { file with content := [], deleted := true, perms := none }) :=
              hdemem.put _ (fun _ => rfl)
            split at h
            · cases h
            · rename_i mem2 newFile hload2
              obtain ⟨hlook2, hs2, hext2, hget2, hde2⟩ := getOrLoad_ok_look hs1' hload2
              obtain ⟨hdemem2, hdenew⟩ := hde2 hdemem1
              have hgt2 : mem2.get target = some { file with content := [], deleted := true, perms := none } :=
                hext2.1 _ _ (get_put_self _ _ _)
              split at h
              · -- refused
                rename_i hmi
                have href := moveIn_none hmi
                rw [hgt2] at h
                simp only [moveIn, List.isEmpty_nil, Bool.not_true, Bool.false_and, Bool.false_eq_true, if_false] at h
                injection h with h
                injection h with h1 h2
                subst h1; subst h2
                have hext : Ext fs st.mem (mem2.put target file) := ext_put_back hext1 hget1 hext2
                refine ⟨_, applyFP_ren_refused hns hchA hlook hren hnew hlook2 href, rfl, ?_, ?_, [], rfl, ?_, ?_, rfl⟩
                · exact (Ext.sameTree hext).trans hs
                · exact hdemem2.put _ hdefile
                · intro s hs; cases hs
                · exact hext
              · rename_i moved hmi
                obtain ⟨href, hmoved⟩ := moveIn_some hmi
                subst hmoved
                simp only at h
                split at h
                · cases h
                · rename_i f' rep happ
                  injection h with h
                  injection h with h1 h2
                  subst h1; subst h2
                  have hnf : newFile.content = [] := by
                    cases hd : newFile.deleted with
                    | true => exact hdenew hd
                    | false =>
                      rw [hd] at href
                      simpa using href
                  refine ⟨_, applyFP_ren_ok hns hchA hlook hren hnew hlook2 href (apply_concr happ), rfl, ?_, ?_,
                    [_], rfl, ?_, ?_, rejsOf_single _⟩
                  · show SameTree fs (ofMem (mem2.put newName f')) _
                    rw [ofMem_put]; exact hs2.put _ _
                  · exact hdemem2.put _ (apply_DE (fun hd => by cases hd) happ)
                  · intro s hs
                    simp only [List.mem_singleton] at hs
                    subst hs; rfl
                  · exact Chain.single <| undo_rename (fs := fs) (m := st.mem) (mem := mem) (mem2 := mem2) (file := file)
                      (newFile := newFile) (f' := f')
                      { index := i, fp := fp, target := target, final := newName, report := rep,
                        patchName := entry.name,
                        beforeRename := some (file.deleted, newFile.deleted, newFile.perms) }
                      hext1 hget1 hext2 hget2 hnf hw happ rfl hren hnew
        · rename_i hren
          have hren : fp.rename = false := by simpa using hren
          split at h
          · cases h
          · rename_i f' rep happ
            injection h with h
            injection h with h1 h2
            subst h1; subst h2
            refine ⟨_, applyFP_plain hns hchA hlook hren (apply_concr happ), rfl, ?_, ?_, [_], rfl, ?_, ?_,
              rejsOf_single _⟩
            · show SameTree fs (ofMem (mem.put target f')) _
              rw [ofMem_put]; exact hs1.put _ _
            · exact hdemem.put _ (apply_DE hdefile happ)
            · intro s hs
              simp only [List.mem_singleton] at hs
              subst hs; rfl
            · exact Chain.single <| undo_plain (fs := fs) (m := st.mem) (mem := mem) (file := file) (f' := f')
                { index := i, fp := fp, target := target, final := target, report := rep,
                  patchName := entry.name, beforeRename := none }
                hext1 hget1 hw happ rfl hren rfl

theorem applyCore_err_sim {fs : FS} {st : St} {t : ATree} {cfg : Cfg} {i : Nat} {entry : Series.Entry}
    {fp : PFilePatch} {e : Fail}
    (hs : SameTree fs (ofMem st.mem) t)
    (h : applyCore st fs cfg i entry fp = .error e) : applyFP t fs cfg entry fp = .error e := by
  unfold applyCore at h
  split at h
  · rename_i hns
    have hns : namesSafe fp = false := by simpa using hns
    cases h
    exact applyFP_unsafe hns
  · rename_i hns
    have hns : namesSafe fp = true := by simpa using hns
    split at h
    · rename_i hch
      cases h
      apply applyFP_nochoice hns
      rw [← chooseA_sameTree hs, ← choose_eq]; exact hch
    · rename_i target hch
      have hchA : chooseA t fs fp.old fp.new = some target := by
        rw [← chooseA_sameTree hs, ← choose_eq]; exact hch
      split at h
      · rename_i e' hload
        cases h
        obtain ⟨rfl, u, hl⟩ := getOrLoad_err_look hs hload
        exact applyFP_look_err hns hchA hl
      · rename_i mem file hload
        obtain ⟨hlook, hs1, hext1, hget1, _⟩ := getOrLoad_ok_look hs hload
        simp only at h
        split at h
        · rename_i hren
          split at h
          · rename_i hnew
            cases h
            exact applyFP_ren_nonew hns hchA hlook hren hnew
          · rename_i newName hnew
            simp only [moveOut] at h
            have hs1' : SameTree fs (ofMem (mem.put target { file with content := [], deleted := true, perms := none }))
                (put t target { content := [], deleted := true, perms := none }) := by
              rw [ofMem_put]; exact hs1.put _ _
            split at h
            · rename_i e' hload2
              cases h
              obtain ⟨rfl, u, hl2⟩ := getOrLoad_err_look hs1' hload2
              exact applyFP_ren_look_err hns hchA hlook hren hnew hl2
            · rename_i mem2 newFile hload2
              obtain ⟨hlook2, hs2, hext2, hget2, _⟩ := getOrLoad_ok_look hs1' hload2
              have hgt2 : mem2.get target = some { file with content := [], deleted := true, perms := none } :=
                hext2.1 _ _ (get_put_self _ _ _)
              split at h
              · rw [hgt2] at h
                simp only [moveIn, List.isEmpty_nil, Bool.not_true, Bool.false_and, Bool.false_eq_true, if_false] at h
                cases h
              · rename_i moved hmi
                obtain ⟨href, hmoved⟩ := moveIn_some hmi
                subst hmoved
                simp only at h
                split at h
                · rename_i happ
                  cases h
                  exact applyFP_ren_none hns hchA hlook hren hnew hlook2 href (apply_concr_none happ)
                · cases h
        · rename_i hren
          have hren : fp.rename = false := by simpa using hren
          split at h
          · rename_i happ
            cases h
            exact applyFP_plain_none hns hchA hlook hren (apply_concr_none happ)
          · cases h

/-! ### the pre-load of a renaming patch is invisible through `look` -/

theorem preLoad_look {fs : FS} {m mem0 : Mem} {t : ATree} {fp : PFilePatch}
    (hs : SameTree fs (ofMem m) t) (hde : MemDE m) (h : preLoad m fs fp = .ok mem0) :
    SameTree fs (ofMem mem0) t ∧ Ext fs m mem0 ∧ MemDE mem0 := by
  rcases preLoad_ok h with rfl | ⟨n, f, _, _, hl⟩
  · exact ⟨hs, Ext.refl _ _, hde⟩
  · obtain ⟨_, hs1, hext, _, hde1⟩ := getOrLoad_ok_look hs hl
    exact ⟨hs1, hext, (hde1 hde).1⟩

/-- a renaming patch whose new file cannot be loaded is refused by the abstract tree as well: either the
file to patch cannot be loaded, or (the old file being emptied changes nothing about it) the new one -/
theorem applyFP_new_look_err {t : ATree} {fs : FS} {cfg : Cfg} {entry : Series.Entry} {fp : PFilePatch}
    {newName : Bytes} {u : Unit} (hns : namesSafe fp = true) (hren : fp.rename = true)
    (hnew : fp.new = some newName) (hl : look t fs newName = .error u) :
    applyFP t fs cfg entry fp = .error .err := by
  cases hch : chooseA t fs fp.old fp.new with
  | none =>
    rw [hnew] at hch
    cases hold : fp.old with
    | none => rw [hold] at hch; cases hch
    | some o =>
      rw [hold, chooseA_some] at hch
      split at hch
      · cases hch
      · split at hch <;> cases hch
  | some target =>
    cases hlt : look t fs target with
    | error u' => exact applyFP_look_err hns hch hlt
    | ok a =>
      apply applyFP_ren_look_err (u := u) hns hch hlt hren hnew
      rw [look_put]
      split
      · rename_i hk
        have hk : components newName = components target := by simpa using hk
        rw [look_congr t fs hk, hlt] at hl
        cases hl
      · exact hl

theorem applyOne_ok_sim {fs : FS} {st st' : St} {t : ATree} {cfg : Cfg} {i : Nat} {entry : Series.Entry}
    {fp : PFilePatch} {b : Bool}
    (hs : SameTree fs (ofMem st.mem) t) (hde : MemDE st.mem) (hw : fp.WFlen)
    (h : applyOne st fs cfg i entry fp = .ok (st', b)) :
    ∃ r, applyFP t fs cfg entry fp = .ok r ∧ b = r.ok ∧ SameTree fs (ofMem st'.mem) r.tree ∧ MemDE st'.mem ∧
      ∃ L, st'.applied = L ++ st.applied ∧ (∀ s ∈ L, s.index = i) ∧ Chain fs st.mem L st'.mem ∧
        rejsOf L = r.rej.toList := by
  obtain ⟨mem0, hp, hc⟩ := applyOne_ok_split h
  obtain ⟨hs0, hext0, hde0⟩ := preLoad_look hs hde hp
  obtain ⟨r, hr, hb, hs1, hde1, L, happ, hidx, hch, hrej⟩ :=
    applyCore_ok_sim (st := { st with mem := mem0 }) hs0 hde0 hw hc
  exact ⟨r, hr, hb, hs1, hde1, L, happ, hidx, Chain.ext_left hext0 hch, hrej⟩

/-- `hrn`: a renaming patch has a new name (true of every parsed patch, `C11_wf`); without it the driver
panics at once where the abstract tree may first fail to load the file to patch -/
theorem applyOne_err_sim {fs : FS} {st : St} {t : ATree} {cfg : Cfg} {i : Nat} {entry : Series.Entry}
    {fp : PFilePatch} {e : Fail}
    (hs : SameTree fs (ofMem st.mem) t) (hde : MemDE st.mem) (hrn : fp.rename = true → fp.new.isSome)
    (h : applyOne st fs cfg i entry fp = .error e) : applyFP t fs cfg entry fp = .error e := by
  rcases applyOne_err_split h with ⟨hns, rfl⟩ | ⟨hns, hp⟩ | ⟨mem0, hp, hc⟩
  · exact applyFP_unsafe hns
  · obtain ⟨hren, ⟨hnew, _⟩ | ⟨n, hnew, hl⟩⟩ := preLoad_err hp
    · have := hrn hren
      rw [hnew] at this
      cases this
    · obtain ⟨rfl, u, hlk⟩ := getOrLoad_err_look hs hl
      exact applyFP_new_look_err hns hren hnew hlk
  · obtain ⟨hs0, _, _⟩ := preLoad_look hs hde hp
    exact applyCore_err_sim (st := { st with mem := mem0 }) hs0 hc

end RQ.Abs
