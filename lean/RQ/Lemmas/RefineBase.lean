import RQ.Spec.Abs
import RQ.Props.C04
import RQ.Props.C11
import RQ.Lemmas.PathLemmas
/-! Helper lemmas for C05, part 1: names and keys, `Mem.get`/`Mem.put`, `look`/`put`/`ofMem`, `SameTree`. -/
namespace RQ.Abs
open RQ RQ.Push RQ.Spec

/-! ### names with the same components -/

theorem components_eq_nil {raw : Bytes} (h : components raw = []) : raw = [] := by
  cases raw with
  | nil => rfl
  | cons b bs =>
    exfalso
    by_cases hb : b = SEP
    · subst hb; rw [components_sep] at h; cases h
    · cases hi : includeCurDir (b :: bs) with
      | true => rw [components_cur b bs hi] at h; cases h
      | false =>
        have hp : Plain (b :: bs) := ⟨by simpa using hb, hi⟩
        rw [components_plain _ hp, FM_take, takePiece_cons_ne b bs hb] at h
        simp only at h
        cases hc : compOfPiece (b :: (takePiece bs).1) with
        | some c => rw [hc] at h; simp at h
        | none =>
          rcases compOfPiece_none hc with h1 | h1
          · cases h1
          · simp only [List.cons.injEq] at h1
            obtain ⟨rfl, h2⟩ := h1
            rcases takePiece_spec bs with ⟨_, h3⟩ | ⟨_, h3, _⟩
            · rw [h2] at h3
              rw [h3] at hi
              simp [includeCurDir] at hi
            · rw [h2] at h3
              rw [h3] at hi
              simp [includeCurDir] at hi

theorem safeKey_congr {n n' : Bytes} (h : components n' = components n) : safeKey n' = safeKey n := by
  have he : n'.isEmpty = n.isEmpty := by
    cases n with
    | nil =>
      have := components_eq_nil (raw := n') (by rw [h]; rfl)
      subst this; rfl
    | cons b bs =>
      cases n' with
      | nil =>
        have := components_eq_nil (raw := b :: bs) (by rw [← h]; rfl)
        cases this
      | cons _ _ => rfl
  unfold safeKey
  rw [he, h]

theorem loadTree_congr (fs : FS) {n n' : Bytes} (h : components n' = components n) :
    loadTree fs n' = loadTree fs n := by
  unfold loadTree
  rw [safeKey_congr h]

/-- `loadTree` agrees with `Path::exists` on whether the file is there -/
theorem loadTree_exists {fs : FS} {o : Bytes} {f : FileSt Bytes} (h : loadTree fs o = .ok f) :
    (match safeKey o with | some k => fs.exists_ k | none => false) = !f.deleted := by
  unfold loadTree at h
  cases hk : safeKey o with
  | none => rw [hk] at h; cases h
  | some k =>
    rw [hk] at h
    simp only at h ⊢
    unfold FS.readFile at h
    unfold FS.exists_
    cases hfp : fs.fileOnPath k with
    | true => rw [hfp] at h; simp at h
    | false =>
      rw [hfp] at h
      simp only [Bool.false_eq_true, if_false] at h
      cases hl : fs.lookup k with
      | none =>
        rw [hl] at h
        simp only at h
        by_cases hk0 : k == []
        · simp [hk0] at h
        · simp only [hk0, Bool.false_eq_true, if_false] at h
          cases h
          simp [hk0, nonExistent]
      | some nd =>
        rw [hl] at h
        cases nd with
        | dir => simp at h
        | file c m i =>
          simp only at h
          cases h
          simp

/-! ### finding by key in association lists -/
set_option linter.unusedSectionVars false in
section
variable {κ β : Type} [BEq κ] [LawfulBEq κ]

theorem find_map_upd (l : List (κ × β)) (k k' : κ) (u : κ × β → β) :
    (l.map (fun e => if e.1 == k then (e.1, u e) else e)).find? (fun e => e.1 == k')
      = if k' == k then (l.find? (fun e => e.1 == k)).map (fun e => (e.1, u e))
        else l.find? (fun e => e.1 == k') := by
  induction l with
  | nil => simp
  | cons e l ih =>
    simp only [List.map_cons, List.find?_cons]
    by_cases hk : k' == k
    · have hkk : k' = k := by simpa using hk
      subst hkk
      simp only [hk, if_true] at ih ⊢
      by_cases he : e.1 == k'
      · simp [he]
      · simp only [he]
        simp only [Bool.false_eq_true, if_false, he]
        exact ih
    · simp only [hk, Bool.false_eq_true, if_false] at ih ⊢
      by_cases he : e.1 == k
      · have hek : e.1 = k := by simpa using he
        have : (e.1 == k') = false := by
          rw [hek]
          cases h : k == k' with
          | false => rfl
          | true =>
            have : k = k' := by simpa using h
            subst this; simp at hk
        simp only [he, if_true, this]
        exact ih
      · simp only [he, Bool.false_eq_true, if_false]
        cases h : e.1 == k' with
        | true => rfl
        | false => exact ih

theorem find_none_of_any_false (l : List (κ × β)) (k : κ) (h : l.any (fun e => e.1 == k) = false) :
    l.find? (fun e => e.1 == k) = none := by
  rw [List.find?_eq_none]
  intro e he
  rw [List.any_eq_false] at h
  exact h e he

theorem find_isSome_of_any (l : List (κ × β)) (k : κ) (h : l.any (fun e => e.1 == k) = true) :
    ∃ e, l.find? (fun e => e.1 == k) = some e := by
  cases hf : l.find? (fun e => e.1 == k) with
  | some e => exact ⟨e, rfl⟩
  | none =>
    rw [List.find?_eq_none] at hf
    rw [List.any_eq_true] at h
    obtain ⟨e, he, hp⟩ := h
    exact absurd hp (hf e he)

theorem find_append_new (l : List (κ × β)) (k k' : κ) (v : β) (h : l.any (fun e => e.1 == k) = false) :
    (l ++ [(k, v)]).find? (fun e => e.1 == k')
      = if k' == k then some (k, v) else l.find? (fun e => e.1 == k') := by
  rw [List.find?_append]
  by_cases hk : k' == k
  · have hkk : k' = k := by simpa using hk
    subst hkk
    simp [find_none_of_any_false l k' h]
  · simp only [hk, Bool.false_eq_true, if_false]
    have : (k == k') = false := by
      cases h : k == k' with
      | false => rfl
      | true =>
        have : k = k' := by simpa using h
        subst this; simp at hk
    simp [this]

end

/-! ### the memory -/

theorem get_put (m : Mem) (n n' : Bytes) (f : FileSt Bytes) :
    (m.put n f).get n' = if components n' == components n then some f else m.get n' := by
  unfold Mem.put Mem.get
  split
  · rename_i hany
    rw [find_map_upd m (components n) (components n') (fun e => (e.2.1, f))]
    split
    · obtain ⟨e, he⟩ := find_isSome_of_any m _ hany
      rw [he]; rfl
    · rfl
  · rename_i hany
    simp only [Bool.not_eq_true] at hany
    rw [find_append_new m (components n) (components n') (n, f) hany]
    split <;> rfl

theorem get_put_self (m : Mem) (n : Bytes) (f : FileSt Bytes) : (m.put n f).get n = some f := by
  rw [get_put]; simp

theorem get_congr (m : Mem) {n n' : Bytes} (h : components n' = components n) : m.get n' = m.get n := by
  unfold Mem.get; rw [h]

/-- `getOrLoad` in terms of `loadTree` -/
theorem getOrLoad_eq (m : Mem) (fs : FS) (n : Bytes) :
    getOrLoad m fs n = match m.get n with
      | some f => .ok (m, f)
      | none => (match loadTree fs n with
        | .ok f => .ok (m.put n f, f)
        | .error _ => .error .err) := by
  unfold getOrLoad loadTree
  cases m.get n with
  | some f => rfl
  | none =>
    simp only
    cases safeKey n with
    | none => rfl
    | some k =>
      simp only
      cases fs.readFile k with
      | ok r => rfl
      | error e => cases e <;> rfl

/-! ### overlays -/

theorem look_congr (t : ATree) (fs : FS) {n n' : Bytes} (h : components n' = components n) :
    look t fs n' = look t fs n := by
  unfold look
  rw [h, loadTree_congr fs h]

theorem look_ofMem (m : Mem) (fs : FS) (n : Bytes) :
    look (ofMem m) fs n = match m.get n with
      | some f => .ok (absOf f)
      | none => (match loadTree fs n with | .ok f => .ok (absOf f) | .error e => .error e) := by
  unfold look ofMem Mem.get
  rw [List.find?_map]
  cases h : m.find? (fun e => e.1 == components n) with
  | none =>
    have : List.find? ((fun e : List Comp × AFile => e.1 == components n) ∘
        fun e : List Comp × Bytes × FileSt Bytes => (e.1, absOf e.2.2)) m = none := h
    rw [this]; rfl
  | some e =>
    have : List.find? ((fun e : List Comp × AFile => e.1 == components n) ∘
        fun e : List Comp × Bytes × FileSt Bytes => (e.1, absOf e.2.2)) m = some e := h
    rw [this]; rfl

theorem look_put (t : ATree) (fs : FS) (n n' : Bytes) (a : AFile) :
    look (put t n a) fs n' = if components n' == components n then .ok a else look t fs n' := by
  unfold put
  by_cases hk : components n' == components n
  · simp only [hk, if_true]
    split
    · rename_i hany
      unfold look
      rw [find_map_upd t (components n) (components n') (fun _ => a)]
      obtain ⟨e, he⟩ := find_isSome_of_any t _ hany
      simp only [hk, if_true, he, Option.map_some]
    · rename_i hany
      simp only [Bool.not_eq_true] at hany
      unfold look
      rw [find_append_new t (components n) (components n') a hany]
      simp only [hk, if_true]
  · simp only [hk, Bool.false_eq_true, if_false]
    split
    · unfold look
      rw [find_map_upd t (components n) (components n') (fun _ => a)]
      simp only [hk, Bool.false_eq_true, if_false]
    · rename_i hany
      simp only [Bool.not_eq_true] at hany
      unfold look
      rw [find_append_new t (components n) (components n') a hany]
      simp only [hk, Bool.false_eq_true, if_false]

theorem ofMem_put (m : Mem) (n : Bytes) (f : FileSt Bytes) :
    ofMem (m.put n f) = put (ofMem m) n (absOf f) := by
  unfold Mem.put put ofMem
  rw [List.any_map]
  have hany : (m.any ((fun e : List Comp × AFile => e.1 == components n) ∘
      fun e : List Comp × Bytes × FileSt Bytes => (e.1, absOf e.2.2))) = m.any (fun e => e.1 == components n) := rfl
  rw [hany]
  split
  · rw [List.map_map, List.map_map]
    apply List.map_congr_left
    intro e _
    simp only [Function.comp]
    split <;> rfl
  · rw [List.map_append]; rfl

/-! ### `SameTree` -/

theorem SameTree.refl (fs : FS) (t : ATree) : SameTree fs t t := fun _ => rfl
theorem SameTree.symm {fs : FS} {a b : ATree} (h : SameTree fs a b) : SameTree fs b a := fun n => (h n).symm
theorem SameTree.trans {fs : FS} {a b c : ATree} (h1 : SameTree fs a b) (h2 : SameTree fs b c) :
    SameTree fs a c := fun n => (h1 n).trans (h2 n)

theorem SameTree.put {fs : FS} {a b : ATree} (h : SameTree fs a b) (n : Bytes) (x : AFile) :
    SameTree fs (put a n x) (put b n x) := by
  intro n'
  rw [look_put, look_put, h n']

/-- storing what is there already changes nothing -/
theorem sameTree_put_look {fs : FS} {t : ATree} {n : Bytes} {a : AFile} (h : look t fs n = .ok a) :
    SameTree fs (put t n a) t := by
  intro n'
  rw [look_put]
  split
  · rename_i hk
    have : components n' = components n := by simpa using hk
    rw [look_congr t fs this, h]
  · rfl

theorem sameTree_put_put (fs : FS) (t : ATree) (n : Bytes) (a b : AFile) :
    SameTree fs (put (put t n a) n b) (put t n b) := by
  intro n'
  rw [look_put, look_put, look_put]
  split <;> rfl

/-- does the name exist in the initial file system (`Path::exists`) -/
def existsName (fs : FS) (o : Bytes) : Bool := match safeKey o with | some k => fs.exists_ k | none => false

theorem loadTree_existsName {fs : FS} {o : Bytes} {f : FileSt Bytes} (h : loadTree fs o = .ok f) :
    existsName fs o = !f.deleted := loadTree_exists h

/-- is the old name there, as `chooseA` sees it -/
def oldThere (t : ATree) (fs : FS) (o : Bytes) : Bool :=
  match t.find? (fun e => e.1 == components o) with
  | some e => !e.2.deleted
  | none => existsName fs o

theorem chooseA_some (t : ATree) (fs : FS) (o n : Bytes) :
    chooseA t fs (some o) (some n) =
      if components o == components n then some o else if oldThere t fs o then some o else some n := rfl

theorem oldThere_look (t : ATree) (fs : FS) (o : Bytes) :
    oldThere t fs o = match look t fs o with | .ok x => !x.deleted | .error _ => existsName fs o := by
  unfold oldThere look
  cases t.find? (fun e => e.1 == components o) with
  | some e => rfl
  | none =>
    simp only
    cases hl : loadTree fs o with
    | ok f => simp only; rw [loadTree_existsName hl]; rfl
    | error e => rfl

theorem chooseA_sameTree {fs : FS} {a b : ATree} (h : SameTree fs a b) (old new : Option Bytes) :
    chooseA a fs old new = chooseA b fs old new := by
  cases old with
  | none => cases new <;> rfl
  | some o =>
    cases new with
    | none => rfl
    | some n => rw [chooseA_some, chooseA_some, oldThere_look, oldThere_look, h o]

theorem choose_some (m : Mem) (fs : FS) (o n : Bytes) :
    choose m fs (some o) (some n) =
      if components o == components n then some o
      else match m.get o with
        | none => if existsName fs o then some o else some n
        | some f => if f.deleted then some n else some o := rfl

theorem choose_eq (m : Mem) (fs : FS) (old new : Option Bytes) :
    choose m fs old new = chooseA (ofMem m) fs old new := by
  cases old with
  | none => cases new <;> rfl
  | some o =>
    cases new with
    | none => rfl
    | some n =>
      rw [chooseA_some, choose_some, oldThere_look, look_ofMem]
      cases m.get o with
      | none =>
        simp only
        cases hl : loadTree fs o with
        | ok f => simp only; rw [loadTree_existsName hl]; rfl
        | error e => rfl
      | some f =>
        simp only [absOf]
        by_cases hd : f.deleted = true <;> simp [hd]

end RQ.Abs
