import RQ.Lemmas.Compose3
import RQ.Lemmas.ComposeSeries
/-!
# Pushes compose (C09) — part 4: the goal level (`plan` composes)

After a push that applied all of its range `r₁` and recorded it, `plan` (the first half of `cmd_push`) reads back
`.pc/applied-patches` = what was there before plus the names of `r₁`, finds it a prefix of the series, and chooses the
next range `r₂` right behind `r₁`; a single push with the goal "`|r₁| + |r₂|` patches" chooses `r₁ ++ r₂`.

Needs: the old `.pc/applied-patches` (if any) parses and ends with a newline.  That the names of `r₁` read back as
themselves (`Series.PlainName`: non-empty, no Unicode white-space character, valid UTF-8 — a leading `#` is fine since
`.pc/applied-patches` is read without the comment rule, repair of `hash-named-patch`) need not be assumed: `r₁` comes
out of `readSeries`, and every name `readSeries` returns is plain (`Series.readSeries_names_plain`).
-/
namespace RQ.Compose
open RQ RQ.Push RQ.Spec RQ.Flush RQ.Agree RQ.Parse RQ.Write RQ.Series

/-! ## `readApplied` of the recorded names (`RQ/Lemmas/ComposeSeries.lean`) -/

theorem readApplied_namesBytes : ∀ (r : List Entry), (∀ e ∈ r, PlainName e.name) →
    readApplied (namesBytes r) = .ok (r.map plainEntry) := by
  intro r
  induction r with
  | nil => intro _; rfl
  | cons e r ih =>
    intro h
    have e1 : namesBytes (e :: r) = (e.name ++ [10]) ++ namesBytes r := by simp [namesBytes]
    rw [e1]
    have := readApplied_append (a := e.name ++ [10]) (.inr ⟨e.name, rfl⟩)
      (plainName_readApplied (h e (List.mem_cons_self ..)))
      (ih (fun e' he' => h e' (List.mem_cons_of_mem _ he')))
    rw [this]
    rfl

/-! ## the pure half of `plan` -/

/-- what `plan` decides once the series and the applied patches have been read -/
def planOf (goal : Goal) (series applied : List Entry) : Plan :=
  if namesMismatch series applied then .refuse
  else if applied.length > series.length then .refuse
  else
    let first := applied.length
    let last? : Option Nat := match goal with
      | .all => some series.length
      | .count n => some (min (first + n) series.length)
      | .upTo name =>
        match series.findIdx? (fun e => components e.name == components name) with
        | some i => if i < first then none else some (i + 1)
        | none => none
    match last? with
    | none => .refuse
    | some last =>
      if first == series.length then .nothingToDo
      else .apply ((series.drop first).take (last - first))

/-- the applied patches as `plan` reads them (an unreadable file counts as "nothing applied") -/
def appliedOf (fs : FS) : List Entry :=
  match fs.readFile appliedKey with
  | .error _ => []
  | .ok (abytes, _) => (match readApplied abytes with | .ok a => a | .error _ => [])

theorem plan_eq (cfg : Cfg) (fs : FS) :
    plan cfg fs = match fs.readFile seriesKey with
      | .error _ => .refuse
      | .ok (sbytes, _) =>
        match readSeries sbytes with
        | .error _ => .refuse
        | .ok series => planOf cfg.goal series (appliedOf fs) := by
  unfold plan planOf appliedOf
  rfl

theorem namesMismatch_append : ∀ (s a b : List Entry), a.length ≤ s.length →
    namesMismatch s (a ++ b) = (namesMismatch s a || namesMismatch (s.drop a.length) b) := by
  intro s
  induction s with
  | nil =>
    intro a b h
    cases a with
    | nil => simp [namesMismatch]
    | cons x a => simp at h
  | cons e s ih =>
    intro a b h
    cases a with
    | nil => simp [namesMismatch]
    | cons x a =>
      simp only [List.length_cons, Nat.add_le_add_iff_right] at h
      simp only [List.cons_append, namesMismatch, List.length_cons, List.drop_succ_cons]
      rw [ih a b h, Bool.or_assoc]

theorem namesMismatch_self : ∀ (l : List Entry) (m : Nat), namesMismatch l ((l.take m).map plainEntry) = false := by
  intro l
  induction l with
  | nil => intro m; simp [namesMismatch]
  | cons e l ih =>
    intro m
    cases m with
    | zero => simp [namesMismatch]
    | succ m =>
      simp only [List.take_succ_cons, List.map_cons, namesMismatch, ih m, Bool.or_false]
      simp [plainEntry]

/-- what an answer `.apply r` of `planOf` says -/
theorem planOf_apply {goal : Goal} {series applied r : List Entry} (h : planOf goal series applied = .apply r) :
    namesMismatch series applied = false ∧ applied.length ≤ series.length ∧ applied.length ≠ series.length ∧
      ∃ m, r = (series.drop applied.length).take m := by
  unfold planOf at h
  split at h
  · cases h
  · rename_i hnm
    split at h
    · cases h
    · rename_i hlen
      simp only at h
      split at h
      · cases h
      · rename_i last _
        split at h
        · cases h
        · rename_i hne
          cases h
          exact ⟨by simpa using hnm, by omega, by simpa using hne, _, rfl⟩

/-- **`planOf` composes**: if the first decision is `r₁` and — with `r₁` recorded as applied — the second decision is
`r₂`, then the decision for "`|r₁| + |r₂|` patches" is `r₁ ++ r₂` -/
theorem planOf_compose {g1 g2 : Goal} {series a0 r1 r2 : List Entry} (h1 : planOf g1 series a0 = .apply r1)
    (h2 : planOf g2 series (a0 ++ r1.map plainEntry) = .apply r2) :
    planOf (.count (r1.length + r2.length)) series a0 = .apply (r1 ++ r2) := by
  obtain ⟨hnm, hle, hne, m1, hr1⟩ := planOf_apply h1
  obtain ⟨_, hle2, _, m2, hr2⟩ := planOf_apply h2
  simp only [List.length_append, List.length_map] at hle2 hr2
  unfold planOf
  simp only [hnm, Bool.false_eq_true, if_false]
  rw [if_neg (by omega)]
  have hne' : (a0.length == series.length) = false := by simpa using hne
  simp only [hne', Bool.false_eq_true, if_false]
  congr 1
  have hl1 : r1.length = min m1 (series.length - a0.length) := by rw [hr1]; simp
  have hD : (series.drop a0.length).length = series.length - a0.length := by simp
  have hmin : min (a0.length + (r1.length + r2.length)) series.length - a0.length = r1.length + r2.length := by
    have : r2.length ≤ series.length - (a0.length + r1.length) := by
      rw [hr2]; simp; omega
    omega
  rw [hmin, List.take_add]
  congr 1
  · rw [hr1, List.take_eq_take_iff]
    simp
  · rw [hr2, List.drop_drop, List.take_eq_take_iff]
    simp

/-- with `r₁` recorded, the applied patches are still a prefix of the series -/
theorem planOf_recorded {g1 : Goal} {series a0 r1 : List Entry} (h1 : planOf g1 series a0 = .apply r1) :
    namesMismatch series (a0 ++ r1.map plainEntry) = false ∧ (a0 ++ r1.map plainEntry).length ≤ series.length := by
  obtain ⟨hnm, hle, hne, m1, hr1⟩ := planOf_apply h1
  constructor
  · rw [namesMismatch_append _ _ _ hle, hnm, hr1, namesMismatch_self]; rfl
  · simp only [List.length_append, List.length_map]
    rw [hr1]; simp; omega

/-! ## what the next `plan` reads -/

theorem appendFile_readFile {fs fs' : FS} {k : Key} {b : Bytes} (h : fs.appendFile k b = .ok fs') :
    ∃ c m mode, fileAt fs' k = some (c, m) ∧ fs'.readFile k = .ok (c, mode) := by
  unfold FS.appendFile at h
  split at h
  · cases h
  · rename_i hfp
    have hfp' : fs.fileOnPath k = false := by simpa using hfp
    split at h
    · cases h
    · split at h
      · cases h
      · rename_i c m i hl
        cases h
        have hl' := lookup_appendBytes_file hl b
        have hfp2 : (fs.appendBytes k b).fileOnPath k = false := by
          rw [(near_appendBytes fs k b).fileOnPath_eq (spre_irrefl k)]; exact hfp'
        refine ⟨c ++ b, m % 4096, 0o100000 + m % 4096, fileAt_of_lookup_file hl', ?_⟩
        unfold FS.readFile
        rw [hfp2, hl']
        rfl
      · rename_i hl
        cases h
        have hl' : ({ (fs.set k (.file b 0o644 fs.nextIno)) with nextIno := fs.nextIno + 1 } : FS).lookup k =
            some (.file b 0o644 fs.nextIno) := FS.lookup_set_self fs k _
        have hfp2 : ({ (fs.set k (.file b 0o644 fs.nextIno)) with nextIno := fs.nextIno + 1 } : FS).fileOnPath k
            = false := by
          have hn : Near k fs ({ (fs.set k (.file b 0o644 fs.nextIno)) with nextIno := fs.nextIno + 1 } : FS) :=
            near_set fs k _
          rw [hn.fileOnPath_eq (spre_irrefl k)]; exact hfp'
        refine ⟨b, 0o644 % 4096, 0o100000 + 0o644 % 4096, fileAt_of_lookup_file hl', ?_⟩
        unfold FS.readFile
        rw [hfp2, hl']
        rfl

/-- without an output failure, `.pc/applied-patches` can be read back afterwards -/
theorem finishPc_readApplied {cfg : Cfg} {range : List Entry} {p : Progress} {fs1 : FS}
    (hio : (finishPc cfg range p fs1).ioError = false) :
    ∃ c m mode, fileAt (finishPc cfg range p fs1).fs appliedKey = some (c, m) ∧
      (finishPc cfg range p fs1).fs.readFile appliedKey = .ok (c, mode) := by
  unfold finishPc at hio ⊢
  simp only at hio ⊢
  split
  · rename_i hx; rw [hx] at hio; cases hio
  · rename_i fs2 h2
    rw [h2] at hio
    simp only at hio
    split
    · rename_i hy; rw [hy] at hio; cases hio
    · rename_i fs3 h3
      rw [h3] at hio
      simp only at hio
      split
      · rename_i hz; rw [hz] at hio; cases hio
      · rename_i fs4 h4
        exact appendFile_readFile h4

/-- the old `.pc/applied-patches`: absent, or it parses and ends with a newline -/
def AppliedOK (fs : FS) : Prop :=
  fs.lookup appliedKey = none ∨
    ∃ abytes mode a, fs.readFile appliedKey = .ok (abytes, mode) ∧ readApplied abytes = .ok a ∧ Terminated10 abytes

theorem not_own_prefix_series {cfg : Cfg} {t : Key} (ht : ¬ Own cfg t) : ¬ t <+: seriesKey := by
  intro hp
  apply ht
  unfold seriesKey at hp
  cases t with
  | nil => exact .inr (.inl rfl)
  | cons c t =>
    right; right; left
    rw [List.cons_prefix_cons] at hp
    obtain ⟨h1, h2⟩ := hp
    have : t = [] := List.prefix_nil.mp h2
    rw [h1, this]; rfl

/-- **after a push that applied and recorded all of `r₁`, `plan` sees the same series, and `r₁` appended to the
applied patches** -/
theorem after_push {cfg : Cfg} {fs : FS} {r1 : List Entry} (hdry : cfg.dryRun = false) (hclean : Clean cfg fs r1)
    (hplain : ∀ e ∈ r1, PlainName e.name) (happ : AppliedOK fs) (hx : (specRun cfg fs r1).exit = 0) :
    (∀ x, fs.readFile seriesKey = .ok x → (specRun cfg fs r1).fs.readFile seriesKey = .ok x) ∧
    appliedOf (specRun cfg fs r1).fs = appliedOf fs ++ r1.map plainEntry := by
  obtain ⟨p1, hp1, hk1, hrej1, hfail1, ho1, hio1⟩ := specRun_exit0 hdry hx
  have hpc1 : PcOnly p1.fs (specRun cfg fs r1).fs := by rw [ho1]; exact finishPc_pcOnly cfg r1 p1 p1.fs
  have hT1 : Touch (fun k => ¬ Own cfg k) fs p1.fs := clean_touch hclean hp1
  constructor
  · intro x hr
    have h1 := hT1.readFile_ok (fun _ ht => not_own_prefix_series ht) hr
    rw [← hpc1.outside.readFile_eq (by unfold isPcKey seriesKey; decide)]
    exact h1
  · have happ1 := (run_applied hdry hclean hp1 hio1).2
    rw [hk1, List.take_length] at happ1
    rw [ho1] at hio1
    obtain ⟨c, m, mode, hc1, hc2⟩ := finishPc_readApplied hio1
    rw [← ho1] at hc1 hc2
    rw [happ1] at hc1
    have hcont : appliedOf (specRun cfg fs r1).fs = (match readApplied c with | .ok a => a | .error _ => []) := by
      unfold appliedOf; rw [hc2]
    rw [hcont]
    have hnames := readApplied_namesBytes r1 hplain
    rcases happ with hnone | ⟨abytes, mode0, a, hr0, hs0, ht0⟩
    · have herr : ∃ e, fs.readFile appliedKey = .error e := by
        unfold FS.readFile
        rw [hnone]
        split
        · exact ⟨_, rfl⟩
        · simp only
          split <;> exact ⟨_, rfl⟩
      have h0 : appliedOf fs = [] := by
        obtain ⟨e, he⟩ := herr
        unfold appliedOf
        rw [he]
      rw [h0, fileAt_of_lookup_none hnone] at *
      simp only [appendView, Option.some.injEq, Prod.mk.injEq] at hc1
      rw [← hc1.1, hnames]
      rfl
    · have h0 : appliedOf fs = a := by
        unfold appliedOf; rw [hr0]; simp only; rw [hs0]
      rw [h0, Disk.readFile_ok_fileAt hr0] at *
      simp only [appendView, Option.some.injEq, Prod.mk.injEq] at hc1
      rw [← hc1.1, readApplied_append ht0 hs0 hnames]

/-- the patches `plan` chooses come out of `readSeries`: their names are plain -/
theorem plan_range_plain {cfg : Cfg} {fs : FS} {r : List Entry} (h : plan cfg fs = .apply r) :
    ∀ e ∈ r, PlainName e.name := by
  rw [plan_eq] at h
  cases hr : fs.readFile seriesKey with
  | error e => rw [hr] at h; cases h
  | ok x =>
    obtain ⟨sbytes, smode⟩ := x
    rw [hr] at h
    simp only at h
    cases hs : readSeries sbytes with
    | error e => rw [hs] at h; cases h
    | ok series =>
      rw [hs] at h
      simp only at h
      obtain ⟨_, _, _, m, hm⟩ := planOf_apply h
      intro e he
      rw [hm] at he
      exact readSeries_names_plain hs e (List.mem_of_mem_drop (List.mem_of_mem_take he))

/-- **(4) `plan` composes.**  The first push chose `r₁`, applied all of it and recorded it.  Whatever range `r₂` a
second push (any goal `cfg2.goal`) then chooses, a single push from the original tree with the goal
"`|r₁| + |r₂|` patches" chooses `r₁ ++ r₂`. -/
theorem plan_compose {cfg cfg2 : Cfg} {fs : FS} {r1 r2 : List Entry} (hdry : cfg.dryRun = false)
    (hclean : Clean cfg fs r1) (happ : AppliedOK fs)
    (hp1 : plan cfg fs = .apply r1) (hx : (specRun cfg fs r1).exit = 0)
    (hp2 : plan cfg2 (specRun cfg fs r1).fs = .apply r2) :
    plan { cfg with goal := .count (r1.length + r2.length) } fs = .apply (r1 ++ r2) := by
  obtain ⟨hser, happl⟩ := after_push hdry hclean (plan_range_plain hp1) happ hx
  rw [plan_eq] at hp1 hp2 ⊢
  cases hr : fs.readFile seriesKey with
  | error e => rw [hr] at hp1; cases hp1
  | ok x =>
    obtain ⟨sbytes, smode⟩ := x
    rw [hr] at hp1
    rw [hser _ hr] at hp2
    simp only at hp1 hp2 ⊢
    cases hs : readSeries sbytes with
    | error e => rw [hs] at hp1; cases hp1
    | ok series =>
      rw [hs] at hp1 hp2
      simp only at hp1 hp2 ⊢
      rw [happl] at hp2
      exact planOf_compose hp1 hp2

/-- the second `plan` in terms of the first tree: same series, `r₁` appended to the applied patches (which are still a
prefix of the series: the second push is not refused for an inconsistent `.pc/applied-patches`) -/
theorem plan_after {cfg cfg2 : Cfg} {fs : FS} {r1 : List Entry} (hdry : cfg.dryRun = false)
    (hclean : Clean cfg fs r1) (happ : AppliedOK fs)
    (hp1 : plan cfg fs = .apply r1) (hx : (specRun cfg fs r1).exit = 0) :
    ∃ series, planOf cfg.goal series (appliedOf fs) = .apply r1 ∧
      plan cfg2 (specRun cfg fs r1).fs = planOf cfg2.goal series (appliedOf fs ++ r1.map plainEntry) ∧
      namesMismatch series (appliedOf fs ++ r1.map plainEntry) = false ∧
      (appliedOf fs ++ r1.map plainEntry).length ≤ series.length := by
  obtain ⟨hser, happl⟩ := after_push hdry hclean (plan_range_plain hp1) happ hx
  rw [plan_eq] at hp1
  rw [plan_eq]
  cases hr : fs.readFile seriesKey with
  | error e => rw [hr] at hp1; cases hp1
  | ok x =>
    obtain ⟨sbytes, smode⟩ := x
    rw [hr] at hp1
    rw [hser _ hr]
    simp only at hp1 ⊢
    cases hs : readSeries sbytes with
    | error e => rw [hs] at hp1; cases hp1
    | ok series =>
      rw [hs] at hp1
      simp only at hp1 ⊢
      rw [happl]
      exact ⟨series, hp1, rfl, planOf_recorded hp1⟩

/-! ## the goal is irrelevant once the range is chosen -/

theorem applyPatchTree_goal (cfg : Cfg) (g : Goal) (entry : Entry) : ∀ (fps : List PFilePatch) (acc : PatchResult),
    applyPatchTree { cfg with goal := g } entry fps acc = applyPatchTree cfg entry fps acc := by
  intro fps
  induction fps with
  | nil => intro acc; rfl
  | cons fp fps ih =>
    intro acc
    unfold applyPatchTree
    have : applyFPTree acc.fs { cfg with goal := g } entry fp = applyFPTree acc.fs cfg entry fp := rfl
    rw [this]
    cases applyFPTree acc.fs cfg entry fp with
    | error e => rfl
    | ok r => simp only; exact ih _

theorem applyRangeTree_goal (cfg : Cfg) (g : Goal) (orig : FS) : ∀ (range : List Entry) (p : Progress),
    applyRangeTree { cfg with goal := g } orig range p = applyRangeTree cfg orig range p := by
  intro range
  induction range with
  | nil => intro p; rfl
  | cons entry rest ih =>
    intro p
    rw [applyRangeTree_cons, applyRangeTree_cons]
    have : patchOf orig { cfg with goal := g } entry = patchOf orig cfg entry := rfl
    rw [this]
    cases patchOf orig cfg entry with
    | none => rfl
    | some patch =>
      simp only
      rw [applyPatchTree_goal]
      cases applyPatchTree cfg entry patch.fps { fs := p.fs, ok := true, rejs := [], touched := [] } with
      | error e => rfl
      | ok r =>
        simp only
        rw [ih]

theorem specRun_goal (cfg : Cfg) (g : Goal) (fs : FS) (range : List Entry) :
    specRun { cfg with goal := g } fs range = specRun cfg fs range := by
  unfold specRun
  rw [applyRangeTree_goal]
  cases applyRangeTree cfg fs range (start fs) with
  | error e => rfl
  | ok p => rfl

end RQ.Compose
