import RQ.Lemmas.RoundTripDispatch
/-! C12: one iteration of `filePatchLoop`, as rewriting lemmas per kind of line. -/
namespace RQ.Write
open RQ RQ.Parse

def hdrNoMatch (inp : Bytes) : Bool := match parseHunkHeader inp with | .error .noMatch => true | _ => false

/-- the loop looks at a line (and not at hunks) -/
def lineCond (m : Meta) (inp : Bytes) : Bool := !haveFilename m || hdrNoMatch inp

theorem filePatchLoop_succ (total fuel : Nat) (inp : Bytes) (wantHeader : Bool) (header : Nat) (git ext : Bool) (m : Meta) :
    filePatchLoop total (fuel+1) inp wantHeader header git ext m =
    if lineCond m inp then
      match parsePatchLine git inp with
      | .error e => .error e
      | .ok (inp', pl) =>
        let ext := match pl with | .git _ => true | _ => ext
        match pl with
        | .garbage =>
          let header := if wantHeader then total - inp'.length else header
          filePatchLoop total fuel inp' wantHeader header git ext m
        | .endOfPatch =>
          if ext then
            match buildFilePatch m [] with
            | some fp => .ok (inp, header, fp)
            | none => .error .missingFilenameForHunk
          else .error .noMatch
        | .mline (.gitDiff o n) =>
          let done : Option PFilePatch := if ext then buildFilePatch m [] else none
          match done with
          | some fp => .ok (inp, header, fp)
          | none =>
            filePatchLoop total fuel inp' false (total - inp.length) true ext { old := some o, new := some n }
        | .mline (.plus f) => filePatchLoop total fuel inp' wantHeader header git ext { m with new := some f }
        | .mline (.minus f) => filePatchLoop total fuel inp' wantHeader header git ext { m with old := some f }
        | .git (.index o n _) => filePatchLoop total fuel inp' wantHeader header git ext { m with oldHash := some o, newHash := some n }
        | .git .renameFrom => filePatchLoop total fuel inp' wantHeader header git ext { m with renFrom := true }
        | .git .renameTo => filePatchLoop total fuel inp' wantHeader header git ext { m with renTo := true }
        | .git (.oldMode x) => filePatchLoop total fuel inp' wantHeader header git ext { m with oldPerm := some x }
        | .git (.deletedFileMode x) => filePatchLoop total fuel inp' wantHeader header git ext { m with oldPerm := some x }
        | .git (.newMode x) => filePatchLoop total fuel inp' wantHeader header git ext { m with newPerm := some x }
        | .git (.newFileMode x) => filePatchLoop total fuel inp' wantHeader header git ext { m with newPerm := some x }
        | .git .binary => .error .unsupportedMetadata
        | .git _ => filePatchLoop total fuel inp' wantHeader header git ext m
    else
      match hunksLoop (inp.length + 2) inp [] with
      | .error e => .error e
      | .ok (inp', hs) =>
        match buildFilePatch m hs with
        | none => .error .missingFilenameForHunk
        | some fp => .ok (inp', header, fp) := by
  rfl

/-- the metadata after a line that just updates it -/
def passMeta (m : Meta) : PatchLine → Option Meta
  | .mline (.plus f) => some { m with new := some f }
  | .mline (.minus f) => some { m with old := some f }
  | .git (.index o n _) => some { m with oldHash := some o, newHash := some n }
  | .git .renameFrom => some { m with renFrom := true }
  | .git .renameTo => some { m with renTo := true }
  | .git (.oldMode x) => some { m with oldPerm := some x }
  | .git (.deletedFileMode x) => some { m with oldPerm := some x }
  | .git (.newMode x) => some { m with newPerm := some x }
  | .git (.newFileMode x) => some { m with newPerm := some x }
  | .git .copyFrom => some m
  | .git .copyTo => some m
  | _ => none

def passExt (ext : Bool) : PatchLine → Bool
  | .git _ => true
  | _ => ext

theorem fpl_error (total f : Nat) (inp : Bytes) (wH : Bool) (hd : Nat) (git ext : Bool) (m : Meta) (e : EB)
    (hc : lineCond m inp = true) (hp : parsePatchLine git inp = .error e) :
    filePatchLoop total (f+1) inp wH hd git ext m = .error e := by
  rw [filePatchLoop_succ, hc, hp]; rfl

theorem fpl_pass (total f : Nat) (inp inp' : Bytes) (wH : Bool) (hd : Nat) (git ext : Bool) (m m' : Meta) (pl : PatchLine)
    (hc : lineCond m inp = true) (hp : parsePatchLine git inp = .ok (inp', pl)) (hm : passMeta m pl = some m') :
    filePatchLoop total (f+1) inp wH hd git ext m = filePatchLoop total f inp' wH hd git (passExt ext pl) m' := by
  rw [filePatchLoop_succ, hc, hp]
  cases pl with
  | garbage => simp [passMeta] at hm
  | endOfPatch => simp [passMeta] at hm
  | mline ml =>
    cases ml <;> simp [passMeta] at hm <;> subst hm <;> rfl
  | git gl =>
    cases gl <;> simp [passMeta] at hm <;> subst hm <;> rfl

theorem fpl_garbage (total f : Nat) (inp inp' : Bytes) (wH : Bool) (hd : Nat) (git ext : Bool) (m : Meta)
    (hc : lineCond m inp = true) (hp : parsePatchLine git inp = .ok (inp', .garbage)) :
    filePatchLoop total (f+1) inp wH hd git ext m =
      filePatchLoop total f inp' wH (if wH then total - inp'.length else hd) git ext m := by
  rw [filePatchLoop_succ, hc, hp]; rfl

theorem fpl_end (total f : Nat) (inp inp' : Bytes) (wH : Bool) (hd : Nat) (git ext : Bool) (m : Meta)
    (hc : lineCond m inp = true) (hp : parsePatchLine git inp = .ok (inp', .endOfPatch)) :
    filePatchLoop total (f+1) inp wH hd git ext m =
      if ext then
        match buildFilePatch m [] with
        | some fp => .ok (inp, hd, fp)
        | none => .error .missingFilenameForHunk
      else .error .noMatch := by
  rw [filePatchLoop_succ, hc, hp]; rfl

theorem fpl_gitDiff (total f : Nat) (inp inp' : Bytes) (wH : Bool) (hd : Nat) (git ext : Bool) (m : Meta) (o n : Filename)
    (hc : lineCond m inp = true) (hp : parsePatchLine git inp = .ok (inp', .mline (.gitDiff o n))) :
    filePatchLoop total (f+1) inp wH hd git ext m =
      match (if ext then buildFilePatch m [] else none : Option PFilePatch) with
      | some fp => .ok (inp, hd, fp)
      | none => filePatchLoop total f inp' false (total - inp.length) true ext { old := some o, new := some n } := by
  rw [filePatchLoop_succ, hc, hp]; rfl

theorem fpl_binary (total f : Nat) (inp inp' : Bytes) (wH : Bool) (hd : Nat) (git ext : Bool) (m : Meta)
    (hc : lineCond m inp = true) (hp : parsePatchLine git inp = .ok (inp', .git .binary)) :
    filePatchLoop total (f+1) inp wH hd git ext m = .error .unsupportedMetadata := by
  rw [filePatchLoop_succ, hc, hp]; rfl

theorem fpl_hunks (total f : Nat) (inp : Bytes) (wH : Bool) (hd : Nat) (git ext : Bool) (m : Meta)
    (hc : lineCond m inp = false) :
    filePatchLoop total (f+1) inp wH hd git ext m =
      match hunksLoop (inp.length + 2) inp [] with
      | .error e => .error e
      | .ok (inp', hs) =>
        match buildFilePatch m hs with
        | none => .error .missingFilenameForHunk
        | some fp => .ok (inp', hd, fp) := by
  rw [filePatchLoop_succ, hc]; rfl

/-- every line is of one of the kinds above -/
theorem patchLine_cases (m : Meta) (pl : PatchLine) :
    (∃ m', passMeta m pl = some m') ∨ pl = .garbage ∨ pl = .endOfPatch ∨ (∃ o n, pl = .mline (.gitDiff o n)) ∨
      pl = .git .binary := by
  cases pl with
  | garbage => simp
  | endOfPatch => simp
  | mline ml => cases ml <;> simp [passMeta]
  | git gl => cases gl <;> simp [passMeta]

end RQ.Write
