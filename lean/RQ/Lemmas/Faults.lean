import RQ.Model.Push
import RQ.Lemmas.InodesFS
/-! Helper lemmas for C18: an injected fault is never swallowed by the driver. -/
namespace RQ.Push
open RQ RQ.Parse RQ.Write

/-- the body of `NotYet` of C18: the operation that is to fail has not been attempted yet -/
def NY (w : World) : Prop := ∀ k, w.faultAt = some k → w.trace.length ≤ k

theorem op_ny_aux {w : World} {o : Op} (r : Except IOErr FS)
    (key : ∀ fs : FS, NY { w with trace := w.trace ++ [o], fs := fs }) :
    (∀ w', (match r with
        | .ok fs => OpRes.ok { w with trace := w.trace ++ [o], fs := fs }
        | .error .notFound => OpRes.notFound { w with trace := w.trace ++ [o] }
        | .error .other => OpRes.failed { w with trace := w.trace ++ [o] }) = .ok w' → NY w') ∧
    (∀ w', (match r with
        | .ok fs => OpRes.ok { w with trace := w.trace ++ [o], fs := fs }
        | .error .notFound => OpRes.notFound { w with trace := w.trace ++ [o] }
        | .error .other => OpRes.failed { w with trace := w.trace ++ [o] }) = .notFound w' → NY w') := by
  cases r with
  | ok fs =>
    exact ⟨fun w' e => (by cases e; exact key fs), fun w' e => (by cases e)⟩
  | error err =>
    cases err with
    | notFound => exact ⟨fun w' e => (by cases e), fun w' e => (by cases e; exact key w.fs)⟩
    | other => exact ⟨fun w' e => (by cases e), fun w' e => (by cases e)⟩

theorem op_ny {w : World} {o : Op} (h : NY w) :
    (∀ w', w.op o = .ok w' → NY w') ∧ (∀ w', w.op o = .notFound w' → NY w') := by
  unfold World.op
  by_cases hfa : (w.faultAt == some w.trace.length) = true
  · simp only [hfa, if_true]
    exact ⟨fun _ e => (by cases e), fun _ e => (by cases e)⟩
  · simp only [hfa]
    have key : ∀ fs : FS, NY { w with trace := w.trace ++ [o], fs := fs } := by
      intro fs k hk
      have h1 := h k hk
      simp only [List.length_append, List.length_singleton]
      have : k ≠ w.trace.length := by
        intro hkk
        apply hfa
        simp only at hk
        rw [hk, hkk]
        exact beq_self_eq_true _
      omega
    exact op_ny_aux _ key

theorem ny_ok {w w' : World} {o : Op} (h : NY w) (e : w.op o = .ok w') : NY w' := (op_ny h).1 w' e
theorem ny_notFound {w w' : World} {o : Op} (h : NY w) (e : w.op o = .notFound w') : NY w' :=
  (op_ny h).2 w' e

/-- on success the fault has not been attempted; a failure after the fault was attempted is an ordinary
error (never a panic) -/
def WRNY {α : Type} (P : α → World) : WR α → Prop
  | .ok a => NY (P a)
  | .error p => NY p.2 ∨ p.1 = .err

variable {w : World}

theorem writeNew_ny {k : Key} (perms : Option Nat) (content : Bytes) (h : NY w) :
    WRNY id (writeNew w k perms content) := by
  generalize hr : writeNew w k perms content = r
  unfold writeNew at hr
  have hwrite : ∀ {w : World} {r : WR World}, NY w →
      (match w.op (Op.write k content) with
        | OpRes.ok w => Except.ok w
        | OpRes.notFound w => Except.error (Fail.err, w)
        | OpRes.failed w => Except.error (Fail.err, w)) = r → WRNY id r := by
    intro w r h hr
    split at hr
    · rename_i hop; subst hr; exact ny_ok h hop
    · subst hr; exact .inr rfl
    · subst hr; exact .inr rfl
  cases perms with
  | none =>
    simp only at hr
    exact hwrite h hr
  | some p =>
    simp only at hr
    split at hr
    · rename_i heq
      subst hr
      split at heq
      · cases heq
      · cases heq; exact .inr rfl
      · cases heq; exact .inr rfl
    · rename_i heq
      split at heq
      · rename_i hop
        cases heq
        exact hwrite (ny_ok h hop) hr
      · cases heq
      · cases heq

/-- an operation that was logged without being the one to fail -/
theorem ny_logged {w : World} (o : Op) (h : NY w) (hf : ¬ (w.faultAt == some w.trace.length) = true) :
    NY (w.logged o) := by
  intro k hk
  have h1 := h k hk
  simp only [World.logged_trace, List.length_append, List.length_singleton]
  have : k ≠ w.trace.length := by
    intro hkk
    apply hf
    simp only [World.logged_faultAt] at hk
    rw [hk, hkk]
    exact beq_self_eq_true _
  omega

theorem saveRejFiles_ny (rejs : List (Bytes × Bytes)) :
    ∀ {w : World}, NY w → WRNY id (saveRejFiles w rejs) := by
  induction rejs with
  | nil => intro w h; unfold saveRejFiles; exact h
  | cons x rest ih =>
    intro w h
    obtain ⟨name, content⟩ := x
    generalize hr : saveRejFiles w ((name, content) :: rest) = r
    rw [saveRejFiles_cons] at hr
    split at hr
    · subst hr; exact .inr rfl
    · rename_i k _
      split at hr
      · -- the path leads through a regular file: both operations are issued, the reject is bypassed
        split at hr
        · subst hr; exact .inr rfl
        · rename_i hf
          have h1 := ny_logged (.removeFile k) h hf
          split at hr
          · subst hr; exact .inr rfl
          · rename_i hf2
            subst hr
            refine ih (ny_logged (.createFile k) h1 ?_)
            simpa using hf2
      split at hr
      · subst hr; exact .inr rfl
      all_goals
        rename_i w0 hop
        have h1 : NY w0 := by
          first | exact ny_ok h hop | exact ny_notFound h hop
        split at hr
        · rename_i hop2; subst hr; exact ih (ny_notFound h1 hop2)
        · subst hr; exact .inr rfl
        · rename_i w2 hop2
          have h3 := ny_ok h1 hop2
          split at hr
          · rename_i hop3; subst hr; exact ih (ny_ok h3 hop3)
          · subst hr; exact .inr rfl
          · subst hr; exact .inr rfl

theorem saveModifiedFile_ny {name : Bytes} {f : FileSt Bytes} (h : NY w) :
    WRNY (·.1) (saveModifiedFile w name f) := by
  generalize hr : saveModifiedFile w name f = r
  unfold saveModifiedFile at hr
  split at hr
  · subst hr; exact .inr rfl
  · rename_i k hk
    simp only at hr
    split at hr
    · rename_i e heq
      subst hr
      split at heq
      · split at heq
        · cases heq
        · cases heq
        · cases heq; exact .inr rfl
      · cases heq
    · rename_i w1 heq
      have h1 : NY w1 := by
        split at heq
        · split at heq
          · rename_i hop; cases heq; exact ny_ok h hop
          · rename_i hop; cases heq; exact ny_notFound h hop
          · cases heq
        · cases heq; exact h
      split at hr
      · subst hr; exact h1
      · split at hr
        · rename_i e heq2
          subst hr
          split at heq2
          · split at heq2
            · cases heq2
            · cases heq2; exact .inr rfl
            · cases heq2; exact .inr rfl
          · cases heq2
        · rename_i w2 heq2
          have h3 : NY w2 := by
            split at heq2
            · split at heq2
              · rename_i hop; cases heq2; exact ny_ok h1 hop
              · cases heq2
              · cases heq2
            · cases heq2; exact h1
          split at hr
          · rename_i w3 hop
            have h5 := ny_ok h3 hop
            have hwn := writeNew_ny (k := k) f.perms (bytesOf f.content) h5
            split at hr
            · rename_i heq3; rw [heq3] at hwn; subst hr; exact hwn
            · rename_i heq3; rw [heq3] at hwn; subst hr; exact hwn
          · subst hr; exact .inr rfl
          · subst hr; exact .inr rfl

theorem saveAll_ny (mem : Mem) : ∀ {w : World} {dirs : List Key}, NY w →
    WRNY (·.1) (saveAll w mem dirs) := by
  induction mem with
  | nil => intro w dirs h; unfold saveAll; exact h
  | cons x rest ih =>
    intro w dirs h
    obtain ⟨cs, name, f⟩ := x
    generalize hr : saveAll w ((cs, name, f) :: rest) dirs = r
    unfold saveAll at hr
    have hs := saveModifiedFile_ny (name := name) (f := f) h
    split at hr
    · rename_i heq; rw [heq] at hs; subst hr; exact hs
    · rename_i heq; rw [heq] at hs; subst hr; exact ih hs

theorem cleanUp_ny (fuel : Nat) : ∀ {w : World} {k : Key}, NY w → WRNY id (cleanUp w fuel k) := by
  induction fuel with
  | zero => intro w k h; unfold cleanUp; exact h
  | succ n ih =>
    intro w k h
    generalize hr : cleanUp w (n + 1) k = r
    unfold cleanUp at hr
    split at hr
    · subst hr; exact h
    · subst hr; exact .inr rfl
    · subst hr; exact h
    · split at hr
      · subst hr; exact .inr rfl
      all_goals
        rename_i w1 hop
        have h1 : NY w1 := by
          first | exact ny_ok h hop | exact ny_notFound h hop
        split at hr
        · subst hr; exact h1
        · subst hr; exact ih h1

theorem cleanAll_ny (ks : List Key) : ∀ {w : World}, NY w → WRNY id (cleanAll w ks) := by
  induction ks with
  | nil => intro w h; unfold cleanAll; exact h
  | cons k ks ih =>
    intro w h
    generalize hr : cleanAll w (k :: ks) = r
    unfold cleanAll at hr
    have hc := cleanUp_ny (k.length + 1) (k := k) h
    split at hr
    · rename_i heq; rw [heq] at hc; subst hr; exact hc
    · rename_i heq; rw [heq] at hc; subst hr; exact ih hc

theorem saveBackup_ny {patchName name : Bytes} {f : FileSt Bytes} (h : NY w) :
    WRNY id (saveBackup w patchName name f) := by
  generalize hr : saveBackup w patchName name f = r
  unfold saveBackup at hr
  split at hr
  · subst hr; exact .inr rfl
  · rename_i k _
    split at hr
    · rename_i w1 hop
      have h1 := ny_ok h hop
      split at hr
      · subst hr; exact .inr rfl
      all_goals
        rename_i w2 hop2
        have h2 : NY w2 := by
          first | exact ny_ok h1 hop2 | exact ny_notFound h1 hop2
        split at hr
        · rename_i w3 hop3
          subst hr
          exact writeNew_ny _ _ (ny_ok h2 hop3)
        · subst hr; exact .inr rfl
        · subst hr; exact .inr rfl
    · subst hr; exact .inr rfl
    · subst hr; exact .inr rfl

theorem rollbackAndSaveBackups_ny (ss : List Status) : ∀ {w : World} {mem : Mem} {downTo : Nat},
    NY w → WRNY (·.1) (rollbackAndSaveBackups w mem ss downTo) := by
  induction ss with
  | nil => intro w mem d h; unfold rollbackAndSaveBackups; exact h
  | cons s rest ih =>
    intro w mem d h
    generalize hr : rollbackAndSaveBackups w mem (s :: rest) d = r
    unfold rollbackAndSaveBackups at hr
    split at hr
    · subst hr; exact h
    · split at hr
      · subst hr; exact .inl h
      · rename_i mem1 file _
        have hb := saveBackup_ny (patchName := s.patchName) (name := s.target) (f := file) h
        split at hr
        · rename_i heq; rw [heq] at hb; subst hr; exact hb
        · rename_i w1 heq
          rw [heq] at hb
          have h1 : NY w1 := hb
          split at hr
          · split at hr
            · subst hr; exact .inl h1
            · rename_i newName _
              split at hr
              · subst hr; exact .inl h1
              · rename_i nf _
                have hb2 := saveBackup_ny (patchName := s.patchName) (name := newName) (f := nf) h1
                split at hr
                · rename_i heq2; rw [heq2] at hb2; subst hr; exact hb2
                · rename_i heq2; rw [heq2] at hb2; subst hr; exact ih hb2
          · subst hr; exact ih h1

theorem rollbackAndSaveBackups_ny' {ss : List Status} {mem : Mem} {downTo : Nat}
    {r : WR (World × Mem)} (h : NY w) (e : rollbackAndSaveBackups w mem ss downTo = r) :
    WRNY (·.1) r := e ▸ rollbackAndSaveBackups_ny ss h

theorem applyPatches_ny {cfg : Cfg} {range : List Series.Entry} (h : NY w) :
    WRNY (·.1) (applyPatches w cfg range) := by
  generalize hr : applyPatches w cfg range = r
  unfold applyPatches at hr
  split at hr
  · subst hr; exact .inl h
  · rename_i st final rejs hloop
    split at hr
    · subst hr; exact h
    · have hs := saveAll_ny st.mem (dirs := []) h
      split at hr
      · rename_i heq; rw [heq] at hs; subst hr; exact hs
      · rename_i w1 dirs heq
        rw [heq] at hs
        have hc := cleanAll_ny dirs (w := w1) hs
        split at hr
        · rename_i heq2; rw [heq2] at hc; subst hr; exact hc
        · rename_i w2 heq2
          rw [heq2] at hc
          have hj := saveRejFiles_ny rejs (w := w2) hc
          split at hr
          · rename_i heq3; rw [heq3] at hj; subst hr; exact hj
          · rename_i w3 heq3
            rw [heq3] at hj
            have h3 : NY w3 := hj
            split at hr
            · simp only at hr
              split at hr
              · rename_i heq4
                have hb := rollbackAndSaveBackups_ny' h3 heq4
                subst hr; exact hb
              · rename_i heq4
                have hb := rollbackAndSaveBackups_ny' h3 heq4
                subst hr; exact hb
            · subst hr; exact h3

theorem saveApplied_ny {names : List Bytes} (h : NY w) : WRNY id (saveApplied w names) := by
  generalize hr : saveApplied w names = r
  unfold saveApplied at hr
  split at hr
  · rename_i w1 hop
    have h1 := ny_ok h hop
    split at hr
    · rename_i w2 hop2
      have h2 := ny_ok h1 hop2
      split at hr
      · subst hr; exact h2
      · split at hr
        · rename_i hop3; subst hr; exact ny_ok h2 hop3
        · subst hr; exact .inr rfl
        · subst hr; exact .inr rfl
    · subst hr; exact .inr rfl
    · subst hr; exact .inr rfl
  · subst hr; exact .inr rfl
  · subst hr; exact .inr rfl

/-- the end result: the fault was not attempted, or the outcome is `error` -/
theorem pushRange_ny {cfg : Cfg} {range : List Series.Entry} (h : NY w) :
    NY (pushRange cfg w range).2 ∨ (pushRange cfg w range).1 = .error := by
  generalize hr : pushRange cfg w range = r
  unfold pushRange at hr
  have ha := applyPatches_ny (cfg := cfg) (range := range) h
  split at hr
  · subst hr; exact .inr rfl
  · rename_i w' heq
    rw [heq] at ha
    subst hr
    cases ha with
    | inl ha => exact .inl ha
    | inr ha => cases ha
  · rename_i w1 final heq
    rw [heq] at ha
    have h1 : NY w1 := ha
    split at hr
    · subst hr; exact .inl h1
    · have hs := saveApplied_ny (names := (range.take final).map (·.name)) h1
      split at hr
      · subst hr; exact .inr rfl
      · rename_i heq2; rw [heq2] at hs; subst hr; exact .inl hs

theorem push_ny {cfg : Cfg} (h : NY w) : NY (push cfg w).2 ∨ (push cfg w).1 = .error := by
  unfold push
  split
  · exact .inl h
  · exact .inl h
  · exact pushRange_ny h

end RQ.Push
