import RQ.Model.Push
/-! Helper lemmas for C18: an injected fault is never swallowed by the driver. -/
namespace RQ.Push
open RQ

end RQ.Push
